#!/bin/sh
# Build the model driver from the extracted model (ocaml/gen/model.ml[i], written by coq/theories/Extract.v).
set -e
cd "$(dirname "$0")"
# entries table: every extracted function named entry_* becomes an entry called by its suffix
{
  echo "open Model"
  echo "let entries : (string * (n list -> n list)) list = ["
  grep -E '^val entry_[a-zA-Z0-9_]+ : n list -> n list$' gen/model.mli | sed -E 's/^val entry_([a-zA-Z0-9_]+) .*$/  ("\1", entry_\1);/'
  echo "]"
} > gen/entries.ml
cd gen
cp ../driver.ml driver.ml
ocamlfind ocamlopt -O3 -unboxed-types 2>/dev/null >/dev/null || true
ocamlfind ocamlopt -w -a -o ../model_driver model.mli model.ml entries.ml driver.ml
