(* Generic driver for the extracted model: one case per input line, "<entry> <hex> <hex> ...";
   one result line per case, hex integers.  N/positive stay Coq inductives (ExtrOcamlBasic only). *)
open Model

let n_of_hex (s : string) : n =
  let acc = ref N0 in
  String.iter (fun c ->
    let d =
      if c >= '0' && c <= '9' then Char.code c - 48
      else if c >= 'a' && c <= 'f' then Char.code c - 87
      else if c >= 'A' && c <= 'F' then Char.code c - 55
      else failwith ("bad hex digit in " ^ s) in
    for k = 3 downto 0 do
      let bit = (d lsr k) land 1 in
      acc := (match !acc with
              | N0 -> if bit = 1 then Npos XH else N0
              | Npos p -> Npos (if bit = 1 then XI p else XO p))
    done) s;
  !acc

let hex_of_n (x : n) : string =
  match x with
  | N0 -> "0"
  | Npos p ->
    let rec bits p acc = match p with
      | XH -> 1 :: acc | XO q -> bits q (0 :: acc) | XI q -> bits q (1 :: acc) in
    let bs = bits p [] in
    let pad = (4 - (List.length bs mod 4)) mod 4 in
    let bs = List.init pad (fun _ -> 0) @ bs in
    let buf = Buffer.create 16 in
    let rec go = function
      | a :: b :: c :: d :: r -> Buffer.add_char buf "0123456789abcdef".[a*8+b*4+c*2+d]; go r
      | _ -> () in
    go bs;
    let s = Buffer.contents buf in
    let i = ref 0 in
    while !i < String.length s - 1 && s.[!i] = '0' do incr i done;
    String.sub s !i (String.length s - !i)

(* tail-recursive split/map so that very long lines do not exhaust the stack *)
let parse_args (line : string) : string * n list =
  let toks = List.filter (fun s -> s <> "") (String.split_on_char ' ' (String.trim line)) in
  match toks with
  | [] -> ("", [])
  | name :: args -> (name, List.rev (List.rev_map n_of_hex args))

let () =
  let out = Buffer.create 65536 in
  (try
    while true do
      let line = input_line stdin in
      let (name, args) = parse_args line in
      if name = "" then print_endline ""
      else begin
        match List.assoc_opt name Entries.entries with
        | None -> print_endline ("!unknown-entry " ^ name)
        | Some f ->
          let r = (try Some (f args) with Stack_overflow -> None) in
          (match r with
           | None -> print_endline "!stack-overflow"
           | Some r ->
             Buffer.clear out;
             List.iteri (fun i x -> if i > 0 then Buffer.add_char out ' '; Buffer.add_string out (hex_of_n x)) r;
             print_endline (Buffer.contents out))
      end
    done
  with End_of_file -> ())
