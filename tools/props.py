"""Per-property configuration of ./check."""
import json, re

TRUSTED_BASE = [
    "Coq 8.16.1 kernel (coqc; coqchk in the thorough tier); vm_compute used for finite facts and witnesses; native_compute not used",
    "no axioms: every property theorem must print 'Closed under the global context' (any exception is allow-listed per property and named here)",
    "extraction: Require Extraction + ExtrOcamlBasic only (bool, option, unit, list, prod, sumbool, sumor mapped to OCaml natives; no Extract Constant / Extract Inductive of our own); OCaml 4.13.1; ocaml/driver.ml (hex parsing, entry table); a sample of cases is re-evaluated with vm_compute inside coqc on every run",
    "translator/rs2v.py (regex extraction from /repo/src into Generated.v: constants, stream plan, register and protection tables, fail points, and the sets of MinidumpWriter fields mutated during a request / reset at its start)",
    "correspondence harness (harness/src): generators, independent decoders and oracles; it links /repo's current working tree",
]

def quick_thorough(q, t):
    return lambda tier, seed: t if tier == 'thorough' else q

PROPS = {
    'C16': {
        'abi_module': 'AbiC16',
        'stages': quick_thorough(
            [{'name': 'ops', 'sub': 'c16', 'n': 600}],
            [{'name': 'ops', 'sub': 'c16', 'n': 20000}]),
        'assumptions': [
            "scroll's TryIntoCtx for primitive integers writes little-endian bytes (validated by the same comparison)",
            "theorems are stated per operation for an arbitrary starting buffer; the model stores positions as the u32 the code stores (images below 4 GiB)",
        ],
        'partial': '',
    },
    'C09': {
        'abi_module': 'AbiC09',
        'stages': quick_thorough(
            [{'name': 'ops', 'sub': 'c09', 'n': 400},
             {'name': 'live', 'sub': 'c09live', 'n': 8, 'timeout': 600}],
            [{'name': 'ops', 'sub': 'c09', 'n': 10000},
             {'name': 'live', 'sub': 'c09live', 'n': 12, 'timeout': 3000}]),
        'assumptions': [
            "std::io::Cursor<Vec<u8>> semantics (write overwrites/extends, zero-fills a gap; write_all of an empty slice makes no call) are the destination model",
            "grammar hypothesis of C09_protocol: at most index_length entries, the directory flushed before the first entry (what every writer does); other sequences are covered by the correspondence only",
        ],
        'partial': 'whole dumps (pre-filled destination, non-zero start, short writes, injected errors) are exercised by the live stage, not by a theorem about the whole dump',
    },
    'C10': {
        'abi_module': 'AbiC09',
        'stages': quick_thorough(
            [{'name': 'prefixes', 'sub': 'c10', 'n': 150},
             {'name': 'live', 'sub': 'c09live', 'n': 8, 'timeout': 600}],
            [{'name': 'prefixes', 'sub': 'c10', 'n': 4000},
             {'name': 'live', 'sub': 'c09live', 'n': 12, 'timeout': 3000}]),
        'assumptions': [
            "granularity: Write/Seek trait-level calls; a torn 12-byte entry write or a torn first header+directory write is outside the statement",
            "entries name data inside the image built so far (supplied by C01 for dumps; the generator emits such entries)",
        ],
        'partial': 'proved for operation sequences of any length and from the start of the protocol; that a whole dump only issues such sequences (entries naming data inside the image) is C01 / the live stage; the transitive closure of references is C01',
    },
    'C12': {
        'abi_module': 'AbiC12',
        'stages': quick_thorough(
            [{'name': 'layouts', 'sub': 'c12', 'n': 1500},
             {'name': 'live', 'sub': 'tl', 'n': 10, 'args': ['c12', 'stackbytes'], 'timeout': 600}],
            [{'name': 'layouts', 'sub': 'c12', 'n': 60000},
             {'name': 'live', 'sub': 'tl', 'n': 300, 'args': ['c12', 'stackbytes'], 'timeout': 3000}]),
        'assumptions': [
            "hypotheses of C12_refines: kernel extent inside the mapping extent (C13 RunOf) and mappings sharing an address agree on executability; the generator produces such layouts",
            "64-bit little-endian words (x86-64)",
        ],
        'partial': 'sanitised live dumps are exercised by the live stage',
    },
    'C20': {
        'abi_module': 'AbiC20',
        'stages': quick_thorough(
            [{'name': 'scan', 'sub': 'c20', 'n': 1000},
             {'name': 'live', 'sub': 'tl', 'n': 30, 'args': ['c20', 'included', 'listed', 'regs', 'region'], 'timeout': 600}],
            [{'name': 'scan', 'sub': 'c20', 'n': 40000},
             {'name': 'live', 'sub': 'tl', 'n': 1000, 'args': ['c20', 'included', 'listed', 'regs', 'region'], 'timeout': 3000}]),
        'assumptions': ["64-bit little-endian words (x86-64)"],
        'partial': 'the pure stage drives the public scan; the inclusion decision with the instruction pointer, the soft error and the records of excluded stacks are exercised by the live stage',
    },
    'C06': {
        'abi_module': 'AbiC06',
        'stages': quick_thorough(
            [{'name': 'stackinfo', 'sub': 'c06', 'n': 1000, 'timeout': 300},
             {'name': 'live', 'sub': 'tl', 'n': 16, 'args': ['c06', 'region', 'stackbytes'], 'timeout': 600}],
            [{'name': 'stackinfo', 'sub': 'c06', 'n': 40000, 'timeout': 900},
             {'name': 'live', 'sub': 'tl', 'n': 400, 'args': ['c06', 'region', 'stackbytes'], 'timeout': 3000}]),
        'assumptions': ["page size 4096; 64-bit address space", "hypotheses of C06_region_in_mapping: the page of the stack pointer lies inside the kernel extent of a readable/writable mapping"],
        'partial': 'the pure stage drives get_stack_info; the size-limit rule (positions >= 20, never the crash thread, 2 KiB) and byte equality with target memory are exercised by the live stage',
    },
    'C14': {
        'abi_module': 'AbiC14',
        'stages': quick_thorough(
            [{'name': 'sweep', 'sub': 'c14mut', 'n': 0, 'args': ['sweep'], 'compat': lambda c, a, b: a.strip() == '3' and b.strip() != '2', 'no_escalate': True},
             {'name': 'mutated', 'sub': 'c14mut', 'n': 800, 'compat': lambda c, a, b: a.strip() == '3' and b.strip() != '2'},
             {'name': 'synth', 'sub': 'c14synth', 'n': 0, 'no_escalate': True, 'compat': lambda c, a, b: a.strip() == '3' and b.strip() != '2'},
             {'name': 'files', 'sub': 'c14files', 'n': 120, 'no_escalate': True}],
            [{'name': 'sweep', 'sub': 'c14mut', 'n': 0, 'args': ['sweep'], 'compat': lambda c, a, b: a.strip() == '3' and b.strip() != '2', 'no_escalate': True},
             {'name': 'mutated', 'sub': 'c14mut', 'n': 60000, 'compat': lambda c, a, b: a.strip() == '3' and b.strip() != '2'},
             {'name': 'synth', 'sub': 'c14synth', 'n': 0, 'no_escalate': True, 'compat': lambda c, a, b: a.strip() == '3' and b.strip() != '2'},
             {'name': 'files', 'sub': 'c14files', 'n': 100000, 'no_escalate': True, 'timeout': 3000}]),
        'assumptions': [
            "goblin 0.9 header/program-header/section-header/note primitives are mirrored by the model, not verified",
            "the expected identifiers of installed files come from the harness's independent section-based reader",
        ],
        'partial': 'proved: totality of build-id extraction (model of the repaired reader). Differential only: equality with the GNU note / text hash on well-formed files (independent reader), SONAME extraction (not modelled; totality is tested on every generated image), memory-vs-file agreement (live stage)',
    },
    'C15': {
        'abi_module': 'AbiC15',
        'stages': quick_thorough(
            [{'name': 'live', 'sub': 'c15', 'n': 60, 'timeout': 600}],
            [{'name': 'live', 'sub': 'c15', 'n': 1500, 'timeout': 3000}]),
        'assumptions': ["thread names are what /proc/<pid>/task/<tid>/comm reports (valid UTF-8 in the generated targets); trailing whitespace is trimmed by the writer",
                        "listed threads = threads the harness itself can read registers of inside the suspended window, with non-null stack pointer"],
        'partial': 'kernel side (comm contents, attach) observed, not proved',
    },
    'C04': {
        'abi_module': 'AbiCtx',
        'stages': quick_thorough(
            [{'name': 'table', 'sub': 'ctxpt', 'n': 300},
             {'name': 'live', 'sub': 'tl', 'n': 40, 'args': ['c04', 'listed', 'regs', 'stackbytes', 'memlist'], 'timeout': 600}],
            [{'name': 'table', 'sub': 'ctxpt', 'n': 20000},
             {'name': 'live', 'sub': 'tl', 'n': 1200, 'args': ['c04', 'listed', 'regs', 'stackbytes', 'memlist'], 'timeout': 3000}]),
        'assumptions': ["the state a stopped thread 'actually had' is what PTRACE_GETREGS / GETFPREGS / PEEKUSER return to the harness inside the same suspended window",
                        "which threads must be listed is decided from the scenario the harness built (all threads except null-SP helpers), not from the writer's attach outcome"],
        'partial': 'single-instant consistency is observed (spinning threads: registers and stack bytes equal the harness snapshot taken while suspended), the ptrace/stop protocol itself is C03; threads exiting between enumeration and attach are exercised by C03/C11 stages',
    },
    'C05': {
        'abi_module': 'AbiCtx',
        'stages': quick_thorough(
            [{'name': 'table', 'sub': 'ctxuc', 'n': 300},
             {'name': 'ptable', 'sub': 'ctxpt', 'n': 150},
             {'name': 'live', 'sub': 'tl', 'n': 40, 'args': ['c05', 'crashctx', 'exception', 'regs'], 'timeout': 600}],
            [{'name': 'table', 'sub': 'ctxuc', 'n': 20000},
             {'name': 'ptable', 'sub': 'ctxpt', 'n': 10000},
             {'name': 'live', 'sub': 'tl', 'n': 1500, 'args': ['c05', 'crashctx', 'exception', 'regs'], 'timeout': 3000}]),
        'assumptions': ["ss/ds/es are not part of a ucontext and are not claimed"],
        'partial': 'K1 (blamed thread absent) is a recorded finding',
    },
    'C07': {
        'abi_module': 'AbiTl',
        'stages': quick_thorough(
            [{'name': 'live', 'sub': 'tl', 'n': 40, 'args': ['c07', 'memlist', 'region'], 'timeout': 600}],
            [{'name': 'live', 'sub': 'tl', 'n': 1500, 'args': ['c07', 'memlist', 'region'], 'timeout': 3000}]),
        'assumptions': ["target memory = what the harness reads from /proc/<pid>/mem inside the suspended window",
                        "the memory list is compared against the thread records of the same image (stacks), the crash instruction pointer and the requested regions"],
        'partial': 'byte fidelity is relative to the read primitives (C17); short reads of application regions adjacent to unmapped pages are an error of the whole dump (hard step), as coded',
    },
    'C19': {
        'abi_module': 'AbiTl',
        'stages': quick_thorough(
            [{'name': 'reuse', 'sub': 'reuse', 'n': 25, 'timeout': 600}],
            [{'name': 'reuse', 'sub': 'reuse', 'n': 600, 'timeout': 3000}]),
        'assumptions': ["'equivalent to a fresh writer' is judged by comparing every dump of the history with the model of a single fresh dump (the same comparison C04-C07 use)"],
        'partial': 'the carried-state model covers the three fields the writer keeps between requests (memory blocks, crashing-thread context, principal mapping)',
    },
    'C11': {
        'abi_module': 'AbiC11',
        'stages': quick_thorough(
            [{'name': 'faults', 'sub': 'c11', 'n': 6, 'timeout': 600}],
            [{'name': 'faults', 'sub': 'c11', 'n': 40, 'timeout': 3000}]),
        'assumptions': ["JSON well-formedness comes from serde_json (observed by parsing, not proved)",
                        "streams owned by a failed step: thread names (ThreadName), CPU details of the system-info stream (CpuInfoFileOpen); every other stream must equal the no-fault dump of the same target"],
        'partial': 'vanished threads (exit between enumeration and attach) are modelled (AGone) but exercised live by the C03 stage; unreadable /proc files need a mount namespace and are not induced',
    },
    'C03': {
        'abi_module': 'AbiC03',
        'stages': quick_thorough(
            [{'name': 'release', 'sub': 'c03', 'n': 8, 'timeout': 600}],
            [{'name': 'release', 'sub': 'c03', 'n': 60, 'timeout': 3000}]),
        'assumptions': ["kernel semantics of ptrace attach/detach, group-stop (SIGSTOP/SIGCONT) and signal queueing are the assumed kernel model of Ptrace.v",
                        "observables: /proc/<pid>/task/<tid>/status State and TracerPid, spin and signal counters in a page shared with the target"],
        'partial': 'the theorem covers the dumper bookkeeping over the abstract kernel; real signal/attach races and kernel stop semantics are observed, not proved; panics unwinding through Drop are covered by the model (AfterSuspend) but not induced live',
    },
    'C17': {
        'abi_module': 'AbiC17',
        'stages': quick_thorough(
            [{'name': 'ranges', 'sub': 'c17', 'n': 300, 'timeout': 600}],
            [{'name': 'ranges', 'sub': 'c17', 'n': 1500, 'timeout': 3000}]),
        'assumptions': ["kernel semantics of process_vm_readv / pread(/proc/pid/mem) / PTRACE_PEEKDATA as listed in DESIGN.md section 4 (each observed in this sandbox)",
                        "target memory holds the address-derived pattern the target wrote (checked against an independent read once per target)"],
        'partial': 'the three primitives are kernel behaviour: modelled, not verified',
    },
    'C18': {
        'abi_module': 'AbiC18',
        'stages': quick_thorough(
            [{'name': 'live', 'sub': 'c18', 'n': 16, 'timeout': 600, 'compat': lambda c, a, b: a.strip() == '3' and not b.startswith('!')}],
            [{'name': 'live', 'sub': 'c18', 'n': 300, 'timeout': 3000, 'compat': lambda c, a, b: a.strip() == '3' and not b.startswith('!')}]),
        'assumptions': ["what the kernel reports = the harness's own reads of /proc/<pid>/{maps,auxv,cmdline,environ,limits,fd} inside the same suspended window, uname(2), /proc/cpuinfo",
                        "the real linker chain is checked against an independent walk written in the harness; synthetic chains against the Coq model"],
        'partial': 'largely a data-plumbing property: theorems cover the derivation logic (protection table, auxv preference, cpuinfo selection is modelled and compared, linker chain); equality with the kernel view is differential. The proc-status stream is volatile and only its presence is checked',
    },
    'C08': {
        'abi_module': 'AbiC08',
        'stages': quick_thorough(
            [{'name': 'live', 'sub': 'c08', 'n': 6, 'timeout': 600, 'compat': lambda c, a, b: False}],
            [{'name': 'live', 'sub': 'c08', 'n': 80, 'timeout': 3000}]),
        'assumptions': ["identifiers / SONAMEs of mapped files: by construction for harness-written images, from the harness's independent section-based reader for system libraries and the vDSO",
                        "effective-path naming is modelled on the fragment of EffPath.v (absolute names, slash-free non-empty SONAME)"],
        'partial': 'module overlap freedom follows from C13 ordering for target-derived modules; with partially overlapping caller-supplied mappings it needs the stated hypothesis',
    },
    'C02': {
        'abi_module': 'AbiC02',
        'stages': quick_thorough(
            [{'name': 'names', 'sub': 'c02sov', 'n': 2000},
             {'name': 'hostile', 'sub': 'c02hostile', 'n': 36, 'timeout': 900}],
            [{'name': 'names', 'sub': 'c02sov', 'n': 100000},
             {'name': 'hostile', 'sub': 'c02hostile', 'n': 400, 'timeout': 3000}]),
        'assumptions': ["bounded time is modelled as iteration bounds (258 guard-page steps, 4096 dynamic entries, 4096 link_map entries) and observed with an 8 s watchdog",
                        "hostile ELF bytes are additionally covered by the C14 sweep, hostile linker data by the C18 stage, the /dev rule by the C08 stage (inotify on a /dev/shm mapping)"],
        'partial': 'per-component totality theorems; there is no theorem about the composition of all steps of generate_dump (no whole-dump model), so the whole-dump claim rests on the hostile-world stage; panics inside goblin / procfs-core / std are outside the model (K2 is recorded)',
    },
    'C01': {
        'abi_module': 'AbiC01',
        # a real image that differs from the layout model's image breaks the correspondence; whether the property fails on it is
        # decided by the executable predicate sound_b applied to the same image (the case emitted right after it)
        'judge': lambda c, a, b: 'holds' if c.startswith('image ') and not b.startswith('!') else 'violates',
        'stages': quick_thorough(
            [{'name': 'live', 'sub': 'c01', 'n': 30, 'timeout': 600},
             {'name': 'image', 'sub': 'c01img', 'n': 24, 'timeout': 600, 'per_shard': 2}],
            [{'name': 'live', 'sub': 'c01', 'n': 900, 'timeout': 3000},
             {'name': 'image', 'sub': 'c01img', 'n': 600, 'timeout': 3000, 'per_shard': 2}]),
        'assumptions': ["the abstraction of a real image (which objects the stored offsets designate, with the lengths their own headers declare) is computed by the harness's independent decoder; the Coq predicate judges that abstraction",
                        "images below 4 GiB (RVA width of the format)"],
        'partial': 'the whole-image theorems decide the layout for every content; the content itself (which threads, which bytes, which names) is the business of C04-C08, C15, C18; images of 4 GiB and more are outside the directory theorem (the format stores 32-bit offsets)',
    },
    'C13': {
        'abi_module': 'AbiC13',
        'stages': quick_thorough(
            [{'name': 'enum', 'sub': 'c13', 'n': 3, 'args': ['enum'], 'judge_entry': 'c13_judge', 'no_escalate': True},
             {'name': 'random', 'sub': 'c13', 'n': 400, 'args': ['random'], 'judge_entry': 'c13_judge'}],
            [{'name': 'enum', 'sub': 'c13', 'n': 4, 'args': ['enum'], 'judge_entry': 'c13_judge', 'no_escalate': True, 'timeout': 3000},
             {'name': 'random', 'sub': 'c13', 'n': 5000, 'args': ['random'], 'judge_entry': 'c13_judge'}]),
        'assumptions': [
            "procfs-core parses each /proc/<pid>/maps line into (range, perms, offset, classified path); that parser is outside the model",
            "well-formedness hypothesis of C13_partition: lines ascending, non-empty, non-overlapping (what the kernel reports)",
        ],
        'partial': 'the executable predicate c13_holds_b applied to implementation outputs is validated against the model on every run; its soundness w.r.t. the theorems is not yet a Coq lemma',
    },
}

def judge(pid, cfg, case, model_out, impl_out):
    """Does the implementation's output violate the property on this case?
    'violates' / 'holds' / 'unknown'.  Default: the model output is the unique output the proved laws allow."""
    j = cfg.get('judge')
    if j: return j(case, model_out, impl_out)
    return 'violates'

def known(pid, case, model_out, impl_out, kf):
    """Return the description of the recorded finding this failing case matches, if any."""
    for f in kf.get('findings', []):
        if f.get('property') != pid: continue
        m = f.get('match', {})
        if 'case_regex' in m and not re.search(m['case_regex'], case): continue
        if 'impl_regex' in m and not re.search(m['impl_regex'], impl_out): continue
        if 'model_regex' in m and not re.search(m['model_regex'], model_out): continue
        return f['what']
    return None
