"""Per-property configuration of ./check."""
import json, re

TRUSTED_BASE = [
    "Coq 8.16.1 kernel (coqc; coqchk in the thorough tier); vm_compute used for finite facts and witnesses; native_compute not used",
    "no axioms: every property theorem must print 'Closed under the global context' (any exception is allow-listed per property and named here)",
    "extraction: Require Extraction + ExtrOcamlBasic only (bool, option, unit, list, prod, sumbool, sumor mapped to OCaml natives; no Extract Constant / Extract Inductive of our own); OCaml 4.13.1; ocaml/driver.ml (hex parsing, entry table); a sample of cases is re-evaluated with vm_compute inside coqc on every run",
    "translator/rs2v.py (regex extraction of constants and tables from /repo/src into Generated.v)",
    "correspondence harness (harness/src): generators, independent decoders and oracles; it links /repo's current working tree",
]

def quick_thorough(q, t):
    return lambda tier, seed: t if tier == 'thorough' else q

PROPS = {
    'C16': {
        'abi_module': 'AbiC16',
        'stages': quick_thorough(
            [{'name': 'ops', 'sub': 'c16', 'n': 600}],
            [{'name': 'ops', 'sub': 'c16', 'n': 20000}]),
        'assumptions': [
            "scroll's TryIntoCtx for primitive integers writes little-endian bytes (validated by the same comparison)",
            "theorems are stated per operation for an arbitrary starting buffer; the model stores positions as the u32 the code stores (images below 4 GiB)",
        ],
        'partial': '',
    },
}

def judge(pid, cfg, case, model_out, impl_out):
    """Does the implementation's output violate the property on this case?
    'violates' / 'holds' / 'unknown'.  Default: the model output is the unique output the proved laws allow."""
    j = cfg.get('judge')
    if j: return j(case, model_out, impl_out)
    return 'violates'

def known(pid, case, model_out, impl_out, kf):
    """Return the description of the recorded finding this failing case matches, if any."""
    for f in kf.get('findings', []):
        if f.get('property') != pid: continue
        m = f.get('match', {})
        if 'case_regex' in m and not re.search(m['case_regex'], case): continue
        if 'impl_regex' in m and not re.search(m['impl_regex'], impl_out): continue
        if 'model_regex' in m and not re.search(m['model_regex'], model_out): continue
        return f['what']
    return None
