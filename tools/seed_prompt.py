#!/usr/bin/env python3
"""Print the prompt given to an independent mutation-seeding sub-agent for one property."""
import json, sys
pid = sys.argv[1]
rnd = sys.argv[2] if len(sys.argv) > 2 else ''     # round tag: worktrees live under /tmp/seed<rnd>/
for l in open('/verif/properties.jsonl'):
    p = json.loads(l)
    if p['id'] == pid:
        break
else:
    sys.exit("no such property")
wt = f"/tmp/seed{rnd}/{pid}/wt"
out = f"/tmp/seed{rnd}/{pid}/out"
avoid = ""
import os
for d in sorted(os.listdir("/verif/seeded")) if os.path.isdir("/verif/seeded") else []:
    mp = f"/verif/seeded/{d}/meta.json"
    if d.startswith(pid) and os.path.exists(mp) and rnd:
        avoid += "\n  - " + json.load(open(mp)).get("summary", "")[:400].replace("\n", " ")
print(f"""You are helping to test a verification framework for the Rust crate `minidump-writer` (Rust rewrite of Breakpad's minidump writer; Linux x86-64 here). You have your own scratch git worktree of the crate at {wt} (a detached checkout; work ONLY there and in {out}; never touch /repo or /verif, never read anything under /verif).

Here is a semantic property the crate is supposed to satisfy:

  Title: {p['title']}
  Statement: {p['statement']}
  Quantified over: {p['quantifier']['text']}

{('Someone else already produced the following change(s) for this property; yours must be of a DIFFERENT kind (different code site and different trigger):' + avoid + chr(10) + chr(10)) if avoid else ''}Your job: produce ONE realistic source change to the crate (the kind of bug a maintainer could plausibly introduce in a refactor or 'optimisation') that BREAKS this property, while
  (a) the crate still compiles, and
  (b) the existing test-suite still passes: run `cd {wt} && CARGO_NET_OFFLINE=true cargo test --workspace --no-fail-fast --offline` (42 tests; there is no network, everything needed is cached; the first build takes a minute or so). Run the baseline once before your change to see what passing looks like, then again with your change.
The change must need something SPECIFIC to manifest - a particular input or unusual value, a particular interleaving, a fault at a particular point, a multi-step sequence of operations, or two cooperating sites that each look fine alone - i.e. NOT something that ordinary use or the existing tests would expose at once. Keep it small (a few lines), in the non-test source under src/ (Linux code paths; src/mac and src/windows cannot be built here).

Also write a demonstration: a small Rust integration test (a new file under {wt}/tests/, e.g. tests/seed_demo.rs) or a small program (e.g. under {wt}/examples/) that PASSES on the unmodified crate and FAILS with your change, and that shows the property itself being violated (not just a diff in some internal detail). Note that dev-dependencies already include `minidump` (a reader), `failspot` with fail points enabled, `tempfile`, `memmap2`, `futures`; tests/common/mod.rs and src/bin/test.rs (the helper binary the tests spawn) show how existing tests start a child process and dump it. Nothing new can be downloaded.

Deliver in {out}/ :
  - patch.diff : `git -C {wt} diff -- src` of the breaking change ONLY (no demo in it)
  - the demonstration file(s) copied there (e.g. seed_demo.rs) plus demo.md saying where it goes in the tree and the exact command to run it
  - meta.json : {{"property": "{pid}", "summary": "...what the change does...", "needs_to_manifest": "...the specific input/schedule/fault/sequence...", "ran": ["commands you ran and their outcome: baseline tests pass, tests pass with change, demo passes without change, demo fails with change"]}}
Confirm all four facts yourself by running them (toggle the change with `git -C {wt} apply -R {out}/patch.diff` / `git -C {wt} apply {out}/patch.diff`; do NOT use `git stash`: the stash is shared with other worktrees of this repository). Leave the worktree with your change applied and the demo file present. Remove large build output you no longer need is NOT necessary; I'll clean up. Be economical: do not explore more than you need. Finish with a 5-line summary.""")
