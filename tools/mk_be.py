#!/usr/bin/env python3
"""Derive the big-endian copies of the ELF reader model from the little-endian source files:
   Elf.v -> ElfBE.v, ElfSoname.v -> ElfSonameBE.v, ElfProofs.v -> ElfProofsBE.v, ElfSonameProofs.v -> ElfSonameProofsBE.v.
   The reader (goblin) decodes every multi-byte field with the byte order named by EI_DATA and is otherwise the same code;
   so the copies differ from their sources in exactly two places: `get` decodes with unbe instead of unle, and parse_header
   accepts EI_DATA = 2 (answering "outside this copy" for 1).   ./tools/mk_be.py --check  verifies the copies are in sync."""
import sys, os, re
ROOT = os.path.dirname(os.path.dirname(os.path.abspath(__file__)))
T = os.path.join(ROOT, 'coq', 'theories')
def derive(name):
    s = open(os.path.join(T, name + '.v')).read()
    hdr = f'(* GENERATED from {name}.v by tools/mk_be.py (big-endian copy) - do not edit; edit {name}.v and re-run the script. *)\n'
    if name == 'Elf':
        n = s.count('Some (unle (slice b off w))'); assert n == 1, 'get not recognised'
        s = s.replace('Some (unle (slice b off w))', 'Some (unbe (slice b off w))')
        assert s.count('if dat =? 1 then') == 2 and s.count('else if dat =? 2 then') == 2, 'parse_header not recognised'
        s = s.replace('if dat =? 1 then', 'if dat =? @@ then').replace('else if dat =? 2 then', 'else if dat =? 1 then').replace('if dat =? @@ then', 'if dat =? 2 then')
        s = s.replace('little-endian field access', 'BIG-endian field access')
    s = re.sub(r'From MDW Require Import ([^.]*)\.', lambda m: 'From MDW Require Import ' + re.sub(r'\b(ElfSonameProofs|ElfSoname|ElfProofs|Elf)\b', lambda k: k.group(1) + 'BE', m.group(1)) + '.', s)
    return hdr + s
names = ['Elf', 'ElfSoname', 'ElfProofs', 'ElfSonameProofs']
bad = 0
for n in names:
    out = os.path.join(T, n + 'BE.v'); new = derive(n)
    if '--check' in sys.argv:
        if not os.path.exists(out) or open(out).read() != new: print('out of sync:', n + 'BE.v'); bad = 1
    else:
        open(out, 'w').write(new); print('wrote', n + 'BE.v')
sys.exit(bad)
