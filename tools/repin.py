#!/usr/bin/env python3
"""Recompute tools/pins.json from coq/theories/Props/*.v (run by hand after a deliberate change to a statement file)."""
import hashlib, json, os, glob
ROOT = os.path.dirname(os.path.dirname(os.path.abspath(__file__)))
pins = {}
for f in sorted(glob.glob(os.path.join(ROOT, 'coq', 'theories', 'Props', 'C*.v'))):
    pins[os.path.basename(f)[:-2]] = hashlib.sha256(open(f, 'rb').read()).hexdigest()
old = json.load(open(os.path.join(ROOT, 'tools', 'pins.json')))
for k in pins:
    if old.get(k) != pins[k]: print('repinned', k)
json.dump(pins, open(os.path.join(ROOT, 'tools', 'pins.json'), 'w'), indent=1, sort_keys=True)
