#!/usr/bin/env python3
"""Confirm a seeded change delivered by a sub-agent in /tmp/seed/<id>/{wt,out}:
   (1) the 42-test suite passes with the change, (2) the demo fails with it, (3) the demo passes without it.
   On success copies patch.diff, the demo and meta.json (+ what was run) to /verif/seeded/<name>/ and removes the worktree."""
import subprocess, sys, os, json, shutil, re
sid = sys.argv[1]; name = sys.argv[2] if len(sys.argv) > 2 else sid
base = os.environ.get('SEED_BASE', '/tmp/seed') + f'/{sid}'; wt = f'{base}/wt'; out = f'{base}/out'
env = dict(os.environ, CARGO_NET_OFFLINE='true')
def run(cmd, cwd=wt, timeout=3000):
    p = subprocess.run(cmd, shell=True, cwd=cwd, stdout=subprocess.PIPE, stderr=subprocess.STDOUT, env=env, timeout=timeout)
    return p.returncode, p.stdout.decode('utf-8', 'replace')
run('git checkout -- src'); run(f'git apply {out}/patch.diff')
rc, st = run('git status --porcelain')
untracked = [l[3:] for l in st.split('\n') if l.startswith('??') and not l[3:].startswith('target') and l[3:] != 'Cargo.lock']
demos = [u for u in untracked if u.endswith('.rs') or u.endswith('/')]
print('untracked:', untracked)
log = []
# 1. suite with change, demo moved aside
aside = f'{base}/aside'; os.makedirs(aside, exist_ok=True)
for u in untracked:
    os.makedirs(os.path.dirname(os.path.join(aside, u)) or aside, exist_ok=True)
    shutil.move(os.path.join(wt, u), os.path.join(aside, u.rstrip('/')))
rc, o = run('cargo test --workspace --no-fail-fast --offline 2>&1 | grep -E "^test result|FAILED|failed" ')
passed = sum(int(x) for x in re.findall(r'test result: ok\. (\d+) passed', o)); failed = 'FAILED' in o or 'failed' in o.replace('0 failed', '')
log.append(f'suite with change: {passed} passed, failed={failed}')
ok1 = passed >= 42 and not failed
for u in untracked:
    shutil.move(os.path.join(aside, u.rstrip('/')), os.path.join(wt, u.rstrip('/')))
def demo_cmds():
    cmds = []
    for u in untracked:
        m = re.match(r'tests/(\w+)\.rs$', u)
        if m: cmds.append(f'cargo test --offline {os.environ.get("DEMO_FLAGS", "")} --test {m.group(1)}')
        m = re.match(r'examples/(\w+)\.rs$', u)
        if m: cmds.append(f'cargo run --offline --example {m.group(1)}')
    return cmds
cmds = demo_cmds(); print('demo cmds', cmds)
def demo():
    allok = True; outs = []
    for c in cmds:
        rc, o = run(c + ' 2>&1 | tail -15; exit ${PIPESTATUS[0]}', timeout=1200)
        rc2 = subprocess.run(['bash', '-c', f'cd {wt} && {c} >/dev/null 2>&1'], env=env).returncode
        allok = allok and rc2 == 0; outs.append(o[-600:])
    return allok, outs
with_ok, o2 = demo(); log.append(f'demo with change: {"passes" if with_ok else "fails"}')
# (git stash is shared between worktrees of one repository: use apply -R / apply of the delivered patch instead)
run(f'git apply -R {out}/patch.diff')
without_ok, o3 = demo(); log.append(f'demo without change: {"passes" if without_ok else "fails"}')
run(f'git apply {out}/patch.diff')
confirmed = ok1 and cmds and (not with_ok) and without_ok
print('\n'.join(log)); print('CONFIRMED' if confirmed else 'NOT CONFIRMED')
if not confirmed:
    print(o2[-1:] , o3[-1:]); sys.exit(1)
dst = f'/verif/seeded/{name}'; os.makedirs(dst, exist_ok=True)
for f in os.listdir(out):
    if f.endswith('.log'): continue
    shutil.copy(os.path.join(out, f), dst)
meta = json.load(open(os.path.join(out, 'meta.json')))
meta['confirmed_by_me'] = log + ['commands: cargo test --workspace --no-fail-fast --offline (demo moved aside); ' + '; '.join(cmds) + ' with the change and with the change reversed (git apply -R)']
json.dump(meta, open(os.path.join(dst, 'meta.json'), 'w'), indent=1)
subprocess.run(f'git -C /repo worktree remove --force {wt}', shell=True)
shutil.rmtree(base, ignore_errors=True)
