#!/usr/bin/env python3
"""Apply every confirmed seeded change to /repo in turn, run the quick check of the property it breaks,
undo it, and write seeded/RESULTS.md (also spliced into DESIGN.md section 8)."""
import subprocess, os, json, sys, re
ROOT = os.path.dirname(os.path.dirname(os.path.abspath(__file__)))
rows = []
only = sys.argv[1:]
for d in sorted(os.listdir(os.path.join(ROOT, 'seeded'))):
    p = os.path.join(ROOT, 'seeded', d)
    if not os.path.isdir(p) or not os.path.exists(os.path.join(p, 'patch.diff')): continue
    if only and d not in only: continue
    meta = json.load(open(os.path.join(p, 'meta.json')))
    prop = meta.get('property', d)[:3]
    subprocess.run('git -C /repo checkout -- .', shell=True)
    a = subprocess.run(f'git -C /repo apply {p}/patch.diff', shell=True, capture_output=True)
    if a.returncode != 0:
        rows.append((d, prop, meta.get('summary', '')[:160], 'patch no longer applies to the repaired tree', '')); continue
    r = subprocess.run(f'./check {prop} --tier quick', shell=True, cwd=ROOT, capture_output=True, text=True)
    subprocess.run('git -C /repo checkout -- .', shell=True)
    v = [l for l in r.stdout.split('\n') if l.startswith('VIOLATION')]
    last = [l for l in r.stdout.split('\n') if l.startswith('[')]
    verdict = 'caught: ' + ('failing input' if v and 'no-failing-input-found' not in v[0] else 'no-failing-input-found') if v else 'MISSED'
    mm = re.search(r'mismatches (\d+)', last[-1]) if last else None
    rows.append((d, prop, meta.get('summary', '').replace('\n', ' ')[:200], verdict, mm.group(1) if mm else ''))
    print(d, verdict, flush=True)
subprocess.run('git -C /repo checkout -- .', shell=True)
tbl = '| seeded change | property | what it does (needs to manifest: see seeded/<id>/meta.json) | quick check | mismatching cases |\n|---|---|---|---|---|\n'
for r in rows: tbl += '| ' + ' | '.join(x.replace('|', '/') for x in r) + ' |\n'
if not only:
    open(os.path.join(ROOT, 'seeded', 'RESULTS.md'), 'w').write(tbl)
    dp = os.path.join(ROOT, 'DESIGN.md'); s = open(dp).read()
    if 'SEEDED_TABLE' in s: s = s.replace('SEEDED_TABLE', '<!-- seeded-table -->\n' + tbl + '<!-- /seeded-table -->')
    else: s = re.sub(r'<!-- seeded-table -->.*?<!-- /seeded-table -->', '<!-- seeded-table -->\n' + tbl + '<!-- /seeded-table -->', s, flags=re.S)
    open(dp, 'w').write(s)
print(tbl)
