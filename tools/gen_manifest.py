#!/usr/bin/env python3
"""Regenerate MANIFEST.json from tools/manifest_src.json (one entry per claimed property)."""
import json, os, sys
ROOT = os.path.dirname(os.path.dirname(os.path.abspath(__file__)))
src = json.load(open(os.path.join(ROOT, 'tools', 'manifest_src.json')))
props = {json.loads(l)['id'] for l in open(os.path.join(ROOT, 'properties.jsonl'))}
checks = []
for pid in sorted(src['claimed']):
    c = src['claimed'][pid]
    checks.append({
        'property_id': pid,
        'quick_cmd': f'./check {pid} --tier quick',
        'thorough_cmd': f'./check {pid} --tier thorough',
        'evidence_file': f'/verif/evidence/{pid}.json',
        'replay_cmd_template': f'./check {pid} --replay {{path}}',
        'engine': 'coq-proof+correspondence',
        'level_claimed': {'category': 'proof', 'text': c['text'], 'design_ref': c.get('design_ref', f'DESIGN.md section 7, {pid}')},
        'level_note': c['note'],
        'technique': c.get('technique', 'machine-checked proof in Coq 8.16 about an executable Gallina model + differential correspondence check of the extracted model against the implementation'),
    })
na = [{'property_id': p, 'reason': src['not_claimed'].get(p, 'check not built yet (work in progress); see DESIGN.md section 8')} for p in sorted(props - set(src['claimed']))]
m = {
    'version': 1,
    'setup_cmd': './check setup',
    'hooks': src['hooks'],
    'engines': [{'name': 'coq-proof+correspondence', 'path': '/verif/check', 'serves_properties': sorted(src['claimed']),
                 'kind_free_text': 'Coq 8.16.1 theorems about a Gallina model (coq/theories), extracted to OCaml and run against the Rust implementation by harness/ on generated and live inputs'}],
    'checks': checks,
    'notes': src.get('notes', ''),
    'not_applicable': na,
}
json.dump(m, open(os.path.join(ROOT, 'MANIFEST.json'), 'w'), indent=1)
print('claimed', len(checks), 'not claimed', len(na))
