/* Scenario-driven target process for the minidump-writer checks (prototype).
 *
 * usage: tgt <scenario-file>
 * The scenario is a list of lines:
 *   thread <kind> <sp_off> <stack_pages> <name-hex|->     kind: block | spin | nullsp | exiter | vforker
 *   anon <pages> <perms rwx-> <unmap_after 0|1>            anonymous mapping with address-derived fill
 *   file <path> <offset> <pages> <perms>                   file mapping
 *   fill <anon-idx> <byte>                                 every byte of that mapping set to the value
 *   threadd <kind> <sp_off> <pages> <above> <name-hex|->   deep stack: <above> whole pages above the page of the stack pointer
 *   mainname <name-hex|00>                                 name of the main thread
 *   auxv <mode>                                            replace the process's auxiliary vector (after a chain line; see the code)
 *   poke <thread-idx> <off> <anon-idx> <aoff>              store &anon[aoff] at thread's sp+off (after both lines)
 *   anonat <hexaddr> <pages> <perms>                       anonymous mapping at a fixed address
 *   filexat <hexaddr> <hexpath> <offset> <pages> <perms>   file mapping at a fixed address
 *   appmem <anon-index> <offset> <len>                     application memory region (reported on stdout)
 *   appmemsh <offset> <len>                                application memory region inside the shared page
 *   fd <kind>                                              file|dir|pipe|socket|eventfd
 *   chain <n> <cyclic 0|1>                                 synthetic PHDR/DYNAMIC/r_debug/link_map chain
 * After setup it prints one line "READY pid=<pid> shared=<memfd path> ..." and key=value facts, then obeys
 * single-letter commands on stdin: 'x <idx>' make exiter thread idx exit, 'q' quit.
 * Shared page layout (uint64 slots): [0..63] heartbeat per thread, [64..127] signal counts per thread,
 * [128..191] spin counters (application-memory copy), [192..255] pid of a vforker thread's current child
 * (0 while there is none), [256..319] counts of non-realtime signals (SIGUSR1/SIGUSR2) per thread.
 * A vforker thread sits in the kernel's uninterruptible vfork wait (state D) until its child is killed; signals
 * sent to it meanwhile stay queued on the thread, and an attach completes only once the child is gone.
 */
#define _GNU_SOURCE
#include <elf.h>
#include <errno.h>
#include <fcntl.h>
#include <link.h>
#include <pthread.h>
#include <signal.h>
#include <stdint.h>
#include <stdio.h>
#include <stdlib.h>
#include <string.h>
#include <sys/eventfd.h>
#include <sys/mman.h>
#include <sys/prctl.h>
#include <sys/socket.h>
#include <sys/syscall.h>
#include <sys/auxv.h>
#include <sys/wait.h>
#include <unistd.h>

#define MAXT 256   /* kinds other than block / nullsp only below index 64 (their slots in the shared page) */
enum kind { K_BLOCK, K_SPIN, K_NULLSP, K_EXITER, K_VFORKER };
struct tcfg { enum kind kind; unsigned sp_off; unsigned pages; char name[16]; int has_name; int idx;
              uint64_t sp; volatile int go_exit; pthread_t th; pid_t tid; };
static struct tcfg T[MAXT]; static int NT;
static volatile uint64_t *SH;           /* shared page */
static volatile int ready; static int main_exits; static unsigned long chain_at;
extern char blk_after_syscall[], spin_loop[];

static void on_rt(int sig, siginfo_t *si, void *uc) {
  (void)si; (void)uc;
  pid_t me = syscall(SYS_gettid);
  for (int i = 0; i < NT; i++) if (T[i].tid == me) { __sync_fetch_and_add(&SH[64 + i], 1); if (sig < 32) __sync_fetch_and_add(&SH[256 + i], 1); return; }
  if (me == getpid()) __sync_fetch_and_add(&SH[64 + 63], 1);
  (void)sig;
}

static void *thr(void *arg) {
  struct tcfg *c = arg;
  c->tid = syscall(SYS_gettid);
  if (c->has_name) prctl(PR_SET_NAME, c->name);
  __sync_fetch_and_add(&ready, 1);
  if (c->kind == K_EXITER) { while (!c->go_exit) { SH[c->idx]++; usleep(1000); } return 0; }
  if (c->kind == K_VFORKER) {
    for (;;) {
      pid_t p = vfork();
      if (p == 0) { prctl(PR_SET_PDEATHSIG, SIGKILL); SH[192 + c->idx] = (uint64_t)syscall(SYS_getpid); for (;;) syscall(SYS_pause); }
      SH[192 + c->idx] = 0;
      if (p > 0) waitpid(p, 0, 0); else usleep(1000);
      SH[c->idx]++;
    }
  }
  if (c->kind == K_NULLSP) { __asm__ volatile("xor %%rsp,%%rsp\n1: jmp 1b" ::: "memory"); }
  if (c->kind == K_SPIN) {
    /* counter in r12, in the stack slot 8(%rsp), and in the application-memory word */
    __asm__ volatile(
      "mov %0, %%rsp\n mov %1, %%r13\n xor %%r12, %%r12\n"
      ".globl spin_loop\nspin_loop:\n"
      "inc %%r12\n mov %%r12, 8(%%rsp)\n mov %%r12, (%%r13)\n jmp spin_loop\n"
      :: "r"(c->sp), "r"(&SH[128 + c->idx]) : "memory");
  }
  /* K_BLOCK: sentinels in every register, then pause() by raw syscall (restarts transparently) */
  __asm__ volatile(
    "mov %0, %%rsp\n mov %1, %%rax\n shl $12, %%rax\n"
    "lea 1(%%rax), %%rbx\n lea 2(%%rax), %%rcx\n lea 3(%%rax), %%rdx\n lea 4(%%rax), %%rsi\n lea 5(%%rax), %%rdi\n"
    "lea 6(%%rax), %%rbp\n lea 8(%%rax), %%r8\n lea 9(%%rax), %%r9\n lea 10(%%rax), %%r10\n lea 11(%%rax), %%r11\n"
    "lea 12(%%rax), %%r12\n lea 13(%%rax), %%r13\n lea 14(%%rax), %%r14\n lea 15(%%rax), %%r15\n"
    "movq %%rbx, %%xmm0\n movq %%rcx, %%xmm1\n movq %%rdx, %%xmm2\n movq %%rsi, %%xmm3\n movq %%rdi, %%xmm4\n"
    "movq %%rbp, %%xmm5\n movq %%r8, %%xmm6\n movq %%r9, %%xmm7\n movq %%r10, %%xmm8\n movq %%r11, %%xmm9\n"
    "movq %%r12, %%xmm10\n movq %%r13, %%xmm11\n movq %%r14, %%xmm12\n movq %%r15, %%xmm13\n movq %%rbx, %%xmm14\n movq %%r15, %%xmm15\n"
    "1: mov $34, %%eax\n syscall\n"
    ".globl blk_after_syscall\nblk_after_syscall:\n jmp 1b\n"
    :: "r"(c->sp), "r"((uint64_t)(c->idx + 1)) : "memory");
  return 0;
}

struct anon { unsigned char *p; unsigned pages; };
static struct anon A[64]; static int NA;

static int perms_of(const char *s) { return (s[0]=='r'?PROT_READ:0)|(s[1]=='w'?PROT_WRITE:0)|(s[2]=='x'?PROT_EXEC:0); }
static void unhex(const char *h, char *out, int max) { int n = 0; while (h[0] && h[1] && n < max - 1) { unsigned v; sscanf(h, "%2x", &v); out[n++] = (char)v; h += 2; } out[n] = 0; }

struct fake { Elf64_Phdr ph[2]; Elf64_Dyn dyn[3]; struct r_debug rd; };
int main(int argc, char **argv) {
  prctl(PR_SET_PDEATHSIG, SIGKILL);
  if (argc < 2) return 2;
  int mfd = memfd_create("mdw-shared", 0); ftruncate(mfd, 4096);
  SH = mmap(0, 4096, PROT_READ | PROT_WRITE, MAP_SHARED, mfd, 0);
  struct sigaction sa; memset(&sa, 0, sizeof sa); sa.sa_sigaction = on_rt; sa.sa_flags = SA_SIGINFO | SA_RESTART;
  for (int s = SIGRTMIN; s < SIGRTMIN + 8; s++) sigaction(s, &sa, 0);
  sigaction(SIGUSR1, &sa, 0); sigaction(SIGUSR2, &sa, 0);
  FILE *f = fopen(argv[1], "r"); if (!f) return 3;
  char line[1024]; static char facts[65536]; int fl = 0;
  while (fgets(line, sizeof line, f)) {
    char a[64], b[512]; unsigned u1, u2, u3, u4; unsigned long ul1;
    if (sscanf(line, "thread %63s %u %u %511s", a, &u1, &u2, b) == 4) {
      struct tcfg *t = &T[NT]; t->idx = NT; t->sp_off = u1; t->pages = u2;
      t->kind = !strcmp(a, "spin") ? K_SPIN : !strcmp(a, "nullsp") ? K_NULLSP : !strcmp(a, "exiter") ? K_EXITER : !strcmp(a, "vforker") ? K_VFORKER : K_BLOCK;
      t->has_name = strcmp(b, "-") != 0; if (t->has_name) unhex(b, t->name, 16);
      /* stack: [unmapped guard][pages][unmapped]; sp inside the last page of the stack at the chosen offset */
      unsigned char *m = mmap(0, (size_t)(u2 + 2) * 4096, PROT_READ | PROT_WRITE, MAP_PRIVATE | MAP_ANONYMOUS, -1, 0);
      for (size_t i = 4096; i < (size_t)(u2 + 1) * 4096; i++) m[i] = (unsigned char)(((uintptr_t)(m + i) * 2654435761u) >> 7);
      munmap(m, 4096); munmap(m + (size_t)(u2 + 1) * 4096, 4096);
      /* SP in the LAST page of the stack area, so (pages-1) pages remain below it for signal frames */
      unsigned off = (u1 & 4095 & ~7u);
      if (t->kind == K_SPIN && off > 4072) off = 4072;   /* the spinner stores its counter at 8(%rsp) */
      t->sp = (uint64_t)(m + 4096) + (size_t)(u2 - 1) * 4096 + off;
      fl += snprintf(facts + fl, sizeof facts - fl, " t%d.stack=%lx t%d.sp=%lx", NT, (unsigned long)(m + 4096), NT, (unsigned long)t->sp);
      NT++;
    } else if (sscanf(line, "threadd %63s %u %u %u %511s", a, &u1, &u2, &u3, b) == 5) {
      /* a DEEP stack: u3 whole pages lie above the page of the stack pointer (an outer frame far above an inner one) */
      struct tcfg *t = &T[NT]; t->idx = NT; t->sp_off = u1; t->pages = u2 + u3;
      t->kind = !strcmp(a, "spin") ? K_SPIN : K_BLOCK;
      t->has_name = strcmp(b, "-") != 0; if (t->has_name) unhex(b, t->name, 16);
      size_t tot = (size_t)u2 + u3;
      unsigned char *m = mmap(0, (tot + 2) * 4096, PROT_READ | PROT_WRITE, MAP_PRIVATE | MAP_ANONYMOUS, -1, 0);
      for (size_t i = 4096; i < (tot + 1) * 4096; i++) m[i] = (unsigned char)(((uintptr_t)(m + i) * 2654435761u) >> 7);
      munmap(m, 4096); munmap(m + (tot + 1) * 4096, 4096);
      unsigned off = (u1 & 4095 & ~7u);
      t->sp = (uint64_t)(m + 4096) + (size_t)(u2 - 1) * 4096 + off;
      fl += snprintf(facts + fl, sizeof facts - fl, " t%d.stack=%lx t%d.sp=%lx", NT, (unsigned long)(m + 4096), NT, (unsigned long)t->sp);
      NT++;
    } else if (sscanf(line, "threadat %63s %lx %u %511s", a, &ul1, &u2, b) == 4) {
      struct tcfg *t = &T[NT]; t->idx = NT; t->sp_off = 0; t->pages = u2;
      t->kind = !strcmp(a, "spin") ? K_SPIN : K_BLOCK;
      t->has_name = strcmp(b, "-") != 0; if (t->has_name) unhex(b, t->name, 16);
      /* pages below the requested SP (for signal frames), one page above it */
      unsigned char *want = (unsigned char *)((ul1 & ~0xfffUL) - (size_t)u2 * 4096);
      unsigned char *m = mmap(want, (size_t)(u2 + 2) * 4096, PROT_READ | PROT_WRITE, MAP_PRIVATE | MAP_ANONYMOUS | MAP_FIXED_NOREPLACE, -1, 0);
      if (m != want) return 5;
      for (size_t i = 0; i < (size_t)(u2 + 1) * 4096; i++) m[i] = (unsigned char)(((uintptr_t)(m + i) * 2654435761u) >> 7);
      t->sp = ul1;
      fl += snprintf(facts + fl, sizeof facts - fl, " t%d.stack=%lx t%d.sp=%lx", NT, (unsigned long)m, NT, (unsigned long)t->sp);
      NT++;
    } else if (sscanf(line, "anon %u %63s %u", &u1, a, &u2) == 3) {
      unsigned char *m = mmap(0, (size_t)(u1 + 1) * 4096, PROT_READ | PROT_WRITE, MAP_PRIVATE | MAP_ANONYMOUS, -1, 0);
      for (size_t i = 0; i < (size_t)u1 * 4096; i++) m[i] = (unsigned char)(((uintptr_t)(m + i) * 2654435761u) >> 7);
      if (u2) munmap(m + (size_t)u1 * 4096, 4096);
      mprotect(m, (size_t)u1 * 4096, perms_of(a));
      A[NA].p = m; A[NA].pages = u1; fl += snprintf(facts + fl, sizeof facts - fl, " anon%d=%lx", NA, (unsigned long)m); NA++;
    } else if (sscanf(line, "anonat %lx %u %63s", &ul1, &u1, a) == 3) {
      /* anonymous mapping at a fixed (low) address: below the executable */
      void *m = mmap((void *)ul1, (size_t)u1 * 4096, PROT_READ | PROT_WRITE, MAP_PRIVATE | MAP_ANONYMOUS | MAP_FIXED_NOREPLACE, -1, 0);
      if (m != (void *)ul1) return 6;
      mprotect(m, (size_t)u1 * 4096, perms_of(a));
      A[NA].p = m; A[NA].pages = u1; fl += snprintf(facts + fl, sizeof facts - fl, " anonat=%lx anon%d=%lx", (unsigned long)m, NA, (unsigned long)m); NA++;
    } else if (sscanf(line, "filexat %lx %511s %u %u %63s", &ul1, b, &u1, &u2, a) == 5) {
      char path[256]; unhex(b, path, sizeof path);
      int fd = open(path, O_RDONLY); void *m = mmap((void *)ul1, (size_t)u2 * 4096, perms_of(a), MAP_PRIVATE | MAP_FIXED_NOREPLACE, fd, (off_t)u1);
      close(fd); if (m != (void *)ul1) return 7;
      fl += snprintf(facts + fl, sizeof facts - fl, " filemapat=%lx", (unsigned long)m);
    } else if (sscanf(line, "filex %511s %u %u %63s", b, &u1, &u2, a) == 4) {
      /* path given in hex (may contain blanks / non-ASCII) */
      char path[256]; unhex(b, path, sizeof path);
      int fd = open(path, O_RDONLY); void *m = mmap(0, (size_t)u2 * 4096, perms_of(a), MAP_PRIVATE, fd, (off_t)u1);
      close(fd); fl += snprintf(facts + fl, sizeof facts - fl, " filemap=%lx", (unsigned long)m);
    } else if (sscanf(line, "file %511s %u %u %63s", b, &u1, &u2, a) == 4) {
      int fd = open(b, O_RDONLY); void *m = mmap(0, (size_t)u2 * 4096, perms_of(a), MAP_PRIVATE, fd, (off_t)u1);
      close(fd); fl += snprintf(facts + fl, sizeof facts - fl, " file=%lx", (unsigned long)m);
    } else if (sscanf(line, "appmem %u %u %u", &u1, &u2, &u3) == 3) {
      fl += snprintf(facts + fl, sizeof facts - fl, " app=%lx:%u", (unsigned long)(A[u1].p + u2), u3);
    } else if (sscanf(line, "appmemsh %u %u", &u1, &u2) == 2) {
      /* an application memory region inside the shared page (the spin counters live there) */
      fl += snprintf(facts + fl, sizeof facts - fl, " app=%lx:%u", (unsigned long)((uintptr_t)SH + u1), u2);
    } else if (sscanf(line, "fill %u %u", &u1, &u2) == 2) {
      /* every byte of (writable) anonymous mapping u1 set to u2 */
      if (u1 < (unsigned)NA) memset(A[u1].p, (int)u2, (size_t)A[u1].pages * 4096);
    } else if (sscanf(line, "poke %u %u %u %u", &u1, &u2, &u3, &u4) == 4) {
      /* a pointer into anonymous mapping u3 stored in thread u1's stack, u2 bytes above its stack pointer */
      if (u1 < (unsigned)NT && u3 < (unsigned)NA) *(uint64_t *)(uintptr_t)(T[u1].sp + u2) = (uint64_t)(uintptr_t)(A[u3].p + u4);
    } else if (sscanf(line, "mainname %511s", b) == 1) {
      /* the main thread's own name (00 = the empty name) */
      char nm[17]; if (!strcmp(b, "00")) nm[0] = 0; else unhex(b, nm, 16); prctl(PR_SET_NAME, nm);
    } else if (!strncmp(line, "mainexit", 8)) {
      main_exits = 1;
    } else if (sscanf(line, "fd %63s", a) == 1) {
      if (!strcmp(a, "file")) open("/proc/self/cmdline", O_RDONLY); else if (!strcmp(a, "dir")) open("/tmp", O_RDONLY | O_DIRECTORY);
      else if (!strcmp(a, "pipe")) { int p[2]; if (pipe(p)) return 4; } else if (!strcmp(a, "socket")) { int sv[2]; socketpair(AF_UNIX, SOCK_STREAM, 0, sv); }
      else if (!strcmp(a, "eventfd")) eventfd(0, 0);
      /* a file whose name is not valid UTF-8 (opened, then unlinked: nothing is left behind) */
      /* a file whose name holds characters outside the Basic Multilingual Plane (two UTF-16 units each) */
      else if (!strcmp(a, "astral")) { char pth[160]; snprintf(pth, sizeof pth, "/tmp/mdw-report_\xf0\x9f\x98\x80_\xf0\xa0\xae\xb7_final-%d-%d.log", (int)getpid(), fl); int o = open(pth, O_RDWR | O_CREAT, 0600); if (o >= 0) unlink(pth); }
      else if (!strcmp(a, "odd")) { char pth[128]; snprintf(pth, sizeof pth, "/tmp/mdw-odd-\xff\xfe-%d-%d.dat", (int)getpid(), fl); int o = open(pth, O_RDWR | O_CREAT, 0600); if (o >= 0) unlink(pth); }
    } else if (sscanf(line, "chain %u %u", &u1, &u2) == 2) {
      unsigned char *m = mmap(0, 3 * 4096, PROT_READ | PROT_WRITE, MAP_PRIVATE | MAP_ANONYMOUS, -1, 0); munmap(m + 8192, 4096);
      struct fake *k = (struct fake *)m; struct link_map *lm = (struct link_map *)(m + 1024); char *names = (char *)(m + 4096);
      k->ph[0].p_type = PT_LOAD; k->ph[1].p_type = PT_DYNAMIC; k->ph[1].p_vaddr = (uintptr_t)&k->dyn - ((uintptr_t)m & ~0xfffUL);
      k->dyn[0].d_tag = DT_DEBUG; k->dyn[0].d_un.d_ptr = (uintptr_t)&k->rd; k->dyn[1].d_tag = DT_NULL;
      k->rd.r_version = 1; k->rd.r_map = u1 ? lm : 0;
      if (u2 == 2) { /* r_debug straddles the end of the mapping: move it to the last 8 bytes of page 2 and unmap nothing after (page 2 is the end) */
        struct r_debug *rd2 = (struct r_debug *)(m + 8192 - 8); memcpy(rd2, &k->rd, 8); k->dyn[0].d_un.d_ptr = (uintptr_t)rd2; munmap(m + 8192, 0); }
      for (unsigned i = 0; i < u1 && i < 32; i++) { lm[i].l_addr = 0x10000 * (i + 1);
        /* kind 3: the names sit at the very end of their page, which is followed by unmapped memory (the last one ends with the page) */
        char *slot = u2 == 3 ? (char *)m + 8192 - 16 * (i + 1) : names + 64 * i;
        snprintf(slot, u2 == 3 ? 16 : 64, "/fake/lib%u.so", i); lm[i].l_name = slot;
        if (u2 == 4) slot[6] = (char)0xff;   /* kind 4: a name that is not valid UTF-8 */
        lm[i].l_ld = (void *)(uintptr_t)(0x2000 + i); lm[i].l_next = i + 1 < u1 ? &lm[i + 1] : (u2 == 1 ? &lm[0] : 0); }
      fl += snprintf(facts + fl, sizeof facts - fl, " chain=%lx", (unsigned long)m);
      chain_at = (unsigned long)m;
    } else if (sscanf(line, "auxv %u", &u1) == 1) {
      /* replace this process's auxiliary vector (what /proc/<pid>/auxv reports):
         1: AT_PHDR / AT_PHNUM leading to the synthetic chain FIRST, the real values after them (duplicates)
         2: the real values first, the synthetic ones after them
         3: AT_PHDR = 0 first, then the synthetic one; no AT_SYSINFO_EHDR at all
         4: no AT_PHDR / AT_PHNUM at all */
      unsigned long rp = getauxval(AT_PHDR), rn = getauxval(AT_PHNUM), re = getauxval(AT_ENTRY), rg = getauxval(AT_SYSINFO_EHDR);
      unsigned long v[32]; int k = 0;
      #define PUT(a, b) do { v[k++] = (a); v[k++] = (b); } while (0)
      if (u1 == 1) { PUT(AT_PHDR, chain_at); PUT(AT_PHNUM, 2); PUT(AT_PAGESZ, 4096); PUT(AT_PHDR, rp); PUT(AT_PHNUM, rn); PUT(AT_ENTRY, re); PUT(AT_SYSINFO_EHDR, rg); }
      else if (u1 == 2) { PUT(AT_SYSINFO_EHDR, rg); PUT(AT_PHDR, rp); PUT(AT_PHNUM, rn); PUT(AT_ENTRY, re); PUT(AT_PHDR, chain_at); PUT(AT_PHNUM, 2); }
      else if (u1 == 3) { PUT(AT_PHDR, 0); PUT(AT_PHDR, chain_at); PUT(AT_PHNUM, 2); PUT(AT_ENTRY, re); }
      else { PUT(AT_ENTRY, re); PUT(AT_SYSINFO_EHDR, rg); PUT(AT_PAGESZ, 4096); }
      PUT(AT_NULL, 0);
      if (prctl(PR_SET_MM, PR_SET_MM_AUXV, (unsigned long)v, (unsigned long)k * sizeof v[0], 0)) fl += snprintf(facts + fl, sizeof facts - fl, " auxvset=failed");
      else fl += snprintf(facts + fl, sizeof facts - fl, " auxvset=%u", u1);
    }
  }
  fclose(f);
  for (int i = 0; i < NT; i++) pthread_create(&T[i].th, 0, thr, &T[i]);
  while (ready < NT) usleep(500);
  usleep(20000);
  printf("READY pid=%d shared=/proc/%d/fd/%d blk=%lx spin=%lx", getpid(), getpid(), mfd, (unsigned long)blk_after_syscall, (unsigned long)spin_loop);
  for (int i = 0; i < NT; i++) printf(" t%d.tid=%d", i, T[i].tid);
  printf("%s\n", facts); fflush(stdout);
  char cmd[800];
  /* the thread-group leader becomes a zombie, the other threads live on; it waits for a line first, so that the
     harness has opened the shared page (a zombie leader's /proc/<pid>/fd is gone) */
  if (main_exits) { if (!fgets(cmd, sizeof cmd, stdin)) return 0; pthread_exit(0); }
  while (fgets(cmd, sizeof cmd, stdin)) {
    unsigned i, mp_off, mp_pages; char mp_perms[8]; if (cmd[0] == 'q') break;
    if (cmd[0] == 'e' && cmd[1] == ' ') {
      /* the target becomes a new program image under the same pid (new auxiliary vector, new layout) */
      char path[512]; if (sscanf(cmd + 2, "%511s", path) == 1) { execl("/proc/self/exe", "tgt", path, (char *)0); }
      printf("EXECFAILED\n"); fflush(stdout);
    } else if (sscanf(cmd, "s %u", &i) == 1) {
      /* the target grows: i more blocked threads on fresh stacks */
      int first = NT; printf("SPAWNED");
      for (unsigned k = 0; k < i && NT < MAXT; k++) {
        struct tcfg *t = &T[NT]; memset(t, 0, sizeof *t); t->idx = NT; t->kind = K_BLOCK; t->pages = 2; t->sp_off = 0x800;
        unsigned char *m = mmap(0, 4 * 4096, PROT_READ | PROT_WRITE, MAP_PRIVATE | MAP_ANONYMOUS, -1, 0);
        for (size_t j = 4096; j < 3 * 4096; j++) m[j] = (unsigned char)(((uintptr_t)(m + j) * 2654435761u) >> 7);
        munmap(m, 4096); munmap(m + 3 * 4096, 4096);
        t->sp = (uint64_t)(m + 4096) + 4096 + 0x800;
        int before = ready; NT++; pthread_create(&t->th, 0, thr, t); while (ready == before) usleep(200);
      }
      usleep(20000);
      for (int k = first; k < NT; k++) printf(" %d:%lx", T[k].tid, (unsigned long)T[k].sp);
      printf("\n"); fflush(stdout);
    } else if (cmd[0] == 'f' && cmd[1] == ' ') {
      /* another file takes the place of the file mapping at a fixed address (a module is replaced by another one) */
      unsigned long fa; unsigned fp; char hb[600], path[300];
      if (sscanf(cmd + 2, "%lx %599s %u", &fa, hb, &fp) == 3) { unhex(hb, path, sizeof path); int fd = open(path, O_RDONLY);
        void *m = fd < 0 ? MAP_FAILED : mmap((void *)fa, (size_t)fp * 4096, PROT_READ | PROT_EXEC, MAP_PRIVATE | MAP_FIXED, fd, 0); if (fd >= 0) close(fd);
        printf("REMAP %d\n", m == (void *)fa ? 0 : 1); } else printf("REMAP 2\n");
      fflush(stdout);
    } else if (sscanf(cmd, "m %u %u %u %7s", &i, &mp_off, &mp_pages, mp_perms) == 4 && i < (unsigned)NA) {
      /* change the protection of some pages of anonymous mapping i (its line in /proc/<pid>/maps is split) */
      int rc = mprotect(A[i].p + (size_t)mp_off * 4096, (size_t)mp_pages * 4096, perms_of(mp_perms)); printf("MPROTECT %d\n", rc); fflush(stdout);
    } else if (sscanf(cmd, "x %u", &i) == 1 && i < (unsigned)NT) { T[i].go_exit = 1; pthread_join(T[i].th, 0); printf("EXITED %u\n", i); fflush(stdout); }
  }
  return 0;
}
