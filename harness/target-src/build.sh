#!/bin/sh
# builds the scriptable target process used by the live stages
set -e
cd "$(dirname "$0")"
mkdir -p ../target
gcc -O1 -g0 -pthread -o ../target/tgt tgt.c
# the same program linked at a fixed address (ET_EXEC): its program headers carry absolute addresses
gcc -O1 -g0 -pthread -no-pie -o ../target/tgt_nopie tgt.c
