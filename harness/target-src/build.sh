#!/bin/sh
# builds the scriptable target process used by the live stages
set -e
cd "$(dirname "$0")"
mkdir -p ../target
gcc -O1 -g0 -pthread -o ../target/tgt tgt.c
