//! C17 (live): the three `MemReader` strategies against a stopped target whose regions hold an
//! address-derived pattern and are followed by unmapped pages.
use crate::common::*;
use crate::live::*;
use minidump_writer::mem_reader::MemReader;

fn pattern(a: u64) -> u8 { (a.wrapping_mul(2654435761) >> 7) as u8 }

pub fn run(a: &Args) {
    let mut rng = Rng::new(a.seed);
    let mut out = Out::new();
    let work = format!("{}/tmp", a.out);
    let ntargets = if a.tier == "thorough" { 4 } else { 1 };
    for _ in 0..ntargets {
        // the last region holds nothing but 0xFF bytes (a word of all ones is also what a failing PTRACE_PEEKDATA returns)
        let pages = [17u64, 1, 3, 2];
        let mut scen = Scenario { threads: vec![], lines: pages.iter().map(|p| format!("anon {p} rw- 1")).collect() };
        scen.lines.push("fill 3 255".into());
        let target = match Target::spawn(&scen, &work) { Ok(t) => t, Err(e) => { out.notes.push(format!("spawn failed: {e}")); continue; } };
        // the ptrace strategy needs the target to be our tracee
        let pid = nix::unistd::Pid::from_raw(target.pid);
        if nix::sys::ptrace::attach(pid).is_err() { out.notes.push("attach failed".into()); continue; }
        let _ = nix::sys::wait::waitpid(pid, Some(nix::sys::wait::WaitPidFlag::__WALL));
        let regions: Vec<(u64, u64)> = (0..4).map(|i| (target.fact_hex(&format!("anon{i}")), pages[i] * 4096)).collect();
        let ff_start = regions[3].0;
        // sanity of the harness's own pattern formula against an independent read
        if let Some(b) = read_mem(target.pid, regions[0].0, 64) { if b.iter().enumerate().any(|(i, x)| *x != pattern(regions[0].0 + i as u64)) { out.notes.push("pattern formula disagrees with target memory".into()); } }
        // fixed ranges of the largest lengths at unaligned starts (17 pages touched by at most 64 KiB), then generated ones
        let fixed: Vec<(u64, u64)> = vec![(1, 65536), (8, 65536), (4095, 65536), (4090, 61450), (0, 65536), (100, 65436), (4095, 61442), (2049, 63488)];
        for it in 0..a.n as usize + fixed.len() {
            let (start, rlen) = if it < fixed.len() { regions[0] } else { *rng.pick(&regions) };
            let len = if it < fixed.len() { fixed[it].1 } else { match rng.below(40) { 0 => rng.range(4097, 64 * 1024), 1..=4 => rng.range(1, 16), 5..=9 => 8 * rng.range(1, 64), 10..=12 => rng.range(1, 4096), 13 => 4096, 14..=19 => rng.range(1, 7), _ => rng.range(1, 300) } };
            let off = if it < fixed.len() { fixed[it].0 } else { match rng.below(6) { 0 => rlen.saturating_sub(len),                         // ends exactly at the mapping end
                                           1 => rlen.saturating_sub(len) + rng.range(1, 9),       // runs past the end
                                           2 => rlen - rng.range(1, 8).min(rlen),                  // starts just before the end
                                           3 => 0, _ => rng.below(rlen) } };
            let off = off.min(rlen - 1);
            let src = start + off;
            for (st, name) in [(0u64, "vmem"), (1, "file"), (2, "ptrace")] {
                let mut rd = match st { 0 => MemReader::for_virtual_mem(target.pid), 1 => match MemReader::for_file(target.pid) { Ok(r) => r, Err(_) => continue }, _ => MemReader::for_ptrace(target.pid) };
                let r = quiet_catch(std::panic::AssertUnwindSafe(|| rd.read_to_vec(src as usize, std::num::NonZeroUsize::new(len as usize).unwrap())));
                // long ranges are judged against the pattern formula directly (the extracted model walks unary
                // offsets and is quadratic in the range length); everything up to a page goes through the model
                let line = if start == ff_start {
                    let mut l = Line::new("const"); let avail = (rlen - off).min(len);
                    if avail == len || (st == 0 && avail > 0) { l.u(0); for _ in 0..avail { l.u(0xff); } } else { l.u(1); }
                    out.count("all_ones_region.judged_by_oracle"); l }
                  else if len <= 4096 { let mut l = Line::new("c17"); l.u(st).u(start).u(rlen).u(off).u(len); l } else {
                    let mut l = Line::new("const");
                    let avail = (rlen - off).min(len);
                    if avail == len || (st == 0 && avail > 0) { l.u(0); for i in 0..avail { l.u(pattern(src + i) as u64); } } else { l.u(1); }
                    out.count("long_range.judged_by_pattern_oracle"); l };
                let mut res = Line::bare();
                let class = match &r { Ok(Ok(b)) => { res.u(0).bytes(b); if b.len() as u64 == len { "full" } else { "prefix" } } Ok(Err(_)) => { res.u(1); "error" } Err(_) => { res.0 = "!panic".into(); "panic" } };
                out.count(&format!("{name}.{class}"));
                out.count(&format!("range.{}", if off + len <= rlen { if off + len == rlen { "ends_at_mapping_end" } else { "inside" } } else { "crosses_end" }));
                out.case(line.s(), res.s(), off + len >= rlen || len % 8 != 0 || src % 8 != 0);
            }
        }
        let _ = nix::sys::ptrace::detach(pid, None);
    }
    // a target started without address-space randomisation: its [stack] ends at the very top of user space (0x7ffffffff000);
    // ranges ending exactly there are ordinary readable ranges (judged against an independent pread of /proc/<pid>/mem)
    {
        NO_ASLR_TARGET.store(true, std::sync::atomic::Ordering::SeqCst);
        let spawned = Target::spawn(&Scenario { threads: vec![], lines: vec![] }, &work);
        NO_ASLR_TARGET.store(false, std::sync::atomic::Ordering::SeqCst);
        if let Ok(target) = spawned {
            let pid = nix::unistd::Pid::from_raw(target.pid);
            if nix::sys::ptrace::attach(pid).is_ok() {
                let _ = nix::sys::wait::waitpid(pid, Some(nix::sys::wait::WaitPidFlag::__WALL));
                let maps = std::fs::read_to_string(format!("/proc/{}/maps", target.pid)).unwrap_or_default();
                let stack_end = maps.lines().find(|l| l.ends_with("[stack]")).and_then(|l| l.split_whitespace().next()).and_then(|r| r.split_once('-')).and_then(|(_, e)| u64::from_str_radix(e, 16).ok());
                if let Some(end) = stack_end {
                    out.count(if end == 0x7fff_ffff_f000 { "stack_top.at_the_top_of_user_space" } else { "stack_top.elsewhere" });
                    for len in [1u64, 2, 7, 8, 9, 16, 63, 64, 100, 4095, 4096, 4097] {
                        let src = end - len;
                        let Some(want) = read_mem(target.pid, src, len as usize).filter(|b| b.len() as u64 == len) else { continue };
                        for (st, name) in [(0u64, "vmem"), (1, "file"), (2, "ptrace")] {
                            let mut rd = match st { 0 => MemReader::for_virtual_mem(target.pid), 1 => match MemReader::for_file(target.pid) { Ok(r) => r, Err(_) => continue }, _ => MemReader::for_ptrace(target.pid) };
                            let r = quiet_catch(std::panic::AssertUnwindSafe(|| rd.read_to_vec(src as usize, std::num::NonZeroUsize::new(len as usize).unwrap())));
                            let mut l = Line::new("const"); l.u(0).bytes(&want);
                            let mut res = Line::bare();
                            match &r { Ok(Ok(b)) => { res.u(0).bytes(b); } Ok(Err(_)) => { res.u(1); } Err(_) => { res.0 = "!panic".into(); } }
                            out.count(&format!("stack_top.{name}"));
                            out.case(l.s(), res.s(), true);
                        }
                    }
                }
                let _ = nix::sys::ptrace::detach(pid, None);
            }
        }
    }
    out.assumptions.push("kernel semantics of the three primitives: process_vm_readv returns the readable prefix (error when nothing is readable), pread on /proc/<pid>/mem with read_exact is all-or-error, PTRACE_PEEKDATA reads one whole word or fails; page-granular protections".into());
    out.finish(&a.out, "MemReader::for_virtual_mem / for_file / for_ptrace on a ptrace-stopped target: ranges of 1..64 KiB at all alignments inside, ending exactly at, and running past the end of pattern-filled mappings followed by unmapped pages; non-trivial = range touches the mapping end or is unaligned in start or length");
}
