//! C15 (live): thread-name stream of real dumps vs the model, with per-thread unreadable names
//! (the repository's own `ThreadName` fail point toggled from the `ThreadEnumerated` hook).
use crate::common::*;
use crate::live::*;
use crate::md;
use minidump_writer::minidump_writer::MinidumpWriter;
use minidump_writer::verif_hooks::Point;
use minidump_writer::FailSpotName;
use std::cell::RefCell;
use std::rc::Rc;

pub fn gen_name(rng: &mut Rng) -> Option<Vec<u8>> {
    if rng.chance(1, 8) { return None; }     // thread keeps the inherited name
    // names that are not UTF-8: raw bytes, and a multi-byte character cut by the kernel's 15-byte limit
    if rng.chance(1, 10) { return Some(if rng.chance(1, 2) { vec![b'x', 0xff, 0xfe] } else { let mut v = vec![b'a'; 13]; v.extend_from_slice("€".as_bytes()); v }); }
    let mut s = String::new();
    let target = rng.below(16) as usize;
    loop {
        let c = match rng.below(7) { 0 => ' ', 1 => '\t', 2 => char::from_u32(rng.range(0xa1, 0x24f) as u32).unwrap(), 3 => char::from_u32(rng.range(0x4e00, 0x4eff) as u32).unwrap(),
                                      4 => '😀', _ => char::from_u32(rng.range(0x21, 0x7e) as u32).unwrap() };
        if s.len() + c.len_utf8() > target { break; }
        s.push(c);
    }
    Some(s.into_bytes())
}

pub fn trimmed_name(comm: &[u8]) -> Option<Vec<u32>> {
    let s = std::str::from_utf8(comm).ok()?;
    Some(s.trim_end().chars().map(|c| c as u32).collect())
}

pub fn run(a: &Args) {
    let mut rng = Rng::new(a.seed);
    let mut out = Out::new();
    let work = format!("{}/tmp", a.out);
    for case in 0..a.n {
        let nthreads = match rng.below(5) { 0 => 0, 1 => 1, 2 => rng.range(2, 6), 3 => rng.range(7, 31), _ => rng.range(1, 12) } as usize;
        let mut scen = Scenario { threads: (0..nthreads).map(|_| ThreadSpec { kind: Kind::Block, sp_off: 0x800, pages: 2, name: gen_name(&mut rng), at: None }).collect(), lines: vec![] };
        // one fixed target per run: EVERY thread, the main one included, carries the empty name (readable, and empty)
        if case == 2 { for t in scen.threads.iter_mut() { t.name = Some(vec![]); } scen.lines.push("mainname 00".into()); }
        else if rng.chance(1, 6) { scen.lines.push(format!("mainname {}", "main thr".bytes().map(|b| format!("{b:02x}")).collect::<String>())); }
        // threads that are enumerated (and named) but dropped when they are suspended (null stack pointer), anywhere but last:
        // the names of the threads after them must stay with their own ids
        if nthreads >= 2 && (case % 3 == 1) { for _ in 0..rng.range(1, 2) { let pos = rng.below(scen.threads.len() as u64 - 1) as usize; scen.threads[pos].kind = Kind::NullSp; if scen.threads[pos].name.is_none() { scen.threads[pos].name = Some(b"parked".to_vec()); } } out.count("shape.dropped_thread_in_the_middle"); }
        let target = match Target::spawn(&scen, &work) { Ok(t) => t, Err(e) => { out.notes.push(format!("spawn failed: {e}")); continue; } };
        // which threads have an unreadable name: every subset for small thread counts (case index), random masks above
        let all: Vec<i32> = std::iter::once(target.pid).chain(target.tids.iter().cloned()).collect();
        let mask: u64 = if all.len() <= 6 && rng.chance(1, 2) { case % (1 << all.len()) } else { match rng.below(4) { 0 => 0, 1 => u64::MAX, _ => rng.next() } };
        let unreadable: Vec<i32> = all.iter().enumerate().filter(|(i, _)| mask >> (*i % 64) & 1 == 1).map(|(_, t)| *t).collect();
        let client = Rc::new(RefCell::new(FailSpotName::testing_client()));
        let (c2, un2) = (client.clone(), unreadable.clone());
        let hook: HookFn = Box::new(move |p| { if let Point::ThreadEnumerated(tid) = p { c2.borrow_mut().set_enabled(FailSpotName::ThreadName, un2.contains(&tid)); } });
        // in a third of the cases a crash context is supplied for some thread, and the thread-id field inside the context is
        // not the id the writer was given (a handler that ran in another pid namespace): the names must still be paired with
        // the ids of the listed threads
        let with_crash = case % 3 == 0 && case > 0;
        let blamed = if with_crash { *rng.pick(&all) } else { target.pid };
        let mut writer = MinidumpWriter::new(target.pid, blamed);
        if with_crash {
            let mut cc = crate::ctx::gen_crash_context(&mut rng, blamed);
            cc.inner.tid = match rng.below(3) { 0 => 1, 1 => *rng.pick(&all), _ => blamed.wrapping_add(1000) };
            let sp = if blamed == target.pid { target.fact_hex("anon0").max(0x10000) } else { target.tids.iter().position(|t| *t == blamed).map(|i| target.fact_hex(&format!("t{i}.sp"))).unwrap_or(0x10000) };
            cc.inner.context.uc_mcontext.gregs[libc::REG_RSP as usize] = sp as i64;
            writer.set_crash_context(cc);
            out.count("shape.crash_context_with_foreign_thread_id");
        }
        let mut dest = std::io::Cursor::new(Vec::new());
        let (res, world, _ev) = with_hooks(target.pid, target.pid, true, Some(hook), || quiet_catch(std::panic::AssertUnwindSafe(|| writer.dump(&mut dest).map_err(|e| format!("{e:?}")))));
        client.borrow_mut().set_enabled(FailSpotName::ThreadName, false);
        drop(client);
        let Some(world) = world else { out.notes.push("no world captured".into()); continue };
        // expected input of the model: retained threads in enumeration order
        let mut line = Line::new("c15");
        let listed: Vec<&WThread> = world.threads.iter().filter(|t| t.regs.map(|r| r.rsp != 0).unwrap_or(false)).collect();
        line.z(listed.len());
        let mut named = 0;
        for t in &listed {
            let nm = if unreadable.contains(&t.tid) { None } else { t.comm.as_deref().and_then(trimmed_name) };
            line.u(t.tid as u64);
            match nm { Some(n) => { named += 1; line.u(1).z(n.len()); for c in n { line.u(c as u64); } } None => { line.u(0).u(0); } }
        }
        let mut resl = Line::bare();
        match res {
            Err(p) => { resl.0 = format!("!panic {}", p.replace('\n', " ")); }
            Ok(Err(e)) => { resl.0 = format!("!err {}", e.replace('\n', " ").chars().take(300).collect::<String>()); }
            Ok(Ok(img)) => {
                match md::Dump::parse(&img).and_then(|d| { let l = d.streams.get(&md::THREAD_NAMES).cloned().ok_or("no thread-names stream".to_string())?; Ok((d, l)) }) {
                    Err(e) => { resl.0 = format!("!decode {e}"); }
                    Ok((d, l)) => {
                        // the two streams agree on the ids: every named id is the id of exactly one listed thread
                        if let (Ok(ths), Ok(nms)) = (d.threads(&img), d.thread_names(&img)) {
                            let ids: Vec<u32> = ths.iter().map(|t| t.tid).collect();
                            let stray: Vec<u32> = nms.iter().map(|n| n.tid).filter(|t| ids.iter().filter(|x| *x == t).count() != 1).collect();
                            let mut l2 = Line::new("const"); l2.u(case as u64).u(1);
                            let mut r2 = Line::bare();
                            if stray.is_empty() { r2.u(case as u64).u(1); } else { r2.0 = format!("!names are recorded for ids that are not the id of exactly one listed thread: {stray:?} (listed {ids:?})"); }
                            out.case(l2.s(), r2.s(), !nms.is_empty());
                        }
                        // stream + strings, rvas made relative to the stream start
                        let start = l.rva as usize;
                        let n = md::u32_at(&img, start).unwrap_or(0) as usize;
                        let mut region = img[start..].to_vec();
                        for i in 0..n.min(4096) { let o = 4 + 12 * i + 4; if o + 8 <= region.len() { let rva = u64::from_le_bytes(region[o..o + 8].try_into().unwrap()); region[o..o + 8].copy_from_slice(&rva.wrapping_sub(start as u64).to_le_bytes()); } }
                        resl.u(0).u(l.size as u64).bytes(&region);
                    }
                }
            }
        }
        out.count(&format!("threads.{}", match listed.len() { 1 => "1", 2..=6 => "2-6", 7..=20 => "7-20", _ => "21+" }));
        let mixed = named > 0 && named < listed.len();
        out.count(if mixed { "mask.mixed" } else if named == 0 { "mask.all_unreadable" } else { "mask.all_readable" });
        // the real stream is followed by later streams: compare as a prefix of the image tail
        let mut cl = String::from("mprefix "); cl.push_str(line.s());
        // model output = [0, size, bytes...] must be a prefix of impl output -> swap roles: emit impl as the longer one
        out.case(&cl, resl.s(), mixed);
    }
    out.assumptions.push("the kernel reports thread names through /proc/<pid>/task/<tid>/comm; the writer trims trailing whitespace".into());
    out.finish(&a.out, "live targets with 1..32 threads, names of 0..15 bytes (ASCII, Latin, CJK, emoji, blanks, tabs; one in ten not valid UTF-8: raw bytes or a character cut at the 15-byte limit); unreadable subsets through the ThreadName fail point toggled per thread from the enumeration hook (all subsets for <= 6 threads, random masks above); the stream and its strings are compared byte for byte with the model (rvas relative); non-trivial = mask neither empty nor full");
}
