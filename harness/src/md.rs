//! Independent, bounds-checked minidump decoder (no dependency on the crate under test or on the
//! `minidump` reader).  A corrupt image yields `Err(reason)`, never a panic.
use std::collections::BTreeMap;

pub fn u16_at(b: &[u8], o: usize) -> Result<u16, String> { b.get(o..o + 2).map(|s| u16::from_le_bytes(s.try_into().unwrap())).ok_or_else(|| format!("u16 read at {o} beyond image of {}", b.len())) }
pub fn u32_at(b: &[u8], o: usize) -> Result<u32, String> { b.get(o..o + 4).map(|s| u32::from_le_bytes(s.try_into().unwrap())).ok_or_else(|| format!("u32 read at {o} beyond image of {}", b.len())) }
pub fn u64_at(b: &[u8], o: usize) -> Result<u64, String> { b.get(o..o + 8).map(|s| u64::from_le_bytes(s.try_into().unwrap())).ok_or_else(|| format!("u64 read at {o} beyond image of {}", b.len())) }

pub const THREAD_LIST: u32 = 3; pub const MODULE_LIST: u32 = 4; pub const MEMORY_LIST: u32 = 5; pub const EXCEPTION: u32 = 6;
pub const SYSTEM_INFO: u32 = 7; pub const HANDLE_DATA: u32 = 12; pub const MEMORY_INFO_LIST: u32 = 16; pub const THREAD_NAMES: u32 = 24;
pub const LINUX_CPU_INFO: u32 = 0x47670003; pub const LINUX_PROC_STATUS: u32 = 0x47670004; pub const LINUX_LSB_RELEASE: u32 = 0x47670005;
pub const LINUX_CMD_LINE: u32 = 0x47670006; pub const LINUX_ENVIRON: u32 = 0x47670007; pub const LINUX_AUXV: u32 = 0x47670008;
pub const LINUX_MAPS: u32 = 0x47670009; pub const LINUX_DSO_DEBUG: u32 = 0x4767000A; pub const MOZ_SOFT_ERRORS: u32 = 0x4d7a0004; pub const MOZ_LINUX_LIMITS: u32 = 0x4d7a0003;

#[derive(Clone, Debug, Default)] pub struct Loc { pub size: u32, pub rva: u32 }
#[derive(Clone, Debug, Default)] pub struct MemDesc { pub start: u64, pub loc: Loc }
#[derive(Clone, Debug)] pub struct Thread { pub tid: u32, pub suspend_count: u32, pub priority_class: u32, pub priority: u32, pub teb: u64, pub stack: MemDesc, pub ctx: Loc, pub rec_off: usize }
#[derive(Clone, Debug)] pub struct Module { pub base: u64, pub size: u32, pub name_rva: u32, pub name: Result<String, String>, pub cv: Loc, pub misc: Loc, pub version: [u32; 13], pub rec_off: usize }
#[derive(Clone, Debug)] pub struct Exception { pub tid: u32, pub code: u32, pub flags: u32, pub record: u64, pub address: u64, pub nparams: u32, pub ctx: Loc }
#[derive(Clone, Debug)] pub struct ThreadName { pub tid: u32, pub rva: u64, pub name: Result<String, String> }
#[derive(Clone, Debug)] pub struct MemInfo { pub base: u64, pub alloc_base: u64, pub alloc_prot: u32, pub size: u64, pub state: u32, pub prot: u32, pub typ: u32 }
#[derive(Clone, Debug)] pub struct Handle { pub handle: u64, pub type_name_rva: u32, pub object_name_rva: u32, pub object_name: Result<String, String>, pub attributes: u32, pub granted_access: u32, pub handle_count: u32, pub pointer_count: u32 }
#[derive(Clone, Debug)] pub struct LinkMap { pub addr: u64, pub name_rva: u32, pub name: Result<String, String>, pub ld: u64 }
#[derive(Clone, Debug)] pub struct DsoDebug { pub version: u32, pub map_rva: u32, pub count: u32, pub brk: u64, pub ldbase: u64, pub dynamic: u64, pub maps: Vec<LinkMap>, pub dynamic_bytes: Vec<u8> }
#[derive(Clone, Debug)] pub struct SysInfo { pub arch: u16, pub level: u16, pub revision: u16, pub ncpu: u8, pub product_type: u8, pub major: u32, pub minor: u32, pub build: u32, pub platform: u32, pub csd_rva: u32, pub csd: Result<String, String>, pub cpu: [u8; 24] }

#[derive(Clone, Debug)]
pub struct Dump {
    pub len: usize,
    pub signature: u32, pub version: u32, pub stream_count: u32, pub dir_rva: u32, pub flags: u64,
    pub dir: Vec<(u32, Loc)>,                       // every directory entry, in order
    pub streams: BTreeMap<u32, Loc>,                // non-zero entries by type (first occurrence)
    pub duplicate_types: Vec<u32>,
}

/// MINIDUMP_STRING at rva: u32 byte length, UTF-16LE units
pub fn md_string(b: &[u8], rva: usize) -> Result<(String, usize), String> {
    let n = u32_at(b, rva)? as usize;
    if n % 2 != 0 { return Err(format!("string at {rva}: odd byte length {n}")); }
    let bytes = b.get(rva + 4..rva + 4 + n).ok_or_else(|| format!("string at {rva}: {n} bytes run past the image"))?;
    let units: Vec<u16> = bytes.chunks_exact(2).map(|c| u16::from_le_bytes([c[0], c[1]])).collect();
    String::from_utf16(&units).map(|s| (s, 4 + n)).map_err(|_| format!("string at {rva}: invalid UTF-16"))
}

impl Dump {
    pub fn parse(b: &[u8]) -> Result<Dump, String> {
        if b.len() < 32 { return Err(format!("image of {} bytes has no header", b.len())); }
        let mut d = Dump { len: b.len(), signature: u32_at(b, 0)?, version: u32_at(b, 4)?, stream_count: u32_at(b, 8)?, dir_rva: u32_at(b, 12)?, flags: u64_at(b, 24)?,
                           dir: vec![], streams: BTreeMap::new(), duplicate_types: vec![] };
        if d.stream_count > 4096 { return Err(format!("absurd stream count {}", d.stream_count)); }
        for i in 0..d.stream_count as usize {
            let o = d.dir_rva as usize + 12 * i;
            let (t, size, rva) = (u32_at(b, o)?, u32_at(b, o + 4)?, u32_at(b, o + 8)?);
            d.dir.push((t, Loc { size, rva }));
            if t == 0 && size == 0 && rva == 0 { continue; }
            if d.streams.contains_key(&t) { d.duplicate_types.push(t); } else { d.streams.insert(t, Loc { size, rva }); }
        }
        Ok(d)
    }
    pub fn stream<'a>(&self, b: &'a [u8], t: u32) -> Option<Result<&'a [u8], String>> {
        let l = self.streams.get(&t)?;
        Some(b.get(l.rva as usize..l.rva as usize + l.size as usize).ok_or_else(|| format!("stream {t:#x} [{}, +{}) beyond image of {}", l.rva, l.size, b.len())))
    }
    pub fn threads(&self, b: &[u8]) -> Result<Vec<Thread>, String> {
        let Some(l) = self.streams.get(&THREAD_LIST) else { return Ok(vec![]) };
        let base = l.rva as usize; let n = u32_at(b, base)? as usize;
        if 4 + 48 * n != l.size as usize { return Err(format!("thread list: size {} != 4 + 48*{n}", l.size)); }
        (0..n).map(|i| { let o = base + 4 + 48 * i;
            Ok(Thread { tid: u32_at(b, o)?, suspend_count: u32_at(b, o + 4)?, priority_class: u32_at(b, o + 8)?, priority: u32_at(b, o + 12)?, teb: u64_at(b, o + 16)?,
                stack: MemDesc { start: u64_at(b, o + 24)?, loc: Loc { size: u32_at(b, o + 32)?, rva: u32_at(b, o + 36)? } },
                ctx: Loc { size: u32_at(b, o + 40)?, rva: u32_at(b, o + 44)? }, rec_off: o }) }).collect()
    }
    pub fn memory_list(&self, b: &[u8]) -> Result<Vec<MemDesc>, String> {
        let Some(l) = self.streams.get(&MEMORY_LIST) else { return Ok(vec![]) };
        let base = l.rva as usize; let n = u32_at(b, base)? as usize;
        if 4 + 16 * n != l.size as usize { return Err(format!("memory list: size {} != 4 + 16*{n}", l.size)); }
        (0..n).map(|i| { let o = base + 4 + 16 * i; Ok(MemDesc { start: u64_at(b, o)?, loc: Loc { size: u32_at(b, o + 8)?, rva: u32_at(b, o + 12)? } }) }).collect()
    }
    pub fn modules(&self, b: &[u8]) -> Result<Vec<Module>, String> {
        let Some(l) = self.streams.get(&MODULE_LIST) else { return Ok(vec![]) };
        let base = l.rva as usize; let n = u32_at(b, base)? as usize;
        if 4 + 108 * n != l.size as usize { return Err(format!("module list: size {} != 4 + 108*{n}", l.size)); }
        (0..n).map(|i| { let o = base + 4 + 108 * i; let name_rva = u32_at(b, o + 20)?;
            let mut version = [0u32; 13]; for k in 0..13 { version[k] = u32_at(b, o + 24 + 4 * k)?; }
            Ok(Module { base: u64_at(b, o)?, size: u32_at(b, o + 8)?, name_rva, name: md_string(b, name_rva as usize).map(|x| x.0), version,
                cv: Loc { size: u32_at(b, o + 76)?, rva: u32_at(b, o + 80)? }, misc: Loc { size: u32_at(b, o + 84)?, rva: u32_at(b, o + 88)? }, rec_off: o }) }).collect()
    }
    pub fn exception(&self, b: &[u8]) -> Result<Option<Exception>, String> {
        let Some(l) = self.streams.get(&EXCEPTION) else { return Ok(None) };
        if l.size != 168 { return Err(format!("exception stream: size {} != 168", l.size)); }
        let o = l.rva as usize;
        Ok(Some(Exception { tid: u32_at(b, o)?, code: u32_at(b, o + 8)?, flags: u32_at(b, o + 12)?, record: u64_at(b, o + 16)?, address: u64_at(b, o + 24)?, nparams: u32_at(b, o + 32)?,
            ctx: Loc { size: u32_at(b, o + 160)?, rva: u32_at(b, o + 164)? } }))
    }
    pub fn thread_names(&self, b: &[u8]) -> Result<Vec<ThreadName>, String> {
        let Some(l) = self.streams.get(&THREAD_NAMES) else { return Ok(vec![]) };
        let base = l.rva as usize; let n = u32_at(b, base)? as usize;
        if 4 + 12 * n != l.size as usize { return Err(format!("thread names: size {} != 4 + 12*{n}", l.size)); }
        (0..n).map(|i| { let o = base + 4 + 12 * i; let rva = u64_at(b, o + 4)?;
            Ok(ThreadName { tid: u32_at(b, o)?, rva, name: if rva > u32::MAX as u64 { Err("rva above 4 GiB".into()) } else { md_string(b, rva as usize).map(|x| x.0) } }) }).collect()
    }
    pub fn memory_info(&self, b: &[u8]) -> Result<Vec<MemInfo>, String> {
        let Some(l) = self.streams.get(&MEMORY_INFO_LIST) else { return Ok(vec![]) };
        let base = l.rva as usize; let (sh, se, n) = (u32_at(b, base)? as usize, u32_at(b, base + 4)? as usize, u64_at(b, base + 8)? as usize);
        if sh != 16 || se != 48 || sh + se * n != l.size as usize { return Err(format!("memory info list: header {sh}, entry {se}, count {n}, size {}", l.size)); }
        (0..n).map(|i| { let o = base + sh + se * i;
            Ok(MemInfo { base: u64_at(b, o)?, alloc_base: u64_at(b, o + 8)?, alloc_prot: u32_at(b, o + 16)?, size: u64_at(b, o + 24)?, state: u32_at(b, o + 32)?, prot: u32_at(b, o + 36)?, typ: u32_at(b, o + 40)? }) }).collect()
    }
    pub fn handles(&self, b: &[u8]) -> Result<Vec<Handle>, String> {
        let Some(l) = self.streams.get(&HANDLE_DATA) else { return Ok(vec![]) };
        let base = l.rva as usize; let (sh, sd, n) = (u32_at(b, base)? as usize, u32_at(b, base + 4)? as usize, u32_at(b, base + 8)? as usize);
        if sh != 16 || sd != 32 || sh + sd * n != l.size as usize { return Err(format!("handle data: header {sh}, descriptor {sd}, count {n}, size {}", l.size)); }
        (0..n).map(|i| { let o = base + sh + sd * i; let on = u32_at(b, o + 12)?;
            Ok(Handle { handle: u64_at(b, o)?, type_name_rva: u32_at(b, o + 8)?, object_name_rva: on, object_name: if on == 0 { Err("no name".into()) } else { md_string(b, on as usize).map(|x| x.0) },
                attributes: u32_at(b, o + 16)?, granted_access: u32_at(b, o + 20)?, handle_count: u32_at(b, o + 24)?, pointer_count: u32_at(b, o + 28)? }) }).collect()
    }
    pub fn system_info(&self, b: &[u8]) -> Result<Option<SysInfo>, String> {
        let Some(l) = self.streams.get(&SYSTEM_INFO) else { return Ok(None) };
        if l.size != 56 { return Err(format!("system info: size {} != 56", l.size)); }
        let o = l.rva as usize; let csd = u32_at(b, o + 24)?;
        let mut cpu = [0u8; 24]; cpu.copy_from_slice(b.get(o + 32..o + 56).ok_or("system info beyond image")?);
        Ok(Some(SysInfo { arch: u16_at(b, o)?, level: u16_at(b, o + 2)?, revision: u16_at(b, o + 4)?, ncpu: b[o + 6], product_type: b[o + 7], major: u32_at(b, o + 8)?, minor: u32_at(b, o + 12)?,
            build: u32_at(b, o + 16)?, platform: u32_at(b, o + 20)?, csd_rva: csd, csd: md_string(b, csd as usize).map(|x| x.0), cpu }))
    }
    pub fn dso_debug(&self, b: &[u8]) -> Result<Option<DsoDebug>, String> {
        let Some(l) = self.streams.get(&LINUX_DSO_DEBUG) else { return Ok(None) };
        if l.size < 36 { return Err(format!("dso debug: size {} < 36", l.size)); }
        let o = l.rva as usize;
        let (version, map_rva, count) = (u32_at(b, o)?, u32_at(b, o + 4)?, u32_at(b, o + 8)?);
        let mut maps = Vec::new();
        if count > 0 {
            for i in 0..count as usize { let m = map_rva as usize + 20 * i; let nr = u32_at(b, m + 8)?;
                let name = md_string(b, nr as usize).map(|x| x.0);
                maps.push(LinkMap { addr: u64_at(b, m)?, name_rva: nr, name, ld: u64_at(b, m + 12)? }); }
        }
        let dynamic_bytes = b.get(o + 36..o + l.size as usize).ok_or("dso debug beyond image")?.to_vec();
        Ok(Some(DsoDebug { version, map_rva, count, brk: u64_at(b, o + 12)?, ldbase: u64_at(b, o + 20)?, dynamic: u64_at(b, o + 28)?, maps, dynamic_bytes }))
    }
}
