//! C02: totality.
//!  sov     - mapped-file names through the public effective-path function vs the version-parser model
//!  hostile - hostile worlds under a watchdog: extreme crash-context registers, threads with odd stack
//!            pointers, corrupted ELF headers in mapped files, hostile direct-auxv values, option mixes
use crate::c08::synth_so;
use crate::common::*;
use crate::ctx::gen_crash_context;
use crate::live::*;
use minidump_writer::maps_reader::{MappingInfo, SystemMappingInfo};
use minidump_writer::minidump_writer::{DirectAuxvDumpInfo, MinidumpWriter};
use procfs_core::process::MMPermissions;

pub fn run_sov(a: &Args) {
    let mut rng = Rng::new(a.seed);
    let mut out = Out::new();
    let pieces = ["lib", "foo", ".so", ".so.", ".", "1", "2", "10", "0", "4294967295", "4294967296", "99999999999", "rc", "é", "ü4", "3é4", "2rc5", "-", "+7", "a1b2", "😀", "7😀8", " ", "", "x.so.1", ".so.1.2.3", "beta"];
    for _ in 0..a.n {
        let n = rng.range(1, 7);
        let mut name = String::new();
        for _ in 0..n { name.push_str(*rng.pick(&pieces[..])); }
        if rng.chance(1, 2) && !name.contains(".so.") { name.push_str(".so."); for _ in 0..rng.range(1, 5) { name.push_str(*rng.pick(&pieces[..])); if rng.chance(1, 2) { name.push('.'); } } }
        if name.contains('/') || name.contains('\0') || name.is_empty() || name == "." || name == ".." { continue; }
        let m = MappingInfo { start_address: 0x1000, size: 0x1000, system_mapping_info: SystemMappingInfo { start_address: 0x1000, end_address: 0x2000 }, offset: 0,
                              permissions: MMPermissions::READ, name: Some(format!("/usr/lib/{name}").into()) };
        let r = quiet_catch(std::panic::AssertUnwindSafe(|| m.get_mapping_effective_path_name_and_version(None).map(|(_, _, v)| v.map(|v| (v.major, v.minor, v.patch, v.prerelease)))));
        let mut l = Line::new("sov"); for c in name.chars() { l.u(c as u64); }
        let mut res = Line::bare();
        match r { Err(_) => { res.u(2); out.count("impl.panic"); } Ok(Err(_)) => { res.0 = "!error".into(); } Ok(Ok(None)) => { res.u(1); out.count("impl.no_version"); }
                  Ok(Ok(Some((a, b, c, d)))) => { res.u(0).u(a as u64).u(b as u64).u(c as u64).u(d as u64); out.count("impl.version"); } }
        out.case(l.s(), res.s(), name.contains(".so."));
    }
    out.finish(&a.out, "file names assembled from version-like pieces (digits at the u32 boundary, rc / alphanumeric components, non-ASCII letters next to digits, emoji, blanks) through MappingInfo::get_mapping_effective_path_name_and_version(None); version quadruple vs the model; non-trivial = the name contains '.so.'");
}

struct RootFile(String);
impl Drop for RootFile { fn drop(&mut self) { let _ = std::fs::remove_file(&self.0); } }

pub fn run_hostile(a: &Args) {
    let mut rng = Rng::new(a.seed ^ 0x02);
    let mut out = Out::new();
    let work = format!("{}/tmp", a.out);
    let absdir = std::fs::canonicalize(&a.out).map(|p| p.to_string_lossy().into_owned()).unwrap_or(a.out.clone());
    for case in 0..a.n {
        // ---- world
        let kind = case % 6;
        let mut threads = vec![ThreadSpec { kind: Kind::Block, sp_off: *rng.pick(&[0u32, 8, 4088, 4095, 2047]), pages: 2, name: Some(b"h0".to_vec()), at: None }];
        let mut lines: Vec<String> = vec!["anon 3 rwx 1".into(), "anon 300 --- 0".into(), "anon 2 rw- 1".into()];
        let mut k2: Option<RootFile> = None;
        let mut dev_files: Vec<String> = Vec::new(); let mut dev_fifo: Option<String> = None;
        match kind {
            1 => { // threads whose stack pointer has unusual values
                for addr in [0x7fff_ffff_e000u64 - 8, 0x10000, 0x7_0000_0000 + rng.below(4096)] { if rng.chance(2, 3) { threads.push(ThreadSpec { kind: Kind::Block, sp_off: 0, pages: 2, name: Some(b"odd".to_vec()), at: Some(addr) }); } }
                threads.push(ThreadSpec { kind: Kind::NullSp, sp_off: 0, pages: 2, name: None, at: None });
            }
            2 => { // corrupted ELF images mapped executable
                {   // a position-independent copy of the small fixture whose dynamic array is hostile at a boundary:
                    // DT_SONAME offset equal to / one below / one above the string-table size, or DT_STRSZ zero
                    let mut img = crate::tiny::TINY_ELF.to_vec();
                    for i in 0..3 { let o = 0x40 + 56 * i; let off: [u8; 8] = img[o + 8..o + 16].try_into().unwrap(); img[o + 16..o + 24].copy_from_slice(&off); img[o + 24..o + 32].copy_from_slice(&off); }
                    let (slot, v) = *rng.pick(&[(0x2bd + 8, 0xdu64), (0x2bd + 8, 0xc), (0x2bd + 8, 0xe), (0x2bd + 40, 0), (0x2bd + 8, u64::MAX)]);
                    let (slot, v) = if case < 6 { (0x2bd + 8, 0xd) } else { (slot, v) };
                    img[slot..slot + 8].copy_from_slice(&v.to_le_bytes());
                    let p = format!("{absdir}/c02-{}-{case}-dyn.so", std::process::id());
                    let _ = std::fs::write(&p, &img);
                    let hex: String = p.bytes().map(|b| format!("{b:02x}")).collect(); lines.push(format!("filex {hex} 0 1 r-x"));
                }
                {   // ... and a library without program headers whose dynamic section ends without the terminating entry
                    let mut img = synth_so(&(0..64).map(|_| rng.next() as u8).collect::<Vec<u8>>(), Some(&[5u8; 20]), Some("libnonull.so"));
                    let pat: Vec<u8> = [0u64, 0u64].iter().flat_map(|v| v.to_le_bytes()).collect();
                    // the dynamic entries are (14,1) (5,0) (10,len) (0,0): turn the terminator into one more ordinary entry and drop DT_SONAME
                    if let Some(pos) = img.windows(16).position(|w| w == &pat[..] ).filter(|p| *p >= 48) {
                        let start = pos - 48; if img[start..start + 8] == 14u64.to_le_bytes() { img[start..start + 8].copy_from_slice(&1u64.to_le_bytes()); img[pos..pos + 8].copy_from_slice(&1u64.to_le_bytes()); } }
                    let p = format!("{absdir}/c02-{}-{case}-nonull.so", std::process::id());
                    let _ = std::fs::write(&p, &img);
                    let hex: String = p.bytes().map(|b| format!("{b:02x}")).collect(); lines.push(format!("filex {hex} 0 1 r-x"));
                }
                for j in 0..3 {
                    let mut img = synth_so(&(0..64).map(|_| rng.next() as u8).collect::<Vec<u8>>(), Some(&[7u8; 20]), Some("libc02.so"));
                    for _ in 0..rng.range(1, 4) { let w = *rng.pick(&[1usize, 2, 4, 8]); let off = (rng.below(img.len() as u64 - 8) as usize / w) * w; let v = *rng.pick(&[0u64, 1, u64::MAX, u64::MAX - 7, 0x7fff_ffff_ffff_ffff, img.len() as u64, 0x1000]); img[off..off + w].copy_from_slice(&v.to_le_bytes()[..w]); }
                    if rng.chance(1, 4) { let n = rng.range(16, img.len() as u64) as usize; img.truncate(n); }
                    let p = format!("{absdir}/c02-{}-{case}-{j}.so.{}", std::process::id(), rng.pick(&["1", "2é3", "1.2.3é4", "x"]));
                    let _ = std::fs::write(&p, &img);
                    let hex: String = p.bytes().map(|b| format!("{b:02x}")).collect(); lines.push(format!("filex {hex} 0 1 r-x"));
                }
            }
            // the first two worlds of this kind are fixed: a CYCLIC list and a list cut by the end of its mapping, reached through
            // well-formed auxiliary values (the walk itself has to end)
            4 => { lines.push("anonat 0 1 rwx".into()); }   // the zero page is mapped (a privileged or legacy target)
            3 => { lines.push(format!("chain {} {}", rng.range(1, 6), if case == 3 { 1 } else if case == 9 { 2 } else { rng.range(0, 2) })); }
            5 if case == 5 => { // K2: a mapped file whose path starts with /SYSV (procfs-core slices path[5..13])
                let p = "/SYSVab".to_string();
                if std::fs::write(&p, vec![0u8; 4096]).is_ok() { k2 = Some(RootFile(p.clone())); let hex: String = p.bytes().map(|b| format!("{b:02x}")).collect(); lines.push(format!("filex {hex} 0 1 r--")); }
            }
            0 => { // mapped files under /dev: a well-formed library with a build id and no SONAME (the name lookup would
                   // want the file), and a FIFO named by a caller-supplied mapping (opening it blocks for ever)
                let p = format!("/dev/shm/mdw-c02-{}-{case}.so", std::process::id());
                let img = synth_so(&(0..64).map(|_| rng.next() as u8).collect::<Vec<u8>>(), Some(&[9u8; 20]), None);
                if std::fs::write(&p, &img).is_ok() { let hex: String = p.bytes().map(|b| format!("{b:02x}")).collect(); lines.push(format!("filex {hex} 0 1 r-x")); dev_files.push(p); }
                let f = format!("/dev/shm/mdw-c02-fifo-{}-{case}", std::process::id());
                let cf = std::ffi::CString::new(f.clone()).unwrap();
                if unsafe { libc::mkfifo(cf.as_ptr(), 0o600) } == 0 { dev_fifo = Some(f.clone()); dev_files.push(f); }
            }
            _ => {}
        }
        let scen = Scenario { threads, lines };
        let target = match Target::spawn(&scen, &work) { Ok(t) => t, Err(e) => { out.notes.push(format!("spawn failed: {e}")); continue; } };
        // ---- configuration
        let anon0 = target.fact_hex("anon0"); let guard = target.fact_hex("anon1"); let chain = target.fact_hex("chain");
        let blamed = if rng.chance(1, 3) && !target.tids.is_empty() { target.tids[0] } else { target.pid };
        // a blamed thread id the caller got wrong: none, negative, of another process, absurd
        let blamed = match case % 8 { 2 => 0, 4 => -1, 6 => 1, 7 => i32::MAX, _ => blamed };
        let regs: Vec<(u64, u64)> = vec![(u64::MAX - 7, u64::MAX), (0, 0), (guard + 0x80000, anon0 + 5), (guard + 299 * 4096 + 7, guard), (rng.next(), rng.next()), (anon0 + 3 * 4096 - 1, anon0 + 3 * 4096 - 1), (1, u64::MAX - 127), (0x8000_0000_0000_0000, 0xffff_ffff_ff60_0000), (0xffff_ffff_ff60_0800, 0xffff_ffff_ff60_0ff8), (0xffff_ffff_ff60_0ff8, 0x7fff_ffff_f000), (0x7fff_ffff_ffff, 0x7fff_ffff_ffff), (0xffff_ffff_ffff_f000, 0xffff_ffff_ff60_1000)];
        let (sp, ip) = if kind == 4 { (0x800u64, *rng.pick(&[0x10u64, 0, 127, 128, 4095])) } else { *rng.pick(&regs) };
        let use_crash = kind != 1 || rng.chance(1, 2);
        let (limit, sanitize, skip) = (rng.chance(1, 3), rng.chance(1, 2), rng.chance(1, 3));
        let direct = match kind { 3 if case == 3 || case == 9 => Some(DirectAuxvDumpInfo { program_header_count: 2, program_header_address: chain, linux_gate_address: 0, entry_address: 0 }),
                                  3 => Some(DirectAuxvDumpInfo { program_header_count: *rng.pick(&[2u64, 0, 1, 100000, u64::MAX, u64::MAX / 56 + 1]), program_header_address: *rng.pick(&[chain, chain + 1, chain + 8192 - 40, 0x10, u64::MAX - 8]), linux_gate_address: *rng.pick(&[0u64, 1, u64::MAX]), entry_address: *rng.pick(&[0u64, u64::MAX, anon0]) }),
                                  4 => Some(DirectAuxvDumpInfo { program_header_count: rng.next(), program_header_address: rng.next(), linux_gate_address: rng.next(), entry_address: rng.next() }), _ => None };
        // the caller's stop timeout at its extremes: "wait for ever" (the largest duration) and "do not wait"
        let stop_to = match case % 7 { 3 => Some(std::time::Duration::MAX), 5 => Some(std::time::Duration::from_nanos(1)), 6 if case % 2 == 0 => Some(std::time::Duration::ZERO), _ => None };
        let desc = format!("kind {kind} crash {use_crash} sp {sp:x} ip {ip:x} limit {limit} sanitize {sanitize} skip {skip} direct {direct:?} stop_timeout {stop_to:?}");
        let ino = unsafe { libc::inotify_init1(libc::IN_NONBLOCK) };
        for p in &dev_files { let c = std::ffi::CString::new(p.clone()).unwrap(); unsafe { libc::inotify_add_watch(ino, c.as_ptr(), libc::IN_OPEN | libc::IN_ACCESS); } }
        let fifo2 = dev_fifo.clone();
        let (pid, d2) = (target.pid, direct.clone());
        let mut crash_rng = Rng::new(rng.next());
        let r = run_forked(8000, move || {
            let mut w = MinidumpWriter::new(pid, blamed);
            if use_crash { let mut cc = gen_crash_context(&mut crash_rng, blamed); cc.inner.context.uc_mcontext.gregs[libc::REG_RSP as usize] = sp as i64; cc.inner.context.uc_mcontext.gregs[libc::REG_RIP as usize] = ip as i64; w.set_crash_context(cc); }
            if limit { w.set_minidump_size_limit(1); } if sanitize { w.sanitize_stack(); }
            if skip { w.skip_stacks_if_mapping_unreferenced(); w.set_principal_mapping_address(ip as usize); }
            if let Some(d) = d2 { w.set_direct_auxv_dump_info(d); }
            if let Some(t) = stop_to { w.stop_timeout(t); }
            // application regions the caller got wrong: at the very top of the address space, of absurd length, empty, across a mapping end
            if case % 5 == 2 { w.set_app_memory(vec![minidump_writer::app_memory::AppMemory { ptr: usize::MAX - 3, length: 16 }]); }
            if case % 5 == 4 { w.set_app_memory(vec![minidump_writer::app_memory::AppMemory { ptr: anon0 as usize, length: 0 }, minidump_writer::app_memory::AppMemory { ptr: anon0 as usize + 3 * 4096 - 8, length: 1 << 46 }]); }
            if case % 6 == 1 {
                use minidump_writer::maps_reader::{MappingEntry, MappingInfo, SystemMappingInfo};
                // caller-supplied mappings with extents the caller got wrong: reaching beyond the top of the address space, empty
                w.set_user_mapping_list(vec![
                    MappingEntry { mapping: MappingInfo { start_address: 0xffff_ffff_ff60_0000, size: usize::MAX / 2, system_mapping_info: SystemMappingInfo { start_address: 0xffff_ffff_ff60_0000, end_address: usize::MAX }, offset: 0,
                        permissions: procfs_core::process::MMPermissions::READ, name: Some("/wrong/extent.so".into()) }, identifier: vec![1; 20] },
                    MappingEntry { mapping: MappingInfo { start_address: 0x1000, size: usize::MAX, system_mapping_info: SystemMappingInfo { start_address: 0x1000, end_address: 0x1000 }, offset: 0,
                        permissions: procfs_core::process::MMPermissions::READ, name: None }, identifier: vec![] }]);
            }
            if let Some(f) = &fifo2 {
                use minidump_writer::maps_reader::{MappingEntry, MappingInfo, SystemMappingInfo};
                w.set_user_mapping_list(vec![MappingEntry { mapping: MappingInfo { start_address: 0x1000_0000, size: 0x1000, system_mapping_info: SystemMappingInfo { start_address: 0x1000_0000, end_address: 0x1000_1000 }, offset: 0,
                    permissions: procfs_core::process::MMPermissions::READ | procfs_core::process::MMPermissions::EXECUTE, name: Some(f.into()) }, identifier: vec![1, 2, 3, 4, 5, 6, 7, 8, 9, 10, 11, 12, 13, 14, 15, 16] }]);
            }
            let mut dest = std::io::Cursor::new(Vec::new());
            match quiet_catch(std::panic::AssertUnwindSafe(|| w.dump(&mut dest).map(|_| ()).map_err(|e| format!("{e:?}")))) {
                Ok(Ok(())) => "OK".into(), Ok(Err(e)) => format!("ERR {}", e.replace('\n', " ").chars().take(200).collect::<String>()), Err(p) => format!("PANIC {p}") }
        });
        unsafe { libc::kill(target.pid, libc::SIGCONT); }
        drop(k2);
        let _ = std::fs::remove_file(format!("{absdir}/c02-{}-{case}-dyn.so", std::process::id()));
        let _ = std::fs::remove_file(format!("{absdir}/c02-{}-{case}-nonull.so", std::process::id()));
        for j in 0..3 { for suf in ["1", "2é3", "1.2.3é4", "x"] { let _ = std::fs::remove_file(format!("{absdir}/c02-{}-{case}-{j}.so.{suf}", std::process::id())); } }
        let mut l = Line::new("const"); l.u(case).u(0);
        let mut res = Line::bare();
        match &r { Ok(s) if s.starts_with("OK") => { res.u(case).u(0); out.count("outcome.ok"); }
                   Ok(s) if s.starts_with("ERR") => { res.u(case).u(0); out.count("outcome.error_value"); }
                   Ok(s) => { res.0 = format!("!{} [{desc}]", s.chars().take(300).collect::<String>()); out.count("outcome.panic"); }
                   Err(e) => { res.0 = format!("!dump did not return: {e} [{desc}]"); out.count("outcome.watchdog"); } }
        out.count(&format!("world.kind{kind}"));
        out.case(l.s(), res.s(), true);
        // mapped files under /dev were never opened
        if !dev_files.is_empty() {
            let mut evbuf = [0u8; 4096]; let nread = unsafe { libc::read(ino, evbuf.as_mut_ptr() as *mut libc::c_void, evbuf.len()) };
            let mut l = Line::new("const"); l.u(case).u(1); let mut r2 = Line::bare();
            if nread > 0 { r2.0 = format!("!the writer opened a mapped file under /dev ({dev_files:?}) [{desc}]"); } else { r2.u(case).u(1); }
            out.case(l.s(), r2.s(), true); out.count("dev.files_watched");
        }
        unsafe { libc::close(ino); }
        for p in &dev_files { let _ = std::fs::remove_file(p); }
    }
    out.assumptions.push("bounded time is observed with an 8 s watchdog around each dump (run in a forked child); panics inside dependencies count as panics of the dump".into());
    out.finish(&a.out, "hostile worlds, each dumped in a forked child under a watchdog: crash-context stack/instruction pointers at 2^64-8, 0, inside a 300-page permissionless region, at mapping ends, random, in [vsyscall]; threads with stack pointers at odd addresses and null-SP helpers; executable mappings of corrupted ELF images with version-like / non-ASCII names; synthetic linker chains (cyclic, cut) with hostile direct-auxv values (AT_PHNUM 0 / 100000 / 2^64-1, AT_PHDR misaligned / unmapped / near 2^64); random direct auxv; size limit / sanitize / skip-unreferenced mixes; stop timeouts at the extremes (largest duration, one nanosecond, zero); application regions at the top of the address space / empty / of absurd length; one world maps a file named /SYSVab (recorded finding K2). Required: the dump returns a value");
}
