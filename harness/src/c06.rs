//! C06 (pure half): public `PtraceDumper::get_stack_info` on generated mapping lists.
use crate::common::*;
use crate::c12::{mapping_info, M};
use crate::proc::*;

pub fn run(a: &Args) {
    let mut rng = Rng::new(a.seed);
    let mut out = Out::new();
    let child = Sleeper::spawn();
    let mut dumper = dumper_for(child.pid());
    for _ in 0..a.n {
        // a list of mappings with gaps, guard (permissionless) regions and plausible stacks
        let top = rng.chance(1, 8);
        let mut addr: u64 = if top { u64::MAX - 0x1000 * (2 + rng.below(600)) + 1 } else { *rng.pick(&[0x10000u64, 0x7ffc_0000_0000, 0x7f00_0000_0000]) };
        addr &= !0xfff;
        let n = rng.below(7) as usize;
        let mut layout: Vec<M> = Vec::new();
        for _ in 0..n {
            let gap = match rng.below(5) { 0 => 0, 1 => 0x1000, 2 => 0x1000 * rng.below(300), 3 => 0x100000, _ => 0x1000 * rng.below(4) };
            addr = match addr.checked_add(gap) { Some(x) => x, None => break };
            let pages = match rng.below(5) { 0 => 1, 1 => 2, 2 => 256, 3 => 300, _ => 1 + rng.below(33) };
            let size = 0x1000 * pages;
            if addr.checked_add(size).is_none() { break; }
            let readable = rng.chance(2, 3);
            let tail_gap = if rng.chance(1, 5) && pages > 1 { 0x1000 * (1 + rng.below(pages - 1)) } else { 0 };
            layout.push(M { start: addr, size, sys_start: addr, sys_end: addr + size - tail_gap, exec: rng.chance(1, 4), readable });
            addr += size;
        }
        // stack pointer: inside a mapping (any in-page offset), in a gap below a mapping, far below, or at the top of the space
        let sp: u64 = if !layout.is_empty() && rng.chance(4, 5) {
            let m = rng.pick(&layout);
            let inpage = *rng.pick(&[0u64, 8, 2040, 2047, 2048, 2056, 4088, 4095]) ;
            match rng.below(6) {
                0 => m.start + inpage.min(m.size - 1),
                1 => m.start + m.size - 0x1000 + inpage,
                2 => m.start.wrapping_sub(0x1000 * (1 + rng.below(4))) + inpage,
                3 => m.start.wrapping_sub(0x100000 + 0x1000 * rng.below(3)) + inpage,
                4 => m.sys_end + (inpage % 0x1000).min(m.start + m.size - m.sys_end),
                _ => m.start + (rng.below(m.size) & !7),
            }
        } else { *rng.pick(&[u64::MAX - 7, u64::MAX, u64::MAX - 4095, u64::MAX - 0x100000, 0, 8, 0x8000_0000_0000_0000]) };
        dumper.mappings = layout.iter().map(mapping_info).collect();
        let r = quiet_catch(std::panic::AssertUnwindSafe(|| dumper.get_stack_info(sp as usize)));
        let mut line = Line::new("c06"); line.u(sp).z(layout.len());
        for m in &layout { line.u(m.start).u(m.size).u(m.sys_start).u(m.sys_end).b(m.readable || m.exec); }
        let mut res = Line::bare();
        let class = match &r {
            Ok(Ok((v, len))) => { res.u(0).z(*v).z(*len); if *v as u64 <= sp && sp < *v as u64 + *len as u64 { "contains_sp" } else { "above_sp" } }
            Ok(Err(_)) => { res.u(1); "no_region" }
            Err(_) => { res.u(2); "panic" }
        };
        out.count(&format!("result.{class}"));
        out.count(&format!("sp.{}", if sp > u64::MAX - 0x200000 { "top_of_space" } else { "ordinary" }));
        out.case(line.s(), res.s(), !layout.is_empty());
    }
    out.assumptions.push("page size 4096 (x86-64); permissions enter only through 'readable or writable'".into());
    out.finish(&a.out, "get_stack_info on generated mapping lists (0..6 mappings, gaps, permissionless guard regions up to and beyond 1 MiB, reserved tails, lists ending at the top of the address space) and stack pointers at in-page offsets {0,8,2040,2047,2048,2056,4088,4095}, in gaps, far below, at 2^64-8; non-trivial = non-empty mapping list");
}
