//! C12: public `sanitize_stack_copy` on a dumper whose public `mappings` field is overwritten with
//! generated layouts.
use crate::common::*;
use crate::proc::*;
use minidump_writer::maps_reader::{MappingInfo, SystemMappingInfo};
use procfs_core::process::MMPermissions;

pub struct M { pub start: u64, pub size: u64, pub sys_start: u64, pub sys_end: u64, pub exec: bool, pub readable: bool }
pub fn mapping_info(m: &M) -> MappingInfo {
    let mut p = MMPermissions::PRIVATE;
    if m.readable { p |= MMPermissions::READ | MMPermissions::WRITE; }
    if m.exec { p |= MMPermissions::EXECUTE | MMPermissions::READ; }
    MappingInfo { start_address: m.start as usize, size: m.size as usize,
        system_mapping_info: SystemMappingInfo { start_address: m.sys_start as usize, end_address: m.sys_end as usize },
        offset: 0, permissions: p, name: None }
}

/// sorted, disjoint layout; kernel extent = a prefix of the mapping extent (as aggregation produces)
pub fn gen_layout(rng: &mut Rng) -> Vec<M> {
    let n = match rng.below(6) { 0 => 0, 1 => 1, _ => rng.below(40) } as usize;
    let mut addr: u64 = *rng.pick(&[0x1000u64, 0x10000, 0x5555_5000_0000, 0x7f00_0000_0000, 0xffff_f000, 0x1_0000_0000 - 0x200000, 0x0080_0000_0000_0000]);
    let mut v = Vec::new();
    for _ in 0..n {
        addr += match rng.below(5) { 0 => 0, 1 => 0x1000, 2 => 0x200000 * rng.below(3), 3 => rng.below(1 << 34) & !0xfff, _ => 0x1000 * rng.below(64) };
        let size = match rng.below(7) { 0 => 0x1000, 1 => 0x200000, 2 => 0x200000 - 0x1000, 3 => 1u64 << 32, 4 => (1u64 << 32) + 0x200000, 5 => 1u64 << 36, _ => 0x1000 * (1 + rng.below(0x400)) };
        let tail_gap = if rng.chance(1, 4) { 0x1000 * (1 + rng.below((size / 0x1000).min(8))) } else { 0 };
        let sys_end = addr + size - tail_gap.min(size - 0x1000);
        v.push(M { start: addr, size, sys_start: addr, sys_end, exec: rng.chance(1, 2), readable: rng.chance(3, 4) });
        addr += size;
        if addr > (1u64 << 47) { break; }
    }
    // the legacy [vsyscall] page, as /proc/<pid>/maps lists it on x86-64: an executable mapping in the upper half of the address space
    if rng.chance(1, 3) && v.last().map(|m| m.start + m.size <= 0xffff_ffff_ff60_0000).unwrap_or(true) { v.push(M { start: 0xffff_ffff_ff60_0000, size: 0x1000, sys_start: 0xffff_ffff_ff60_0000, sys_end: 0xffff_ffff_ff60_1000, exec: true, readable: false }); }
    if v.len() > 1 && rng.chance(1, 3) { let k = rng.below(v.len() as u64) as usize; v.swap(0, k); } // entry-point swap
    v
}

pub fn run(a: &Args) {
    let mut rng = Rng::new(a.seed);
    let mut out = Out::new();
    let child = Sleeper::spawn();
    let mut dumper = dumper_for(child.pid());
    for _ in 0..a.n {
        let layout = gen_layout(&mut rng);
        let len = match rng.below(8) { 0 => 0, 1 => rng.below(8), 2 => 8 * rng.below(6) + rng.below(8), _ => rng.below(if a.tier == "thorough" { 4096 } else { 512 }) } as usize;
        // candidate words: boundaries of every mapping, small integers and their negatives, random
        let mut cand: Vec<u64> = vec![0, 1, 4095, 4096, 4097, u64::MAX, (-4096i64) as u64, (-4097i64) as u64, (-4095i64) as u64, 1 << 63, (1 << 63) - 1, 0x0defaced0defaced];
        for m in &layout {
            for b in [m.start, m.sys_end, m.start + m.size] { for d in [-1i64, 0, 1, 8] { cand.push(b.wrapping_add(d as u64)); } }
            cand.push(m.start + m.size / 2);
            cand.push(m.start.wrapping_add(1 << 32)); cand.push(m.start.wrapping_sub(1 << 32)); // aliases under the 2^11-bit filter
            cand.push((m.start & !0x1fffff).wrapping_add(0x200000 * 2048));
        }
        let mut stack = vec![0u8; len];
        let mut i = 0;
        while i + 8 <= len {
            let w = if rng.chance(4, 5) { *rng.pick(&cand) } else { rng.next() };
            stack[i..i + 8].copy_from_slice(&w.to_le_bytes()); i += 8;
        }
        for j in i..len { stack[j] = rng.next() as u8; }
        if rng.chance(1, 6) { for b in stack.iter_mut() { *b = rng.next() as u8; } } // unaligned noise
        let sp_off = match rng.below(6) { 0 => 0, 1 => len + rng.below(20) as usize, 2 => len, 3 => len.saturating_sub(rng.below(9) as usize), _ => rng.below(len as u64 + 1) as usize };
        // the stack pointer handed to the sanitiser: inside some mapping's kernel extent, in a trailing gap, or nowhere
        let sp = if !layout.is_empty() && rng.chance(3, 4) { let m = rng.pick(&layout); match rng.below(3) { 0 => m.sys_start, 1 => m.sys_end - 8, _ => m.sys_end } } else { rng.next() >> 17 };
        dumper.mappings = layout.iter().map(mapping_info).collect();
        let mut copy = stack.clone();
        let r = quiet_catch(std::panic::AssertUnwindSafe(|| dumper.sanitize_stack_copy(&mut copy, sp as usize, sp_off).is_ok()));
        let mut line = Line::new("c12");
        line.u(sp).z(sp_off).z(layout.len());
        for m in &layout { line.u(m.start).u(m.size).u(m.sys_start).u(m.sys_end).b(m.exec); }
        line.vec(&stack);
        let mut res = Line::bare();
        match r { Ok(true) => { res.u(0).bytes(&copy); } Ok(false) => { res.u(1); } Err(_) => { res.u(2); } }
        let words = len.saturating_sub((sp_off + 7) & !7) / 8;
        let defaced = copy.chunks_exact(8).filter(|c| *c == 0x0defaced0defacedu64.to_le_bytes()).count();
        let kept_ptr = stack.chunks_exact(8).zip(copy.chunks_exact(8)).filter(|(a, b)| a == b && u64::from_le_bytes((*a).try_into().unwrap()).wrapping_add(4096) > 8192).count();
        out.count(&format!("maps.{}", match layout.len() { 0 => "0", 1 => "1", 2..=9 => "2-9", _ => "10+" }));
        out.count(&format!("offset.{}", if sp_off > len { "beyond_copy" } else if sp_off == len { "at_end" } else { "inside" }));
        out.count(&format!("len.{}", if len % 8 == 0 { "aligned" } else { "partial_tail" }));
        out.case(line.s(), res.s(), words > 0 && defaced > 0 && kept_ptr > 0);
    }
    out.assumptions.push("generated layouts are sorted and disjoint with the kernel extent a prefix of the mapping extent (what aggregation produces, C13), optionally with the entry-point swap".into());
    out.finish(&a.out, "sanitize_stack_copy on generated mapping layouts (0..40 mappings, sizes 1 page..2^36, bucket-straddling, 2^32 aliases), stacks 0..4 KiB, words drawn from mapping boundaries +-1, small integers +-1 and their negatives, random; offsets inside / at / beyond the copy; non-trivial = at least one word replaced by the sentinel and one pointer kept");
}
