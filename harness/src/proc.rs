//! Helper: a throw-away child process and a `PtraceDumper` built for it (several public methods
//! of the dumper can only be reached through an instance).
use minidump_writer::ptrace_dumper::PtraceDumper;
use std::os::unix::process::CommandExt;
use std::process::{Child, Command, Stdio};

pub struct Sleeper(pub Child);
impl Sleeper {
    pub fn spawn() -> Self {
        let mut c = Command::new("sleep");
        c.arg("100000").stdin(Stdio::null()).stdout(Stdio::null()).stderr(Stdio::null());
        unsafe { c.pre_exec(|| { libc::prctl(libc::PR_SET_PDEATHSIG, libc::SIGKILL); Ok(()) }); }
        Sleeper(c.spawn().expect("spawn sleep"))
    }
    pub fn pid(&self) -> i32 { self.0.id() as i32 }
}
impl Drop for Sleeper { fn drop(&mut self) { let _ = self.0.kill(); let _ = self.0.wait(); } }

pub fn dumper_for(pid: i32) -> PtraceDumper {
    PtraceDumper::new_report_soft_errors(pid, std::time::Duration::from_millis(100), Default::default(), error_graph::strategy::DontCare)
        .expect("PtraceDumper::new")
}
