//! C11 (live): every subset of the five fail points, plus natural failures, on live targets:
//! the dump must succeed, the soft-error JSON must reduce to the model's tag tree, and every stream
//! not owned by a failed step must equal the no-fault dump of the same target.
use crate::common::*;
use crate::live::*;
use crate::md;
use minidump_writer::minidump_writer::{DirectAuxvDumpInfo, MinidumpWriter};
use minidump_writer::FailSpotName;

fn tag_id(s: &str) -> Option<u64> {
    Some(match s {
        "InitErrors" => 1, "StopProcessFailed" => 2, "FillMissingAuxvInfoErrors" => 3, "InvalidFormat" => 4, "EnumerateThreadsErrors" => 5,
        "ReadThreadNameFailed" => 6, "SuspendThreadsErrors" => 7, "PtraceAttachError" => 8, "DetachSkippedThread" => 9, "SuspendNoThreadsLeft" => 10,
        "PrincipalMappingNotReferenced" => 11, "WriteSystemInfoErrors" => 12, "WriteCpuInformationFailed" => 13, "WriteCpuInfoFailed" => 14,
        "WriteThreadProcStatusFailed" => 15, "WriteOsReleaseInfoFailed" => 16, "WriteCommandLineFailed" => 17, "WriteEnvironmentFailed" => 18,
        "WriteAuxvFailed" => 19, "WriteMapsFailed" => 20, "WriteDSODebugStreamFailed" => 21, "WriteLimitsFailed" => 22, "WriteHandleDataStreamFailed" => 23,
        "ResumeThreadsErrors" => 24, "FillMissingAuxvInfoFailed" => 25, "EnumerateThreadsFailed" => 26, "EnumerateMappingsFailed" => 27, "WaitPidError" => 28,
        "PtraceDetachError" => 29, _ => return None })
}
struct T(u64, Vec<T>);
fn reduce(v: &serde_json::Value) -> Vec<T> {
    match v {
        serde_json::Value::Array(a) => a.iter().flat_map(reduce).collect(),
        serde_json::Value::Object(m) => m.iter().flat_map(|(k, val)| match tag_id(k) { Some(t) => vec![T(t, reduce(val))], None => reduce(val) }).collect(),
        serde_json::Value::String(s) => tag_id(s).map(|t| vec![T(t, vec![])]).unwrap_or_default(),
        _ => vec![],
    }
}
fn enc(t: &T, l: &mut Line) { l.u(t.0).z(t.1.len()); for c in &t.1 { enc(c, l); } }

/// canonical text of everything a dump says, without offsets; `skip` = streams owned by a failed step
fn summary(img: &[u8], skip_names: bool, skip_cpu: bool, skip_ctx: bool) -> Result<String, String> {
    use std::fmt::Write as _;
    let d = md::Dump::parse(img)?;
    let mut s = String::new();
    writeln!(s, "header {:x} {:x} {}", d.signature, d.version & 0xffff, d.stream_count).unwrap();
    let mut types: Vec<u32> = d.streams.keys().cloned().collect(); types.sort();
    for t in &types { if skip_names && *t == md::THREAD_NAMES { continue; } writeln!(s, "stream {t:x}").unwrap(); }
    for t in d.threads(img)? {
        let ctx = img.get(t.ctx.rva as usize..t.ctx.rva as usize + t.ctx.size as usize).ok_or("ctx outside image")?;
        writeln!(s, "thread {} stack {:x}+{:x} ctx {:x}", t.tid, t.stack.start, t.stack.loc.size, if skip_ctx { 0 } else { fnv(&format!("{ctx:?}")) }).unwrap();
    }
    for m in d.memory_list(img)? { let b = img.get(m.loc.rva as usize..m.loc.rva as usize + m.loc.size as usize).ok_or("memory outside image")?; writeln!(s, "mem {:x}+{:x} {:x}", m.start, m.loc.size, fnv(&format!("{b:?}"))).unwrap(); }
    for m in d.modules(img)? { let cv = img.get(m.cv.rva as usize..m.cv.rva as usize + m.cv.size as usize).ok_or("cv outside image")?; writeln!(s, "module {:x}+{:x} {:?} cv {:?} ver {:?}", m.base, m.size, m.name, cv, m.version).unwrap(); }
    if let Some(e) = d.exception(img)? { writeln!(s, "exception tid {} code {:x} flags {:x} addr {:x} ctxsize {}", e.tid, e.code, e.flags, e.address, e.ctx.size).unwrap(); }
    if let Some(si) = d.system_info(img)? {
        writeln!(s, "sysinfo arch {} platform {:x} csd {:?} ver {}.{}.{}", si.arch, si.platform, si.csd, si.major, si.minor, si.build).unwrap();
        if !skip_cpu { writeln!(s, "sysinfo cpu level {} rev {} n {} data {:?}", si.level, si.revision, si.ncpu, si.cpu).unwrap(); }
    }
    for m in d.memory_info(img)? { writeln!(s, "meminfo {:x}+{:x} {:x} {:x}", m.base, m.size, m.prot, m.typ).unwrap(); }
    for h in d.handles(img)? { writeln!(s, "handle {} {:?} {:x}", h.handle, h.object_name, h.granted_access).unwrap(); }
    if let Some(dd) = d.dso_debug(img)? { writeln!(s, "dso {} {:x} {:x}", dd.count, dd.dynamic, fnv(&format!("{:?}", dd.dynamic_bytes))).unwrap(); for m in &dd.maps { writeln!(s, "  linkmap {:x} {:?} {:x}", m.addr, m.name, m.ld).unwrap(); } }
    if !skip_names { for n in d.thread_names(img)? { writeln!(s, "name {} {:?}", n.tid, n.name).unwrap(); } }
    for t in [md::LINUX_CPU_INFO, md::LINUX_LSB_RELEASE, md::LINUX_CMD_LINE, md::LINUX_ENVIRON, md::LINUX_AUXV, md::LINUX_MAPS, md::MOZ_LINUX_LIMITS] {
        if let Some(r) = d.stream(img, t) { let b = r?; if t == md::LINUX_CPU_INFO { writeln!(s, "raw {t:x} present").unwrap(); } else { writeln!(s, "raw {t:x} {:x} {}", fnv(&format!("{b:?}")), b.len()).unwrap(); } }
    }
    Ok(s)
}

pub fn run(a: &Args) {
    let mut rng = Rng::new(a.seed);
    let mut out = Out::new();
    let work = format!("{}/tmp", a.out);
    let os_release_missing = !std::path::Path::new("/etc/lsb-release").exists() && !std::path::Path::new("/etc/os-release").exists();
    let spots = [FailSpotName::StopProcess, FailSpotName::FillMissingAuxvInfo, FailSpotName::ThreadName, FailSpotName::SuspendThreads, FailSpotName::CpuInfoFileOpen];
    let shapes = a.n.max(1);
    for shape in 0..shapes {
        // target shape: threads (some null-SP helpers), natural failures
        // one shape with very many threads: with the thread-name fail point every one of them is a reported failure, and the
        // soft-error stream grows far beyond a few KiB - it must stay complete, well-formed JSON
        let crowd = shape == 2;
        let held_all = shape == 3;
        let nth = if shape == 0 || held_all { 2 } else if crowd { 130 } else { rng.below(6) as usize };
        let threads: Vec<ThreadSpec> = (0..nth).map(|i| ThreadSpec { kind: if !crowd && !held_all && (shape > 0 || i == 1) && rng.chance(1, 3) { Kind::NullSp } else { Kind::Block }, sp_off: 0x800, pages: 2, name: Some(format!("w{i}").into_bytes()), at: None }).collect();
        // the linker stream can fail because its data cannot be read, or because a loaded object's name is not valid UTF-8
        // (a different error value travels into the soft-error list)
        let dso_fails = shape > 0 && (rng.chance(1, 2) || shape == 4 || shape == 5);   // (shapes 4 and 5: fixed - no PT_DYNAMIC / a name that is not UTF-8)
        let dso_bad_name = dso_fails && shape != 4 && (shape == 5 || rng.chance(1, 2));
        // ... or because the program headers the writer is shown are readable but hold no PT_DYNAMIC entry (AT_PHNUM too small,
        // a static executable): that is a failure of the step like any other and must be reported
        let dso_nodyn = dso_fails && !dso_bad_name && (shape == 4 || rng.chance(1, 2));
        let mut lines: Vec<String> = vec!["fd file".into(), "fd pipe".into(), "anon 2 rw- 0".into()];
        if dso_bad_name { lines.push(format!("chain {} 4", rng.range(1, 4))); }
        if dso_nodyn { lines.push("chain 2 0".into()); }
        let scen = Scenario { threads, lines };
        let target = match Target::spawn(&scen, &work) { Ok(t) => t, Err(e) => { out.notes.push(format!("spawn failed: {e}")); continue; } };
        // a natural failure of "stopping the process": the target's main thread is held in a trace stop by another tracer (this
        // harness), so the process never reports the stopped state within the writer's timeout, and that thread cannot be attached
        let held_main = shape == 1;
        if held_main {
            unsafe { libc::ptrace(libc::PTRACE_SEIZE, target.pid, 0, 0); libc::ptrace(libc::PTRACE_INTERRUPT, target.pid, 0, 0); let mut st = 0; libc::waitpid(target.pid, &mut st, libc::__WALL); }
            out.count("shape.main_thread_held_by_another_tracer");
        }
        // ... and the extreme of it: EVERY thread of the target is held by another tracer, so that no thread at all can be
        // attached: the dump must still succeed, with an empty thread list and the failures reported
        if held_all {
            for tid in std::iter::once(target.pid).chain(target.tids.iter().copied()) {
                unsafe { libc::ptrace(libc::PTRACE_SEIZE, tid, 0, 0); libc::ptrace(libc::PTRACE_INTERRUPT, tid, 0, 0); let mut st = 0; libc::waitpid(tid, &mut st, libc::__WALL); }
            }
            out.count("shape.every_thread_held_by_another_tracer");
        }
        let held_main = held_main || held_all;
        let skip_unref = shape > 0 && rng.chance(1, 3);
        let chain_base = target.fact_hex("chain");
        let configure = |w: &mut MinidumpWriter| {
            // (where nothing holds the target, stopping it must not be reported as failed just because the machine is slow: with 130
            // threads the group stop can take longer than the writer's default of 100 ms on a loaded or cold machine)
            if held_main { w.stop_timeout(std::time::Duration::from_millis(40)); } else { w.stop_timeout(std::time::Duration::from_secs(20)); }
            if skip_unref { w.skip_stacks_if_mapping_unreferenced(); }
            if dso_bad_name { w.set_direct_auxv_dump_info(DirectAuxvDumpInfo { program_header_count: 2, program_header_address: chain_base, linux_gate_address: 0, entry_address: 0 }); }
            else if dso_nodyn { w.set_direct_auxv_dump_info(DirectAuxvDumpInfo { program_header_count: 1, program_header_address: chain_base, linux_gate_address: 0, entry_address: 0 }); }
            else if dso_fails { w.set_direct_auxv_dump_info(DirectAuxvDumpInfo { program_header_count: 3, program_header_address: 0x10, linux_gate_address: 0, entry_address: 0 }); }
        };
        // warm-up dump: the first stop interrupts every blocking syscall of the target; from the second stop on
        // the threads are found in the same (restarted-syscall) state, so that dumps are comparable
        { let mut ww = MinidumpWriter::new(target.pid, target.pid); let mut d = std::io::Cursor::new(Vec::new()); let _ = quiet_catch(std::panic::AssertUnwindSafe(|| ww.dump(&mut d).map(|_| ()).map_err(|_| ()))); target.settle(); }
        // baseline: no injected faults
        let mut w0 = MinidumpWriter::new(target.pid, target.pid); configure(&mut w0);
        let mut dest = std::io::Cursor::new(Vec::new());
        let base = quiet_catch(std::panic::AssertUnwindSafe(|| w0.dump(&mut dest).map_err(|e| format!("{e:?}"))));
        let base_img = match base { Ok(Ok(i)) => i, other => { let mut l = Line::new("const"); l.u(0); out.case(l.s(), &format!("!baseline dump failed: {other:?}").replace('\n', " "), true); continue; } };
        let subsets: Vec<u32> = if crowd { vec![4, 31] } else if shape == 0 || a.tier == "thorough" { (0..32).collect() } else { let mut v = vec![0u32, 31]; for _ in 0..6 { v.push(rng.below(32) as u32); } v };
        for mask in subsets {
            target.settle();
            let mut client = FailSpotName::testing_client();
            for (i, s) in spots.iter().enumerate() { client.set_enabled(*s, mask >> i & 1 == 1); }
            let mut w = MinidumpWriter::new(target.pid, target.pid); configure(&mut w);
            let mut dest = std::io::Cursor::new(Vec::new());
            let (res, world, _) = with_hooks(target.pid, target.pid, true, None, || quiet_catch(std::panic::AssertUnwindSafe(|| w.dump(&mut dest).map_err(|e| format!("{e:?}")))));
            for s in spots.iter() { client.set_enabled(*s, false); }
            drop(client);
            out.count(&format!("failpoints.{}", mask.count_ones()));
            let Some(world) = world else { continue };
            // model input
            let mut line = Line::new("c11_tree");
            for i in 0..5 { line.b(mask >> i & 1 == 1 || (i == 0 && held_main)); }
            line.b(skip_unref).b(os_release_missing).b(dso_fails).z(world.threads.len());
            for t in &world.threads {
                let idx = target.tids.iter().position(|x| *x == t.tid);
                let nullsp = idx.map(|i| scen.threads[i].kind == Kind::NullSp).unwrap_or(false);
                line.u(if nullsp { 1 } else if held_all || (held_main && t.tid == target.pid) { 2 } else { 0 });
            }
            let mut r = Line::bare();
            let img = match res { Ok(Ok(i)) => i, Ok(Err(e)) => { out.case(line.s(), &format!("!dump failed under fail points {mask:05b}: {}", e.replace('\n', " ").chars().take(200).collect::<String>()), true); continue; }
                                  Err(p) => { out.case(line.s(), &format!("!dump panicked under fail points {mask:05b}: {p}"), true); continue; } };
            let d = md::Dump::parse(&img);
            match d.as_ref().ok().and_then(|d| d.stream(&img, md::MOZ_SOFT_ERRORS)) {
                None => { r.0 = "!soft-error stream absent".into(); }
                Some(Err(e)) => { r.0 = format!("!{e}"); }
                Some(Ok(bytes)) => match serde_json::from_slice::<serde_json::Value>(bytes) {
                    Err(e) => { r.0 = format!("!soft-error stream is not well-formed JSON: {e}"); }
                    Ok(v) if !v.is_array() => { r.0 = "!soft-error stream is not a JSON list".into(); }
                    Ok(v) => { let f = reduce(&v); r.z(f.len()); for t in &f { enc(t, &mut r); } }
                } }
            out.case(line.s(), r.s(), mask != 0);
            // all other streams intact
            let skip_names = mask >> 2 & 1 == 1; let skip_cpu = mask >> 4 & 1 == 1;
            // (with 130 threads the target is not reliably back in the same register state between two dumps when the machine is loaded: the
            // register contents - C04's business - are left out of the comparison on that shape; ids, stacks and everything else stay in)
            let (sa, sb) = (summary(&base_img, skip_names, skip_cpu, crowd), summary(&img, skip_names, skip_cpu, crowd));
            let mut l = Line::new("const"); l.u(mask as u64).u(1);
            let mut r = Line::bare();
            match (sa, sb) {
                (Ok(x), Ok(y)) if x == y => { r.u(mask as u64).u(1); }
                (Ok(x), Ok(y)) => { let diff: Vec<String> = x.lines().zip(y.lines()).filter(|(p, q)| p != q).take(3).map(|(p, q)| format!("[{p}] vs [{q}]")).collect();
                                    r.0 = format!("!streams differ from the no-fault dump under fail points {mask:05b}: {} (lines {} vs {})", diff.join("; "), x.lines().count(), y.lines().count()); }
                (x, y) => { r.0 = format!("!undecodable: {:?} {:?}", x.err(), y.err()); }
            }
            out.case(l.s(), r.s(), mask != 0);
        }
        if held_all { for tid in target.tids.iter() { unsafe { libc::ptrace(libc::PTRACE_DETACH, *tid, 0, 0); } } }
        if held_main { unsafe { libc::ptrace(libc::PTRACE_DETACH, target.pid, 0, 0); } }
    }
    out.assumptions.push("JSON well-formedness is observed by parsing with serde_json; tag numbering is shared between harness/src/c11.rs and SoftErr.v".into());
    out.finish(&a.out, "live targets (0..5 extra threads, null-SP helpers, optional skip-unreferenced without principal mapping, optional unreadable linker data through direct auxv; one shape whose main thread is held in a trace stop by another tracer, so that stopping the process times out; one shape in which EVERY thread is held so that none can be attached) x fail-point subsets (all 32 on the first shape, a sample on the others; all 32 on every shape in the thorough tier): dump must succeed, the soft-error JSON reduced to variant tags must equal the model's tree, every stream not owned by a failed step must equal the no-fault dump of the same target; non-trivial = at least one fail point enabled");
}
