//! C03 (live): after a dump returns - successfully, with a hard error, or after an injected destination
//! failure at any call - no target thread is traced or stopped, every thread keeps running, and every
//! realtime signal sent before / during the dump is delivered exactly once.
use crate::c09::RecDest;
use crate::common::*;
use crate::live::*;
use minidump_writer::app_memory::AppMemory;
use minidump_writer::minidump_writer::MinidumpWriter;
use minidump_writer::verif_hooks::Point;
use minidump_writer::FailSpotName;
use std::cell::RefCell;
use std::rc::Rc;

fn tgkill(pid: i32, tid: i32, sig: i32) { unsafe { libc::syscall(libc::SYS_tgkill, pid, tid, sig); } }

/// (threads with a tracer, threads stopped) once things had up to 300 ms to settle
fn observe(t: &Target) -> (usize, usize, String) {
    let mut last = (0, 0, String::new());
    for _ in 0..300 {
        let st = t.thread_states();
        let traced = st.iter().filter(|(_, _, tr)| *tr != 0).count();
        let stopped = st.iter().filter(|(_, s, _)| *s == 'T' || *s == 't').count();
        last = (traced, stopped, format!("{st:?}"));
        if traced == 0 && stopped == 0 { break; }
        std::thread::sleep(std::time::Duration::from_millis(1));
    }
    last
}

pub fn run(a: &Args) {
    let mut rng = Rng::new(a.seed);
    let mut out = Out::new();
    let work = format!("{}/tmp", a.out);
    for shape in 0..a.n {
        let nth = rng.range(1, 5) as usize;
        let mut threads: Vec<ThreadSpec> = (0..nth).map(|i| ThreadSpec { kind: match rng.below(5) { 0 => Kind::Spin, 1 => Kind::NullSp, _ => Kind::Block }, sp_off: 0x800, pages: 4, name: Some(format!("s{i}").into_bytes()), at: None }).collect();
        if !threads.iter().any(|t| t.kind == Kind::Spin) { threads.push(ThreadSpec { kind: Kind::Spin, sp_off: 0x100, pages: 4, name: None, at: None }); }
        let zombie_leader = shape % 4 == 3;
        let mut lines = vec!["anon 2 rw- 1".to_string()];
        if zombie_leader { lines.push("mainexit".to_string()); }
        let scen = Scenario { threads, lines };
        let target = match Target::spawn(&scen, &work) { Ok(t) => t, Err(e) => { out.notes.push(format!("spawn failed: {e}")); continue; } };
        if zombie_leader { std::thread::sleep(std::time::Duration::from_millis(30)); out.count("shape.main_thread_exited"); }
        // how many destination calls does a clean dump make?
        let total_calls = { let mut w = MinidumpWriter::new(target.pid, target.pid); if zombie_leader { w.stop_timeout(std::time::Duration::from_millis(20)); } let mut d = RecDest::new(vec![], 0, false); let _ = w.dump(&mut d); d.calls };
        // schedule of runs on this target
        let mut runs: Vec<(u8, usize)> = vec![(0, 0)];                       // clean
        let ks: Vec<usize> = if a.tier == "thorough" || shape == 0 { (1..=total_calls).collect() } else { (0..6).map(|_| rng.range(1, total_calls.max(1) as u64) as usize).collect() };
        for k in ks { runs.push((1, k)); }                                   // destination fails at call k
        runs.push((2, 0));                                                   // hard error: unreadable application memory
        runs.push((3, 0)); runs.push((3, 1)); runs.push((3, 2)); runs.push((3, 3));  // signals at each point
        runs.push((4, 0));                                                   // StopProcess fail point
        for _ in 0..2 { runs.push((7, rng.range(1, total_calls.max(1) as u64) as usize)); }   // the destination PANICS at call k: the request unwinds
        if target.tids.len() >= 2 && !zombie_leader { runs.push((8, 0)); }    // one thread (not the first) is held by another tracer: its attach is refused (EPERM)
        // a hard error INSIDE the thread-list stage: a crash context whose instruction pointer lies in the execute-only [vsyscall]
        // page - the window around it cannot be read, the request fails after the threads were suspended
        if !zombie_leader { runs.push((9, 0)); }
        for (mode, k) in runs {
            let mut w = MinidumpWriter::new(target.pid, target.pid);
            if mode == 9 { let mut cc = crate::ctx::gen_crash_context(&mut rng, target.pid);
                cc.inner.context.uc_mcontext.gregs[libc::REG_RIP as usize] = 0xffff_ffff_ff60_0800u64 as i64; cc.inner.context.uc_mcontext.gregs[libc::REG_RSP as usize] = 0x10000; w.set_crash_context(cc); }
            if zombie_leader { w.stop_timeout(std::time::Duration::from_millis(20)); }
            let mut dest = RecDest::new(vec![], 0, false);
            if mode == 1 { dest.fail_at = Some(k); }
            if mode == 7 { dest.panic_at = Some(k); }
            if mode == 2 { w.set_app_memory(vec![AppMemory { ptr: 0x10, length: 64 }]); }
            let mut client = FailSpotName::testing_client();
            if mode == 4 { client.set_enabled(FailSpotName::StopProcess, true); }
            // mode 8: the youngest scenario thread that can be traced is taken by a foreign tracer (this process, before the dump)
            let held: Option<i32> = if mode == 8 { target.tids.iter().enumerate().rev().find(|(i, _)| scen.threads[*i].kind == Kind::Block || scen.threads[*i].kind == Kind::Spin).map(|(_, t)| *t) } else { None };
            if let Some(t) = held { unsafe { libc::ptrace(libc::PTRACE_SEIZE, t, 0, 0); libc::ptrace(libc::PTRACE_INTERRUPT, t, 0, 0); let mut st = 0; libc::waitpid(t, &mut st, libc::__WALL); } }
            // signals: realtime signals to the scenario threads before the dump and at the chosen hook point
            let recv: Vec<(usize, i32)> = target.tids.iter().enumerate().filter(|(i, _)| scen.threads[*i].kind == Kind::Block || scen.threads[*i].kind == Kind::Spin).map(|(i, t)| (i, *t)).collect();
            let before: Vec<u64> = recv.iter().map(|(i, _)| target.slot(64 + *i)).collect();
            let sent = Rc::new(RefCell::new(vec![0u64; recv.len()]));
            let rt = libc::SIGRTMIN();
            if mode == 3 { for (j, (_, tid)) in recv.iter().enumerate() { tgkill(target.pid, *tid, rt + (j % 4) as i32); sent.borrow_mut()[j] += 1; } }
            let (pid, recv2, sent2) = (target.pid, recv.clone(), sent.clone());
            let point = match k { 0 => Point::ThreadsEnumerated, 1 => Point::ThreadsSuspended, 2 => Point::BeforeResume, _ => Point::ThreadsEnumerated };
            let hook: HookFn = Box::new(move |p| { if mode == 3 && p == point { for (j, (_, tid)) in recv2.iter().enumerate() { for r in 0..(1 + j % 2) { tgkill(pid, *tid, rt + ((j + r) % 4) as i32); sent2.borrow_mut()[j] += 1; } } } });
            let spin_before: Vec<u64> = (0..scen.threads.len()).map(|i| target.slot(128 + i)).collect();
            let (res, world, _) = with_hooks(target.pid, target.pid, true, Some(hook), || quiet_catch(std::panic::AssertUnwindSafe(|| w.dump(&mut dest).map(|_| ()).map_err(|e| format!("{e:?}")))));
            client.set_enabled(FailSpotName::StopProcess, false); drop(client);
            let outcome = match &res { Ok(Ok(())) => 2u64, Ok(Err(_)) => 1, Err(_) => 1 };
            // the foreign tracer lets its thread go only after it has looked at the others: what the WRITER attached must be free by now
            let leaked: Vec<(i32, char, i32)> = if held.is_some() { std::thread::sleep(std::time::Duration::from_millis(20)); target.thread_states().into_iter().filter(|(t, s, tr)| Some(*t) != held && (*tr != 0 || *s == 't' || *s == 'T')).collect() } else { vec![] };
            if let Some(t) = held { unsafe { libc::ptrace(libc::PTRACE_DETACH, t, 0, 0); } }
            if !leaked.is_empty() { let mut l = Line::new("const"); l.u(8).u(0); out.case(l.s(), &format!("!threads the writer attached are still traced or stopped after the request (one other thread was held by a foreign tracer): {leaked:?}"), true); }
            let (traced, stopped, detail) = observe(&target);
            // model input: attach kinds from the scenario; the run ends by completing or with an error after suspension
            let mut line = Line::new("c03_final");
            let wt = world.map(|w| w.threads).unwrap_or_default();
            line.z(wt.len());
            for t in &wt { let idx = target.tids.iter().position(|x| *x == t.tid); let kind = match idx.map(|i| scen.threads[i].kind) { Some(Kind::NullSp) => 3, _ => if t.state == 'Z' || Some(t.tid) == held { 1 } else { 0 } }; line.u(kind).u(0); }
            line.u(outcome).u(3);
            let mut r = Line::bare(); r.z(traced).b(stopped > 0).u(0);
            out.count(&format!("run.{}", ["clean", "destination_failure", "unreadable_app_memory", "signals", "stop_failpoint", "", "", "destination_panics", "thread_held_by_foreign_tracer", "crash_ip_in_unreadable_vsyscall_page"][mode as usize]));
            if traced != 0 || stopped != 0 {
                out.notes.push(format!("not released after mode {mode} k {k}: {detail}"));
                // this process is the tracer of whatever was left attached: release it so that the next runs on this target start clean
                unsafe { for (tid, _, tr) in target.thread_states() { if tr != 0 { libc::ptrace(libc::PTRACE_DETACH, tid, 0, 0); } } libc::kill(target.pid, libc::SIGCONT); }
            }
            out.case(line.s(), r.s(), mode != 0);
            // every thread keeps running: spin counters advance
            std::thread::sleep(std::time::Duration::from_millis(2));
            for (i, t) in scen.threads.iter().enumerate() { if t.kind == Kind::Spin {
                let mut l = Line::new("const"); l.z(i).u(1); let mut r = Line::bare(); r.z(i);
                let mut adv = false; for _ in 0..100 { if target.slot(128 + i) != spin_before[i] { adv = true; break; } std::thread::sleep(std::time::Duration::from_millis(1)); }
                r.b(adv); out.case(l.s(), r.s(), true); out.count("heartbeat.checked");
            } }
            // signals delivered exactly once
            if mode == 3 {
                std::thread::sleep(std::time::Duration::from_millis(5));
                for (j, (i, _)) in recv.iter().enumerate() {
                    let want = sent.borrow()[j];
                    let mut got = 0; for _ in 0..200 { got = target.slot(64 + *i) - before[j]; if got >= want { break; } std::thread::sleep(std::time::Duration::from_millis(1)); }
                    std::thread::sleep(std::time::Duration::from_millis(1)); got = target.slot(64 + *i) - before[j];
                    let mut l = Line::new("const"); l.z(*i).u(want); let mut r = Line::bare(); r.z(*i).u(got);
                    out.case(l.s(), r.s(), true); out.count("signals.thread_checked");
                }
            }
        }
        drop(target);
        // ---- signals that the attach loop itself sees: a thread in the kernel's vfork wait keeps SIGUSR1 / SIGUSR2 /
        // a realtime signal queued; the attach completes only when a watcher (this harness) ends the wait after the
        // writer attached, so the thread leaves the kernel with those signals and the attach SIGSTOP all pending.
        // With the StopProcess fail point on there is no group stop and the two lower-numbered signals are reported
        // to the tracer before the SIGSTOP (the re-injection path); with it off the group stop is reported first and
        // the signals stay queued until the detach.  Either way each must reach its handler exactly once.
        if shape % 2 == 0 || a.tier == "thorough" {
            let scen = Scenario { threads: vec![
                ThreadSpec { kind: Kind::Vforker, sp_off: 0x800, pages: 4, name: Some(b"vf".to_vec()), at: None },
                ThreadSpec { kind: Kind::Spin, sp_off: 0x100, pages: 4, name: None, at: None }], lines: vec![] };
            let target = match Target::spawn(&scen, &work) { Ok(t) => t, Err(e) => { out.notes.push(format!("spawn failed: {e}")); continue; } };
            let tid = target.tids[0];
            for mode in [5u8, 6, 5] {
                // the thread is in its vfork wait and the child's pid is known
                let mut child = 0u64;
                for _ in 0..2000 { child = target.slot(192); let st = target.thread_states(); if child != 0 && st.iter().any(|(t, s, _)| *t == tid && *s == 'D') { break; } std::thread::sleep(std::time::Duration::from_millis(1)); }
                if child == 0 { let mut l = Line::new("const"); l.u(1); out.case(l.s(), "!the target's waiting thread did not reach its vfork wait", true); break; }
                let (b_all, b_low) = (target.slot(64), target.slot(256));
                for s in [libc::SIGUSR1, libc::SIGUSR2, libc::SIGRTMIN() + 1] { tgkill(target.pid, tid, s); }
                let (pid, released) = (target.pid, std::sync::Arc::new(std::sync::atomic::AtomicBool::new(false)));
                let rel2 = released.clone();
                // the dumping thread itself is interrupted while it waits for the attached thread to stop: a handler installed
                // without SA_RESTART makes that wait return EINTR (twice), which must only make it wait again
                extern "C" fn nop(_: i32) {}
                unsafe { let mut sa: libc::sigaction = std::mem::zeroed(); sa.sa_sigaction = nop as usize; sa.sa_flags = 0; libc::sigaction(libc::SIGURG, &sa, std::ptr::null_mut()); }
                let (me, dumper_tid) = (std::process::id() as i32, unsafe { libc::syscall(libc::SYS_gettid) } as i32);
                let watcher = std::thread::spawn(move || {
                    for _ in 0..3000 {
                        let st = std::fs::read_to_string(format!("/proc/{pid}/task/{tid}/status")).unwrap_or_default();
                        let tracer = st.lines().find_map(|l| l.strip_prefix("TracerPid:")).and_then(|v| v.trim().parse::<i32>().ok()).unwrap_or(0);
                        if tracer != 0 { rel2.store(true, std::sync::atomic::Ordering::SeqCst); break; }
                        std::thread::sleep(std::time::Duration::from_millis(1));
                    }
                    if rel2.load(std::sync::atomic::Ordering::SeqCst) { for _ in 0..2 { std::thread::sleep(std::time::Duration::from_millis(3)); tgkill(me, dumper_tid, libc::SIGURG); } std::thread::sleep(std::time::Duration::from_millis(3)); }
                    unsafe { libc::kill(child as i32, libc::SIGKILL); }
                });
                let mut w = MinidumpWriter::new(target.pid, target.pid);
                let mut dest = RecDest::new(vec![], 0, false);
                let mut client = FailSpotName::testing_client();
                if mode == 5 { client.set_enabled(FailSpotName::StopProcess, true); }
                let (res, world, _) = with_hooks(target.pid, target.pid, true, None, || quiet_catch(std::panic::AssertUnwindSafe(|| w.dump(&mut dest).map(|_| ()).map_err(|e| format!("{e:?}")))));
                client.set_enabled(FailSpotName::StopProcess, false); drop(client);
                let _ = watcher.join();
                let outcome = match &res { Ok(Ok(())) => 2u64, _ => 1 };
                let (traced, stopped, detail) = observe(&target);
                if traced != 0 || stopped != 0 { out.notes.push(format!("not released after mode {mode}: {detail}")); }
                let mut got = (0, 0); for _ in 0..300 { got = (target.slot(64) - b_all, target.slot(256) - b_low); if got.0 >= 3 { break; } std::thread::sleep(std::time::Duration::from_millis(1)); }
                std::thread::sleep(std::time::Duration::from_millis(2)); got = (target.slot(64) - b_all, target.slot(256) - b_low);
                // the model run: the waiting thread sees two signals before its SIGSTOP when nothing stopped the process first
                let wt = world.map(|w| w.threads).unwrap_or_default();
                let mut line = Line::new("c03_final"); line.z(wt.len());
                for t in &wt { line.u(0).u(if t.tid == tid && mode == 5 { 2 } else { 0 }); }
                line.u(outcome).u(3);
                let mut r = Line::bare(); r.z(traced).b(stopped > 0).u(if mode == 5 { got.1 } else { 0 });
                out.case(line.s(), r.s(), true);
                let mut l = Line::new("const"); l.u(3).u(2); let mut r = Line::bare(); r.u(got.0).u(got.1);
                out.case(l.s(), r.s(), true);
                // (whether the watcher saw the attach before releasing the thread only decides which path delivered the signals)
                out.count(if released.load(std::sync::atomic::Ordering::SeqCst) { "vfork.released_after_attach" } else { "vfork.released_by_timeout" });
                out.count(["run.queued_signals_seen_by_attach", "run.queued_signals_with_group_stop"][(mode - 5) as usize]);
            }
        }
    }
    out.assumptions.push("kernel semantics of PTRACE_ATTACH/DETACH, group-stop and signal queueing are the assumed kernel model; observed through /proc/<pid>/task/<tid>/status (State, TracerPid), counters in a page shared with the target".into());
    out.finish(&a.out, "live targets (blocked, spinning, null-SP threads; every 4th shape with an exited main thread so that the stop poll times out after SIGSTOP was sent) x runs: clean dump, destination failing at call k (every k on the first shape and in the thorough tier), destination PANICKING at a call (the request unwinds), unreadable application memory (hard error after suspension), realtime signals sent before the dump and at each hook point, StopProcess fail point; after each run: no thread traced or stopped, spin counters advance, per-thread signal counters equal the numbers sent; second target per even shape: a thread in the vfork wait with SIGUSR1, SIGUSR2 and a realtime signal queued, released once the writer attached (with and without the StopProcess fail point): each signal reaches its handler exactly once");
}
