//! C13: memory-map texts -> real `MemoryMaps::from_read` + `MappingInfo::aggregate`; the model gets
//! the same lines through an independent line encoder.
use crate::common::*;
use minidump_writer::maps_reader::MappingInfo;
use procfs_core::{process::MemoryMaps, FromRead};
use std::fmt::Write as _;
use std::os::unix::ffi::OsStrExt;

// perms text, offset kind (0: zero, 1: non-zero, 2: = previous end), name
const KINDS: &[(&str, u8, &str)] = &[
    ("r--p", 0, "/usr/lib/liba.so"), ("r-xp", 1, "/usr/lib/liba.so"), ("rw-p", 1, "/usr/lib/liba.so"), ("---p", 0, ""),
    ("---p", 0, "/usr/lib/liba.so"), ("---p", 2, ""), ("r-xp", 0, "/usr/lib/libb.so.1"), ("r--p", 0, "/usr/lib/libb.so.1"),
    ("rw-p", 0, ""), ("r-xp", 0, "[vdso]"), ("r--p", 0, "[vvar]"), ("rw-p", 0, "[heap]"), ("rw-p", 0, "[stack]"),
    ("r--s", 0, "/dev/shm/x y (deleted)"), ("--xp", 0, ""), ("rw-p", 0, "[anon:scudo]"), ("r--p", 0, "relative name"), ("---s", 0, ""),
    ("r-xp", 0, ""), ("---p", 1, ""), ("r-xp", 0, "/usr/lib/liba.so (deleted)"), ("---p", 0, "[vdso]"),
    // lines whose file offset equals the end of the previous line (identity-mapped devices, continued files)
    ("rw-s", 2, "/dev/mem"), ("rw-p", 2, ""), ("r--p", 2, "/usr/lib/libb.so.1"),
    // pseudo-names that differ only in their argument (per-thread stacks of older kernels, named anonymous regions)
    ("rw-p", 0, "[stack:1234]"), ("rw-p", 0, "[stack:77]"), ("rw-p", 0, "[anon:jemalloc]"),
    // an unlinked file whose own name ends in " (deleted)": only the kernel's marker goes, the name keeps its ending
    ("r-xp", 0, "/usr/lib/liba.so (deleted) (deleted)"),
];
pub fn perms_bits(p: &str) -> u64 {
    let b = p.as_bytes();
    (if b[0] == b'r' { 1 } else { 0 }) | (if b[1] == b'w' { 2 } else { 0 }) | (if b[2] == b'x' { 4 } else { 0 })
        | (if b[3] == b's' { 8 } else { 0 }) | (if b[3] == b'p' { 16 } else { 0 })
}
/// what `aggregate` sees after procfs-core's classification of the path field
pub fn classified(name: &str) -> Option<Vec<u8>> {
    let n = name.trim();
    if n.is_empty() { return None; }
    let bracket = n.starts_with('[') && n.ends_with(']');
    let n = if !bracket { n.strip_suffix(" (deleted)").unwrap_or(n) } else { n };
    Some(n.as_bytes().to_vec())
}

struct L { start: u64, end: u64, perms: &'static str, off: u64, name: &'static str }

fn emit(out: &mut Out, lines: &[L], gate: Option<u64>, tag: &str) {
    let mut text = String::new();
    let mut case = Line::new("c13");
    case.b(gate.is_some()).u(gate.unwrap_or(0)).z(lines.len());
    for l in lines {
        writeln!(text, "{:x}-{:x} {} {:08x} 00:1f 1234 {:>20}{}", l.start, l.end, l.perms, l.off, "", l.name).unwrap();
        case.u(l.start).u(l.end).u(perms_bits(l.perms)).u(l.off);
        match classified(l.name) { None => { case.u(0).u(0); } Some(b) => { case.u(1).vec(&b); } }
    }
    let r = quiet_catch(|| {
        let maps = MemoryMaps::from_read(text.as_bytes()).map_err(|e| format!("{e:?}"))?;
        MappingInfo::aggregate(maps, gate).map_err(|e| format!("{e:?}"))
    });
    let mut res = Line::bare();
    let mut merges = false;
    match r {
        Ok(Ok(ms)) => {
            res.z(ms.len());
            merges = ms.len() < lines.len();
            for m in &ms {
                res.z(m.start_address).z(m.size).z(m.system_mapping_info.start_address).z(m.system_mapping_info.end_address).z(m.offset).u(m.permissions.bits() as u64);
                match &m.name { None => { res.u(0).u(0); } Some(n) => { res.u(1).vec(n.as_bytes()); } }
            }
        }
        Ok(Err(e)) => { res.0 = format!("!err {}", e.replace('\n', " ")); }
        Err(p) => { res.0 = format!("!panic {}", p.replace('\n', " ")); }
    }
    out.count(&format!("{tag}.lines.{}", match lines.len() { 0 => "0", 1 => "1", 2 => "2", 3 => "3", 4 => "4", 5..=20 => "5-20", _ => "21+" }));
    if merges { out.count(&format!("{tag}.with_merge")); }
    out.case(case.s(), res.s(), merges);
}

fn build(seq: &[(usize, bool)], base: u64, sizes: &[u64]) -> Vec<L> {
    let mut addr = base; let mut prev_end = 0u64; let mut v = Vec::new();
    for (i, (k, gap)) in seq.iter().enumerate() {
        let (perms, ok, name) = KINDS[*k];
        if *gap { addr += 0x2000; }
        let size = sizes[i % sizes.len()];
        let off = match ok { 0 => 0, 1 => 0x1000 * (1 + (i as u64 % 5)), _ => prev_end };
        v.push(L { start: addr, end: addr + size, perms, off, name });
        addr += size; prev_end = addr;
    }
    v
}

pub fn run(a: &Args) {
    let mut rng = Rng::new(a.seed);
    let mut out = Out::new();
    let mode = a.extra.first().map(|s| s.as_str()).unwrap_or("random");
    if mode == "enum" {
        // every sequence of length <= L over the alphabet x {adjacent, gap}; gate at the start of line j or nowhere
        let maxlen = a.n as usize;
        let alpha = KINDS.len() * 2;
        for len in 0..=maxlen {
            let total = (alpha as u64).pow(len as u32);
            for code in 0..total {
                let mut c = code; let mut seq = Vec::new();
                for _ in 0..len { let x = (c % alpha as u64) as usize; c /= alpha as u64; seq.push((x / 2, x % 2 == 1)); }
                let lines = build(&seq, 0x7f00_0000_1000, &[0x1000, 0x3000, 0x2000]);
                // the gate choice rotates deterministically so that the enumeration stays |alpha|^len
                // (at the first byte of a line, strictly inside a line, one past a line's end, in no line, absent)
                let pickl = |k: u64| &lines[(k as usize) % lines.len().max(1)];
                let gate = match (code + len as u64) % 5 { 0 => None, 1 if !lines.is_empty() => Some(pickl(code / 5).start), 2 if !lines.is_empty() => Some(pickl(code / 5).start + 0x800),
                                                           3 if !lines.is_empty() => Some(pickl(code / 5).end), _ => Some(0xdead000) };
                emit(&mut out, &lines, gate, "enum");
            }
        }
        out.notes.push(format!("exhaustive: all sequences of length <= {maxlen} over {} line kinds x adjacent/gap", KINDS.len()));
    } else {
        for _ in 0..a.n {
            let big = rng.chance(1, 10);
            let n = rng.below(if big { if a.tier == "thorough" { 400 } else { 60 } } else { 7 }) as usize;
            let seq: Vec<(usize, bool)> = (0..n).map(|_| (rng.below(KINDS.len() as u64) as usize, rng.chance(1, 3))).collect();
            let base = *rng.pick(&[0x1000u64, 0x5555_0000_0000, 0x7fff_0000_0000, 0xffff_ffff_0000_0000]);
            let sizes: Vec<u64> = (0..5).map(|_| 0x1000 * (1 + rng.below(4))).collect();
            let lines = build(&seq, base, &sizes);
            let gate = match rng.below(5) { 0 => None, 1 if !lines.is_empty() => Some(lines[rng.below(lines.len() as u64) as usize].start),
                                            2 if !lines.is_empty() => { let l = &lines[rng.below(lines.len() as u64) as usize]; Some(l.start + 1 + rng.below(l.end - l.start - 1)) }
                                            3 if !lines.is_empty() => Some(lines[rng.below(lines.len() as u64) as usize].end), _ => Some(0xdead000) };
            emit(&mut out, &lines, gate, "random");
        }
    }
    out.assumptions.push("procfs-core's line parser and path classification are outside the model; the harness encodes the same lines for the model with its own classifier (bracketed pseudo-names kept, ' (deleted)' stripped from paths)".into());
    out.finish(&a.out, "memory-map texts through MemoryMaps::from_read + MappingInfo::aggregate; non-trivial = at least one merge rule fired (fewer mappings than lines); distinct by case text");
}
