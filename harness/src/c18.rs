//! C18 (live): OS / process information streams against the harness's own reads taken while the target is
//! suspended; the linker-debug stream against the Coq model (synthetic chains) and an independent walk
//! (the target's real chain).
use crate::c13::perms_bits;
use crate::common::*;
use crate::live::*;
use crate::md;
use minidump_writer::minidump_writer::{DirectAuxvDumpInfo, MinidumpWriter};

fn digest_line(l: &mut Line, b: &[u8]) { l.z(b.len()).u(fnv(&format!("{b:?}"))); }

/// independent walk of the target's real linker list, through /proc/<pid>/mem
fn real_chain(w: &World, pid: i32) -> Option<(u64, u64, Vec<(u64, String, u64)>)> {
    let rd = |a: u64, n: usize| read_mem(pid, a, n).filter(|b| b.len() == n);
    let u = |b: &[u8], o: usize| u64::from_le_bytes(b[o..o + 8].try_into().unwrap());
    let phdr = w.auxv_value(3)?; let phnum = w.auxv_value(5)?;
    let tab = rd(phdr, 56 * phnum as usize)?;
    let mut base = phdr & !0xfff; let mut dynv = 0u64;
    for i in 0..phnum as usize { let o = 56 * i; let t = u32::from_le_bytes(tab[o..o + 4].try_into().unwrap());
        if t == 1 && u(&tab, o + 8) == 0 { base = base.wrapping_sub(u(&tab, o + 16)); } if t == 2 { dynv = u(&tab, o + 16); } }
    if dynv == 0 { return None; }
    let dyn_addr = dynv.wrapping_add(base);
    let mut rdebug = 0u64; let mut len = 0u64;
    loop { let e = rd(dyn_addr + len, 16)?; len += 16; let tag = u(&e, 0); if tag == 21 { rdebug = u(&e, 8); } if tag == 0 { break; } if len > 16 * 4096 { return None; } }
    let r = rd(rdebug, 40)?;
    let mut cur = u(&r, 8); let mut v = Vec::new();
    while cur != 0 && v.len() < 4096 { let lm = rd(cur, 40)?; let name_ptr = u(&lm, 8);
        let name = if name_ptr == 0 { String::new() } else { let b = read_mem(pid, name_ptr, 256)?; String::from_utf8(b.split(|x| *x == 0).next().unwrap_or(&[]).to_vec()).ok()? };
        v.push((u(&lm, 0), name, u(&lm, 16))); cur = u(&lm, 24); }
    Some((dyn_addr, len, v))
}

pub fn run(a: &Args) {
    let mut rng = Rng::new(a.seed);
    let mut out = Out::new();
    let work = format!("{}/tmp", a.out);
    for case in 0..a.n {
        let nfd = rng.below(8);
        let kinds = ["file", "dir", "pipe", "socket", "eventfd", "odd", "astral"];   // astral: characters beyond U+FFFF in the link target   // odd: the link target is not valid UTF-8
        let mut lines: Vec<String> = (0..nfd).map(|_| format!("fd {}", rng.pick(&kinds))).collect();
        if case % 4 == 0 { lines.push("fd odd".into()); }
        // synthetic linker chain: n entries; 0 well-formed, 1 cyclic, 2 r_debug cut by the end of its mapping
        let chain = if case % 2 == 1 { let kind = (case / 2) % 4; /* 3: well-formed, names at the very end of a mapping */ Some((if kind == 0 { rng.below(6) } else { rng.range(1, 5) }, kind)) } else { None };
        if let Some((n, kind)) = chain { lines.push(format!("chain {n} {kind}")); }
        // every permission triple appears in the target's map
        for p in ["rw-", "---", "r-x", "-w-", "--x", "r--", "rwx", "-wx"] { lines.push(format!("anon {} {p} {}", if p == "rw-" { 2 } else { 1 }, (p == "r-x") as u32)); }
        let nth = rng.below(3) as usize;
        let scen = Scenario { threads: (0..nth).map(|i| ThreadSpec { kind: Kind::Block, sp_off: 0x800, pages: 2, name: Some(format!("k{i}").into_bytes()), at: None }).collect(), lines };
        // every other target whose REAL linker list is walked is the fixed-address build of the target program (ET_EXEC: the
        // addresses in its program headers are absolute, the load bias is zero)
        let fixed = chain.is_none() && case % 4 == 0;
        FIXED_ADDRESS_TARGET.store(fixed, std::sync::atomic::Ordering::SeqCst);
        let spawned = Target::spawn(&scen, &work);
        FIXED_ADDRESS_TARGET.store(false, std::sync::atomic::Ordering::SeqCst);
        if fixed { out.count("target.fixed_address_executable"); }
        let target = match spawned { Ok(t) => t, Err(e) => { out.notes.push(format!("spawn failed: {e}")); continue; } };
        let chain_base = target.fact_hex("chain");
        // the dump runs in a forked child under a watchdog: hostile linker data must not hang or abort the harness
        let direct = chain.map(|_| DirectAuxvDumpInfo { program_header_count: match (chain.map(|c| c.1).unwrap_or(0), rng.below(4)) { (0, 0) => 100000, (0, 1) => u64::MAX / 56 + 5, _ => 2 }, program_header_address: chain_base, linux_gate_address: 0, entry_address: 0 });
        let (pid, d2) = (target.pid, direct.clone());
        let child = run_forked(5000, move || {
            let mut w = MinidumpWriter::new(pid, pid);
            if let Some(d) = d2 { w.set_direct_auxv_dump_info(d); }
            let mut dest = std::io::Cursor::new(Vec::new());
            // every fourth case the writer has already served a request: what the caller supplied serves this one too
            if case % 4 == 3 { let mut d0 = std::io::Cursor::new(Vec::new()); let _ = quiet_catch(std::panic::AssertUnwindSafe(|| w.dump(&mut d0).map(|_| ()).map_err(|_| ()))); }
            let (res, world, _) = with_hooks(pid, pid, true, None, || quiet_catch(std::panic::AssertUnwindSafe(|| w.dump(&mut dest).map_err(|e| format!("{e:?}")))));
            // the child hands back: outcome, image, and the world files as hex lines
            let mut s = String::new();
            match res { Ok(Ok(img)) => { s.push_str("OK\n"); s.push_str(&img.iter().map(|b| format!("{b:02x}")).collect::<String>()); s.push('\n'); }
                        Ok(Err(e)) => { s.push_str(&format!("ERR {}\n\n", e.replace('\n', " "))); } Err(p) => { s.push_str(&format!("PANIC {p}\n\n")); } }
            if let Some(w) = world { for f in [&w.maps, &w.auxv, &w.cmdline, &w.environ, &w.limits] { s.push_str(&f.iter().map(|b| format!("{b:02x}")).collect::<String>()); s.push('\n'); }
                for (fd, link, mode) in &w.fds { s.push_str(&format!("FD {fd} {mode} {link}\n")); } }
            s
        });
        unsafe { libc::kill(target.pid, libc::SIGCONT); }
        let unhex = |h: &str| -> Vec<u8> { (0..h.len() / 2).map(|i| u8::from_str_radix(&h[2 * i..2 * i + 2], 16).unwrap_or(0)).collect() };
        let text = match child { Ok(t) => t, Err(e) => { let mut l = Line::new("const"); l.u(0); out.case(l.s(), &format!("!dump did not return: {e} (chain {chain:?}, direct auxv {direct:?})"), true); out.count("dump.watchdog"); continue; } };
        let mut it = text.split('\n');
        let head = it.next().unwrap_or("");
        let img = unhex(it.next().unwrap_or(""));
        if !head.starts_with("OK") { let mut l = Line::new("const"); l.u(0); out.case(l.s(), &format!("!dump failed: {}", head.chars().take(300).collect::<String>()), true); continue; }
        let files: Vec<Vec<u8>> = (0..5).map(|_| unhex(it.next().unwrap_or(""))).collect();
        let fds: Vec<(u64, u32, String)> = it.filter_map(|l| { let mut p = l.splitn(4, ' '); if p.next()? != "FD" { return None; } Some((p.next()?.parse().ok()?, p.next()?.parse().ok()?, p.next()?.to_string())) }).collect();
        let w = World { maps: files[0].clone(), auxv: files[1].clone(), ..Default::default() };
        let d = match md::Dump::parse(&img) { Ok(d) => d, Err(e) => { let mut l = Line::new("const"); l.u(0); out.case(l.s(), &format!("!{e}"), true); continue; } };
        // ---- raw streams are byte copies
        for (t, f, name) in [(md::LINUX_MAPS, &files[0], "maps"), (md::LINUX_AUXV, &files[1], "auxv"), (md::LINUX_CMD_LINE, &files[2], "cmdline"), (md::LINUX_ENVIRON, &files[3], "environ"), (md::MOZ_LINUX_LIMITS, &files[4], "limits")] {
            let mut l = Line::new("const"); l.u(t as u64); digest_line(&mut l, f);
            let mut r = Line::bare(); r.u(t as u64);
            match d.stream(&img, t) { Some(Ok(b)) => digest_line(&mut r, b), Some(Err(e)) => { r.0 = format!("!{e}"); } None => { r.0 = format!("!raw stream {name} absent"); } }
            out.case(l.s(), r.s(), f.len() > 0); out.count(&format!("raw.{name}"));
        }
        // ---- memory-info list: one entry per memory-map line
        {
            let lines = w.lines();
            let mut l = Line::new("c18_meminfo"); l.z(lines.len());
            for m in &lines { l.u(m.start).u(m.end).u(perms_bits(&m.perms)); }
            let mut r = Line::bare();
            match d.memory_info(&img) { Ok(v) => { r.z(v.len()); for m in &v { r.u(m.base).u(m.alloc_base).u(m.alloc_prot as u64).u(m.size).u(m.state as u64).u(m.prot as u64).u(m.typ as u64); } } Err(e) => { r.0 = format!("!{e}"); } }
            out.case(l.s(), r.s(), true); out.count_n("meminfo.lines", lines.len() as u64);
            // the same answer against the specification-only entry (independent protection table)
            out.case(&l.s().replacen("c18_meminfo", "c18_meminfo_spec", 1), r.s(), true);
            for m in &lines { out.count(&format!("meminfo.perms.{}", m.perms)); }
        }
        // ---- handles: one descriptor per open descriptor, with link target and mode
        {
            let mut l = Line::new("const"); l.z(fds.len());
            for (fd, mode, link) in &fds { l.u(*fd).u(*mode as u64).vec(link.as_bytes()); }
            let mut r = Line::bare();
            match d.handles(&img) { Ok(v) => { r.z(v.len()); for h in &v { r.u(h.handle).u(h.attributes as u64); match &h.object_name { Ok(n) => { r.vec(n.as_bytes()); } Err(e) => { r.0 = format!("!handle name: {e}"); break; } } } } Err(e) => { r.0 = format!("!{e}"); } }
            out.case(l.s(), r.s(), fds.len() > 3); out.count_n("handles.descriptors", fds.len() as u64);
        }
        // ---- platform and architecture do not depend on /proc/cpuinfo being readable (dump with the CpuInfoFileOpen fail point)
        if case % 4 == 0 {
            let pid = target.pid;
            let r2 = run_forked(5000, move || {
                let mut client = minidump_writer::FailSpotName::testing_client();
                client.set_enabled(minidump_writer::FailSpotName::CpuInfoFileOpen, true);
                let mut w = MinidumpWriter::new(pid, pid); let mut dest = std::io::Cursor::new(Vec::new());
                let res = quiet_catch(std::panic::AssertUnwindSafe(|| w.dump(&mut dest).map_err(|e| format!("{e:?}"))));
                client.set_enabled(minidump_writer::FailSpotName::CpuInfoFileOpen, false);
                match res { Ok(Ok(img)) => match md::Dump::parse(&img).and_then(|d| d.system_info(&img)) { Ok(Some(si)) => format!("{} {}", si.arch, si.platform), Ok(None) => "!no system-info stream".into(), Err(e) => format!("!{e}") },
                            Ok(Err(e)) => format!("!dump failed: {}", e.replace('\n', " ")), Err(p) => format!("!panic {p}") }
            });
            unsafe { libc::kill(target.pid, libc::SIGCONT); }
            let mut l = Line::new("const"); l.u(9).u(0x8201);
            let r = match r2 { Ok(t) if t.starts_with('!') => t, Ok(t) => { let mut r = Line::bare(); for x in t.split_whitespace() { r.u(x.parse::<u64>().unwrap_or(0xffff)); } r.0 }, Err(e) => format!("!dump did not return: {e}") };
            out.case(l.s(), &r, true); out.count("sysinfo.cpuinfo_unreadable");
        }
        // ---- system information
        if let Ok(Some(si)) = d.system_info(&img) {
            let mut l = Line::new("const"); l.u(9).u(0x8201);
            let mut r = Line::bare(); r.u(si.arch as u64).u(si.platform as u64);
            out.case(l.s(), r.s(), true);
            let cpuinfo = std::fs::read_to_string("/proc/cpuinfo").unwrap_or_default();
            let mut l = Line::new("c18_cpu"); let parsed: Vec<(u64, Option<i32>, String)> = cpuinfo.lines().filter(|x| !x.trim().is_empty()).filter_map(|x| { let mut p = x.split(':').map(|y| y.trim()); let f = p.next()?; let v = p.next()?;
                let k = match f { "processor" => 0, "model" => 1, "stepping" => 2, "cpu family" => 3, "vendor_id" => 4, _ => return None }; Some((k, v.parse::<i32>().ok(), v.to_string())) }).collect();
            l.z(parsed.len()); for (k, n, raw) in &parsed { l.u(*k).b(n.map(|x| x >= 0).unwrap_or(false)).u(n.unwrap_or(0).max(0) as u64).vec(raw.as_bytes()); }
            let mut r = Line::bare(); r.u(1).u(si.ncpu as u64).u(si.level as u64).u(si.revision as u64);
            let vend: Vec<u8> = si.cpu[..12].iter().cloned().take_while(|b| *b != 0).collect(); r.vec(&vend);
            out.case(l.s(), r.s(), true); out.count("sysinfo.checked");
            // OS version string = uname fields
            let un = nix::sys::utsname::uname().ok();
            if let (Some(un), Ok(csd)) = (un, &si.csd) { let exp = format!("{} {} {} {}", un.sysname().to_string_lossy(), un.release().to_string_lossy(), un.version().to_string_lossy(), un.machine().to_string_lossy());
                let mut l = Line::new("const"); l.vec(exp.as_bytes()); let mut r = Line::bare(); r.vec(csd.as_bytes()); out.case(l.s(), r.s(), true); }
        }
        // ---- linker debug stream
        match chain {
            None => {
                // real chain: independent walk
                let exp = real_chain(&w, target.pid);
                let mut l = Line::new("const"); let mut r = Line::bare();
                match (&exp, d.dso_debug(&img)) {
                    (Some((dynaddr, dynlen, es)), Ok(Some(dd))) => {
                        l.u(*dynaddr).u(*dynlen).z(es.len()); for (a, n, ld) in es { l.u(*a).u(*ld).vec(n.as_bytes()); }
                        r.u(dd.dynamic).z(dd.dynamic_bytes.len()).z(dd.maps.len()); for m in &dd.maps { r.u(m.addr).u(m.ld); match &m.name { Ok(n) => { r.vec(n.as_bytes()); } Err(e) => { r.0 = format!("!link map name: {e}"); break; } } }
                        out.count_n("dso.real_chain_entries", es.len() as u64);
                    }
                    (None, Ok(None)) => { l.u(0); r.u(0); }
                    (e, Ok(x)) => { l.u(0); r.0 = format!("!linker stream {} but independent walk {}", if x.is_some() { "present" } else { "absent" }, if e.is_some() { "succeeds" } else { "fails" }); }
                    (_, Err(e)) => { l.u(0); r.0 = format!("!{e}"); }
                }
                out.case(l.s(), r.s(), true);
            }
            Some((n, kind)) => {
                let dinfo = direct.as_ref().unwrap();
                let mut l = Line::new("c18_dso"); l.u(dinfo.program_header_address).u(dinfo.program_header_count);
                let pages = read_mem(target.pid, chain_base, 2 * 4096).unwrap_or_default();
                l.u(1).u(chain_base).vec(&pages);
                let mut r = Line::bare();
                match d.dso_debug(&img) {
                    Ok(Some(dd)) => { r.u(0).u(dd.version as u64).u(dd.brk).u(dd.ldbase).u(dd.dynamic).z(dd.dynamic_bytes.len()).z(dd.maps.len());
                        for m in &dd.maps { r.u(m.addr).u(m.ld); match &m.name { Ok(nm) => { r.z(nm.len()); for c in nm.bytes() { r.u(c as u64); } } Err(e) => { r.0 = format!("!link map name: {e}"); break; } } } }
                    Ok(None) => { r.u(1); }
                    Err(e) => { r.0 = format!("!{e}"); }
                }
                out.count(&format!("dso.synthetic.kind{kind}.entries{}", n.min(3)));
                out.case(l.s(), r.s(), true);
                // the same through the model of the auxiliary-value resolution: what the caller supplied (count, address) together
                // with what /proc/<pid>/auxv reports
                let mut l2 = Line::new("c18_dso_auxv"); l2.u(dinfo.program_header_count).u(dinfo.program_header_address).u(dinfo.linux_gate_address).u(dinfo.entry_address);
                l2.u(1).vec(&w.auxv).u(1).u(chain_base).vec(&pages);
                out.case(l2.s(), r.s(), true); out.count("auxv.resolution_modelled");
            }
        }
    }
    // ---- the target's OWN auxiliary vector is unusual (set with prctl): values that occur twice (the first counts), a zero
    // address before the real one, no program-header values at all; with and without a value supplied by the caller
    for mode in 1u32..=4 { for supplied in [false, true] {
        if supplied && mode != 2 { continue; }
        let scen = Scenario { threads: vec![], lines: vec!["chain 3 0".into(), format!("auxv {mode}")] };
        let target = match Target::spawn(&scen, &work) { Ok(t) => t, Err(e) => { out.notes.push(format!("spawn failed: {e}")); continue; } };
        if target.facts.get("auxvset").map(|v| v.as_str()) != Some(&mode.to_string()[..]) { out.notes.push("the target could not replace its auxiliary vector".into()); continue; }
        let chain_base = target.fact_hex("chain");
        // mode 2 with a supplied program-header address: the caller's value beats the file's first (real) one
        let direct = if supplied { Some(DirectAuxvDumpInfo { program_header_count: 2, program_header_address: chain_base, linux_gate_address: 0, entry_address: 0 }) } else { None };
        let (pid, d2) = (target.pid, direct.clone());
        let child = run_forked(5000, move || {
            let mut w = MinidumpWriter::new(pid, pid);
            if let Some(d) = d2 { w.set_direct_auxv_dump_info(d); }
            let mut dest = std::io::Cursor::new(Vec::new());
            let (res, world, _) = with_hooks(pid, pid, true, None, || quiet_catch(std::panic::AssertUnwindSafe(|| w.dump(&mut dest).map_err(|e| format!("{e:?}")))));
            let mut s = String::new();
            match res { Ok(Ok(img)) => { s.push_str("OK\n"); s.push_str(&img.iter().map(|b| format!("{b:02x}")).collect::<String>()); s.push('\n'); }
                        Ok(Err(e)) => { s.push_str(&format!("ERR {}\n\n", e.replace('\n', " "))); } Err(p) => { s.push_str(&format!("PANIC {p}\n\n")); } }
            if let Some(w) = world { s.push_str(&w.auxv.iter().map(|b| format!("{b:02x}")).collect::<String>()); s.push('\n'); }
            s
        });
        unsafe { libc::kill(target.pid, libc::SIGCONT); }
        let unhex = |h: &str| -> Vec<u8> { (0..h.len() / 2).map(|i| u8::from_str_radix(&h[2 * i..2 * i + 2], 16).unwrap_or(0)).collect() };
        let text = match child { Ok(t) => t, Err(e) => { let mut l = Line::new("const"); l.u(0); out.case(l.s(), &format!("!dump did not return: {e} (auxv mode {mode})"), true); continue; } };
        let mut it = text.split('\n');
        let head = it.next().unwrap_or(""); let img = unhex(it.next().unwrap_or("")); let auxv = unhex(it.next().unwrap_or(""));
        if !head.starts_with("OK") { let mut l = Line::new("const"); l.u(0); out.case(l.s(), &format!("!dump failed (auxv mode {mode}): {}", head.chars().take(300).collect::<String>()), true); continue; }
        let d = match md::Dump::parse(&img) { Ok(d) => d, Err(e) => { let mut l = Line::new("const"); l.u(0); out.case(l.s(), &format!("!{e}"), true); continue; } };
        // the raw stream is what the kernel reports
        { let mut l = Line::new("const"); l.u(md::LINUX_AUXV as u64); digest_line(&mut l, &auxv); let mut r = Line::bare(); r.u(md::LINUX_AUXV as u64);
          match d.stream(&img, md::LINUX_AUXV) { Some(Ok(b)) => digest_line(&mut r, b), _ => { r.0 = "!raw auxv stream absent".into(); } } out.case(l.s(), r.s(), true); }
        let mut r = Line::bare();
        match d.dso_debug(&img) {
            Ok(Some(dd)) => { r.u(0).u(dd.version as u64).u(dd.brk).u(dd.ldbase).u(dd.dynamic).z(dd.dynamic_bytes.len()).z(dd.maps.len());
                for m in &dd.maps { r.u(m.addr).u(m.ld); match &m.name { Ok(nm) => { r.z(nm.len()); for c in nm.bytes() { r.u(c as u64); } } Err(e) => { r.0 = format!("!link map name: {e}"); break; } } } }
            Ok(None) => { r.u(1); }
            Err(e) => { r.0 = format!("!{e}"); }
        }
        if mode == 2 && !supplied {
            // the real values come first: the stream must list the target's real objects (independent walk from the first occurrences)
            let w = World { auxv: auxv.clone(), ..Default::default() };
            let mut l = Line::new("const"); let mut r2 = Line::bare();
            match (real_chain(&w, target.pid), d.dso_debug(&img)) {
                (Some((dynaddr, dynlen, es)), Ok(Some(dd))) => { l.u(dynaddr).u(dynlen).z(es.len()); for (a, n, ld) in &es { l.u(*a).u(*ld).vec(n.as_bytes()); }
                    r2.u(dd.dynamic).z(dd.dynamic_bytes.len()).z(dd.maps.len()); for m in &dd.maps { r2.u(m.addr).u(m.ld); match &m.name { Ok(n) => { r2.vec(n.as_bytes()); } Err(e) => { r2.0 = format!("!link map name: {e}"); break; } } } }
                (e, x) => { l.u(0); r2.0 = format!("!linker stream {:?} but independent walk {}", x.map(|v| v.is_some()), if e.is_some() { "succeeds" } else { "fails" }); } }
            out.case(l.s(), r2.s(), true);
        } else {
            let mut l = Line::new("c18_dso_auxv");
            match &direct { Some(di) => { l.u(di.program_header_count).u(di.program_header_address).u(di.linux_gate_address).u(di.entry_address); } None => { l.u(0).u(0).u(0).u(0); } }
            l.u(1).vec(&auxv);
            let pages = read_mem(target.pid, chain_base, 2 * 4096).unwrap_or_default();
            l.u(1).u(chain_base).vec(&pages);
            out.case(l.s(), r.s(), true);
        }
        out.count(&format!("auxv.replaced.mode{mode}{}", if supplied { ".with_supplied_value" } else { "" }));
    } }
    out.assumptions.push("what the kernel reports = the harness's own reads of /proc/<pid>/{maps,auxv,cmdline,environ,limits,fd} taken in the same suspended window; uname(2) and /proc/cpuinfo read by the harness itself".into());
    out.finish(&a.out, "live targets with generated descriptor sets (file, directory, pipe, socket, eventfd), mappings of every permission combination, 0..2 extra threads; every other target carries a synthetic linker chain (0..5 entries; well-formed / cyclic / r_debug cut by the end of its mapping) reached through direct auxv values (AT_PHNUM 2, 100000 or overflowing): raw streams, memory-info list, handle descriptors, system information and the linker stream are compared with the harness's own view / the model; dumps run under a 5 s watchdog");
}
