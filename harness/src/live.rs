//! Live targets: the scriptable target process, world capture inside the writer's hook points,
//! and a dump runner.
use minidump_writer::verif_hooks::{self, Point};
use std::cell::RefCell;
use std::collections::HashMap;
use std::io::{BufRead, BufReader, Read, Write};
use std::os::unix::fs::FileExt;
use std::os::unix::process::CommandExt;
use std::process::{Child, ChildStdin, ChildStdout, Command, Stdio};
use std::rc::Rc;

#[derive(Clone, Copy, PartialEq, Eq, Debug)]
pub enum Kind { Block, Spin, NullSp, Exiter, Vforker }
#[derive(Clone, Debug)]
pub struct ThreadSpec { pub kind: Kind, pub sp_off: u32, pub pages: u32, pub name: Option<Vec<u8>>, pub at: Option<u64> }
#[derive(Clone, Debug, Default)]
pub struct Scenario { pub threads: Vec<ThreadSpec>, pub lines: Vec<String> }
impl Scenario {
    pub fn text(&self) -> String {
        let mut s = String::new();
        for t in &self.threads {
            let k = match t.kind { Kind::Block => "block", Kind::Spin => "spin", Kind::NullSp => "nullsp", Kind::Exiter => "exiter", Kind::Vforker => "vforker" };
            let name = match &t.name { None => "-".to_string(), Some(n) if n.is_empty() => "00".to_string(), Some(n) => n.iter().map(|b| format!("{b:02x}")).collect() };
            // pages >> 16 = number of whole pages ABOVE the page of the stack pointer (a deep stack)
            match t.at { Some(addr) => s.push_str(&format!("threadat {k} {addr:x} {} {name}\n", t.pages)),
                         None if t.pages >> 16 != 0 => s.push_str(&format!("threadd {k} {} {} {} {name}\n", t.sp_off, t.pages & 0xffff, t.pages >> 16)),
                         None => s.push_str(&format!("thread {k} {} {} {name}\n", t.sp_off, t.pages)) }
        }
        for l in &self.lines { s.push_str(l); s.push('\n'); }
        s
    }
}

pub struct Target {
    pub child: Child, pub pid: i32, pub stdin: ChildStdin, pub reader: BufReader<ChildStdout>,
    pub facts: HashMap<String, String>, pub fact_list: Vec<(String, String)>, pub tids: Vec<i32>, pub shared: std::fs::File, pub scen_path: String,
}
/// when set, targets are spawned from the copy of the target program that is linked at a fixed address (not position independent)
/// when set, targets are started with address-space randomisation switched off (their stack then ends at the very top of user space)
pub static NO_ASLR_TARGET: std::sync::atomic::AtomicBool = std::sync::atomic::AtomicBool::new(false);
/// when set, the dump under test runs in a thread of its own that has first installed a seccomp filter refusing
/// process_vm_readv (ENOSYS) and pread64 (EPERM): a sandboxed crash reporter, whose memory reads fall back to PTRACE_PEEKDATA
pub static SANDBOXED_DUMPER: std::sync::atomic::AtomicBool = std::sync::atomic::AtomicBool::new(false);
pub fn install_read_refusing_seccomp_filter() -> bool {
    let f = |code: u16, jt: u8, jf: u8, k: u32| libc::sock_filter { code, jt, jf, k };
    let prog = [ f(0x20, 0, 0, 0),                                   // A = syscall number
                 f(0x15, 0, 1, libc::SYS_process_vm_readv as u32), f(0x06, 0, 0, 0x0005_0000 | libc::ENOSYS as u32),
                 f(0x15, 0, 1, libc::SYS_pread64 as u32), f(0x06, 0, 0, 0x0005_0000 | libc::EPERM as u32),
                 f(0x06, 0, 0, 0x7fff_0000) ];
    let fprog = libc::sock_fprog { len: prog.len() as u16, filter: prog.as_ptr() as *mut libc::sock_filter };
    unsafe { libc::prctl(libc::PR_SET_NO_NEW_PRIVS, 1, 0, 0, 0); libc::prctl(libc::PR_SET_SECCOMP, 2 /* SECCOMP_MODE_FILTER */, &fprog as *const _ as libc::c_ulong, 0, 0) == 0 }
}
pub static FIXED_ADDRESS_TARGET: std::sync::atomic::AtomicBool = std::sync::atomic::AtomicBool::new(false);
static COUNTER: std::sync::atomic::AtomicUsize = std::sync::atomic::AtomicUsize::new(0);
pub fn exe_dir() -> std::path::PathBuf { std::env::current_exe().unwrap().parent().unwrap().parent().unwrap().to_path_buf() }
impl Target {
    pub fn spawn(scen: &Scenario, workdir: &str) -> Result<Target, String> {
        let k = COUNTER.fetch_add(1, std::sync::atomic::Ordering::SeqCst);
        std::fs::create_dir_all(workdir).ok();
        let scen_path = format!("{workdir}/scenario-{}-{k}.txt", std::process::id());
        std::fs::write(&scen_path, scen.text()).map_err(|e| e.to_string())?;
        let tgt = exe_dir().join(if FIXED_ADDRESS_TARGET.load(std::sync::atomic::Ordering::SeqCst) { "tgt_nopie" } else { "tgt" });
        let mut c = Command::new(&tgt);
        c.arg(&scen_path).stdin(Stdio::piped()).stdout(Stdio::piped()).stderr(Stdio::null());
        let no_aslr = NO_ASLR_TARGET.load(std::sync::atomic::Ordering::SeqCst);
        unsafe { c.pre_exec(move || { libc::prctl(libc::PR_SET_PDEATHSIG, libc::SIGKILL); libc::setpgid(0, 0); if no_aslr { libc::personality(0x0040000 /* ADDR_NO_RANDOMIZE */); } Ok(()) }); }
        let mut child = c.spawn().map_err(|e| format!("spawn {tgt:?}: {e}"))?;
        let stdin = child.stdin.take().unwrap();
        let mut reader = BufReader::new(child.stdout.take().unwrap());
        let mut line = String::new();
        reader.read_line(&mut line).map_err(|e| e.to_string())?;
        if !line.starts_with("READY") { let _ = child.kill(); let st = child.wait(); return Err(format!("target did not become ready: {line:?} status {st:?} scenario {:?}", scen.text())); }
        let mut facts = HashMap::new(); let mut fact_list = Vec::new();
        for tok in line.split_whitespace().skip(1) { if let Some((k, v)) = tok.split_once('=') { facts.insert(k.to_string(), v.to_string()); fact_list.push((k.to_string(), v.to_string())); } }
        let pid: i32 = facts["pid"].parse().unwrap();
        let mut tids = Vec::new();
        for i in 0..scen.threads.len() { tids.push(facts[&format!("t{i}.tid")].parse().unwrap()); }
        let shared = std::fs::File::open(&facts["shared"]).map_err(|e| format!("shared page: {e}"))?;
        let mut stdin = stdin;
        let main_exits = scen.lines.iter().any(|l| l.starts_with("mainexit"));
        if main_exits { let _ = writeln!(stdin, "z"); let _ = stdin.flush(); }
        // wait until the main thread has settled in its blocking read of stdin (its registers and stack
        // are then stable between dumps)
        for _ in 0..400 {
            if main_exits { let st = std::fs::read_to_string(format!("/proc/{pid}/stat")).unwrap_or_default(); if st.contains(") Z ") { break; } std::thread::sleep(std::time::Duration::from_micros(500)); continue; }
            let sc = std::fs::read_to_string(format!("/proc/{pid}/syscall")).unwrap_or_default();
            if sc.starts_with("0 0x0 ") { break; }
            std::thread::sleep(std::time::Duration::from_micros(500));
        }
        Ok(Target { child, pid, stdin, reader, facts, fact_list, tids, shared, scen_path })
    }
    /// the target replaces its program image (execve of itself with a new scenario): same pid, new auxiliary vector,
    /// new address-space layout, new threads
    pub fn reexec(&mut self, scen: &Scenario, workdir: &str) -> Result<(), String> {
        let k = COUNTER.fetch_add(1, std::sync::atomic::Ordering::SeqCst);
        let scen_path = format!("{workdir}/scenario-{}-{k}.txt", std::process::id());
        std::fs::write(&scen_path, scen.text()).map_err(|e| e.to_string())?;
        let line = self.cmd(&format!("e {scen_path}"));
        if !line.starts_with("READY") { return Err(format!("target did not come back after exec: {line:?}")); }
        let mut facts = HashMap::new(); let mut fact_list = Vec::new();
        for tok in line.split_whitespace().skip(1) { if let Some((k, v)) = tok.split_once('=') { facts.insert(k.to_string(), v.to_string()); fact_list.push((k.to_string(), v.to_string())); } }
        if facts.get("pid").and_then(|p| p.parse::<i32>().ok()) != Some(self.pid) { return Err("exec changed the pid".into()); }
        let mut tids = Vec::new();
        for i in 0..scen.threads.len() { tids.push(facts.get(&format!("t{i}.tid")).and_then(|v| v.parse().ok()).ok_or("missing tid")?); }
        self.shared = std::fs::File::open(&facts["shared"]).map_err(|e| format!("shared page: {e}"))?;
        let _ = std::fs::remove_file(&self.scen_path);
        self.facts = facts; self.fact_list = fact_list; self.tids = tids; self.scen_path = scen_path;
        for _ in 0..400 { let sc = std::fs::read_to_string(format!("/proc/{}/syscall", self.pid)).unwrap_or_default(); if sc.starts_with("0 0x0 ") { break; } std::thread::sleep(std::time::Duration::from_micros(500)); }
        Ok(())
    }
    /// wait until the threads that block in a system call are back in it (after a stop they restart the
    /// call; a dump taken before they ran again sees them at the `syscall` instruction instead of after it)
    pub fn settle(&self) {
        // waits until every thread is back inside its (restarted) system call: under load that can take a while for a target with
        // many threads, so the wait goes on for as long as the set of threads that are not there yet keeps shrinking or changing;
        // threads that another tracer holds never get there - once nothing has changed for ~100 ms the wait ends
        let mut last: Vec<String> = Vec::new(); let mut unchanged = 0;
        for it in 0..6000 {
            let mut pending: Vec<String> = Vec::new();
            if let Ok(rd) = std::fs::read_dir(format!("/proc/{}/task", self.pid)) {
                for e in rd.flatten() {
                    let sc = std::fs::read_to_string(e.path().join("syscall")).unwrap_or_default();
                    // "running" = never blocks (spinners, null-SP helpers); "-1 ..." = stopped outside a system call
                    if sc.starts_with("-1") { pending.push(e.file_name().to_string_lossy().into_owned()); }
                }
            }
            if pending.is_empty() { break; }
            if pending == last { unchanged += 1; } else { unchanged = 0; last = pending; }
            if it >= 200 && unchanged >= 300 { break; }
            std::thread::sleep(std::time::Duration::from_micros(300));
        }
        std::thread::sleep(std::time::Duration::from_micros(500));
    }
    pub fn fact_hex(&self, k: &str) -> u64 { u64::from_str_radix(self.facts.get(k).map(|s| s.as_str()).unwrap_or("0"), 16).unwrap_or(0) }
    pub fn facts_with_prefix(&self, p: &str) -> Vec<String> { self.fact_list.iter().filter(|(k, _)| k.starts_with(p)).map(|(_, v)| v.clone()).collect() }
    /// u64 slot of the page shared with the target: [0..63] heartbeats, [64..127] signal counts, [128..191] spin counters
    pub fn slot(&self, i: usize) -> u64 { let mut b = [0u8; 8]; let _ = self.shared.read_at(&mut b, 8 * i as u64); u64::from_le_bytes(b) }
    pub fn cmd(&mut self, c: &str) -> String {
        let _ = writeln!(self.stdin, "{c}"); let _ = self.stdin.flush();
        let mut l = String::new(); let _ = self.reader.read_line(&mut l); l
    }
    pub fn thread_states(&self) -> Vec<(i32, char, i32)> { // (tid, state, tracer pid)
        let mut v = Vec::new();
        if let Ok(rd) = std::fs::read_dir(format!("/proc/{}/task", self.pid)) {
            for e in rd.flatten() {
                let Ok(tid) = e.file_name().to_string_lossy().parse::<i32>() else { continue };
                let st = std::fs::read_to_string(format!("/proc/{}/task/{tid}/status", self.pid)).unwrap_or_default();
                let mut state = '?'; let mut tracer = -1;
                for l in st.lines() {
                    if let Some(r) = l.strip_prefix("State:") { state = r.trim().chars().next().unwrap_or('?'); }
                    if let Some(r) = l.strip_prefix("TracerPid:") { tracer = r.trim().parse().unwrap_or(-1); }
                }
                v.push((tid, state, tracer));
            }
        }
        v.sort(); v
    }
}
impl Drop for Target {
    fn drop(&mut self) {
        // a thread that the writer under test left attached is traced by THIS process: its exit has to be reaped by
        // us (the tracer) before the thread-group leader can be waited for
        let tids: Vec<i32> = std::fs::read_dir(format!("/proc/{}/task", self.pid)).map(|rd| rd.flatten().filter_map(|e| e.file_name().to_string_lossy().parse().ok()).collect()).unwrap_or_default();
        unsafe {
            for t in &tids { libc::ptrace(libc::PTRACE_DETACH, *t, 0, 0); }
            libc::kill(-self.pid, libc::SIGKILL); libc::kill(self.pid, libc::SIGKILL);
        }
        for _ in 0..3000 {
            unsafe { for t in &tids { if *t != self.pid { let mut st = 0; libc::waitpid(*t, &mut st, libc::__WALL | libc::WNOHANG); } } }
            if let Ok(Some(_)) = self.child.try_wait() { break; }
            std::thread::sleep(std::time::Duration::from_millis(1));
        }
        let _ = std::fs::remove_file(&self.scen_path);
    }
}

// ------------------------------------------------------------------ world capture
#[derive(Clone)]
pub struct WThread { pub tid: i32, pub comm: Option<Vec<u8>>, pub regs: Option<libc::user_regs_struct>, pub fpregs: Option<libc::user_fpregs_struct>, pub dregs: [u64; 8], pub state: char, pub tracer: i32 }
#[derive(Clone, Default)]
pub struct World {
    pub threads: Vec<WThread>,
    pub maps: Vec<u8>, pub auxv: Vec<u8>, pub cmdline: Vec<u8>, pub environ: Vec<u8>, pub limits: Vec<u8>, pub status: Vec<u8>,
    pub fds: Vec<(i32, String, u32)>,
    pub pid: i32,
    pub snaps: Vec<(u64, Vec<u8>)>,     // memory snapshots taken inside the suspended window
}
impl World {
    pub fn mem(&self, addr: u64, len: usize) -> Option<&[u8]> {
        for (a, b) in &self.snaps { if addr >= *a && addr + len as u64 <= *a + b.len() as u64 { let o = (addr - *a) as usize; return Some(&b[o..o + len]); } }
        None
    }
    pub fn lines(&self) -> Vec<MapLine> { parse_maps(&self.maps) }
    pub fn auxv_value(&self, key: u64) -> Option<u64> {
        for c in self.auxv.chunks_exact(16) { let k = u64::from_le_bytes(c[0..8].try_into().unwrap()); let v = u64::from_le_bytes(c[8..16].try_into().unwrap()); if k == 0 { break; } if k == key { return Some(v); } }
        None
    }
}
#[derive(Clone, Debug)]
pub struct MapLine { pub start: u64, pub end: u64, pub perms: String, pub offset: u64, pub name: String }
/// independent parser of /proc/<pid>/maps
pub fn parse_maps(text: &[u8]) -> Vec<MapLine> {
    let mut v = Vec::new();
    for l in String::from_utf8_lossy(text).lines() {
        let mut it = l.splitn(6, ' ');
        let (Some(range), Some(perms), Some(off), Some(_dev), Some(_inode)) = (it.next(), it.next(), it.next(), it.next(), it.next()) else { continue };
        let name = it.next().unwrap_or("").trim().to_string();
        let Some((a, b)) = range.split_once('-') else { continue };
        let (Ok(start), Ok(end), Ok(offset)) = (u64::from_str_radix(a, 16), u64::from_str_radix(b, 16), u64::from_str_radix(off, 16)) else { continue };
        v.push(MapLine { start, end, perms: perms.to_string(), offset, name });
    }
    v
}
pub fn read_file(p: &str) -> Vec<u8> { std::fs::read(p).unwrap_or_default() }
pub fn read_mem(pid: i32, addr: u64, len: usize) -> Option<Vec<u8>> {
    let f = std::fs::File::open(format!("/proc/{pid}/mem")).ok()?;
    let mut b = vec![0u8; len];
    let mut got = 0;
    // (preadv, not pread64: one stage runs its dump in a thread whose seccomp filter refuses pread64 and process_vm_readv - the
    // harness's own view of the target must not depend on the calls that filter takes away from the writer)
    use std::os::fd::AsRawFd;
    while got < len {
        let iov = libc::iovec { iov_base: b[got..].as_mut_ptr() as *mut libc::c_void, iov_len: len - got };
        let n = unsafe { libc::preadv(f.as_raw_fd(), &iov, 1, (addr + got as u64) as libc::off_t) };
        if n <= 0 { break; } got += n as usize;
    }
    b.truncate(got); Some(b)
}
fn ptrace_regs(tid: i32) -> Option<libc::user_regs_struct> {
    let mut r: libc::user_regs_struct = unsafe { std::mem::zeroed() };
    let rc = unsafe { libc::ptrace(libc::PTRACE_GETREGS, tid, 0, &mut r as *mut _ as *mut libc::c_void) };
    if rc == 0 { Some(r) } else { None }
}
fn ptrace_fpregs(tid: i32) -> Option<libc::user_fpregs_struct> {
    let mut r: libc::user_fpregs_struct = unsafe { std::mem::zeroed() };
    let rc = unsafe { libc::ptrace(libc::PTRACE_GETFPREGS, tid, 0, &mut r as *mut _ as *mut libc::c_void) };
    if rc == 0 { Some(r) } else { None }
}
fn ptrace_dregs(tid: i32) -> [u64; 8] {
    let mut d = [0u64; 8];
    for i in 0..8 {
        unsafe { *libc::__errno_location() = 0; }
        let v = unsafe { libc::ptrace(libc::PTRACE_PEEKUSER, tid, (848 + 8 * i) as *mut libc::c_void, 0) };
        d[i] = v as u64;
    }
    d
}
pub fn capture_world(pid: i32, blamed: i32, ranges: &[(u64, usize)]) -> World {
    let mut w = World { pid, ..Default::default() };
    for (a, n) in ranges { if let Some(b) = read_mem(pid, *a, *n) { w.snaps.push((*a, b)); } }
    if let Ok(rd) = std::fs::read_dir(format!("/proc/{pid}/task")) {
        for e in rd.flatten() {
            let Ok(tid) = e.file_name().to_string_lossy().parse::<i32>() else { continue };
            let comm = std::fs::read(format!("/proc/{pid}/task/{tid}/comm")).ok();
            let st = std::fs::read_to_string(format!("/proc/{pid}/task/{tid}/status")).unwrap_or_default();
            let mut state = '?'; let mut tracer = -1;
            for l in st.lines() {
                if let Some(r) = l.strip_prefix("State:") { state = r.trim().chars().next().unwrap_or('?'); }
                if let Some(r) = l.strip_prefix("TracerPid:") { tracer = r.trim().parse().unwrap_or(-1); }
            }
            let regs = ptrace_regs(tid);
            let (fpregs, dregs) = if regs.is_some() { (ptrace_fpregs(tid), ptrace_dregs(tid)) } else { (None, [0; 8]) };
            // the live stack of every attached thread, from the page of its stack pointer upward
            if let Some(r) = regs { if r.rsp != 0 { if let Some(b) = read_mem(pid, r.rsp & !0xfff, 1 << 20) { if !b.is_empty() { w.snaps.push((r.rsp & !0xfff, b)); } } } }
            w.threads.push(WThread { tid, comm, regs, fpregs, dregs, state, tracer });
        }
    }
    w.maps = read_file(&format!("/proc/{blamed}/maps")); w.auxv = read_file(&format!("/proc/{blamed}/auxv"));
    w.cmdline = read_file(&format!("/proc/{blamed}/cmdline")); w.environ = read_file(&format!("/proc/{blamed}/environ"));
    w.limits = read_file(&format!("/proc/{blamed}/limits")); w.status = read_file(&format!("/proc/{blamed}/status"));
    if let Ok(rd) = std::fs::read_dir(format!("/proc/{pid}/fd")) {
        for e in rd.flatten() {
            let Ok(fd) = e.file_name().to_string_lossy().parse::<i32>() else { continue };
            let link = std::fs::read_link(e.path()).map(|p| p.to_string_lossy().into_owned()).unwrap_or_default();
            let mode = std::fs::metadata(e.path()).map(|m| std::os::unix::fs::MetadataExt::mode(&m)).unwrap_or(0);
            w.fds.push((fd, link, mode));
        }
    }
    w
}

// ------------------------------------------------------------------ dump runner
pub struct RunOut {
    pub result: Result<Vec<u8>, String>,   // Ok(image) | Err(debug text of the error) ; a panic is Err("PANIC: ..")
    pub panicked: bool,
    pub world: Option<World>,              // captured at ThreadsSuspended on the dumping thread
    pub events: Vec<String>,               // hook points seen, in order
}
pub type HookFn = Box<dyn FnMut(Point)>;
/// Runs `f` (which calls `writer.dump(..)`) with a hook that records the points, captures the world
/// at ThreadsSuspended and forwards every point to `extra`.
pub fn with_hooks<R>(pid: i32, blamed: i32, capture: bool, extra: Option<HookFn>, f: impl FnOnce() -> R) -> (R, Option<World>, Vec<String>) { with_hooks_ranges(pid, blamed, capture, vec![], extra, f) }
pub fn with_hooks_ranges<R>(pid: i32, blamed: i32, capture: bool, ranges: Vec<(u64, usize)>, mut extra: Option<HookFn>, f: impl FnOnce() -> R) -> (R, Option<World>, Vec<String>) {
    let world: Rc<RefCell<Option<World>>> = Rc::new(RefCell::new(None));
    let events: Rc<RefCell<Vec<String>>> = Rc::new(RefCell::new(Vec::new()));
    let (w2, e2) = (world.clone(), events.clone());
    let hook: HookFn = Box::new(move |p: Point| {
        e2.borrow_mut().push(match p { Point::ThreadEnumerated(t) => format!("enumerated:{t}"), Point::ThreadsEnumerated => "threads_enumerated".into(),
                                      Point::ThreadsSuspended => "threads_suspended".into(), Point::BeforeResume => "before_resume".into() });
        if capture && p == Point::ThreadsSuspended { *w2.borrow_mut() = Some(capture_world(pid, blamed, &ranges)); }
        if let Some(x) = extra.as_mut() { x(p); }
    });
    let prev = verif_hooks::set_hook(Some(hook));
    let r = f();
    verif_hooks::set_hook(prev);
    let w = world.borrow_mut().take(); let ev = events.borrow().clone();
    (r, w, ev)
}

pub fn read_all(mut r: impl Read) -> Vec<u8> { let mut v = Vec::new(); let _ = r.read_to_end(&mut v); v }

// ------------------------------------------------------------------ watchdog
/// Runs `f` in a forked child (the harness is single-threaded) and returns what it wrote, or
/// `Err("timeout")` / `Err("died: ..")`.  Used for inputs on which the code under test may hang or abort.
pub fn run_forked(timeout_ms: u64, f: impl FnOnce() -> String) -> Result<String, String> {
    let mut fds = [0i32; 2];
    if unsafe { libc::pipe(fds.as_mut_ptr()) } != 0 { return Err("pipe failed".into()); }
    let pid = unsafe { libc::fork() };
    if pid < 0 { return Err("fork failed".into()); }
    if pid == 0 {
        unsafe { libc::close(fds[0]); }
        let s = match crate::common::quiet_catch(std::panic::AssertUnwindSafe(f)) { Ok(s) => s, Err(p) => format!("PANIC: {p}") };
        let b = s.as_bytes(); let mut off = 0;
        while off < b.len() { let n = unsafe { libc::write(fds[1], b[off..].as_ptr() as *const libc::c_void, b.len() - off) }; if n <= 0 { break; } off += n as usize; }
        unsafe { libc::_exit(0); }
    }
    unsafe { libc::close(fds[1]); }
    let start = std::time::Instant::now();
    let mut out = Vec::new();
    let mut buf = [0u8; 65536];
    unsafe { let fl = libc::fcntl(fds[0], libc::F_GETFL); libc::fcntl(fds[0], libc::F_SETFL, fl | libc::O_NONBLOCK); }
    let mut status = 0i32; let mut done = false;
    loop {
        let n = unsafe { libc::read(fds[0], buf.as_mut_ptr() as *mut libc::c_void, buf.len()) };
        if n > 0 { out.extend_from_slice(&buf[..n as usize]); continue; }
        if !done { let r = unsafe { libc::waitpid(pid, &mut status, libc::WNOHANG) }; if r == pid { done = true; continue; } }
        if done && n == 0 { break; }
        if done { break; }
        if start.elapsed().as_millis() as u64 > timeout_ms {
            unsafe { libc::kill(pid, libc::SIGKILL); libc::waitpid(pid, &mut status, 0); libc::close(fds[0]); }
            return Err("timeout".into());
        }
        std::thread::sleep(std::time::Duration::from_micros(300));
    }
    unsafe { libc::close(fds[0]); }
    if libc::WIFSIGNALED(status) { return Err(format!("died: signal {}", libc::WTERMSIG(status))); }
    Ok(String::from_utf8_lossy(&out).into_owned())
}
