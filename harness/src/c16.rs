//! C16: random operation sequences through the public image-builder API
//! (`MemoryWriter`, `MemoryArrayWriter`, `write_string_to_location`) over the record types the
//! writers use.  The field layout of every record is written out by hand below (independent of
//! the `scroll` derive), so the comparison also validates each serialiser.
use crate::common::*;
use minidump_writer::mem_writer::*;
use minidump_writer::minidump_cpu::RawContextCPU;
use minidump_writer::minidump_format::*;
use scroll::ctx::{SizeWith, TryIntoCtx};

trait SingleW { fn set(&mut self, b: &mut Buffer, f: &[u128]) -> bool; fn loc(&self) -> (u32, u32); }
trait ArrW { fn set_at(&mut self, b: &mut Buffer, f: &[u128], idx: usize) -> bool; fn loc(&self) -> (u32, u32); fn loc_idx(&self, idx: usize) -> (u32, u32); }
trait Rec {
    fn name(&self) -> &'static str;
    fn widths(&self) -> Vec<u32>;
    fn alloc(&self, b: &mut Buffer) -> Option<Box<dyn SingleW>>;
    fn alloc_with_val(&self, b: &mut Buffer, f: &[u128]) -> Option<Box<dyn SingleW>>;
    fn alloc_array(&self, b: &mut Buffer, n: usize) -> Option<Box<dyn ArrW>>;
    fn from_iter(&self, b: &mut Buffer, vs: &[Vec<u128>]) -> Option<Box<dyn ArrW>>;
}

struct R<T> { name: &'static str, widths: Vec<u32>, build: fn(&[u128]) -> T }
struct SW<T> { w: MemoryWriter<T>, build: fn(&[u128]) -> T }
struct AW<T> { w: MemoryArrayWriter<T>, build: fn(&[u128]) -> T }

impl<T> SingleW for SW<T> where T: TryIntoCtx<scroll::Endian, Error = scroll::Error> + SizeWith<scroll::Endian> {
    fn set(&mut self, b: &mut Buffer, f: &[u128]) -> bool { self.w.set_value(b, (self.build)(f)).is_ok() }
    fn loc(&self) -> (u32, u32) { let l = self.w.location(); (l.rva, l.data_size) }
}
impl<T> ArrW for AW<T> where T: TryIntoCtx<scroll::Endian, Error = scroll::Error> + SizeWith<scroll::Endian> {
    fn set_at(&mut self, b: &mut Buffer, f: &[u128], idx: usize) -> bool { self.w.set_value_at(b, (self.build)(f), idx).is_ok() }
    fn loc(&self) -> (u32, u32) { let l = self.w.location(); (l.rva, l.data_size) }
    fn loc_idx(&self, idx: usize) -> (u32, u32) { let l = self.w.location_of_index(idx); (l.rva, l.data_size) }
}
impl<T: 'static> Rec for R<T> where T: TryIntoCtx<scroll::Endian, Error = scroll::Error> + SizeWith<scroll::Endian> {
    fn name(&self) -> &'static str { self.name }
    fn widths(&self) -> Vec<u32> { self.widths.clone() }
    fn alloc(&self, b: &mut Buffer) -> Option<Box<dyn SingleW>> {
        MemoryWriter::<T>::alloc(b).ok().map(|w| Box::new(SW { w, build: self.build }) as Box<dyn SingleW>) }
    fn alloc_with_val(&self, b: &mut Buffer, f: &[u128]) -> Option<Box<dyn SingleW>> {
        MemoryWriter::<T>::alloc_with_val(b, (self.build)(f)).ok().map(|w| Box::new(SW { w, build: self.build }) as Box<dyn SingleW>) }
    fn alloc_array(&self, b: &mut Buffer, n: usize) -> Option<Box<dyn ArrW>> {
        MemoryArrayWriter::<T>::alloc_array(b, n).ok().map(|w| Box::new(AW { w, build: self.build }) as Box<dyn ArrW>) }
    fn from_iter(&self, b: &mut Buffer, vs: &[Vec<u128>]) -> Option<Box<dyn ArrW>> {
        let items: Vec<T> = vs.iter().map(|f| (self.build)(f)).collect();
        MemoryArrayWriter::<T>::alloc_from_iter(b, items).ok().map(|w| Box::new(AW { w, build: self.build }) as Box<dyn ArrW>) }
}

fn loc(f: &[u128]) -> MDLocationDescriptor { MDLocationDescriptor { data_size: f[0] as u32, rva: f[1] as u32 } }
fn memdesc(f: &[u128]) -> MDMemoryDescriptor { MDMemoryDescriptor { start_of_memory_range: f[0] as u64, memory: loc(&f[1..]) } }
fn ctx(f: &[u128]) -> RawContextCPU {
    let mut c = RawContextCPU::default();
    c.p1_home = f[0] as u64; c.p2_home = f[1] as u64; c.p3_home = f[2] as u64; c.p4_home = f[3] as u64; c.p5_home = f[4] as u64; c.p6_home = f[5] as u64;
    c.context_flags = f[6] as u32; c.mx_csr = f[7] as u32;
    c.cs = f[8] as u16; c.ds = f[9] as u16; c.es = f[10] as u16; c.fs = f[11] as u16; c.gs = f[12] as u16; c.ss = f[13] as u16;
    c.eflags = f[14] as u32;
    c.dr0 = f[15] as u64; c.dr1 = f[16] as u64; c.dr2 = f[17] as u64; c.dr3 = f[18] as u64; c.dr6 = f[19] as u64; c.dr7 = f[20] as u64;
    c.rax = f[21] as u64; c.rcx = f[22] as u64; c.rdx = f[23] as u64; c.rbx = f[24] as u64; c.rsp = f[25] as u64; c.rbp = f[26] as u64; c.rsi = f[27] as u64; c.rdi = f[28] as u64;
    c.r8 = f[29] as u64; c.r9 = f[30] as u64; c.r10 = f[31] as u64; c.r11 = f[32] as u64; c.r12 = f[33] as u64; c.r13 = f[34] as u64; c.r14 = f[35] as u64; c.r15 = f[36] as u64;
    c.rip = f[37] as u64;
    for i in 0..512 { c.float_save[i] = f[38 + i] as u8; }
    for i in 0..26 { c.vector_register[i] = f[550 + i]; }
    c.vector_control = f[576] as u64; c.debug_control = f[577] as u64; c.last_branch_to_rip = f[578] as u64; c.last_branch_from_rip = f[579] as u64;
    c.last_exception_to_rip = f[580] as u64; c.last_exception_from_rip = f[581] as u64;
    c
}
fn ctx_widths() -> Vec<u32> {
    let mut w = vec![8; 6]; w.extend([4, 4, 2, 2, 2, 2, 2, 2, 4]); w.extend(vec![8; 6]); w.extend(vec![8; 17]);
    w.extend(vec![1; 512]); w.extend(vec![16; 26]); w.extend(vec![8; 6]); w
}

fn records() -> Vec<Box<dyn Rec>> {
    let mut v: Vec<Box<dyn Rec>> = Vec::new();
    v.push(Box::new(R::<u8> { name: "u8", widths: vec![1], build: |f| f[0] as u8 }));
    v.push(Box::new(R::<u16> { name: "u16", widths: vec![2], build: |f| f[0] as u16 }));
    v.push(Box::new(R::<u32> { name: "u32", widths: vec![4], build: |f| f[0] as u32 }));
    v.push(Box::new(R::<u64> { name: "u64", widths: vec![8], build: |f| f[0] as u64 }));
    v.push(Box::new(R::<MDRawHeader> { name: "header", widths: vec![4, 4, 4, 4, 4, 4, 8], build: |f| MDRawHeader {
        signature: f[0] as u32, version: f[1] as u32, stream_count: f[2] as u32, stream_directory_rva: f[3] as u32,
        checksum: f[4] as u32, time_date_stamp: f[5] as u32, flags: f[6] as u64 } }));
    v.push(Box::new(R::<MDLocationDescriptor> { name: "location", widths: vec![4, 4], build: loc }));
    v.push(Box::new(R::<MDMemoryDescriptor> { name: "memory_descriptor", widths: vec![8, 4, 4], build: memdesc }));
    v.push(Box::new(R::<MDRawDirectory> { name: "directory", widths: vec![4, 4, 4], build: |f| MDRawDirectory { stream_type: f[0] as u32, location: loc(&f[1..]) } }));
    v.push(Box::new(R::<MDRawThread> { name: "thread", widths: vec![4, 4, 4, 4, 8, 8, 4, 4, 4, 4], build: |f| MDRawThread {
        thread_id: f[0] as u32, suspend_count: f[1] as u32, priority_class: f[2] as u32, priority: f[3] as u32, teb: f[4] as u64,
        stack: memdesc(&f[5..]), thread_context: loc(&f[8..]) } }));
    v.push(Box::new(R::<MDRawThreadName> { name: "thread_name", widths: vec![4, 8], build: |f| MDRawThreadName { thread_id: f[0] as u32, thread_name_rva: f[1] as u64 } }));
    v.push(Box::new(R::<MDRawModule> { name: "module", widths: { let mut w = vec![8, 4, 4, 4, 4]; w.extend(vec![4; 13]); w.extend(vec![4; 8]); w }, build: |f| MDRawModule {
        base_of_image: f[0] as u64, size_of_image: f[1] as u32, checksum: f[2] as u32, time_date_stamp: f[3] as u32, module_name_rva: f[4] as u32,
        version_info: MDVSFixedFileInfo { signature: f[5] as u32, struct_version: f[6] as u32, file_version_hi: f[7] as u32, file_version_lo: f[8] as u32,
            product_version_hi: f[9] as u32, product_version_lo: f[10] as u32, file_flags_mask: f[11] as u32, file_flags: f[12] as u32, file_os: f[13] as u32,
            file_type: f[14] as u32, file_subtype: f[15] as u32, file_date_hi: f[16] as u32, file_date_lo: f[17] as u32 },
        cv_record: loc(&f[18..]), misc_record: loc(&f[20..]), reserved0: [f[22] as u32, f[23] as u32], reserved1: [f[24] as u32, f[25] as u32] } }));
    v.push(Box::new(R::<MDRawExceptionStream> { name: "exception_stream", widths: { let mut w = vec![4, 4, 4, 4, 8, 8, 4, 4]; w.extend(vec![8; 15]); w.extend([4, 4]); w }, build: |f| {
        let mut info = [0u64; 15]; for i in 0..15 { info[i] = f[8 + i] as u64; }
        MDRawExceptionStream { thread_id: f[0] as u32, __align: f[1] as u32,
            exception_record: MDException { exception_code: f[2] as u32, exception_flags: f[3] as u32, exception_record: f[4] as u64, exception_address: f[5] as u64,
                number_parameters: f[6] as u32, __align: f[7] as u32, exception_information: info },
            thread_context: loc(&f[23..]) } } }));
    v.push(Box::new(R::<MDRawSystemInfo> { name: "system_info", widths: { let mut w = vec![2, 2, 2, 1, 1, 4, 4, 4, 4, 4, 2, 2]; w.extend(vec![1; 24]); w }, build: |f| {
        let mut data = [0u8; 24]; for i in 0..24 { data[i] = f[12 + i] as u8; }
        MDRawSystemInfo { processor_architecture: f[0] as u16, processor_level: f[1] as u16, processor_revision: f[2] as u16, number_of_processors: f[3] as u8,
            product_type: f[4] as u8, major_version: f[5] as u32, minor_version: f[6] as u32, build_number: f[7] as u32, platform_id: f[8] as u32,
            csd_version_rva: f[9] as u32, suite_mask: f[10] as u16, reserved2: f[11] as u16, cpu: format::CPU_INFORMATION { data } } } }));
    v.push(Box::new(R::<MDMemoryInfoList> { name: "memory_info_list", widths: vec![4, 4, 8], build: |f| MDMemoryInfoList { size_of_header: f[0] as u32, size_of_entry: f[1] as u32, number_of_entries: f[2] as u64 } }));
    v.push(Box::new(R::<MDMemoryInfo> { name: "memory_info", widths: vec![8, 8, 4, 4, 8, 4, 4, 4, 4], build: |f| MDMemoryInfo {
        base_address: f[0] as u64, allocation_base: f[1] as u64, allocation_protection: f[2] as u32, __alignment1: f[3] as u32, region_size: f[4] as u64,
        state: f[5] as u32, protection: f[6] as u32, _type: f[7] as u32, __alignment2: f[8] as u32 } }));
    v.push(Box::new(R::<MDRawHandleDataStream> { name: "handle_data_stream", widths: vec![4, 4, 4, 4], build: |f| MDRawHandleDataStream {
        size_of_header: f[0] as u32, size_of_descriptor: f[1] as u32, number_of_descriptors: f[2] as u32, reserved: f[3] as u32 } }));
    v.push(Box::new(R::<MDRawHandleDescriptor> { name: "handle_descriptor", widths: vec![8, 4, 4, 4, 4, 4, 4], build: |f| MDRawHandleDescriptor {
        handle: f[0] as u64, type_name_rva: f[1] as u32, object_name_rva: f[2] as u32, attributes: f[3] as u32, granted_access: f[4] as u32,
        handle_count: f[5] as u32, pointer_count: f[6] as u32 } }));
    v.push(Box::new(R::<MDRawLinkMap> { name: "link_map", widths: vec![8, 4, 8], build: |f| MDRawLinkMap { addr: f[0] as u64, name: f[1] as u32, ld: f[2] as u64 } }));
    v.push(Box::new(R::<MDRawDebug> { name: "dso_debug", widths: vec![4, 4, 4, 8, 8, 8], build: |f| MDRawDebug {
        version: f[0] as u32, map: f[1] as u32, dso_count: f[2] as u32, brk: f[3] as u64, ldbase: f[4] as u64, dynamic: f[5] as u64 } }));
    v.push(Box::new(R::<RawContextCPU> { name: "context_amd64", widths: ctx_widths(), build: ctx }));
    v
}

fn gen_fields(rng: &mut Rng, widths: &[u32]) -> Vec<u128> { widths.iter().map(|w| rng.interesting(8 * *w)).collect() }
fn put_fields(l: &mut Line, widths: &[u32], f: &[u128]) { l.z(widths.len()); for (w, v) in widths.iter().zip(f) { l.u(*w as u64); l.n(*v); } }

fn gen_string(rng: &mut Rng) -> Vec<char> {
    let n = match rng.below(6) { 0 => 0, 1 => 1, _ => rng.below(24) } as usize;
    (0..n).map(|_| loop {
        let c = match rng.below(8) {
            0 => rng.range(0x20, 0x7e) as u32, 1 => rng.range(0x80, 0x7ff) as u32, 2 => rng.range(0x800, 0xd7ff) as u32,
            3 => rng.range(0xe000, 0xffff) as u32, 4 => rng.range(0x10000, 0x10ffff) as u32,
            5 => *rng.pick(&[0u32, 0xd7ff, 0xe000, 0xffff, 0x10000, 0x10ffff, 0x1f600, 0x20, 0x9]), _ => rng.range(0x20, 0x7e) as u32 };
        if let Some(c) = char::from_u32(c) { break c; }
    }).collect()
}

pub fn run(a: &Args) {
    let mut rng = Rng::new(a.seed);
    let recs = records();
    let mut out = Out::new();
    let max_ops = if a.tier == "thorough" { 80 } else { 40 };
    // raw byte blobs of the sizes stacks and application regions have (up to a little more than 1 MiB): judged by the layout
    // law itself - the blob is appended whole, located where it starts, and whatever follows lands right behind it
    for n in [4097usize, 65536, (1 << 20) - 1, 1 << 20, (1 << 20) + 5, (1 << 20) + 4096] {
        let mut b = Buffer::with_capacity(0);
        let h = minidump_writer::mem_writer::MemoryWriter::<u32>::alloc_with_val(&mut b, 0xabcd_u32).ok().map(|w| w.location());
        let blob: Vec<u8> = (0..n).map(|i| (i as u32).wrapping_mul(2654435761).to_le_bytes()[1]).collect();
        let w = MemoryArrayWriter::<u8>::write_bytes(&mut b, &blob).location();
        let t = minidump_writer::mem_writer::MemoryWriter::<u64>::alloc_with_val(&mut b, 0x1122_3344_5566_7788u64).ok().map(|w| w.location());
        let mut l = Line::new("const"); l.z(n).u(0).u(4).u(4).z(n).z(4 + n).u(8).z(4 + n + 8).u(1).u(1);
        let mut r = Line::bare(); r.z(n);
        match (h, t) { (Some(h), Some(t)) => { r.u(h.rva as u64).u(h.data_size as u64).u(w.rva as u64).u(w.data_size as u64).u(t.rva as u64).u(t.data_size as u64).z(b.len());
                           r.b(b.get(4..4 + n) == Some(&blob[..])).b(b.get(4 + n..4 + n + 8) == Some(&0x1122_3344_5566_7788u64.to_le_bytes()[..])); }
                       _ => { r.0 = "!a write failed".into(); } }
        out.case(l.s(), r.s(), true); out.count("op.write_bytes.long_blob_judged_by_the_law");
    }
    for _case in 0..a.n {
        let nops = rng.below(max_ops + 1);
        let mut line = Line::new("c16");
        let mut res = Line::bare();
        let mut results: Vec<(u64, u32, u32, usize)> = Vec::new();
        let mut b = Buffer::with_capacity(0);
        let mut singles: Vec<(usize, Box<dyn SingleW>)> = Vec::new();
        let mut arrays: Vec<(usize, usize, Box<dyn ArrW>)> = Vec::new();
        let hostile = rng.chance(1, 12);
        let mut kinds = std::collections::BTreeSet::new();
        let mut panicked = false;
        let mut last_blob: Vec<u8> = Vec::new();
        for _ in 0..nops {
            let ri = rng.below(recs.len() as u64) as usize;
            // the 1232-byte context record is drawn less often to keep cases small
            let ri = if recs[ri].name() == "context_amd64" && !rng.chance(1, 4) { 2 } else { ri };
            let r = &recs[ri]; let w = r.widths();
            let esz: usize = w.iter().sum::<u32>() as usize;
            let choice = rng.below(10);
            let r1 = std::panic::AssertUnwindSafe(|| -> Option<(u32, u32)> { match choice {
                0 => { line.u(0); let f = gen_fields(&mut rng, &w); put_fields(&mut line, &w, &f);
                       out.count("op.alloc"); kinds.insert(0);
                       let s = r.alloc(&mut b)?; let l = s.loc(); singles.push((ri, s)); Some(l) }
                1 => { line.u(1); let f = gen_fields(&mut rng, &w); put_fields(&mut line, &w, &f);
                       out.count("op.alloc_with_val"); kinds.insert(1);
                       let s = r.alloc_with_val(&mut b, &f)?; let l = s.loc(); singles.push((ri, s)); Some(l) }
                2 | 3 if !singles.is_empty() => {
                       let k = rng.below(singles.len() as u64) as usize; let (sri, _) = singles[k];
                       let w = recs[sri].widths(); let f = gen_fields(&mut rng, &w);
                       line.u(2).z(k); put_fields(&mut line, &w, &f); out.count("op.set_value"); kinds.insert(2);
                       let s = &mut singles[k].1; if !s.set(&mut b, &f) { return None; } Some(s.loc()) }
                4 => { let n = rng.below(6) as usize; line.u(3).z(n).z(esz); out.count("op.alloc_array"); kinds.insert(3);
                       let s = r.alloc_array(&mut b, n)?; let l = s.loc(); arrays.push((ri, n, s)); Some(l) }
                5 | 6 if !arrays.is_empty() => {
                       let k = rng.below(arrays.len() as u64) as usize; let (ari, n, _) = (arrays[k].0, arrays[k].1, ());
                       let idx = if hostile && rng.chance(1, 3) { n + rng.below(3) as usize } else if n == 0 { 0 } else { rng.below(n as u64) as usize };
                       if idx >= n { out.count("op.set_value_at.outside_array"); }
                       let w = recs[ari].widths(); let f = gen_fields(&mut rng, &w);
                       line.u(4).z(k).z(idx); put_fields(&mut line, &w, &f); out.count("op.set_value_at"); kinds.insert(4);
                       let s = &mut arrays[k].2; if !s.set_at(&mut b, &f, idx) { return None; } Some(s.loc_idx(idx)) }
                7 => { let n = rng.below(5) as usize; let vs: Vec<Vec<u128>> = (0..n).map(|_| gen_fields(&mut rng, &w)).collect();
                       line.u(5).z(n).z(esz); for f in &vs { put_fields(&mut line, &w, f); } out.count("op.alloc_from_iter"); kinds.insert(5);
                       let s = r.from_iter(&mut b, &vs)?; let l = s.loc(); arrays.push((ri, n, s)); Some(l) }
                8 => { let n = rng.below(40) as usize;
                       // a blob of zeros (what a reserved slot at the end of the image holds), the previous blob again, or fresh bytes
                       let bs: Vec<u8> = match rng.below(4) { 0 => vec![0u8; n], 1 if !last_blob.is_empty() => last_blob.clone(), _ => (0..n).map(|_| rng.next() as u8).collect() };
                       last_blob = bs.clone();
                       line.u(7).vec(&bs); out.count("op.write_bytes"); kinds.insert(7);
                       // write_bytes and alloc_from_array (Copy element types) both go through u8 here
                       let w = if rng.chance(1, 2) { MemoryArrayWriter::<u8>::write_bytes(&mut b, &bs) } else { MemoryArrayWriter::<u8>::alloc_from_array(&mut b, &bs).ok()? };
                       let l = w.location(); Some((l.rva, l.data_size)) }
                _ => { let s = gen_string(&mut rng); line.u(8).z(s.len()); for c in &s { line.u(*c as u64); }
                       out.count("op.write_string"); kinds.insert(8);
                       if s.iter().any(|c| (*c as u32) >= 0x10000) { out.count("op.write_string.astral"); }
                       let text: String = s.iter().collect();
                       let l = write_string_to_location(&mut b, &text).ok()?; Some((l.rva, l.data_size)) }
            } });
            match quiet_catch(r1) {
                Ok(Some((rva, sz))) => results.push((0, rva, sz, b.len())),
                Ok(None) => { results.push((1, 0, 0, b.len())); break; }
                Err(_) => { panicked = true; break; }
            }
        }
        if panicked {
            // a trap inside the builder: the model reports tag 2 with the buffer as it stood before the op;
            // the real buffer may already have been resized, so only the outcome tags are compared.
            res.z(results.len() + 1);
            for (t, rva, sz, bl) in &results { res.u(*t).u(*rva as u64).u(*sz as u64).z(*bl); }
            res.u(2).u(0).u(0);
            out.count("case.panic");
            // compare only up to the panic marker: emit as a prefix-comparison case
            let mut cl = String::from("prefix "); cl.push_str(line.s());
            out.case(&cl, res.s(), true);
            continue;
        }
        res.z(results.len());
        for (t, rva, sz, bl) in &results { res.u(*t).u(*rva as u64).u(*sz as u64).z(*bl); }
        res.vec(&b);
        let nontrivial = kinds.len() >= 3 && (kinds.contains(&2) || kinds.contains(&4));
        out.count(&format!("case.ops.{}", match nops { 0 => "0", 1..=9 => "1-9", 10..=39 => "10-39", _ => "40+" }));
        out.case(line.s(), res.s(), nontrivial);
    }
    out.assumptions.push("record field layouts (order and widths) are written by hand in harness/src/c16.rs from the minidump format; scroll's derive is what is being checked against them".into());
    out.finish(&a.out, "random op sequences (alloc / alloc_with_val / set_value / alloc_array / set_value_at / alloc_from_iter / alloc_from_array / write_bytes / write_string) over 20 record types; non-trivial = at least 3 distinct op kinds including a fill-later op; distinct by case text");
}
