//! C14: ELF identification.
//!  mut   - structure-aware corruptions of a small valid image: implementation vs the Coq model
//!  files - ELF files installed on the machine: implementation vs an independent hand-written reader
use crate::common::*;
use crate::tiny::TINY_ELF;
use minidump_writer::module_reader::{BuildId, ReadFromModule, SoName};

const VALS: [u64; 16] = [0, 1, 2, 3, 4, 7, 8, 0x10, 0x38, 0x40, 0x1000, 0x7fff_ffff_ffff_ffff, 0xffff_ffff_ffff_fff8, u64::MAX - 1, u64::MAX, 0x8000_0000_0000_0000];

fn impl_build_id(b: &[u8]) -> String {
    let bb = b.to_vec();
    match quiet_catch(move || BuildId::read_from_module((&bb[..]).into()).map(|x| x.0)) {
        Err(_) => "2".into(),
        Ok(Err(_)) => "1".into(),
        Ok(Ok(id)) => { let mut l = Line::bare(); l.u(0).bytes(&id); l.0 }
    }
}

/// SONAME extraction against the Coq model of both lookup paths (ElfSoname.v): value, error or panic
fn soname_total(out: &mut Out, b: &[u8]) {
    let bb = b.to_vec();
    let r = quiet_catch(move || SoName::read_from_module((&bb[..]).into()).map(|x| x.0.into_bytes()));
    out.count(&format!("soname.{}", match &r { Ok(Ok(_)) => "name", Ok(Err(_)) => "error", Err(_) => "panic" }));
    let got = match r { Err(_) => "2".to_string(), Ok(Err(_)) => "1".to_string(), Ok(Ok(n)) => { let mut l = Line::bare(); l.u(0).bytes(&n); l.0 } };
    if b.len() <= 3000 { let mut l = Line::new("c14_soname"); l.bytes(b); out.case(l.s(), &got, got.starts_with('0')); }
    else if got == "2" { let mut l = Line::new("const"); l.u(0); l.vec(b); let mut res = Line::bare(); res.u(2); res.vec(b); out.case(l.s(), res.s(), true); }
}

pub fn run_mut(a: &Args) {
    let mut rng = Rng::new(a.seed);
    let mut out = Out::new();
    let base = TINY_ELF.to_vec();
    // field map of the small image: (offset, width) of every header / phdr / shdr / note field
    let mut fields: Vec<(usize, usize)> = vec![(4, 1), (5, 1), (6, 1), (16, 2), (18, 2), (20, 4), (24, 8), (32, 8), (40, 8), (48, 4), (52, 2), (54, 2), (56, 2), (58, 2), (60, 2), (62, 2)];
    for i in 0..3 { let o = 0x40 + 56 * i; fields.extend([(o, 4), (o + 4, 4), (o + 8, 8), (o + 16, 8), (o + 24, 8), (o + 32, 8), (o + 40, 8), (o + 48, 8)]); }
    for i in 0..6 { let o = 0xe8 + 64 * i; fields.extend([(o, 4), (o + 4, 4), (o + 8, 8), (o + 16, 8), (o + 24, 8), (o + 32, 8), (o + 40, 4), (o + 44, 4), (o + 48, 8), (o + 56, 8)]); }
    // the four entries of the dynamic array (tag, value): DT_SONAME, DT_STRTAB, DT_STRSZ, DT_NULL
    for i in 0..4 { let o = 0x2bd + 16 * i; fields.extend([(o, 8), (o + 8, 8)]); }
    if a.extra.iter().any(|x| x == "sweep") {
        // every header field at every boundary value, under each strategy-forcing variant
        for variant in 0..3 {
            for (off, w) in &fields {
                for v in VALS.iter().chain([base.len() as u64 - 1, base.len() as u64, base.len() as u64 + 1, 0xc, 0xd, 0xe, 5, 10, 14].iter()) {   // 0xd = size of the dynamic string table; 5/10/14 = DT_STRTAB/DT_STRSZ/DT_SONAME
                    let mut b = base.clone();
                    if variant >= 1 { b[32..40].copy_from_slice(&0u64.to_le_bytes()); }
                    if variant == 2 { let o = 0xe8 + 64 * 2; b[o + 4..o + 8].copy_from_slice(&1u32.to_le_bytes()); b[o] ^= 0x55; }
                    b[*off..*off + *w].copy_from_slice(&v.to_le_bytes()[..*w]);
                    let mut line = Line::new("c14"); line.bytes(&b);
                    let r = impl_build_id(&b);
                    out.count(&format!("sweep.variant{variant}.impl.{}", match r.as_bytes()[0] { b'0' => "id", b'1' => "error", _ => "panic" }));
                    out.case(line.s(), &r, true);
                    soname_total(&mut out, &b);
                }
            }
            // pairs: a string-table offset near 2^64 together with a non-zero name offset (the two unchecked additions)
            if variant >= 1 {
                for big in [u64::MAX, u64::MAX - 1, u64::MAX - 7, u64::MAX - 0x20] {
                    for small in [1u32, 2, 7, 0x10] {
                        for (strtab_sec, name_sec) in [(3usize, 0usize), (3, 1), (5, 0), (5, 4)] {
                            let mut b = base.clone();
                            b[32..40].copy_from_slice(&0u64.to_le_bytes());
                            if variant == 2 { let o = 0xe8 + 64 * 2; b[o + 4..o + 8].copy_from_slice(&1u32.to_le_bytes()); b[o] ^= 0x55; }
                            let so = 0xe8 + 64 * strtab_sec + 24; b[so..so + 8].copy_from_slice(&big.to_le_bytes());
                            let no = 0xe8 + 64 * name_sec; b[no..no + 4].copy_from_slice(&small.to_le_bytes());
                            let mut line = Line::new("c14"); line.bytes(&b);
                            let r = impl_build_id(&b);
                            out.count(&format!("sweep.pairs.impl.{}", match r.as_bytes()[0] { b'0' => "id", b'1' => "error", _ => "panic" }));
                            out.case(line.s(), &r, true);
                            soname_total(&mut out, &b);
                            // the dynamic string table address / SONAME offset pair (SONAME path)
                            let mut b2 = base.clone();
                            let dynoff = 0xe8 + 64 * 4 + 24; let d = u64::from_le_bytes(b2[dynoff..dynoff + 8].try_into().unwrap()) as usize;
                            if d + 48 <= b2.len() { for e in 0..3 { let tag = u64::from_le_bytes(b2[d + 16 * e..d + 16 * e + 8].try_into().unwrap());
                                if tag == 5 { b2[d + 16 * e + 8..d + 16 * e + 16].copy_from_slice(&big.to_le_bytes()); }
                                if tag == 10 { b2[d + 16 * e + 8..d + 16 * e + 16].copy_from_slice(&u64::MAX.to_le_bytes()); }
                                if tag == 14 { b2[d + 16 * e + 8..d + 16 * e + 16].copy_from_slice(&(small as u64 + 0x20).to_le_bytes()); } } }
                            soname_total(&mut out, &b2);
                        }
                    }
                }
            }
        }
        out.notes.push("exhaustive sweep: 3 strategy variants x every header/program-header/section-header field x 19 boundary values".into());
        out.finish(&a.out, "field sweep: each header / program-header / section-header field of a valid image set to each boundary value, with the program-header path enabled, disabled, and with the note-section path disabled as well");
        return;
    }
    for case in 0..a.n {
        let mut b = base.clone();
        let nmut = if case == 0 { 0 } else { 1 + rng.below(3) };
        // force the later strategies: disable the program-header path and, sometimes, the note-section path
        if case > 0 && rng.chance(1, 2) {
            match rng.below(3) { 0 => { b[32..40].copy_from_slice(&0u64.to_le_bytes()); } 1 => { b[0x40 + 56..0x40 + 60].copy_from_slice(&1u32.to_le_bytes()); } _ => { b[56] = 0; } }
            out.count("mutation.disable_program_header_path");
            if rng.chance(1, 3) { let o = 0xe8 + 64 * 2; b[o + 4..o + 8].copy_from_slice(&1u32.to_le_bytes()); b[o] ^= 0x55; out.count("mutation.disable_note_section_path"); }
        }
        for _ in 0..nmut {
            let (off, w) = if rng.chance(3, 4) { *rng.pick(&fields) } else { let w = *rng.pick(&[1usize, 2, 4, 8]); ((rng.below(b.len() as u64 - 8) as usize / w) * w, w) };
            if off + w > b.len() { continue; }
            let v = if rng.chance(2, 3) { *rng.pick(&VALS) } else if rng.chance(1, 2) { b.len() as u64 + rng.below(3) - 1 } else { rng.next() };
            b[off..off + w].copy_from_slice(&v.to_le_bytes()[..w]);
            out.count("mutation.field");
        }
        if rng.chance(1, 10) { let n = rng.below(b.len() as u64) as usize; b.truncate(n); out.count("mutation.truncate"); }
        if rng.chance(1, 40) { b = (0..rng.below(200)).map(|_| rng.next() as u8).collect(); out.count("mutation.random_bytes"); }
        let mut line = Line::new("c14"); line.bytes(&b);
        let r = impl_build_id(&b);
        out.count(&format!("impl.{}", match r.as_bytes()[0] { b'0' => "id", b'1' => "error", _ => "panic" }));
        out.case(line.s(), &r, nmut > 0);
        soname_total(&mut out, &b);
    }
    out.assumptions.push("goblin's header/program-header/section-header/note primitives are mirrored in the model (Elf.v), not verified; big-endian images and non-ASCII note names are outside the modelled fragment (model answers 'unspecified', the implementation only must not panic)".into());
    out.finish(&a.out, "BuildId::read_from_module on structure-aware corruptions of a valid 64-bit image: every header / program-header / section-header field set to boundary values {0,1,..,size+-1,2^63,2^64-8,2^64-1}, random multi-field corruptions, truncations, random bytes; non-trivial = at least one mutation applied; distinct by image");
}

// ---------------- independent reader (sections first, no goblin) ----------------
fn rd(b: &[u8], off: usize, w: usize) -> Option<u64> {
    let s = b.get(off..off.checked_add(w)?)?; let mut v = 0u64; for (i, x) in s.iter().enumerate() { v |= (*x as u64) << (8 * i); } Some(v)
}
struct Sh { name: u32, typ: u32, flags: u64, offset: u64, size: u64, link: u32 }
fn sections(b: &[u8]) -> Option<(bool, Vec<Sh>, usize)> {
    if b.len() < 64 || &b[0..4] != b"\x7fELF" || b[5] != 1 { return None; }
    let c64 = match b[4] { 2 => true, 1 => false, _ => return None };
    let (shoff, shentsize, shnum, shstrndx) = if c64 { (rd(b, 40, 8)?, rd(b, 58, 2)?, rd(b, 60, 2)?, rd(b, 62, 2)?) } else { (rd(b, 32, 4)?, rd(b, 46, 2)?, rd(b, 48, 2)?, rd(b, 50, 2)?) };
    if shoff == 0 || shnum == 0 { return None; }
    let mut v = Vec::new();
    for i in 0..shnum {
        let o = (shoff + i * shentsize) as usize;
        v.push(if c64 { Sh { name: rd(b, o, 4)? as u32, typ: rd(b, o + 4, 4)? as u32, flags: rd(b, o + 8, 8)?, offset: rd(b, o + 24, 8)?, size: rd(b, o + 32, 8)?, link: rd(b, o + 40, 4)? as u32 } }
               else { Sh { name: rd(b, o, 4)? as u32, typ: rd(b, o + 4, 4)? as u32, flags: rd(b, o + 8, 4)?, offset: rd(b, o + 16, 4)?, size: rd(b, o + 20, 4)?, link: rd(b, o + 24, 4)? as u32 } });
    }
    Some((c64, v, shstrndx as usize))
}
fn cstr(b: &[u8], off: usize) -> Option<&[u8]> { let s = b.get(off..)?; let n = s.iter().position(|x| *x == 0)?; Some(&s[..n]) }
fn indep_build_id(b: &[u8]) -> Option<Vec<u8>> {
    let (_, shs, strndx) = sections(b)?;
    let strtab = shs.get(strndx)?;
    let _ = strtab;
    for s in &shs {
        if s.typ != 7 { continue; }
        // every note of every SHT_NOTE section: namesz, descsz, type, name (4-aligned), desc (4-aligned)
        let mut o = s.offset as usize; let end = (s.offset + s.size) as usize;
        while o + 12 <= end {
            let namesz = rd(b, o, 4)? as usize; let descsz = rd(b, o + 4, 4)? as usize; let ty = rd(b, o + 8, 4)?;
            let d = o + 12 + ((namesz + 3) & !3);
            if ty == 3 && namesz == 4 && b.get(o + 12..o + 16)? == b"GNU\0" { return Some(b.get(d..d + descsz)?.to_vec()); }
            o = d + ((descsz + 3) & !3);
        }
    }
    // no note: XOR-fold of the first page of the first executable PROGBITS section
    let t = shs.iter().find(|s| s.typ == 1 && s.flags & 2 != 0 && s.flags & 4 != 0)?;
    let data = b.get(t.offset as usize..(t.offset + t.size.min(4096)) as usize)?;
    let mut id = vec![0u8; 16]; for (i, x) in data.iter().enumerate() { id[i % 16] ^= *x; } Some(id)
}
fn indep_soname(b: &[u8]) -> Option<Vec<u8>> {
    let (c64, shs, _) = sections(b)?;
    let dynamic = shs.iter().find(|s| s.typ == 6)?;
    let dynstr = shs.get(dynamic.link as usize).filter(|s| s.typ == 3)?;
    let (esz, w) = if c64 { (16usize, 8usize) } else { (8, 4) };
    let mut o = dynamic.offset as usize;
    while o + esz <= (dynamic.offset + dynamic.size) as usize {
        let tag = rd(b, o, w)?; let val = rd(b, o + w, w)?;
        if tag == 0 { break; }
        if tag == 14 { return cstr(b, (dynstr.offset + val) as usize).map(|s| s.to_vec()); }
        o += esz;
    }
    None
}

pub fn run_files(a: &Args) {
    let mut rng = Rng::new(a.seed);
    let mut out = Out::new();
    let mut files: Vec<std::path::PathBuf> = Vec::new();
    let dirs: &[&str] = if a.tier == "thorough" { &["/usr/lib/x86_64-linux-gnu", "/usr/bin", "/usr/sbin", "/usr/lib/ocaml", "/usr/libexec", "/usr/lib/gcc/x86_64-linux-gnu"] } else { &["/usr/lib/x86_64-linux-gnu", "/usr/bin"] };
    for d in dirs {
        let mut stack = vec![std::path::PathBuf::from(d)];
        while let Some(p) = stack.pop() {
            let Ok(rdir) = std::fs::read_dir(&p) else { continue };
            for e in rdir.flatten() {
                let Ok(ft) = e.file_type() else { continue };
                if ft.is_dir() { if a.tier == "thorough" { stack.push(e.path()); } } else if ft.is_file() { files.push(e.path()); }
            }
        }
    }
    files.sort();
    // a seeded sample in the quick tier, everything in the thorough tier
    let want = a.n as usize;
    while files.len() > want && want > 0 { let k = rng.below(files.len() as u64) as usize; files.swap_remove(k); }
    files.sort();
    for f in &files {
        let Ok(bytes) = std::fs::read(f) else { continue };
        if bytes.len() < 64 || &bytes[0..4] != b"\x7fELF" { out.count("file.not_elf"); continue; }
        if bytes.len() > 64 << 20 { out.count("file.too_large"); continue; }
        out.count(if bytes[4] == 2 { "file.elf64" } else { "file.elf32" });
        let exp_id = indep_build_id(&bytes); let exp_so = indep_soname(&bytes);
        let ff = f.clone();
        let got_id = quiet_catch(move || BuildId::read_from_file(&ff).ok().map(|x| x.0));
        let ff = f.clone();
        let got_so = quiet_catch(move || SoName::read_from_file(&ff).ok().map(|x| x.0.into_bytes()));
        let mut case = Line::new("const"); let mut res = Line::bare();
        // path as tokens first so that the replay names the file
        case.vec(f.to_string_lossy().as_bytes()); res.vec(f.to_string_lossy().as_bytes());
        match &exp_id { Some(v) => { case.u(1).vec(v); } None => { case.u(0).u(0); } }
        match &exp_so { Some(v) => { case.u(1).vec(v); } None => { case.u(0).u(0); } }
        match &got_id { Ok(Some(v)) => { res.u(1).vec(v); } Ok(None) => { res.u(0).u(0); } Err(_) => { res.u(2).u(0); } }
        match &got_so { Ok(Some(v)) => { res.u(1).vec(v); } Ok(None) => { res.u(0).u(0); } Err(_) => { res.u(2).u(0); } }
        if exp_id.is_some() { out.count("file.has_build_id"); } if exp_so.is_some() { out.count("file.has_soname"); }
        out.case(case.s(), res.s(), exp_id.is_some());
    }
    out.assumptions.push("the independent reader (harness/src/c14.rs: section-header based, hand-written, no goblin) defines the expected build id / SONAME of installed files".into());
    out.finish(&a.out, "installed ELF files: BuildId/SoName::read_from_file vs an independent section-based reader (GNU build-id note, else XOR-fold of the first page of the first executable PROGBITS section; DT_SONAME via .dynamic/.dynstr); non-trivial = the file has a build id; distinct by path");
}

/// a well-formed ELF64 image without program headers: [ehdr][pad][.text][note?][.shstrtab][section headers]
fn synth_elf(text_off: usize, text: &[u8], note: Option<&[u8]>, note_align: u64) -> Vec<u8> {
    let mut b = vec![0u8; 64];
    b[0..4].copy_from_slice(b"\x7fELF"); b[4] = 2; b[5] = 1; b[6] = 1;
    b[16] = 3; b[18] = 62; b[20] = 1;
    b.resize(text_off.max(64), 0);
    let toff = b.len(); b.extend_from_slice(text);
    while b.len() % 8 != 0 { b.push(0); }
    let noff = b.len();
    if let Some(id) = note { b.extend_from_slice(&4u32.to_le_bytes()); b.extend_from_slice(&(id.len() as u32).to_le_bytes()); b.extend_from_slice(&3u32.to_le_bytes()); b.extend_from_slice(b"GNU\0"); while (b.len() - noff) % note_align as usize != 0 { b.push(0); } b.extend_from_slice(id); while b.len() % 8 != 0 { b.push(0); } }
    let nlen = b.len() - noff;
    let strtab = b"\0.text\0.note.gnu.build-id\0.shstrtab\0"; let soff = b.len(); b.extend_from_slice(strtab);
    while b.len() % 8 != 0 { b.push(0); }
    let shoff = b.len();
    let mut sh = |name: u32, typ: u32, flags: u64, off: usize, size: usize, align: u64, b: &mut Vec<u8>| {
        b.extend_from_slice(&name.to_le_bytes()); b.extend_from_slice(&typ.to_le_bytes()); b.extend_from_slice(&flags.to_le_bytes()); b.extend_from_slice(&0u64.to_le_bytes());
        b.extend_from_slice(&(off as u64).to_le_bytes()); b.extend_from_slice(&(size as u64).to_le_bytes()); b.extend_from_slice(&0u32.to_le_bytes()); b.extend_from_slice(&0u32.to_le_bytes());
        b.extend_from_slice(&align.to_le_bytes()); b.extend_from_slice(&0u64.to_le_bytes()); };
    sh(0, 0, 0, 0, 0, 0, &mut b);
    sh(1, 1, 6, toff, text.len(), 16, &mut b);
    let mut n = 3u16;
    if note.is_some() { sh(7, 7, 2, noff, nlen, note_align, &mut b); n = 4; }
    sh(26, 3, 0, soff, strtab.len(), 1, &mut b);
    b[40..48].copy_from_slice(&(shoff as u64).to_le_bytes()); b[58..60].copy_from_slice(&64u16.to_le_bytes()); b[60..62].copy_from_slice(&n.to_le_bytes()); b[62..64].copy_from_slice(&(n - 1).to_le_bytes());
    b
}

/// a well-formed image of either class, with or without a program-header table (one PT_LOAD, one PT_NOTE over the note
/// area) and with or without section headers; `lead` notes precede the GNU build-id note in the same note area
/// `split`: the notes before the build-id note get a PT_NOTE segment of their own, the build-id note a second one
pub fn synth_elf_gen(c64: bool, phdrs: bool, shdrs: bool, split: bool, text: &[u8], lead: &[(&[u8], &[u8], u32)], id: Option<&[u8]>, align: usize) -> Vec<u8> {
    let ehsize = if c64 { 64 } else { 52 }; let phsize = if c64 { 56 } else { 32 }; let shsize = if c64 { 64 } else { 40 };
    let mut b = vec![0u8; ehsize];
    b[0..4].copy_from_slice(b"\x7fELF"); b[4] = if c64 { 2 } else { 1 }; b[5] = 1; b[6] = 1; b[16] = 3; b[18] = if c64 { 62 } else { 3 }; b[20] = 1;
    let nph = if split { 3 } else { 2 };
    let phoff = b.len(); if phdrs { b.resize(phoff + nph * phsize, 0); }
    while b.len() % 16 != 0 { b.push(0); }
    let toff = b.len(); b.extend_from_slice(text); while b.len() % 8 != 0 { b.push(0); }
    let noff = b.len();
    let put_note = |b: &mut Vec<u8>, base: usize, name: &[u8], desc: &[u8], ty: u32| {
        b.extend_from_slice(&((name.len() + 1) as u32).to_le_bytes()); b.extend_from_slice(&(desc.len() as u32).to_le_bytes()); b.extend_from_slice(&ty.to_le_bytes());
        b.extend_from_slice(name); b.push(0); while (b.len() - base) % align != 0 { b.push(0); }
        b.extend_from_slice(desc); while (b.len() - base) % align != 0 { b.push(0); } };
    for (n, d, t) in lead { put_note(&mut b, noff, n, d, *t); }
    let lead_len = b.len() - noff;
    if split { while b.len() % 8 != 0 { b.push(0); } }
    let idoff = if split { b.len() } else { noff };
    if let Some(id) = id { put_note(&mut b, idoff, b"GNU", id, 3); }
    let nlen = b.len() - noff; while b.len() % 8 != 0 { b.push(0); }
    let strtab = b"\0.text\0.note.gnu.build-id\0.shstrtab\0"; let soff = b.len(); b.extend_from_slice(strtab); while b.len() % 8 != 0 { b.push(0); }
    let shoff = b.len(); let mut shnum = 0u16;
    if shdrs {
        let mut sh = |name: u32, typ: u32, flags: u64, off: usize, size: usize, al: u64, b: &mut Vec<u8>| {
            if c64 { b.extend_from_slice(&name.to_le_bytes()); b.extend_from_slice(&typ.to_le_bytes()); b.extend_from_slice(&flags.to_le_bytes()); b.extend_from_slice(&0u64.to_le_bytes());
                     b.extend_from_slice(&(off as u64).to_le_bytes()); b.extend_from_slice(&(size as u64).to_le_bytes()); b.extend_from_slice(&[0u8; 8]); b.extend_from_slice(&al.to_le_bytes()); b.extend_from_slice(&0u64.to_le_bytes()); }
            else { for v in [name, typ, flags as u32, 0, off as u32, size as u32, 0, 0, al as u32, 0] { b.extend_from_slice(&v.to_le_bytes()); } } };
        sh(0, 0, 0, 0, 0, 0, &mut b); sh(1, 1, 6, toff, text.len(), 16, &mut b); shnum = 3;
        if nlen > 0 { sh(7, 7, 2, noff, nlen, align as u64, &mut b); shnum = 4; }
        sh(26, 3, 0, soff, strtab.len(), 1, &mut b);
    }
    if phdrs {
        let mut ph = |i: usize, typ: u32, off: usize, size: usize, al: u64, b: &mut Vec<u8>| { let o = phoff + i * phsize;
            if c64 { b[o..o + 4].copy_from_slice(&typ.to_le_bytes()); b[o + 4..o + 8].copy_from_slice(&5u32.to_le_bytes()); for k in [8, 16, 24] { b[o + k..o + k + 8].copy_from_slice(&(off as u64).to_le_bytes()); }
                     for k in [32, 40] { b[o + k..o + k + 8].copy_from_slice(&(size as u64).to_le_bytes()); } b[o + 48..o + 56].copy_from_slice(&al.to_le_bytes()); }
            else { for (k, v) in [(0, typ), (4, off as u32), (8, off as u32), (12, off as u32), (16, size as u32), (20, size as u32), (24, 5), (28, al as u32)] { b[o + k..o + k + 4].copy_from_slice(&v.to_le_bytes()); } } };
        let total = b.len();
        ph(0, 1, 0, total, 4096, &mut b);
        if split { ph(1, 4, noff, lead_len, align as u64, &mut b); ph(2, 4, idoff, noff + nlen - idoff, align as u64, &mut b); }
        else { ph(1, 4, noff, nlen, align as u64, &mut b); }
    }
    if c64 { if phdrs { b[32..40].copy_from_slice(&(phoff as u64).to_le_bytes()); b[54..56].copy_from_slice(&56u16.to_le_bytes()); b[56..58].copy_from_slice(&(nph as u16).to_le_bytes()); }
             b[52..54].copy_from_slice(&64u16.to_le_bytes());
             if shdrs { b[40..48].copy_from_slice(&(shoff as u64).to_le_bytes()); b[58..60].copy_from_slice(&64u16.to_le_bytes()); b[60..62].copy_from_slice(&shnum.to_le_bytes()); b[62..64].copy_from_slice(&(shnum - 1).to_le_bytes()); } }
    else { if phdrs { b[28..32].copy_from_slice(&(phoff as u32).to_le_bytes()); b[42..44].copy_from_slice(&32u16.to_le_bytes()); b[44..46].copy_from_slice(&(nph as u16).to_le_bytes()); }
           b[40..42].copy_from_slice(&52u16.to_le_bytes());
           if shdrs { b[32..36].copy_from_slice(&(shoff as u32).to_le_bytes()); b[46..48].copy_from_slice(&40u16.to_le_bytes()); b[48..50].copy_from_slice(&shnum.to_le_bytes()); b[50..52].copy_from_slice(&(shnum - 1).to_le_bytes()); } }
    b
}

/// well-formed synthetic images: text sections of many sizes at many file offsets, with and without a note
pub fn run_synth(a: &Args) {
    let mut rng = Rng::new(a.seed ^ 0x14);
    let mut out = Out::new();
    let sizes = [1usize, 7, 15, 16, 17, 100, 4095, 4096, 4097, 5000, 8192, 12289];
    let offs = [0x40usize, 0x100, 0x1000, 0xff0, 0xfff, 0x1001, 0x2345];
    let mut combos: Vec<(usize, usize, u8)> = Vec::new();
    for s in sizes { for o in offs { for note in 0..3u8 { combos.push((s, o, note)); } } }
    let want = if a.n == 0 { combos.len() } else { (a.n as usize).min(combos.len()) };
    while combos.len() > want { let k = rng.below(combos.len() as u64) as usize; combos.swap_remove(k); }
    for (s, o, note) in combos {
        let text: Vec<u8> = (0..s).map(|_| rng.next() as u8).collect();
        let id: Vec<u8> = (0..20).map(|_| rng.next() as u8).collect();
        let img = synth_elf(o, &text, if note > 0 { Some(&id) } else { None }, if note == 2 { 8 } else { 4 });
        let expected = if note > 0 { id.clone() } else { let mut f = vec![0u8; 16]; for (i, x) in text.iter().take(4096).enumerate() { f[i % 16] ^= *x; } f };
        let mut l = Line::new("const"); l.z(s).z(o).u(note as u64).u(0).bytes(&expected);
        let mut r = Line::bare(); r.z(s).z(o).u(note as u64);
        let got = impl_build_id(&img); for t in got.split_whitespace() { r.n(u128::from_str_radix(t, 16).unwrap_or(0xfff)); }
        out.count(if note > 0 { "synth.with_note" } else { "synth.text_hash" });
        out.case(l.s(), r.s(), true);
        // the same image through the Coq model when it is small enough to evaluate quickly
        if img.len() < 3000 { let mut l = Line::new("c14"); l.bytes(&img); out.case(l.s(), &got, true); out.count("synth.model_compared"); }
    }
    // both classes x program headers / section headers present or stripped x notes before the build-id note x note alignment
    for c64 in [true, false] { for (phdrs, shdrs, split) in [(false, true, false), (true, true, false), (true, false, false), (true, false, true), (true, true, true)] { for notes in 0..4u8 { for align in [4usize, 8] {
        let text: Vec<u8> = (0..100 + 37 * notes as usize).map(|_| rng.next() as u8).collect();
        let id: Vec<u8> = (0..if notes == 3 { 16 } else { 20 }).map(|_| rng.next() as u8).collect();
        let vendor: Vec<u8> = (0..8).map(|_| rng.next() as u8).collect();
        let lead: Vec<(&[u8], &[u8], u32)> = match notes { 2 => vec![(b"Go", &vendor[..4], 4)], 3 => vec![(b"XY", &vendor[..8], 1), (b"GNU", &vendor[..4], 1)], _ => vec![] };
        let has_id = notes > 0;
        let img = synth_elf_gen(c64, phdrs, shdrs, split, &text, &lead, if has_id { Some(&id) } else { None }, align);
        let mut l = Line::new("const"); l.b(c64).b(phdrs).b(shdrs).b(split).u(notes as u64).z(align);
        if has_id { l.u(0).bytes(&id); } else if shdrs { let mut f = vec![0u8; 16]; for (i, x) in text.iter().take(4096).enumerate() { f[i % 16] ^= *x; } l.u(0).bytes(&f); } else { l.u(1); }
        let mut r = Line::bare(); r.b(c64).b(phdrs).b(shdrs).b(split).u(notes as u64).z(align);
        let got = impl_build_id(&img); for t in got.split_whitespace() { r.n(u128::from_str_radix(t, 16).unwrap_or(0xfff)); }
        out.case(l.s(), r.s(), true); out.count(if c64 { "synth.class64" } else { "synth.class32" });
        if img.len() < 3000 { let mut l = Line::new("c14"); l.bytes(&img); out.case(l.s(), &got, true); out.count("synth.model_compared"); }
        // the big-endian twin of the same image: same identifier
        let be = to_be(&img);
        if let Ok(d) = std::env::var("C14_DUMP") { let _ = std::fs::write(format!("{d}/img-{}{}{}{}-{notes}-{align}.le", c64 as u8, phdrs as u8, shdrs as u8, split as u8), &img); let _ = std::fs::write(format!("{d}/img-{}{}{}{}-{notes}-{align}.be", c64 as u8, phdrs as u8, shdrs as u8, split as u8), &be); }
        let mut l = Line::new("const"); l.b(c64).b(phdrs).b(shdrs).b(split).u(notes as u64).z(align).u(2);
        if has_id { l.u(0).bytes(&id); } else if shdrs { let mut f = vec![0u8; 16]; for (i, x) in text.iter().take(4096).enumerate() { f[i % 16] ^= *x; } l.u(0).bytes(&f); } else { l.u(1); }
        let mut r = Line::bare(); r.b(c64).b(phdrs).b(shdrs).b(split).u(notes as u64).z(align).u(2);
        let got = impl_build_id(&be); for t in got.split_whitespace() { r.n(u128::from_str_radix(t, 16).unwrap_or(0xfff)); }
        out.case(l.s(), r.s(), true); out.count("synth.big_endian");
        if be.len() < 3000 { let mut l = Line::new("c14"); l.bytes(&be); out.case(l.s(), &got, true); out.count("synth.model_compared"); }
    } } } }
    // the same module read from (this process's own) memory and from its bytes gives the same answers: images whose
    // addresses equal their file offsets, mapped at a fresh address; the dynamic string table address is NOT relocated
    {
        use minidump_writer::module_reader::ProcessReader;
        let mut images: Vec<(String, Vec<u8>)> = Vec::new();
        let mut pie = crate::tiny::TINY_ELF.to_vec();
        for i in 0..3 { let o = 0x40 + 56 * i; let off: [u8; 8] = pie[o + 8..o + 16].try_into().unwrap(); pie[o + 16..o + 24].copy_from_slice(&off); pie[o + 24..o + 32].copy_from_slice(&off); }
        images.push(("fixture".into(), pie));
        for (phdrs, shdrs, split, notes) in [(true, true, false, 1u8), (true, false, false, 2), (true, false, true, 3), (false, true, false, 1), (true, true, true, 0)] {
            let text: Vec<u8> = (0..150).map(|_| rng.next() as u8).collect(); let id: Vec<u8> = (0..20).map(|_| rng.next() as u8).collect();
            let lead: Vec<(&[u8], &[u8], u32)> = if notes >= 2 { vec![(b"Go", &id[..4], 4)] } else { vec![] };
            images.push((format!("gen{}{}{}{notes}", phdrs as u8, shdrs as u8, split as u8), synth_elf_gen(true, phdrs, shdrs, split, &text, &lead, if notes > 0 { Some(&id) } else { None }, 4)));
        }
        {   // an executable linked at a fixed address (ET_EXEC): the note segment's virtual address is absolute, its file offset is not
            let text: Vec<u8> = (0..150).map(|_| rng.next() as u8).collect(); let id: Vec<u8> = (0..20).map(|_| rng.next() as u8).collect();
            let mut img = synth_elf_gen(true, true, false, false, &text, &[], Some(&id), 4);
            img[16] = 2;
            for i in 0..2 { let o = 0x40 + 56 * i; for k in [16usize, 24] { let v = u64::from_le_bytes(img[o + k..o + k + 8].try_into().unwrap()) + 0x40_0000; img[o + k..o + k + 8].copy_from_slice(&v.to_le_bytes()); } }
            images.push(("fixed_address_executable".into(), img));
        }
        for (tag, img) in images {
            let len = (img.len() + 4095) / 4096 * 4096;
            let m = unsafe { libc::mmap(std::ptr::null_mut(), len + 4096, libc::PROT_READ | libc::PROT_WRITE, libc::MAP_PRIVATE | libc::MAP_ANONYMOUS, -1, 0) } as *mut u8;
            if m as isize == -1 { continue; }
            unsafe { std::ptr::copy_nonoverlapping(img.as_ptr(), m, img.len()); libc::munmap(m.add(len) as *mut libc::c_void, 4096); }
            let (addr, pid) = (m as usize, std::process::id() as i32);
            let mut padded = img.clone(); padded.resize(len, 0);
            let id_mem = match quiet_catch(move || BuildId::read_from_module(ProcessReader::new(pid, addr).into()).map(|x| x.0)) { Err(_) => "2".to_string(), Ok(Err(_)) => "1".to_string(), Ok(Ok(v)) => { let mut l = Line::bare(); l.u(0).bytes(&v); l.0 } };
            let so_mem = match quiet_catch(move || SoName::read_from_module(ProcessReader::new(pid, addr).into()).map(|x| x.0.into_bytes())) { Err(_) => "2".to_string(), Ok(Err(_)) => "1".to_string(), Ok(Ok(v)) => { let mut l = Line::bare(); l.u(0).bytes(&v); l.0 } };
            unsafe { libc::munmap(m as *mut libc::c_void, len); }
            // (1) against the answers for the bytes (memory and file agree)
            let id_bytes = impl_build_id(&img);
            let i2 = img.clone(); let so_bytes = match quiet_catch(move || SoName::read_from_module((&i2[..]).into()).map(|x| x.0.into_bytes())) { Err(_) => "2".to_string(), Ok(Err(_)) => "1".to_string(), Ok(Ok(v)) => { let mut l = Line::bare(); l.u(0).bytes(&v); l.0 } };
            let mut l = Line::new("const"); l.0.push_str(&format!(" {id_bytes} ff {so_bytes}")); let mut r = Line::bare(); r.0 = format!("{id_mem} ff {so_mem}");
            out.case(l.s(), r.s().trim(), true); out.count(&format!("process_memory.{tag}"));
            // (2) against the model run in process mode
            let mut l = Line::new("c14p"); l.u(addr as u64).bytes(&padded); out.case(l.s(), &id_mem, true);
            let mut l = Line::new("c14p_soname"); l.u(addr as u64).bytes(&padded); out.case(l.s(), &so_mem, true);
        }
    }
    // SONAME of well-formed images, every length around the file-name limit and well beyond it, from memory and from a file
    for len in [1usize, 2, 11, 63, 64, 254, 255, 256, 257, 300, 1000, 4095, 4096, 5000] {
        let name: String = (0..len).map(|i| (b'a' + ((i * 7 + len) % 26) as u8) as char).collect();
        let id: Vec<u8> = (0..20).map(|_| rng.next() as u8).collect();
        let text: Vec<u8> = (0..48).map(|_| rng.next() as u8).collect();
        let img = crate::c08::synth_so(&text, Some(&id), Some(&name));
        let path = std::path::PathBuf::from(format!("{}/soname-{len}.so", a.out)); let _ = std::fs::write(&path, &img);
        let (i1, p2) = (img.clone(), path.clone());
        let mem = quiet_catch(move || SoName::read_from_module((&i1[..]).into()).ok().map(|x| x.0.into_bytes()));
        let fil = quiet_catch(move || SoName::read_from_file(&p2).ok().map(|x| x.0.into_bytes()));
        let _ = std::fs::remove_file(&path);
        let be = to_be(&img);
        let (i3, i4) = (be.clone(), be.clone());
        let mem_be = quiet_catch(move || SoName::read_from_module((&i3[..]).into()).ok().map(|x| x.0.into_bytes()));
        {   // the big-endian twin: same SONAME, same build id
            let mut l = Line::new("const"); l.z(len).u(3).u(0).bytes(&id); let mut r = Line::bare(); r.z(len).u(3);
            let got = impl_build_id(&i4); for t in got.split_whitespace() { r.n(u128::from_str_radix(t, 16).unwrap_or(0xfff)); }
            out.case(l.s(), r.s(), true); out.count("synth.big_endian");
            if len <= 300 { let mut l = Line::new("c14_soname"); l.bytes(&be); let mut r = Line::bare(); match &mem_be { Ok(Some(v)) => { r.u(0).bytes(v); } Ok(None) => { r.u(1); } Err(_) => { r.u(2); } } out.case(l.s(), r.s(), true); out.count("synth.model_compared"); }
        }
        for (how, got) in [(0u64, mem), (1, fil), (2, mem_be)] {
            let mut l = Line::new("const"); l.z(len).u(how).u(1).vec(name.as_bytes());
            let mut r = Line::bare(); r.z(len).u(how);
            match got { Ok(Some(v)) => { r.u(1).vec(&v); } Ok(None) => { r.u(0).u(0); } Err(_) => { r.u(2).u(0); } }
            out.case(l.s(), r.s(), true); out.count("synth.soname");
        }
    }
    out.finish(&a.out, "well-formed synthetic ELF64 images (no program headers): an executable PROGBITS section of size {1..12289} at file offsets {0x40..0x2345, aligned and not}, with no note / a 4-aligned / an 8-aligned GNU build-id note; expected id computed by construction (note descriptor, else XOR-fold of the first 4096 text bytes); small images also go through the Coq model");
}

/// the big-endian twin of a well-formed little-endian image: every multi-byte field of the header, the program headers, the
/// section headers, the dynamic entries and the note headers stored in the other byte order (strings, identifiers and
/// section contents are bytes and stay)
pub fn to_be(le: &[u8]) -> Vec<u8> {
    let mut b = le.to_vec(); if le.len() < 52 { return b; }
    b[5] = 2;
    let c64 = le[4] == 2;
    let mut done = std::collections::HashSet::new();
    let mut sw = |b: &mut Vec<u8>, off: usize, w: usize| { if off + w <= b.len() && done.insert(off) { b[off..off + w].reverse(); } };
    let hdr: &[(usize, usize)] = if c64 { &[(16, 2), (18, 2), (20, 4), (24, 8), (32, 8), (40, 8), (48, 4), (52, 2), (54, 2), (56, 2), (58, 2), (60, 2), (62, 2)] }
                                 else { &[(16, 2), (18, 2), (20, 4), (24, 4), (28, 4), (32, 4), (36, 4), (40, 2), (42, 2), (44, 2), (46, 2), (48, 2), (50, 2)] };
    for (o, w) in hdr { sw(&mut b, *o, *w); }
    let g = |o: usize, w: usize| rd(le, o, w).unwrap_or(0) as usize;
    let (phoff, phes, phn, shoff, shes, shn) = if c64 { (g(32, 8), g(54, 2), g(56, 2), g(40, 8), g(58, 2), g(60, 2)) } else { (g(28, 4), g(42, 2), g(44, 2), g(32, 4), g(46, 2), g(48, 2)) };
    let mut notes: Vec<(usize, usize, usize)> = vec![]; let mut dyns: Vec<(usize, usize)> = vec![];
    if phoff != 0 { for i in 0..phn { let o = phoff + i * phes;
        let (ty, off, fsz, al) = if c64 { (g(o, 4), g(o + 8, 8), g(o + 32, 8), g(o + 48, 8)) } else { (g(o, 4), g(o + 4, 4), g(o + 16, 4), g(o + 28, 4)) };
        if ty == 4 { notes.push((off, fsz, al)); } if ty == 2 { dyns.push((off, fsz)); }
        if c64 { sw(&mut b, o, 4); sw(&mut b, o + 4, 4); for k in 1..7 { sw(&mut b, o + 8 * k, 8); } } else { for k in 0..8 { sw(&mut b, o + 4 * k, 4); } } } }
    if shoff != 0 { for i in 0..shn { let o = shoff + i * shes;
        let (ty, off, sz, al) = if c64 { (g(o + 4, 4), g(o + 24, 8), g(o + 32, 8), g(o + 48, 8)) } else { (g(o + 4, 4), g(o + 16, 4), g(o + 20, 4), g(o + 32, 4)) };
        // (a note section is walked only when no PT_NOTE segment describes the notes: padding between two segments is not a note)
        if ty == 7 && notes.is_empty() { notes.push((off, sz, al)); } if ty == 6 { dyns.push((off, sz)); }
        if c64 { for (k, w) in [(0, 4), (4, 4), (8, 8), (16, 8), (24, 8), (32, 8), (40, 4), (44, 4), (48, 8), (56, 8)] { sw(&mut b, o + k, w); } } else { for k in 0..10 { sw(&mut b, o + 4 * k, 4); } } } }
    for (off, sz, al) in notes { let al = if al == 8 { 8 } else { 4 }; let mut o = off; let up = |x: usize| (x - off + al - 1) / al * al + off;
        while o + 12 <= off + sz { let (n, d) = (g(o, 4), g(o + 4, 4)); for k in 0..3 { sw(&mut b, o + 4 * k, 4); } o = up(up(o + 12 + n) + d); if n == 0 && d == 0 { break; } } }
    for (off, sz) in dyns { let w = if c64 { 8 } else { 4 }; let mut o = off; while o + 2 * w <= off + sz { let tag = g(o, w); sw(&mut b, o, w); sw(&mut b, o + w, w); o += 2 * w; if tag == 0 { break; } } }
    b
}

pub fn indep_build_id_pub(b: &[u8]) -> Option<Vec<u8>> { indep_build_id(b) }
pub fn indep_soname_pub(b: &[u8]) -> Option<Vec<u8>> { indep_soname(b) }
