//! Live thread-list / memory-list / exception checks (C04, C05, C06, C07, C20): dumps of generated
//! targets under generated options; each aspect of the decoded image is compared with the structural
//! model, fed with what the harness itself observed inside the suspended window.
use crate::c13::{classified, perms_bits};
use crate::common::*;
use crate::ctx::{gen_crash_context, ptrace_case, ucontext_case};
use crate::live::*;
use crate::md;
use minidump_writer::app_memory::AppMemory;
use minidump_writer::crash_context::CrashContext;
use minidump_writer::minidump_writer::MinidumpWriter;

pub struct Plan {
    pub scen: Scenario,
    pub blame_late: bool,          // with a crash context: blame a thread at list position >= 20 when there is one
    pub crash: u8,                 // 0 none, 1 blamed main, 2 blamed other thread, 3 blamed thread that cannot be attached
    pub limit: Option<u64>,
    pub sanitize: bool,
    pub skip: u8,                  // 0 off, 1 principal = address in a mapping, 2 principal in no mapping, 3 on without address
    pub napp: usize,
    pub user_maps: Vec<(u64, u64, String, Vec<u8>)>,   // caller-supplied mappings (start, size, name, identifier)
    pub blame_idx: Option<usize>,   // blame this scenario thread (with or without a crash context)
    pub crash_ip: Option<u64>,     // the crash context's instruction pointer (instead of a generated one)
    pub retarget_principal: Option<u64>,   // the writer first serves a request as configured, then the caller points the principal mapping elsewhere
    pub direct_chain: bool,         // the caller supplies auxiliary values that lead to the synthetic linker list of the target
    pub exit_between: Option<usize>, // with a history: after the abandoned request this thread is taken by another tracer (it exists, but cannot be attached any more)
}

pub fn maps_tokens(l: &mut Line, w: &World) {
    let gate = w.auxv_value(33); let entry = w.auxv_value(9);
    l.b(gate.is_some()).u(gate.unwrap_or(0)).b(entry.is_some()).u(entry.unwrap_or(0));
    let lines = w.lines();
    l.z(lines.len());
    for m in &lines {
        l.u(m.start).u(m.end).u(perms_bits(&m.perms)).u(m.offset);
        match classified(&m.name) { None => { l.u(0).u(0); } Some(b) => { l.u(1).vec(&b); } }
    }
}

/// stands for "128 bytes into the first anonymous mapping" (its address is known only once the target runs)
pub const CRASH_IP_ANON0_PLUS_128: u64 = u64::MAX - 0x80;
/// stands for "0x400 bytes above the crash stack pointer" (the instruction pointer lies in the crash thread's own stack)
pub const CRASH_IP_SP_PLUS_400: u64 = u64::MAX - 0x81;

pub fn gen_plan(rng: &mut Rng, focus: &str, tier: &str, case_idx: u64) -> Plan {
    let force_k1 = focus == "c05" && case_idx == 0;   // the recorded finding K1 is exercised on every run
    // one fixed C06 shape per run: every chunk-boundary offset of the stack pointer among the threads that the size limit shortens
    let boundary = (focus == "c06" && case_idx == 1) || (focus == "c07" && case_idx == 2) || (focus == "c12" && case_idx == 1);   // (C12: shortened stacks are sanitised relative to their shortened start)   // (C07: shortened stacks are regions of the memory list too)
    // one fixed C20 shape per run: sanitising on, the principal mapping writable and not executable, referenced from stack words only
    // a third fixed C20 shape: the crash context's stack pointer lies in no mapping (nothing within the guard distance either)
    // and its instruction pointer outside the principal mapping: the crash thread's stack cannot be located, which is a
    // soft matter, not a reason to fail the dump
    let lost_crash_stack = focus == "c20" && case_idx == 3;
    // a fourth fixed C20 shape: a thread whose ONLY reference to the principal mapping sits in an outer frame more than 32 KiB
    // above its stack pointer
    let deep_ref = focus == "c20" && case_idx == 4;
    let stack_only = focus == "c20" && (case_idx == 1 || case_idx == 2 || deep_ref);
    let low_principal = focus == "c20" && case_idx == 2;     // the principal mapping lies BELOW the executable
    // one fixed C06 shape per run: a crash context blaming a thread at a list position >= 20 under a size limit (never shortened)
    let late_fixed = focus == "c06" && case_idx == 2;
    let huge_stack = focus == "c06" && case_idx == 3;   // another: one thread with 20 MiB of live stack above its stack pointer
    let many = boundary || late_fixed || (focus == "c06" && rng.chance(1, 2));
    let interrupted = focus == "c04" && case_idx == 1;   // one fixed C04 shape per run: many threads, the dumping thread is interrupted all along
    // another fixed C04 shape: busy threads that keep storing their counters into memory the caller registered as an application
    // region, and no group stop (the StopProcess fail point): the region must be captured as it was while the threads were held
    let busy_app = focus == "c04" && case_idx == 3;
    // a fixed C20 shape: the size limit is exceeded, the crash thread sits at list position >= 20, and its only reference to the
    // principal mapping lies 3000 bytes above its stack pointer (beyond the 2 KiB window that other late threads are cut to)
    let late_ref = focus == "c20" && case_idx == 6;
    let nthreads = if late_ref { 26 } else if busy_app { 4 } else if force_k1 || stack_only || huge_stack { 3 } else if interrupted { 24 } else if late_fixed { 26 } else if boundary { 27 } else if many { rng.range(19, if tier == "thorough" { 63 } else { 26 }) } else { match rng.below(4) { 0 => 0, 1 => 1, _ => rng.range(2, 6) } } as usize;
    let offs = [0u32, 8, 2040, 2047, 2048, 2056, 4088, 4095, 0xea0, 0x10];
    let threads: Vec<ThreadSpec> = (0..nthreads).map(|i| ThreadSpec {
        kind: if late_ref { Kind::Block } else if busy_app { if i < 3 { Kind::Spin } else { Kind::Block } } else if force_k1 && i == 1 { Kind::NullSp } else if boundary || stack_only || interrupted || huge_stack { Kind::Block } else if focus == "c04" && rng.chance(1, 5) { Kind::Spin } else if rng.chance(1, 12) { Kind::NullSp } else { Kind::Block },
        sp_off: if late_ref { 0x100 } else if stack_only { 0x800 } else if boundary && i >= 19 { [0u32, 8, 2040, 2048, 2056, 4088, 4095, 2047][i - 19] } else if rng.chance(3, 4) { *rng.pick(&offs) } else { rng.below(4096) as u32 },
        pages: if late_ref { 3 } else if focus == "c07" && i % 3 == 0 && !boundary { 1 } else if huge_stack && i == 0 { (5000 << 16) | 3 } else if deep_ref && i == 0 { (10 << 16) | 3 } else if rng.chance(1, 6) { rng.range(3, 33) as u32 } else { rng.range(2, 4) as u32 },
        // (C04: a name that is not valid UTF-8, or empty, does not make its thread any less of a thread)
        name: if focus == "c04" && i % 3 == 1 { Some(if i % 2 == 1 { vec![b'w', 0xff, 0xfe, b'k'] } else { vec![] }) } else { Some(format!("t{i}").into_bytes()) },
        // a stack pointer whose low 32 bits are all zero or all one (multiples of 4 GiB): still an ordinary thread
        at: if (focus == "c04" && i == 0 && rng.chance(1, 3)) || (focus == "c06" && case_idx == 4 && i == 0) /* (C06: a stack in the mapping right below the executable) */ { Some(*rng.pick(&[0x7_0000_0000u64, 0x12_0000_0000, 0x6_ffff_ffff, 0x3_0000_0000 - 1])) } else { None } }).map(|mut t| { if t.at.is_some() && t.kind == Kind::NullSp { t.kind = Kind::Block; } t }).collect();
    let mut lines = vec!["anon 3 rwx 1".to_string(), "anon 2 rw- 0".to_string(), "anon 1 r-x 1".to_string()];
    let napp = if focus == "c07" { rng.below(5) as usize } else { rng.below(2) as usize };
    for _ in 0..napp {
        let idx = rng.below(2); let pages = if idx == 0 { 3u64 } else { 2 };
        let len = match rng.below(5) { 0 => 1, 1 => 4096, 2 => rng.range(1, 64), 3 => 4099, _ => rng.range(1, pages * 4096) };
        let off = if rng.chance(1, 3) { pages * 4096 - len } else { rng.below(pages * 4096 - len + 1) };
        lines.push(format!("appmem {idx} {off} {len}"));
    }
    // C20: words above the stack pointer that point into the anonymous mappings (a writable non-executable one included),
    // so that a thread can reference the principal mapping from its stack only
    if low_principal { lines.push("anonat 20000000 2 rw-".into()); lines.push("poke 0 64 3 128".into()); lines.push("poke 2 1024 3 4096".into()); }
    else if deep_ref { lines.push(format!("poke 0 {} 1 128", 9 * 4096 + 64)); lines.push("poke 2 1024 1 4096".into()); }
    else if stack_only { lines.push("poke 0 64 1 128".into()); lines.push("poke 2 1024 1 4096".into()); }
    else if focus == "c20" { for (i, t) in threads.iter().enumerate() {
        let room = 4096 - (t.sp_off & 4095 & !7);
        if t.kind == Kind::Block && t.at.is_none() && room >= 24 && rng.chance(1, 2) { lines.push(format!("poke {i} {} {} {}", (rng.range(1, (room as u64 - 8) / 8) * 8).min(room as u64 - 8), rng.below(2), rng.below(256) * 8)); } } }
    // C07: regions well beyond one page, up to a MiB, lengths at and off the 256 KiB / 64 KiB marks, one ending at an unmapped page
    let mut napp = napp;
    if focus == "c07" && (case_idx == 1 || rng.chance(1, 4)) {
        lines.push("anon 320 rw- 1".to_string());
        let total = 320u64 * 4096;
        for len in [*rng.pick(&[262_144u64, 262_145, 300_001, 65_537]), *rng.pick(&[524_288u64, 1_000_003, 1_048_576, 786_433])] {
            let off = if rng.chance(1, 2) { total - len } else { rng.below(total - len + 1) };
            lines.push(format!("appmem 3 {off} {len}")); napp += 1;
        }
    }
    if busy_app { lines.push("appmemsh 1024 512".into()); napp += 1; }
    let blame_late = late_fixed || (focus == "c06" && many && !boundary && rng.chance(1, 2));
    if late_ref { lines.push("poke 22 3000 1 128".into());
        return Plan { scen: Scenario { threads, lines }, blame_late: true, crash: 2, limit: Some(1), sanitize: false, user_maps: vec![], skip: 4, napp, blame_idx: Some(22), crash_ip: None, retarget_principal: None, direct_chain: false, exit_between: None }; }
    if lost_crash_stack { return Plan { scen: Scenario { threads, lines }, blame_late: false, crash: 1, limit: None, sanitize: false, user_maps: vec![], skip: 6, napp, blame_idx: None, crash_ip: None, retarget_principal: None, direct_chain: false, exit_between: None }; }
    if stack_only { return Plan { scen: Scenario { threads, lines }, blame_late: false, crash: 0, limit: None, sanitize: !low_principal, user_maps: vec![], skip: if low_principal { 5 } else { 4 }, napp, blame_idx: None, crash_ip: None, retarget_principal: None, direct_chain: false, exit_between: None }; }
    Plan { scen: Scenario { threads, lines }, blame_late, crash: if blame_late { 2 } else if force_k1 { 3 } else if focus == "c05" || focus == "c07" { rng.below(4) as u8 } else if rng.chance(1, 3) { rng.range(1, 2) as u8 } else { 0 },
           limit: if blame_late || boundary { Some(1) } else if focus == "c06" { if rng.chance(2, 3) { Some(*rng.pick(&[1u64, 1000, 100_000, 200_000, 300_000, 1 << 30])) } else { None } } else if rng.chance(1, 6) { Some(1) } else { None },
           sanitize: rng.chance(1, if focus == "c12" { 1 } else { 5 }), user_maps: vec![],
           skip: if focus == "c20" { rng.range(1, 3) as u8 } else if rng.chance(1, 8) { 1 } else { 0 }, napp, blame_idx: None, crash_ip: None, retarget_principal: None, direct_chain: false, exit_between: None }
}

pub struct Live { pub target: Target, pub world: World, pub image: Result<Vec<u8>, String>, pub plan: Plan, pub blamed: i32, pub crash: Option<CrashContext>, pub app: Vec<(u64, usize)>, pub principal: Option<u64>, pub events: Vec<String>, pub unattachable: Vec<i32> /* threads another tracer holds: they exist but cannot be attached */ }

pub struct Configured { pub writer: MinidumpWriter, pub blamed: i32, pub crash: Option<CrashContext>, pub app: Vec<(u64, usize)>, pub principal: Option<u64>, pub ranges: Vec<(u64, usize)> }

pub fn configure(rng: &mut Rng, plan: &Plan, target: &Target) -> Configured {
    let nth = target.tids.len();
    let blamed = match plan.crash { 2 if nth > 0 => { let cands: Vec<usize> = (0..nth).filter(|i| plan.scen.threads[*i].kind != Kind::NullSp && plan.scen.threads[*i].kind != Kind::Exiter && (!plan.blame_late || *i >= 21 || nth < 23)).collect(); if cands.is_empty() { target.pid } else { target.tids[*rng.pick(&cands)] } }
                                    3 => { let cands: Vec<usize> = (0..nth).filter(|i| plan.scen.threads[*i].kind == Kind::NullSp).collect(); if cands.is_empty() { target.pid } else { target.tids[*rng.pick(&cands)] } }
                                    _ => target.pid };
    let blamed = match plan.blame_idx { Some(i) if i < nth => target.tids[i], _ => blamed };
    let mut writer = MinidumpWriter::new(target.pid, blamed);
    let anon: Vec<u64> = (0..3).map(|i| target.fact_hex(&format!("anon{i}"))).collect();
    // crash context: registers chosen around the target's real layout
    let crash = if plan.crash > 0 {
        let mut cc = gen_crash_context(rng, blamed);
        let bidx = target.tids.iter().position(|t| *t == blamed);
        let sp = match if plan.blame_late { 4 } else { rng.below(5) } { 0 => rng.next(), 1 => 0, 2 => u64::MAX - 7, _ => match bidx { Some(i) => target.fact_hex(&format!("t{i}.sp")), None => anon[1] + 0x800 } };
        let ip = match rng.below(9) { 8 => sp.wrapping_add(0x400),   // the instruction pointer lies in the crash thread's own stack (a smashed return address)
                                      0 => rng.next() >> 17, 1 => anon[0], 2 => anon[0] + 1, 3 => anon[0] + 3 * 4096 - 1, 4 => anon[0] + *rng.pick(&[127u64, 128, 129, 3 * 4096 - 128, 3 * 4096 - 129, 3 * 4096 - 127]), 5 => anon[2] + 0x10, 6 => anon[0] + 3 * 4096, _ => target.fact_hex("blk") };
        // the context's own thread-id field is not what decides who is blamed (the id given to the writer is):
        // unset, another live thread, or arbitrary in half of the cases
        match rng.below(6) { 0 => cc.inner.tid = 0, 1 if nth > 0 => cc.inner.tid = target.tids[rng.below(nth as u64) as usize], 2 => cc.inner.tid = (rng.next() >> 40) as i32, _ => {} }
        let (sp, ip) = if plan.skip == 6 { (0x2000u64, anon[2] + 0x10) } else if plan.skip == 9 { (anon[2] + 0x100, anon[1] + 0x90) } else { (sp, ip) };
        let ip = match plan.crash_ip { Some(x) if x == CRASH_IP_ANON0_PLUS_128 => anon[0] + 128, Some(x) if x == CRASH_IP_SP_PLUS_400 => sp.wrapping_add(0x400), Some(x) => x, None => ip };
        cc.inner.context.uc_mcontext.gregs[libc::REG_RSP as usize] = sp as i64;
        cc.inner.context.uc_mcontext.gregs[libc::REG_RIP as usize] = ip as i64;
        let copy = CrashContext { inner: cc.inner.clone() };
        writer.set_crash_context(cc);
        Some(copy)
    } else { None };
    if plan.direct_chain { writer.set_direct_auxv_dump_info(minidump_writer::minidump_writer::DirectAuxvDumpInfo { program_header_count: 2, program_header_address: target.fact_hex("chain"), linux_gate_address: 0, entry_address: 0 }); }
    if let Some(l) = plan.limit { writer.set_minidump_size_limit(l); }
    if plan.sanitize { writer.sanitize_stack(); }
    let mut principal = None;
    if plan.skip > 0 {
        writer.skip_stacks_if_mapping_unreferenced();
        if plan.skip == 1 { principal = Some(match rng.below(3) { 0 => anon[0] + 0x100, 1 => anon[1] + 0x80, _ => target.fact_hex("blk") }); }
        if plan.skip == 2 { principal = Some(0x10); }
        if plan.skip == 9 { principal = Some(anon[1] + 0x80); }
        if plan.skip == 8 { principal = Some(anon[0] + 0x1100); }   // inside the first anonymous mapping, in its second page
        if plan.skip == 4 { principal = Some(anon[1] + 0x80); }
        if plan.skip == 5 { principal = Some(0x2000_0080); }
        if plan.skip == 6 { principal = Some(anon[0] + 0x100); }
        if plan.skip == 7 { principal = Some(target.fact_hex("blk")); }   // the code every blocked thread executes: all of them reference it
        if let Some(p) = principal { writer.set_principal_mapping_address(p as usize); }
    }
    if !plan.user_maps.is_empty() {
        use minidump_writer::maps_reader::{MappingEntry, MappingInfo, SystemMappingInfo};
        writer.set_user_mapping_list(plan.user_maps.iter().map(|(s, sz, n, id)| MappingEntry { mapping: MappingInfo { start_address: *s as usize, size: *sz as usize,
            system_mapping_info: SystemMappingInfo { start_address: *s as usize, end_address: (*s + *sz) as usize }, offset: 0,
            permissions: procfs_core::process::MMPermissions::READ | procfs_core::process::MMPermissions::EXECUTE, name: Some(n.into()) }, identifier: id.clone() }).collect());
    }
    let mut app = Vec::new();
    for f in target.facts_with_prefix("app") { if let Some((a, n)) = f.split_once(':') { app.push((u64::from_str_radix(a, 16).unwrap(), n.parse::<usize>().unwrap())); } }
    if !app.is_empty() { writer.set_app_memory(app.iter().map(|(p, l)| AppMemory { ptr: *p as usize, length: *l }).collect()); }
    let mut ranges: Vec<(u64, usize)> = app.clone();
    if let Some(c) = &crash { let ip = c.inner.context.uc_mcontext.gregs[libc::REG_RIP as usize] as u64; ranges.push((ip.saturating_sub(128) & !0xfff, 3 * 4096)); ranges.push(((c.inner.context.uc_mcontext.gregs[libc::REG_RSP as usize] as u64) & !0xfff, 1 << 20)); }
    Configured { writer, blamed, crash, app, principal, ranges }
}

/// while set, the dumping thread receives a signal (handler without SA_RESTART) every 40 microseconds for the duration of the
/// request: every blocking call the writer makes can return EINTR, which must only make it try again
pub static INTERRUPT_DUMPER: std::sync::atomic::AtomicBool = std::sync::atomic::AtomicBool::new(false);
struct Ticker(libc::timer_t);
impl Ticker {
    fn start() -> Option<Ticker> {
        extern "C" fn nop(_: i32) {}
        unsafe {
            let mut sa: libc::sigaction = std::mem::zeroed(); sa.sa_sigaction = nop as *const () as usize; sa.sa_flags = 0; libc::sigaction(libc::SIGURG, &sa, std::ptr::null_mut());
            let mut ev: libc::sigevent = std::mem::zeroed(); ev.sigev_notify = libc::SIGEV_THREAD_ID; ev.sigev_signo = libc::SIGURG; ev.sigev_notify_thread_id = libc::syscall(libc::SYS_gettid) as i32;
            let mut t: libc::timer_t = std::mem::zeroed();
            if libc::timer_create(libc::CLOCK_MONOTONIC, &mut ev, &mut t) != 0 { return None; }
            let its = libc::itimerspec { it_interval: libc::timespec { tv_sec: 0, tv_nsec: 40_000 }, it_value: libc::timespec { tv_sec: 0, tv_nsec: 40_000 } };
            libc::timer_settime(t, 0, &its, std::ptr::null_mut());
            Some(Ticker(t))
        }
    }
}
impl Drop for Ticker { fn drop(&mut self) { unsafe { libc::timer_delete(self.0); } } }

pub fn dump_once(cfg: &mut Configured, pid: i32) -> Result<(Result<Vec<u8>, String>, World, Vec<String>), String> { dump_once_failing(cfg, pid, None) }
/// `fail_at`: the destination fails at that write/seek call (the request is expected to return an error)
pub fn dump_once_failing(cfg: &mut Configured, pid: i32, fail_at: Option<usize>) -> Result<(Result<Vec<u8>, String>, World, Vec<String>), String> {
    let mut dest = crate::c09::RecDest::new(Vec::new(), 0, false); dest.fail_at = fail_at;
    let writer = &mut cfg.writer;
    let _ticker = if INTERRUPT_DUMPER.load(std::sync::atomic::Ordering::SeqCst) { Ticker::start() } else { None };
    let (blamed, ranges) = (cfg.blamed, cfg.ranges.clone());
    let mut go = || with_hooks_ranges(pid, blamed, true, ranges.clone(), None, || quiet_catch(std::panic::AssertUnwindSafe(|| writer.dump(&mut dest).map_err(|e| format!("{e:?}")))));
    let (res, world, events) = if SANDBOXED_DUMPER.load(std::sync::atomic::Ordering::SeqCst) {
        // the whole request (attach, reads, detach) and the harness's capture inside the hook run in one thread of their own
        let mut go = std::panic::AssertUnwindSafe(&mut go);
        std::thread::scope(|s| s.spawn(move || { struct S<T>(T); unsafe impl<T> Send for S<T> {} let _ = &go; let ok = install_read_refusing_seccomp_filter(); let r = (go.0)(); (r, ok) }).join()).map(|(r, _ok)| r).map_err(|_| "sandboxed dump thread panicked".to_string())?
    } else { go() };
    let image = match res { Err(p) => Err(format!("PANIC: {p}")), Ok(Err(e)) => Err(e), Ok(Ok(img)) => Ok(img) };
    let world = world.ok_or_else(|| format!("no world captured (dump result: {:?})", image.as_ref().err()))?;
    Ok((image, world, events))
}

pub fn run_plan(rng: &mut Rng, plan: Plan, work: &str) -> Result<Live, String> { run_plan_hist(rng, plan, work, None) }
/// `fail_first`: before the dump that is judged, the same writer serves a request whose destination fails at that call
/// (a request that was abandoned half-way must leave nothing behind)
pub fn run_plan_hist(rng: &mut Rng, plan: Plan, work: &str, fail_first: Option<usize>) -> Result<Live, String> {
    let target = Target::spawn(&plan.scen, work)?;
    let mut cfg = configure(rng, &plan, &target);
    let mut unattachable: Vec<i32> = Vec::new();
    if let Some(addr) = plan.retarget_principal { let _ = dump_once(&mut cfg, target.pid); target.settle(); cfg.writer.set_principal_mapping_address(addr as usize); cfg.principal = Some(addr); }
    if let Some(k) = fail_first { let _ = dump_once_failing(&mut cfg, target.pid, Some(k)); target.settle();
        if let Some(i) = plan.exit_between { unsafe { let t = target.tids[i]; libc::ptrace(libc::PTRACE_SEIZE, t, 0, 0); libc::ptrace(libc::PTRACE_INTERRUPT, t, 0, 0); let mut st = 0; libc::waitpid(t, &mut st, libc::__WALL); } unattachable.push(target.tids[i]); } }
    let (image, world, events) = dump_once(&mut cfg, target.pid)?;
    Ok(Live { target, world, image, plan, blamed: cfg.blamed, crash: cfg.crash, app: cfg.app, principal: cfg.principal, events, unattachable })
}

/// C19: several dumps from one configured writer; every dump is judged exactly like a fresh writer's
pub fn run_reuse(a: &Args) {
    let mut rng = Rng::new(a.seed ^ 0x19);
    let mut out = Out::new();
    let aspects: Vec<String> = ["listed", "regs", "crashctx", "region", "memlist", "exception", "included"].iter().map(|s| s.to_string()).collect();
    let work = format!("{}/tmp", a.out);
    for case_idx in 0..a.n {
        let focus = *rng.pick(&["c07", "c05", "c04", "c20"]);
        let mut plan = gen_plan(&mut rng, focus, &a.tier, case_idx + 1);
        if plan.crash == 3 { plan.crash = 2; }   // an unattachable blamed thread is the recorded finding K1 of C05
        // one fixed history per run: a size limit that the first request's estimate fits and - after the target has grown
        // past 20 threads - the second request's does not
        // (the exec history uses no option that names an address of the old image: those would be stale by the caller's own doing)
        if case_idx == 1 { plan.scen.lines.retain(|l| !l.starts_with("appmem")); plan.napp = 0; plan.crash = 0; plan.skip = 0; plan.blame_late = false; }
        let grow = case_idx == 0;
        // a third fixed history: no crash context, the blamed thread (not the main one) is held by another tracer during the first
        // request (it cannot be attached and is left out) and free again during the second
        let held = case_idx == 2;
        if held { plan.crash = 0; plan.skip = 0; plan.blame_late = false; if plan.scen.threads.is_empty() { plan.scen.threads.push(ThreadSpec { kind: Kind::Block, sp_off: 0x800, pages: 2, name: Some(b"held".to_vec()), at: None }); }
                  plan.scen.threads[0].kind = Kind::Block; plan.scen.threads[0].at = None; plan.blame_idx = Some(0); }
        if grow { plan.scen.threads.truncate(3); for t in plan.scen.threads.iter_mut() { if t.kind == Kind::NullSp { t.kind = Kind::Block; } t.at = None; } plan.limit = Some(200_000); plan.blame_late = false; plan.skip = 0; }
        // a thread that can be told to exit between two dumps (the target changes)
        // two more fixed histories: caller-supplied auxiliary values (they lead to a synthetic linker list, not the kernel's) must
        // serve every request; and a caller who re-targets the principal mapping between two requests gets the new answer
        let supplied = case_idx == 3; let retarget = case_idx == 4;
        if supplied { plan.scen.lines.push("chain 3 0".into()); plan.direct_chain = true; }
        if retarget { plan.skip = 7; plan.crash = 0; plan.blame_late = false; plan.limit = None; }
        // one more fixed history: between two requests the TARGET's layout changes - the first page of the principal mapping gets
        // another protection, so that the configured address (in the second page) now lies in a different mapping than before
        let split = case_idx == 5;
        if split { plan.skip = 8; plan.crash = 0; plan.blame_late = false; plan.limit = None; plan.sanitize = false;
                   plan.scen.threads.truncate(4); while plan.scen.threads.len() < 3 { plan.scen.threads.push(ThreadSpec { kind: Kind::Block, sp_off: 0x800, pages: 2, name: None, at: None }); }
                   for t in plan.scen.threads.iter_mut() { t.kind = Kind::Block; t.at = None; t.sp_off = 0x800; }
                   plan.scen.lines.retain(|l| !l.starts_with("poke")); plan.scen.lines.push(format!("poke 0 64 0 {}", 0x1800)); plan.scen.lines.push(format!("poke 2 128 0 {}", 0x2000 + 8)); }
        // and another: between two requests the target replaces the module mapped at a fixed address by a different file (a plugin
        // reloaded): the second request must name the new module with the NEW module's identifier
        let swap = case_idx == 6;
        let mut swap_paths: Option<(String, String)> = None;
        if swap {
            plan.crash = 0; plan.skip = 0; plan.blame_late = false; plan.limit = None;
            std::fs::create_dir_all(&work).ok();
            let mk = |tag: u8| -> String { let id: Vec<u8> = (0..20).map(|i| tag.wrapping_mul(17).wrapping_add(i)).collect();
                let img = crate::c08::synth_so(&vec![tag; 64], Some(&id), None); let p = format!("{work}/swap-{}-{tag}.so", std::process::id()); std::fs::write(&p, &img).ok(); p };
            let (pa, pb) = (mk(1), mk(2));
            let hex = |p: &str| p.bytes().map(|b| format!("{b:02x}")).collect::<String>();
            plan.scen.lines.push(format!("filexat 30000000 {} 0 1 r-x", hex(&pa)));
            swap_paths = Some((hex(&pa), hex(&pb)));
        }
        let exiter = if !swap && !split && !grow && !held && !supplied && !retarget && case_idx != 1 && rng.chance(1, 2) { plan.scen.threads.push(ThreadSpec { kind: Kind::Exiter, sp_off: 0, pages: 2, name: Some(b"exiter".to_vec()), at: None }); Some(plan.scen.threads.len() - 1) } else { None };
        let mut target = match Target::spawn(&plan.scen, &work) { Ok(t) => t, Err(e) => { out.notes.push(format!("case skipped: {e}")); continue; } };
        let cfg_seed = rng.next();
        let mut cfg = configure(&mut Rng(cfg_seed), &plan, &target);
        // another fixed history: between two requests the target replaces its program image (same pid, new auxiliary vector)
        let reexec = case_idx == 1;
        let ndumps = if grow || reexec || held || supplied || retarget || split || swap { 2 } else { rng.range(2, if a.tier == "thorough" { 5 } else { 3 }) };
        out.count(&format!("dumps.{ndumps}"));
        for k in 0..ndumps {
            if k == 1 && grow {
                let reply = target.cmd("s 26");
                for tok in reply.split_whitespace().skip(1) { if let Some((t, sp)) = tok.split_once(':') { if let Ok(tid) = t.parse::<i32>() {
                    let i = target.tids.len(); target.tids.push(tid); target.facts.insert(format!("t{i}.sp"), sp.to_string());
                    plan.scen.threads.push(ThreadSpec { kind: Kind::Block, sp_off: 0x800, pages: 2, name: None, at: None }); } } }
                target.settle(); out.count("target.grew_between_dumps");
            }
            if k == 1 && reexec {
                match target.reexec(&plan.scen, &work) { Ok(()) => { out.count("target.new_program_image_between_dumps"); }
                    Err(e) => { let mut l = Line::new("const"); l.u(1); out.case(l.s(), &format!("!{e}"), true); break; } }
                // the configuration is the caller's: the same options, with addresses that refer to the new image
                let keep = std::mem::replace(&mut cfg, configure(&mut Rng(cfg_seed), &plan, &target));
                cfg.writer = keep.writer;   // ... but the WRITER is the one that already served a request
                // (app memory / principal address of the old image would be stale by the caller's own doing: such options are left out of this history)
            }
            if k == 1 { if let Some(i) = exiter { let _ = target.cmd(&format!("x {i}")); out.count("target.thread_exited_between_dumps"); } }
            // an earlier request of the history may FAIL (destination I/O error after the thread list was written);
            // what it recorded must not leak into the later ones
            if held && k == 0 { unsafe { let t = target.tids[0]; libc::ptrace(libc::PTRACE_SEIZE, t, 0, 0); libc::ptrace(libc::PTRACE_INTERRUPT, t, 0, 0); let mut st = 0; libc::waitpid(t, &mut st, libc::__WALL); } out.count("history.blamed_thread_held_during_first_request"); }
            if held && k == 1 { unsafe { libc::ptrace(libc::PTRACE_DETACH, target.tids[0], 0, 0); } target.settle(); }
            // between the two requests the caller points the principal mapping at an address that lies in no mapping
            if swap && k == 1 { if let Some((_, pb)) = &swap_paths { let r = target.cmd(&format!("f 30000000 {pb} 1")); target.settle(); out.count(if r.trim() == "REMAP 0" { "history.module_replaced_at_the_same_address_between_requests" } else { "history.module_swap_failed" }); } }
            if split && k == 1 { let r = target.cmd("m 0 0 1 r--"); target.settle(); out.count(if r.trim() == "MPROTECT 0" { "history.principal_mapping_split_between_requests" } else { "history.split_failed" }); }
            if retarget && k == 1 { cfg.writer.set_principal_mapping_address(0x10); cfg.principal = Some(0x10); out.count("history.principal_address_changed_between_requests"); }
            if !swap && !split && !grow && !reexec && !held && !supplied && !retarget && k + 1 < ndumps && rng.chance(1, 3) {
                let fail_at = rng.range(4, 12) as usize;
                match dump_once_failing(&mut cfg, target.pid, Some(fail_at)) { Ok((Err(_), _, _)) => { out.count("history.failed_request"); } Ok((Ok(_), _, _)) => { out.count("history.failure_not_reached"); } Err(_) => {} }
                continue;
            }
            match dump_once(&mut cfg, target.pid) {
                Ok((image, world, events)) => {
                    let lv = Live { unattachable: if held && k == 0 { vec![target.tids[0]] } else { vec![] }, target, world, image, plan, blamed: cfg.blamed, crash: cfg.crash.as_ref().map(|c| CrashContext { inner: c.inner.clone() }), app: cfg.app.clone(), principal: cfg.principal, events };
                    out.count(&format!("dump.index{k}"));
                    emit(&mut out, &lv, &aspects);
                    let reused_image = lv.image.as_ref().ok().cloned();
                    target = lv.target; plan = lv.plan;
                    // the last request of the history against a FRESH writer configured the same way, at the same moment:
                    // everything that does not depend on the instant (modules, linker list, raw /proc copies, names) is equal
                    if k + 1 == ndumps { if let Some(img_reused) = reused_image {
                        target.settle();
                        let mut fresh = configure(&mut Rng(cfg_seed), &plan, &target);
                        if retarget { fresh.writer.set_principal_mapping_address(0x10); }
                        if let Ok((Ok(img_fresh), _, _)) = dump_once(&mut fresh, target.pid) {
                            let mut l = Line::new("const"); l.0.push(' '); l.0.push_str(&stable_digest(&img_fresh));
                            out.case(l.s(), &stable_digest(&img_reused), true); out.count("twin.compared_with_fresh_writer");
                        }
                    } }
                }
                Err(e) => { out.notes.push(format!("dump {k} gave no world: {e}")); }
            }
        }
    }
    out.assumptions.push("between dumps the blocked target threads keep their registers and stacks; a thread told to exit is gone before the next dump".into());
    out.finish(&a.out, "2..5 dump requests on ONE configured writer against the same target (optionally after a target thread exited), under generated option sets; each dump is compared with the model exactly as a fresh writer's dump would be (listed threads, contexts, stack regions, memory list = this dump's stacks + window + application regions, exception record)");
}

/// what a dump says about the target that does not depend on the instant it was taken
fn stable_digest(img: &[u8]) -> String {
    let mut l = Line::bare();
    let d = match md::Dump::parse(img) { Ok(d) => d, Err(e) => return format!("!{e}") };
    match d.modules(img) { Ok(ms) => { l.z(ms.len()); for m in &ms { l.u(m.base).u(m.size as u64).u(fnv(&format!("{:?}", m.name))); l.u(fnv(&format!("{:?}", img.get(m.cv.rva as usize..(m.cv.rva + m.cv.size) as usize)))); } } Err(e) => return format!("!{e}") }
    match d.dso_debug(img) { Ok(Some(dd)) => { l.u(1).u(dd.count as u64).u(dd.dynamic); for m in &dd.maps { l.u(m.addr).u(m.ld).u(fnv(&format!("{:?}", m.name))); } } Ok(None) => { l.u(0); } Err(e) => return format!("!{e}") }
    for t in [md::LINUX_AUXV, md::LINUX_MAPS, md::LINUX_CMD_LINE, md::LINUX_ENVIRON, md::MOZ_LINUX_LIMITS] { match d.stream(img, t) { Some(Ok(b)) => { l.z(b.len()).u(fnv(&format!("{b:?}"))); } _ => { l.u(0xdead); } } }
    if let Ok(ns) = d.thread_names(img) { l.z(ns.len()); for n in &ns { l.u(fnv(&format!("{:?}", n.name))); } }
    l.0
}

fn hexerr(e: &str) -> String { format!("!{}", e.replace('\n', " ").chars().take(300).collect::<String>()) }

/// emits the comparison cases of one live dump for the requested aspects
pub fn emit(out: &mut Out, lv: &Live, aspects: &[String]) {
    let want = |a: &str| aspects.iter().any(|x| x == a);
    let w = &lv.world;
    let img = match &lv.image { Ok(i) => i, Err(e) => {
        // a failed dump is legitimate only in known circumstances (e.g. crash IP in unreadable memory); report as a case of its own
        let mut l = Line::new("const"); l.u(0);
        out.count("dump.failed"); out.case(l.s(), &hexerr(e), false); return; } };
    let d = match md::Dump::parse(img) { Ok(d) => d, Err(e) => { let mut l = Line::new("const"); l.u(0); out.case(l.s(), &hexerr(&e), false); return; } };
    let threads = match d.threads(img) { Ok(t) => t, Err(e) => { let mut l = Line::new("const"); l.u(0); out.case(l.s(), &hexerr(&e), false); return; } };
    let crash_tid = lv.crash.as_ref().map(|_| lv.blamed);
    out.count(&format!("threads.{}", match threads.len() { 0 => "0", 1 => "1", 2..=6 => "2-6", 7..=19 => "7-19", _ => "20+" }));
    // ---- C04: listed threads
    if want("listed") {
        // which threads must be listed is decided from what the harness knows about the target it built,
        // not from the writer's own attach outcome: every thread is attachable except the null-SP helpers
        let mut l = Line::new("tl_listed"); l.z(w.threads.len());
        for t in &w.threads {
            let idx = lv.target.tids.iter().position(|x| *x == t.tid);
            let nullsp = idx.map(|i| lv.plan.scen.threads[i].kind == Kind::NullSp).unwrap_or(false);
            let rsp = if nullsp { 0 } else { t.regs.map(|r| r.rsp).unwrap_or_else(|| idx.map(|i| lv.target.fact_hex(&format!("t{i}.sp"))).unwrap_or(1)) };
            l.u(t.tid as u64).b(!lv.unattachable.contains(&t.tid)).u(rsp);
        }
        let mut r = Line::bare(); r.z(threads.len()); for t in &threads { r.u(t.tid as u64); }
        out.case(l.s(), r.s(), w.threads.iter().any(|t| t.regs.is_none() || t.regs.map(|r| r.rsp == 0).unwrap_or(false)));
    }
    // ---- C04 / C05: contexts
    for t in &threads {
        let is_crash = crash_tid == Some(t.tid as i32);
        let bytes = img.get(t.ctx.rva as usize..t.ctx.rva as usize + t.ctx.size as usize);
        let mut r = Line::bare();
        match bytes { Some(b) if t.ctx.size == 1232 => { r.bytes(b); } _ => { r.0 = format!("!context location ({}, {}) not a 1232-byte object inside the image", t.ctx.rva, t.ctx.size); } }
        if is_crash && want("crashctx") {
            out.case(ucontext_case(lv.crash.as_ref().unwrap()).s(), r.s(), true); out.count("context.from_crash_context");
        } else if !is_crash && want("regs") {
            if let Some(wt) = w.threads.iter().find(|x| x.tid == t.tid as i32) {
                if let (Some(regs), Some(fp)) = (wt.regs, wt.fpregs) {
                    // a spinning thread is still stopped while both reads happen: the registers must agree exactly
                    out.case(ptrace_case(&regs, &wt.dregs, &fp).s(), r.s(), true); out.count("context.from_ptrace");
                }
            }
        }
    }
    // ---- C06: stack regions
    let nth = threads.len();
    for (idx, t) in threads.iter().enumerate() {
        let is_crash = crash_tid == Some(t.tid as i32);
        let sp = if is_crash { lv.crash.as_ref().unwrap().get_stack_pointer() as u64 } else { match w.threads.iter().find(|x| x.tid == t.tid as i32).and_then(|x| x.regs) { Some(r) => r.rsp, None => continue } };
        let ip = if is_crash { lv.crash.as_ref().unwrap().get_instruction_pointer() as u64 } else { w.threads.iter().find(|x| x.tid == t.tid as i32).and_then(|x| x.regs).map(|r| r.rip).unwrap_or(0) };
        if want("region") && (lv.plan.skip == 0 || (lv.plan.skip == 9 && is_crash)) {
            let mut l = Line::new("tl_region"); l.u(sp).b(lv.plan.limit.is_some()).u(lv.plan.limit.unwrap_or(0)).z(nth).z(idx).b(is_crash); maps_tokens(&mut l, w);
            let mut r = Line::bare();
            if t.stack.loc.size == 0 { r.u(0); } else { r.u(1).u(t.stack.start).u(t.stack.loc.size as u64); }
            let shortened = lv.plan.limit.is_some() && idx >= 20 && !is_crash;
            out.count(&format!("region.{}", if t.stack.loc.size == 0 { "empty" } else if shortened { "position>=20_under_limit" } else { "full" }));
            out.case(l.s(), r.s(), shortened || (sp & 0xfff) != 0);
        }
        // stack bytes equal the target's memory (or its sanitised form)
        if want("stackbytes") && t.stack.loc.size > 0 {
            let got = img.get(t.stack.loc.rva as usize..t.stack.loc.rva as usize + t.stack.loc.size as usize);
            let mem = w.mem(t.stack.start, t.stack.loc.size as usize);
            match (got, mem) {
                (Some(g), Some(m)) if !lv.plan.sanitize => {
                    let mut l = Line::new("const"); l.u(t.tid as u64).u(t.stack.start).u(1);
                    let mut r = Line::bare(); r.u(t.tid as u64).u(t.stack.start).b(g == m);
                    out.case(l.s(), r.s(), true); out.count("stackbytes.compared");
                }
                (Some(g), Some(m)) => {
                    // sanitised: the model's sanitiser applied to the bytes the harness read itself
                    let mut l = Line::new("c12"); l.u(sp).u(sp.saturating_sub(t.stack.start));
                    let ms = dumper_smaps(w); l.z(ms.len()); for (s, sz, ss, se, x) in &ms { l.u(*s).u(*sz).u(*ss).u(*se).b(*x); }
                    l.vec(m);
                    let mut r = Line::bare(); r.u(0).bytes(g);
                    out.case(l.s(), r.s(), true); out.count("stackbytes.sanitised");
                }
                (None, _) => { let mut l = Line::new("const"); l.u(1); out.case(l.s(), "!stack location outside the image", true); }
                (_, None) => { out.count("stackbytes.no_snapshot"); }
            }
        }
        // ---- C20: inclusion
        if want("included") && lv.plan.skip > 0 {
            let region_mem = w.mem(sp & !0xfff, 1).map(|_| ()).and_then(|_| {
                // the bytes the writer scanned: from the region start to its end; recover the region from the model-independent snapshot
                let mut l = Line::new("tl_region"); l.u(sp).b(lv.plan.limit.is_some()).u(lv.plan.limit.unwrap_or(0)).z(nth).z(idx).b(is_crash); maps_tokens(&mut l, w); Some(l) });
            let _ = region_mem;
            // principal mapping: the kernel extent of the mapping that holds the principal address
            let pr = lv.principal.and_then(|p| dumper_smaps(w).into_iter().find(|(_, _, ss, se, _)| p >= *ss && p < *se));
            // the stack copy the writer scanned = memory from the (unfiltered) region start; approximate by the snapshot from the page of sp
            // to the end of the containing mapping line
            let page = sp & !0xfff;
            let line_end = w.lines().iter().find(|m| page >= m.start && page < m.end).map(|m| m.end);
            if let (Some(end), true) = (line_end, lv.plan.limit.is_none() || is_crash || idx < 20) {
                if let Some(stack) = w.mem(page, (end - page) as usize) {
                    let mut l = Line::new("c20_included"); l.b(pr.is_some());
                    let (lo, hi) = pr.map(|(_, _, ss, se, _)| (ss, se)).unwrap_or((0, 0));
                    l.u(lo).u(hi).u(ip).u(sp - page).vec(stack);
                    let mut r = Line::bare(); r.u(0).b(t.stack.loc.size > 0);
                    out.case(l.s(), r.s(), true); out.count(&format!("included.{}", t.stack.loc.size > 0));
                }
            }
        }
    }
    // ---- C07: memory list = stacks (+ IP window) + application regions
    if want("memlist") {
        match d.memory_list(img) { Err(e) => { let mut l = Line::new("const"); l.u(0); out.case(l.s(), &hexerr(&e), true); }
        Ok(ml) => {
            let mut l = Line::new("tl_memlist"); maps_tokens(&mut l, w);
            l.z(threads.len());
            for t in &threads {
                let is_crash = crash_tid == Some(t.tid as i32);
                l.b(t.stack.loc.size > 0).u(t.stack.start).u(t.stack.loc.size as u64).b(is_crash);
                l.u(if is_crash { lv.crash.as_ref().unwrap().get_instruction_pointer() as u64 } else { 0 });
            }
            l.z(lv.app.len()); for (p, n) in &lv.app { l.u(*p).z(*n); }
            let mut r = Line::bare(); r.z(ml.len()); for m in &ml { r.u(m.start).u(m.loc.size as u64); }
            out.case(l.s(), r.s(), lv.app.len() > 0 || lv.crash.is_some());
            // every region reproduces the target's memory
            for m in &ml {
                let got = img.get(m.loc.rva as usize..m.loc.rva as usize + m.loc.size as usize);
                let is_stack = threads.iter().any(|t| t.stack.loc.size > 0 && t.stack.start == m.start && t.stack.loc.rva == m.loc.rva);
                if is_stack && lv.plan.sanitize { continue; }
                match (got, w.mem(m.start, m.loc.size as usize)) {
                    (Some(g), Some(mm)) => { let mut l = Line::new("const"); l.u(m.start).u(m.loc.size as u64).u(1); let mut r = Line::bare(); r.u(m.start).u(m.loc.size as u64).b(g == mm); out.case(l.s(), r.s(), true); out.count("memlist.bytes_compared"); }
                    (None, _) => { let mut l = Line::new("const"); l.u(1); out.case(l.s(), "!memory region location outside the image", true); }
                    (_, None) => { out.count("memlist.no_snapshot"); }
                }
            }
        } }
    }
    // ---- C05: exception record
    if want("exception") {
        match d.exception(img) { Ok(Some(e)) => {
            let blamed_listed = threads.iter().find(|t| t.tid as i32 == lv.blamed);
            let req_ip = if lv.crash.is_none() { blamed_listed.and_then(|t| w.threads.iter().find(|x| x.tid == t.tid as i32)).and_then(|x| x.regs).map(|r| r.rip) } else { None };
            let mut l = Line::new("tl_exception");
            match &lv.crash { Some(c) => { l.u(1).u(c.inner.siginfo.ssi_signo as u64).u(c.inner.siginfo.ssi_code as u32 as u64).u(c.inner.siginfo.ssi_addr); } None => { l.u(0).u(0).u(0).u(0); } }
            l.b(req_ip.is_some()).u(req_ip.unwrap_or(0));
            let mut r = Line::bare(); r.u(e.code as u64).u(e.flags as u64).u(e.address);
            out.case(l.s(), r.s(), lv.crash.is_some());
            // names the blamed thread; shares the blamed thread's context
            let mut l = Line::new("const"); l.u(lv.blamed as u64);
            match blamed_listed { Some(t) => { l.u(t.ctx.rva as u64).u(t.ctx.size as u64); } None => { l.u(0).u(0); } }
            let mut r = Line::bare(); r.u(e.tid as u64).u(e.ctx.rva as u64).u(e.ctx.size as u64);
            out.count(if blamed_listed.is_some() { "exception.blamed_listed" } else { "exception.blamed_absent" });
            out.case(l.s(), r.s(), true);
            // with a crash context the record must point at a context holding the supplied registers
            if let Some(c) = &lv.crash {
                let mut r = Line::bare();
                match img.get(e.ctx.rva as usize..e.ctx.rva as usize + e.ctx.size as usize) {
                    Some(b) if e.ctx.size == 1232 => { r.bytes(b); }
                    _ if blamed_listed.is_none() => { r.0 = "!exception context absent: crash context supplied but the blamed thread is not in the thread list".into(); }
                    _ => { r.0 = format!("!exception context location ({}, {}) is not a context", e.ctx.rva, e.ctx.size); }
                }
                out.case(ucontext_case(c).s(), r.s(), true);
            }
        } Ok(None) => { let mut l = Line::new("const"); l.u(0); out.case(l.s(), "!no exception stream", true); }
          Err(e) => { let mut l = Line::new("const"); l.u(0); out.case(l.s(), &hexerr(&e), true); } }
    }
}

/// the dumper's mapping list as (start, size, kernel start, kernel end, executable): the harness's own
/// re-implementation is NOT used here - the list is rebuilt from the model for the cases that need it
pub fn dumper_smaps(w: &World) -> Vec<(u64, u64, u64, u64, bool)> {
    // lines merged exactly when contiguous and same non-empty name is what matters for the cases generated here
    // (anonymous stack / scratch mappings are never merged); executable = any line of the run is executable
    let lines = w.lines();
    let mut v: Vec<(u64, u64, u64, u64, bool, Option<Vec<u8>>)> = Vec::new();
    for m in &lines {
        let name = classified(&m.name);
        let x = m.perms.as_bytes()[2] == b'x';
        if let Some(last) = v.last_mut() { if last.0 + last.1 == m.start && name.is_some() && last.5 == name { last.1 = m.end - last.0; last.3 = m.end; last.4 |= x; continue; } }
        v.push((m.start, m.end - m.start, m.start, m.end, x, name));
    }
    v.into_iter().map(|(a, b, c, d, e, _)| (a, b, c, d, e)).collect()
}

pub fn run(a: &Args) {
    let mut rng = Rng::new(a.seed);
    let mut out = Out::new();
    let focus = a.extra.first().cloned().unwrap_or_else(|| "c04".into());
    let aspects: Vec<String> = a.extra.iter().skip(1).cloned().collect();
    let work = format!("{}/tmp", a.out);
    for case_idx in 0..a.n {
        let plan = gen_plan(&mut rng, &focus, &a.tier, case_idx);
        out.count(&format!("options.crash{}", plan.crash)); if plan.limit.is_some() { out.count("options.size_limit"); } if plan.sanitize { out.count("options.sanitize"); } if plan.skip > 0 { out.count("options.skip_unreferenced"); }
        // one case in four: the writer has already served a request that was abandoned after an I/O error of its destination;
        // one fixed C05 history per run: no crash context, the blamed thread can be attached during the abandoned request and is held by another tracer afterwards (present in the target, absent from the thread list)
        let mut plan = plan;
        // one fixed C07 shape per run: the zero page is mapped (a privileged or legacy target) and the crash instruction pointer lies
        // in its first 128 bytes - the window is clipped at address 0
        if focus == "c07" && case_idx == 3 { plan.scen.lines.push("anonat 0 1 rwx".into()); plan.crash = 1; plan.skip = 0; plan.blame_late = false; plan.crash_ip = Some(*rng.pick(&[0x10u64, 0, 127, 1])); out.count("shape.zero_page_mapped_crash_ip_below_128"); }
        // one fixed C07 run: a sandboxed reporter - the dumping thread's seccomp filter refuses process_vm_readv and pread64, every
        // memory read falls back to PTRACE_PEEKDATA - with application regions shorter than a word at every position in a word
        let sandboxed = focus == "c07" && case_idx == 4;
        if sandboxed {
            plan.scen.lines.retain(|l| !l.starts_with("appmem") && !l.starts_with("anon 320")); plan.napp = 0; plan.skip = 0; plan.limit = None; plan.sanitize = false; plan.blame_late = false; if plan.crash >= 2 { plan.crash = 1; }
            plan.scen.threads.truncate(3); for t in plan.scen.threads.iter_mut() { t.pages = t.pages.min(3) & 0xffff; }
            let mut k = 0u64; for r in 0..8u64 { for len in [1u64, 3, 4, 7] { plan.scen.lines.push(format!("appmem 0 {} {len}", 64 + 16 * k + r)); plan.napp += 1; k += 1; } }
            SANDBOXED_DUMPER.store(true, std::sync::atomic::Ordering::SeqCst); out.count("run.sandboxed_reporter_ptrace_fallback_reads");
        }
        let gone = focus == "c05" && case_idx == 1;
        if gone { plan.crash = 0; plan.skip = 0; plan.scen.threads.push(ThreadSpec { kind: Kind::Block, sp_off: 0x800, pages: 2, name: Some(b"taken".to_vec()), at: None }); plan.blame_idx = Some(plan.scen.threads.len() - 1); plan.exit_between = plan.blame_idx; }
        // one fixed C04 run: no group stop before the attach (StopProcess fail point), so that the writer really waits for each
        // thread, and a signal interrupts the dumping thread every 40 microseconds
        let interrupted = focus == "c04" && case_idx == 1;
        let busy_app = focus == "c04" && case_idx == 3;
        if busy_app { plan.crash = 0; plan.skip = 0; plan.sanitize = false; plan.limit = None; out.count("run.busy_threads_write_into_an_application_region_without_group_stop"); }
        let mut client = if interrupted || busy_app { Some(minidump_writer::FailSpotName::testing_client()) } else { None };
        if let Some(c) = client.as_mut() { c.set_enabled(minidump_writer::FailSpotName::StopProcess, true); if interrupted { INTERRUPT_DUMPER.store(true, std::sync::atomic::Ordering::SeqCst); out.count("run.dumping_thread_interrupted_all_along"); } }
        // one fixed C20 history: the writer has served a request with a principal address inside a mapping; the caller then names an
        // address that lies in no mapping - every stack is now unreferenced
        // a fixed C20 shape: the crash thread's stack pointer lies in memory that is readable but not writable, its instruction
        // pointer inside the principal mapping: the stack is found (a stack needs to be readable, not writable) and kept
        if focus == "c20" && case_idx == 7 { plan.skip = 9; plan.crash = 1; plan.limit = None; plan.blame_late = false; plan.sanitize = false; plan.blame_idx = None; out.count("shape.crash_stack_pointer_in_read_only_memory"); }
        if focus == "c20" && case_idx == 5 { plan.skip = 7; plan.crash = 0; plan.limit = None; plan.blame_late = false; plan.retarget_principal = Some(0x10); out.count("history.principal_retargeted_after_a_request"); }
        let fail_first = if gone || case_idx % 4 == 2 { out.count("history.abandoned_request_first"); Some(rng.range(4, 14) as usize) } else { None };
        match run_plan_hist(&mut rng, plan, &work, fail_first) {
            Ok(lv) => emit(&mut out, &lv, &aspects),
            Err(e) => { out.notes.push(format!("case skipped: {e}")); out.count("case.skipped"); }
        }
        if let Some(c) = client.as_mut() { c.set_enabled(minidump_writer::FailSpotName::StopProcess, false); INTERRUPT_DUMPER.store(false, std::sync::atomic::Ordering::SeqCst); }
        SANDBOXED_DUMPER.store(false, std::sync::atomic::Ordering::SeqCst);
        drop(client);
    }
    out.assumptions.push("what a stopped thread 'actually had' is what the harness reads itself with PTRACE_GETREGS/GETFPREGS and /proc/<pid>/mem inside the same suspended window (kernel interfaces trusted)".into());
    out.finish(&a.out, "live dumps of generated targets (0..63 threads: blocked with sentinel registers at chosen in-page SP offsets, spinning, null-SP helpers; anonymous rwx/rw/rx regions; application regions) under generated options (crash context blaming main / another / an unattachable thread with SP/IP around mapping boundaries, size limit, sanitize, skip-unreferenced); non-trivial per aspect (see input_distribution)");
}
