//! Shared plumbing: seeded PRNG, case/impl/meta writers.
use std::collections::{BTreeMap, BTreeSet};
use std::fmt::Write as _;

pub struct Rng(pub u64);
impl Rng {
    pub fn new(seed: u64) -> Self { Rng(seed ^ 0x6d64_775f_7665_7269) }
    pub fn next(&mut self) -> u64 {
        self.0 = self.0.wrapping_add(0x9e3779b97f4a7c15);
        let mut z = self.0;
        z = (z ^ (z >> 30)).wrapping_mul(0xbf58476d1ce4e5b9);
        z = (z ^ (z >> 27)).wrapping_mul(0x94d049bb133111eb);
        z ^ (z >> 31)
    }
    pub fn below(&mut self, n: u64) -> u64 { if n == 0 { 0 } else { self.next() % n } }
    pub fn range(&mut self, lo: u64, hi: u64) -> u64 { lo + self.below(hi - lo + 1) }
    pub fn chance(&mut self, num: u64, den: u64) -> bool { self.below(den) < num }
    pub fn pick<'a, T>(&mut self, xs: &'a [T]) -> &'a T { &xs[self.below(xs.len() as u64) as usize] }
    pub fn next128(&mut self) -> u128 { ((self.next() as u128) << 64) | self.next() as u128 }
    /// a value biased towards boundaries
    pub fn interesting(&mut self, bits: u32) -> u128 {
        let mask: u128 = if bits >= 128 { u128::MAX } else { (1u128 << bits) - 1 };
        match self.below(8) {
            0 => 0,
            1 => mask,
            2 => 1,
            3 => mask >> 1,
            4 => (mask >> 1) + 1,
            _ => self.next128() & mask,
        }
    }
}

#[derive(Default)]
pub struct Out {
    pub cases: String,
    pub imp: String,
    pub evaluations: u64,
    pub nontrivial: BTreeSet<u64>,
    pub dist: BTreeMap<String, u64>,
    pub samples: Vec<String>,
    pub notes: Vec<String>,
    pub assumptions: Vec<String>,
}

pub fn fnv(data: &str) -> u64 {
    let mut h: u64 = 0xcbf29ce484222325;
    for b in data.as_bytes() { h ^= *b as u64; h = h.wrapping_mul(0x100000001b3); }
    h
}

/// progress files: every case is appended to <dir>/cases.part and <dir>/impl.part as it is produced, so that a run that
/// never finishes (the operation under test hangs) still leaves what it had established
static PART: std::sync::Mutex<Option<(std::io::BufWriter<std::fs::File>, std::io::BufWriter<std::fs::File>)>> = std::sync::Mutex::new(None);
pub fn set_part_dir(dir: &str) {
    let _ = std::fs::create_dir_all(dir);
    if let (Ok(a), Ok(b)) = (std::fs::File::create(format!("{dir}/cases.part")), std::fs::File::create(format!("{dir}/impl.part"))) {
        *PART.lock().unwrap() = Some((std::io::BufWriter::new(a), std::io::BufWriter::new(b)));
    }
}

impl Out {
    pub fn new() -> Self { Default::default() }
    /// one case: the line fed to the model driver and the implementation's result line
    pub fn case(&mut self, case_line: &str, impl_line: &str, nontrivial: bool) {
        self.cases.push_str(case_line); self.cases.push('\n');
        self.imp.push_str(impl_line); self.imp.push('\n');
        self.evaluations += 1;
        if let Ok(mut g) = PART.lock() { if let Some((a, b)) = g.as_mut() {
            use std::io::Write as _;
            let _ = a.write_all(case_line.as_bytes()); let _ = a.write_all(b"\n"); let _ = b.write_all(impl_line.as_bytes()); let _ = b.write_all(b"\n");
            if self.evaluations < 5000 || self.evaluations % 512 == 0 { let _ = a.flush(); let _ = b.flush(); }
        } }
        if nontrivial { self.nontrivial.insert(fnv(case_line)); }
        if self.samples.len() < 3 && case_line.len() < 600 { self.samples.push(case_line.to_string()); }
    }
    pub fn count(&mut self, key: &str) { *self.dist.entry(key.to_string()).or_insert(0) += 1; }
    pub fn count_n(&mut self, key: &str, n: u64) { *self.dist.entry(key.to_string()).or_insert(0) += n; }
    pub fn finish(&self, dir: &str, rule: &str) {
        std::fs::create_dir_all(dir).unwrap();
        if let Ok(mut g) = PART.lock() { *g = None; }
        let _ = std::fs::remove_file(format!("{dir}/cases.part")); let _ = std::fs::remove_file(format!("{dir}/impl.part"));
        std::fs::write(format!("{dir}/cases.txt"), &self.cases).unwrap();
        std::fs::write(format!("{dir}/impl.txt"), &self.imp).unwrap();
        let mut m = String::new();
        write!(m, "{{\"evaluations\": {}, \"distinct_nontrivial\": {}, \"rule\": {}, \"distribution\": {{",
            self.evaluations, self.nontrivial.len(), json_str(rule)).unwrap();
        let mut first = true;
        for (k, v) in &self.dist { if !first { m.push_str(", "); } first = false; write!(m, "{}: {}", json_str(k), v).unwrap(); }
        m.push_str("}, \"samples\": [");
        for (i, s) in self.samples.iter().enumerate() { if i > 0 { m.push_str(", "); } m.push_str(&json_str(s)); }
        m.push_str("], \"notes\": [");
        for (i, s) in self.notes.iter().enumerate() { if i > 0 { m.push_str(", "); } m.push_str(&json_str(s)); }
        m.push_str("], \"assumptions\": [");
        for (i, s) in self.assumptions.iter().enumerate() { if i > 0 { m.push_str(", "); } m.push_str(&json_str(s)); }
        m.push_str("]}\n");
        std::fs::write(format!("{dir}/meta.json"), m).unwrap();
    }
}

pub fn json_str(s: &str) -> String {
    let mut o = String::from("\"");
    for c in s.chars() {
        match c {
            '"' => o.push_str("\\\""), '\\' => o.push_str("\\\\"), '\n' => o.push_str("\\n"),
            '\r' => o.push_str("\\r"), '\t' => o.push_str("\\t"),
            c if (c as u32) < 0x20 => { write!(o, "\\u{:04x}", c as u32).unwrap(); }
            c => o.push(c),
        }
    }
    o.push('"'); o
}

pub struct Line(pub String);
impl Line {
    pub fn new(entry: &str) -> Self { Line(entry.to_string()) }
    pub fn bare() -> Self { Line(String::new()) }
    pub fn n(&mut self, v: u128) -> &mut Self { if !self.0.is_empty() { self.0.push(' '); } write!(self.0, "{:x}", v).unwrap(); self }
    pub fn u(&mut self, v: u64) -> &mut Self { self.n(v as u128) }
    pub fn z(&mut self, v: usize) -> &mut Self { self.n(v as u128) }
    pub fn b(&mut self, v: bool) -> &mut Self { self.n(v as u128) }
    pub fn bytes(&mut self, bs: &[u8]) -> &mut Self { for b in bs { self.n(*b as u128); } self }
    pub fn vec(&mut self, bs: &[u8]) -> &mut Self { self.z(bs.len()); self.bytes(bs) }
    pub fn s(&self) -> &str { &self.0 }
}

pub struct Args { pub seed: u64, pub n: u64, pub out: String, pub tier: String, pub replay: Option<String>, pub extra: Vec<String> }
pub fn parse_args(a: &[String]) -> Args {
    let mut r = Args { seed: 1, n: 100, out: "out".into(), tier: "quick".into(), replay: None, extra: vec![] };
    let mut i = 0;
    while i < a.len() {
        match a[i].as_str() {
            "--seed" => { r.seed = a[i + 1].parse().unwrap_or(1); i += 1; }
            "--n" => { r.n = a[i + 1].parse().unwrap_or(100); i += 1; }
            "--out" => { r.out = a[i + 1].clone(); i += 1; }
            "--tier" => { r.tier = a[i + 1].clone(); i += 1; }
            "--replay" => { r.replay = Some(a[i + 1].clone()); i += 1; }
            x => r.extra.push(x.to_string()),
        }
        i += 1;
    }
    r
}

/// Run `f` catching panics; the default panic hook is silenced for the duration.
pub fn quiet_catch<R>(f: impl FnOnce() -> R + std::panic::UnwindSafe) -> Result<R, String> {
    let prev = std::panic::take_hook();
    std::panic::set_hook(Box::new(|_| {}));
    let r = std::panic::catch_unwind(f);
    std::panic::set_hook(prev);
    r.map_err(|e| {
        if let Some(s) = e.downcast_ref::<&str>() { s.to_string() }
        else if let Some(s) = e.downcast_ref::<String>() { s.clone() }
        else { "panic".to_string() }
    })
}
