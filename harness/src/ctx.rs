//! C04 / C05 (register tables): random register files through the public `fill_cpu_context`
//! functions; the resulting CONTEXT_AMD64 bytes are compared with the model's.
use crate::common::*;
use minidump_writer::crash_context::CrashContext;
use minidump_writer::mem_writer::{Buffer, MemoryWriter};
use minidump_writer::minidump_cpu::RawContextCPU;
use minidump_writer::thread_info::ThreadInfo;

pub fn ctx_to_bytes(cpu: RawContextCPU) -> Vec<u8> {
    let mut b = Buffer::with_capacity(0);
    MemoryWriter::<RawContextCPU>::alloc_with_val(&mut b, cpu).expect("serialise context");
    b.to_vec()
}

pub fn gen_crash_context(rng: &mut Rng, tid: i32) -> CrashContext {
    let mut cc: crash_context::CrashContext = unsafe { std::mem::zeroed() };
    for g in cc.context.uc_mcontext.gregs.iter_mut() { *g = rng.interesting(64) as i64; }
    let fs = &mut cc.float_state;
    fs.cwd = rng.interesting(16) as u16; fs.swd = rng.interesting(16) as u16; fs.ftw = rng.interesting(16) as u16; fs.fop = rng.interesting(16) as u16;
    fs.rip = rng.interesting(64) as u64; fs.rdp = rng.interesting(64) as u64; fs.mxcsr = rng.interesting(32) as u32; fs.mxcr_mask = rng.interesting(32) as u32;
    for x in fs.st_space.iter_mut() { *x = rng.next() as u32; }
    for x in fs.xmm_space.iter_mut() { *x = rng.next() as u32; }
    cc.siginfo.ssi_signo = rng.range(1, 64) as u32; cc.siginfo.ssi_code = rng.interesting(32) as i32; cc.siginfo.ssi_addr = rng.interesting(64) as u64;
    cc.pid = std::process::id() as i32; cc.tid = tid;
    CrashContext { inner: cc }
}
pub fn ucontext_case(cc: &CrashContext) -> Line {
    let mut l = Line::new("ctx_ucontext");
    for g in cc.inner.context.uc_mcontext.gregs.iter() { l.u(*g as u64); }
    let fs = &cc.inner.float_state;
    l.u(fs.cwd as u64).u(fs.swd as u64).u(fs.ftw as u64).u(fs.fop as u64).u(fs.rip).u(fs.rdp).u(fs.mxcsr as u64).u(fs.mxcr_mask as u64);
    for x in fs.st_space.iter() { l.bytes(&x.to_le_bytes()); }
    for x in fs.xmm_space.iter() { l.bytes(&x.to_le_bytes()); }
    l
}
pub fn ptrace_case(regs: &libc::user_regs_struct, dregs: &[u64; 8], fs: &libc::user_fpregs_struct) -> Line {
    let mut l = Line::new("ctx_ptrace");
    for v in [regs.r15, regs.r14, regs.r13, regs.r12, regs.rbp, regs.rbx, regs.r11, regs.r10, regs.r9, regs.r8, regs.rax, regs.rcx, regs.rdx, regs.rsi, regs.rdi,
              regs.orig_rax, regs.rip, regs.cs, regs.eflags, regs.rsp, regs.ss, regs.fs_base, regs.gs_base, regs.ds, regs.es, regs.fs, regs.gs] { l.u(v); }
    for d in dregs { l.u(*d); }
    l.u(fs.cwd as u64).u(fs.swd as u64).u(fs.ftw as u64).u(fs.fop as u64).u(fs.rip).u(fs.rdp).u(fs.mxcsr as u64).u(fs.mxcr_mask as u64);
    for x in fs.st_space.iter() { l.bytes(&x.to_le_bytes()); }
    for x in fs.xmm_space.iter() { l.bytes(&x.to_le_bytes()); }
    l
}

/// calls `f` with a reference to `v` placed at an address that is `off` (0 or 8) modulo 16: the result must not depend on
/// where the caller happens to keep the register file
fn placed<T, R>(v: T, off: usize, f: impl FnOnce(&T) -> R) -> R {
    let al = std::mem::align_of::<T>();
    let off = if al > 8 { 0 } else { off };
    let mut store = vec![0u8; std::mem::size_of::<T>() + 48];
    let base = (store.as_mut_ptr() as usize + 15) & !15;
    let p = (base + off) as *mut T;
    unsafe { std::ptr::write(p, v); let r = f(&*p); std::ptr::drop_in_place(p); r }
}

pub fn run_ucontext(a: &Args) {
    let mut rng = Rng::new(a.seed);
    let mut out = Out::new();
    for _ in 0..a.n {
        let cc = gen_crash_context(&mut rng, 1);
        let case = ucontext_case(&cc);
        let off = 8 * rng.below(2) as usize; out.count(&format!("placement.{off}_mod_16"));
        let cpu = placed(cc, off, |c| { let mut cpu = RawContextCPU::default(); c.fill_cpu_context(&mut cpu); cpu });
        let mut res = Line::bare(); res.bytes(&ctx_to_bytes(cpu));
        out.case(case.s(), res.s(), true);
        // ... and against the tables of the specification alone (a changed source table then shows as a differing register)
        out.case(&case.s().replacen("ctx_ucontext", "ctx_ucontext_spec", 1), res.s(), true);
    }
    out.finish(&a.out, "random ucontext / fpstate contents (boundary-biased 64-bit values) through the public CrashContext::fill_cpu_context, serialised with the image builder; all 1232 context bytes compared; every case is non-trivial; distinct by register file");
}

pub fn run_ptrace(a: &Args) {
    let mut rng = Rng::new(a.seed ^ 0x44);
    let mut out = Out::new();
    for _ in 0..a.n {
        let mut regs: libc::user_regs_struct = unsafe { std::mem::zeroed() };
        let vals: Vec<u64> = (0..27).map(|_| rng.interesting(64) as u64).collect();
        regs.r15 = vals[0]; regs.r14 = vals[1]; regs.r13 = vals[2]; regs.r12 = vals[3]; regs.rbp = vals[4]; regs.rbx = vals[5]; regs.r11 = vals[6]; regs.r10 = vals[7];
        regs.r9 = vals[8]; regs.r8 = vals[9]; regs.rax = vals[10]; regs.rcx = vals[11]; regs.rdx = vals[12]; regs.rsi = vals[13]; regs.rdi = vals[14]; regs.orig_rax = vals[15];
        regs.rip = vals[16]; regs.cs = vals[17]; regs.eflags = vals[18]; regs.rsp = vals[19]; regs.ss = vals[20]; regs.fs_base = vals[21]; regs.gs_base = vals[22];
        regs.ds = vals[23]; regs.es = vals[24]; regs.fs = vals[25]; regs.gs = vals[26];
        let mut fpregs: libc::user_fpregs_struct = unsafe { std::mem::zeroed() };
        fpregs.cwd = rng.interesting(16) as u16; fpregs.swd = rng.interesting(16) as u16; fpregs.ftw = rng.interesting(16) as u16; fpregs.fop = rng.interesting(16) as u16;
        fpregs.rip = rng.interesting(64) as u64; fpregs.rdp = rng.interesting(64) as u64; fpregs.mxcsr = rng.interesting(32) as u32; fpregs.mxcr_mask = rng.interesting(32) as u32;
        for x in fpregs.st_space.iter_mut() { *x = rng.next() as u32; }
        for x in fpregs.xmm_space.iter_mut() { *x = rng.next() as u32; }
        let mut dregs = [0u64; 8]; for d in dregs.iter_mut() { *d = rng.interesting(64) as u64; }
        let info = ThreadInfo { stack_pointer: regs.rsp as usize, tgid: 1, ppid: 1, regs, fpregs, dregs };
        let case = ptrace_case(&info.regs, &info.dregs, &info.fpregs);
        let off = 8 * rng.below(2) as usize; out.count(&format!("placement.{off}_mod_16"));
        let cpu = placed(info, off, |i| { let mut cpu = RawContextCPU::default(); i.fill_cpu_context(&mut cpu); cpu });
        let mut res = Line::bare(); res.bytes(&ctx_to_bytes(cpu));
        out.case(case.s(), res.s(), true);
        out.case(&case.s().replacen("ctx_ptrace", "ctx_ptrace_spec", 1), res.s(), true);
    }
    out.finish(&a.out, "random ptrace register files (user_regs_struct, debug registers, user_fpregs_struct) through the public ThreadInfo::fill_cpu_context; all 1232 context bytes compared; distinct by register file");
}
