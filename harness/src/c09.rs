//! C09 / C10: operation sequences through the public `DirSection` API on a recording destination.
use crate::common::*;
use minidump_writer::dir_section::DirSection;
use minidump_writer::mem_writer::{Buffer, MemoryArrayWriter};
use minidump_writer::minidump_format::{MDLocationDescriptor, MDRawDirectory};
use std::io::{Cursor, Seek, SeekFrom, Write};

pub struct RecDest {
    pub inner: Cursor<Vec<u8>>,
    pub calls: usize,          // seek calls + non-empty write calls
    pub writes: usize,
    pub fail_at: Option<usize>,
    pub panic_at: Option<usize>,       // the destination's own code panics at that call (the request unwinds)
    pub snaps: Vec<(bool, Vec<u8>)>,   // (at least one write completed, whole content) after each call
    pub keep: bool,
    pub chunk: Option<usize>,          // accept at most this many bytes per write call (short writes are legal for Write)
}
impl RecDest {
    pub fn new(content: Vec<u8>, pos: u64, keep: bool) -> Self {
        let mut inner = Cursor::new(content); inner.set_position(pos);
        RecDest { inner, calls: 0, writes: 0, fail_at: None, panic_at: None, snaps: vec![], keep, chunk: None }
    }
    fn tick(&mut self) -> std::io::Result<()> {
        self.calls += 1;
        if Some(self.calls) == self.panic_at { panic!("injected panic in the destination"); }
        // (chunk == usize::MAX marks the runs whose injected failure is a transient one: ErrorKind::Interrupted, once)
        if Some(self.calls) == self.fail_at { return Err(if self.chunk == Some(usize::MAX) { std::io::Error::new(std::io::ErrorKind::Interrupted, "injected interruption") } else { std::io::Error::other("injected destination failure") }); }
        Ok(())
    }
    fn snap(&mut self) { if self.keep { self.snaps.push((self.writes > 0, self.inner.get_ref().clone())); } }
}
impl Write for RecDest {
    fn write(&mut self, b: &[u8]) -> std::io::Result<usize> {
        if b.is_empty() { return Ok(0); }
        self.tick()?;
        let b = match self.chunk { Some(c) if b.len() > c => &b[..c], _ => b };
        let r = self.inner.write(b); self.writes += 1; self.snap(); r
    }
    fn flush(&mut self) -> std::io::Result<()> { Ok(()) }
}
impl Seek for RecDest {
    fn seek(&mut self, p: SeekFrom) -> std::io::Result<u64> { self.tick()?; let r = self.inner.seek(p); self.snap(); r }
}

/// a destination positioned far into a (sparse) file: the bytes from `start` on are kept, every write that lands below
/// `start` is recorded as stray; there is nothing beyond the written end
pub struct SparseDest { pub start: u64, pub pos: u64, pub hi: Vec<u8>, pub stray: Vec<(u64, usize)> }
impl SparseDest { pub fn new(start: u64) -> Self { SparseDest { start, pos: start, hi: vec![], stray: vec![] } } }
impl Write for SparseDest {
    fn write(&mut self, b: &[u8]) -> std::io::Result<usize> {
        if b.is_empty() { return Ok(0); }
        if self.pos < self.start { self.stray.push((self.pos, b.len())); self.pos += b.len() as u64; return Ok(b.len()); }
        let off = (self.pos - self.start) as usize;
        if off > (1 << 28) { return Err(std::io::Error::other("sparse destination: write too far beyond the start")); }
        if self.hi.len() < off + b.len() { self.hi.resize(off + b.len(), 0); }
        self.hi[off..off + b.len()].copy_from_slice(b); self.pos += b.len() as u64; Ok(b.len())
    }
    fn flush(&mut self) -> std::io::Result<()> { Ok(()) }
}
impl Seek for SparseDest {
    fn seek(&mut self, p: SeekFrom) -> std::io::Result<u64> {
        let end = self.start + self.hi.len() as u64;
        let np = match p { SeekFrom::Start(x) => x as i128, SeekFrom::Current(d) => self.pos as i128 + d as i128, SeekFrom::End(d) => end as i128 + d as i128 };
        if np < 0 || np > u64::MAX as i128 { return Err(std::io::Error::other("seek out of range")); }
        self.pos = np as u64; Ok(self.pos)
    }
}

pub fn digest(b: &[u8]) -> (u64, u64) {
    let (mut a, mut c) = (1u64, 0u64);
    for x in b { a = (a + *x as u64) % 65521; c = (c + a) % 65521; }
    (a, c)
}

#[derive(Clone)]
enum Op { Grow(Vec<u8>), Flush(Option<(u32, u32, u32)>) }

struct Scenario { n: u32, pos0: u64, dest0: Vec<u8>, buf0: Vec<u8>, ops: Vec<Op> }

fn gen(rng: &mut Rng, valid_entries: bool, empty_beyond: bool, max_ops: u64) -> Scenario {
    let n = rng.below(7) as u32;
    let pos0 = *rng.pick(&[0u64, 0, 1, 7, 4095, 100]) + if rng.chance(1, 4) { rng.below(300) } else { 0 };
    let dest_len = if empty_beyond { pos0 } else { match rng.below(4) { 0 => 0, 1 => pos0, 2 => pos0 + rng.below(40), _ => pos0 + 200 + rng.below(2000) } };
    let dest0: Vec<u8> = (0..dest_len).map(|i| 0xA0u8.wrapping_add((i % 23) as u8)).collect();
    let buf0: Vec<u8> = (0..*rng.pick(&[0u64, 32, 32, 5])).map(|_| rng.next() as u8).collect();
    let nops = rng.below(max_ops + 1);
    let mut ops = vec![Op::Flush(None)];
    let mut len = buf0.len() as u64 + 12 * n as u64;
    let mut used = 0;
    for _ in 0..nops {
        match rng.below(5) {
            // (one growth step in sixteen is a page or more of one repeated byte, mostly zero: data that looks like a hole)
            0 | 1 => { let big = rng.chance(1, 8); let flat = rng.chance(1, 16);
                       let k = if flat { *rng.pick(&[4096u64, 4097, 8192, 5000]) } else { rng.below(if big { 600 } else { 40 }) };
                       let fillb = if rng.chance(3, 4) { 0u8 } else { rng.next() as u8 };
                       let v: Vec<u8> = (0..k).map(|_| if flat { fillb } else { rng.next() as u8 }).collect(); len += k; ops.push(Op::Grow(v)); }
            2 => ops.push(Op::Flush(None)),
            _ if used < n => {
                used += 1;
                let e = if valid_entries {
                    if rng.chance(1, 6) { (0, 0, 0) } else { let size = rng.below(len + 1); let rva = rng.below(len - size + 1); (rng.range(1, 0xffff) as u32, size as u32, rva as u32) }
                } else { (rng.interesting(32) as u32, rng.interesting(32) as u32, rng.interesting(32) as u32) };
                ops.push(Op::Flush(Some(e)));
            }
            _ => ops.push(Op::Flush(None)),
        }
    }
    if rng.chance(1, 8) { ops.remove(0); } // sometimes the caller does not flush the directory first
    Scenario { n, pos0, dest0, buf0, ops }
}

fn case_line(s: &Scenario) -> Line {
    let mut l = Line::new("c09");
    l.u(0).u(s.n as u64).u(s.pos0).vec(&s.dest0).vec(&s.buf0);
    for o in &s.ops { match o {
        Op::Grow(v) => { l.u(0).vec(v); }
        Op::Flush(None) => { l.u(1); }
        Op::Flush(Some((t, sz, rva))) => { l.u(2).u(*t as u64).u(*sz as u64).u(*rva as u64); }
    } }
    l
}

/// runs the scenario; returns (per-op reports, final dest, final buffer, snapshots, error?)
fn run_impl(s: &Scenario, fail_at: Option<usize>, keep: bool) -> (Vec<(usize, usize, u64, u64, u64)>, Vec<u8>, Vec<u8>, Vec<(bool, Vec<u8>)>, bool) {
    let mut dest = RecDest::new(s.dest0.clone(), s.pos0, keep);
    dest.fail_at = fail_at;
    let mut buffer = Buffer::with_capacity(0);
    if !s.buf0.is_empty() { let _ = MemoryArrayWriter::<u8>::write_bytes(&mut buffer, &s.buf0); }
    let mut rep = Vec::new();
    let mut failed = false;
    {
        let mut dir = DirSection::new(&mut buffer, s.n, &mut dest).expect("new");
        // `new` asks the destination for its position once; that query is not part of any operation
        // (the destination is reborrowed below through raw access to the counters after the scope ends)
        let mut last_calls = 1usize;
        for o in &s.ops {
            match o {
                Op::Grow(v) => { let _ = MemoryArrayWriter::<u8>::write_bytes(&mut buffer, v); }
                Op::Flush(e) => {
                    let dirent = e.map(|(t, sz, rva)| MDRawDirectory { stream_type: t, location: MDLocationDescriptor { data_size: sz, rva } });
                    if dir.write_to_file(&mut buffer, dirent).is_err() { failed = true; }
                }
            }
            // counters are read after the borrow ends; record op boundaries by buffer of markers
            rep.push((last_calls, 0usize, 0u64, 0u64, 0u64)); last_calls = 0;
            if failed { break; }
        }
    }
    let fin = dest.inner.get_ref().clone();
    (rep, fin, buffer.to_vec(), dest.snaps, failed)
}

/// Per-op reports need the destination state between operations while `DirSection` holds the
/// mutable borrow; replaying prefixes of the op list gives the same information.
fn per_op(s: &Scenario) -> Vec<(usize, usize, u64, u64, u64)> {
    let mut out = Vec::new();
    let mut prev_calls = 0usize;
    for k in 1..=s.ops.len() {
        let mut sk = Scenario { n: s.n, pos0: s.pos0, dest0: s.dest0.clone(), buf0: s.buf0.clone(), ops: s.ops[..k].to_vec() };
        sk.ops.truncate(k);
        let mut dest = RecDest::new(sk.dest0.clone(), sk.pos0, false);
        let mut buffer = Buffer::with_capacity(0);
        if !sk.buf0.is_empty() { let _ = MemoryArrayWriter::<u8>::write_bytes(&mut buffer, &sk.buf0); }
        {
            let mut dir = DirSection::new(&mut buffer, sk.n, &mut dest).expect("new");
            for o in &sk.ops { match o {
                Op::Grow(v) => { let _ = MemoryArrayWriter::<u8>::write_bytes(&mut buffer, v); }
                Op::Flush(e) => { let dirent = e.map(|(t, sz, rva)| MDRawDirectory { stream_type: t, location: MDLocationDescriptor { data_size: sz, rva } });
                                  dir.write_to_file(&mut buffer, dirent).expect("write_to_file on a Cursor"); }
            } }
        }
        let calls = dest.calls - 1; // minus the position query of `new`
        let (a, c) = digest(dest.inner.get_ref());
        out.push((calls - prev_calls, dest.inner.get_ref().len(), dest.inner.position(), a, c));
        prev_calls = calls;
    }
    out
}

pub fn run(a: &Args) {
    let mut rng = Rng::new(a.seed);
    let mut out = Out::new();
    let max_ops = if a.tier == "thorough" { 60 } else { 30 };
    for _ in 0..a.n {
        let s = gen(&mut rng, false, false, max_ops);
        let line = case_line(&s);
        let r = quiet_catch(std::panic::AssertUnwindSafe(|| { let rep = per_op(&s); let (_, fin, buf, _, _) = run_impl(&s, None, false); (rep, fin, buf) }));
        let mut res = Line::bare();
        match r {
            Ok((rep, fin, buf)) => {
                res.z(rep.len());
                for (nc, len, pos, x, y) in &rep { res.z(*nc).z(*len).u(*pos).u(*x).u(*y); }
                res.vec(&fin).vec(&buf);
            }
            Err(p) => { res.0 = format!("!panic {}", p.replace('\n', " ")); }
        }
        let entries = s.ops.iter().filter(|o| matches!(o, Op::Flush(Some(_)))).count();
        let grows = s.ops.iter().filter(|o| matches!(o, Op::Grow(_))).count();
        out.count(&format!("entries.{}", entries.min(4)));
        out.count(&format!("pos0.{}", if s.pos0 == 0 { "zero" } else if s.pos0 as usize > s.dest0.len() { "beyond_end" } else { "inside" }));
        out.count(&format!("dest0.{}", if s.dest0.len() as u64 > s.pos0 + 100 { "longer_than_image" } else { "short" }));
        out.case(line.s(), res.s(), entries >= 1 && s.pos0 != 0 && grows >= 1);
    }
    out.finish(&a.out, "random (grow / flush / flush-with-entry) sequences through DirSection on a Cursor with pre-existing content and a non-zero start; destination compared after every operation (call count, length, cursor, digest) and byte-for-byte at the end; non-trivial = at least one entry, a non-zero start offset and a growth step");
}

/// C10: every snapshot after a completed destination call must be a consistent truncated minidump
pub fn run_c10(a: &Args) {
    let mut rng = Rng::new(a.seed ^ 0x10);
    let mut out = Out::new();
    for _ in 0..a.n {
        let s = gen(&mut rng, true, true, 14);
        if !matches!(s.ops.first(), Some(Op::Flush(None))) { continue; }
        let sec = s.buf0.len(); let n = s.n as usize;
        let (_, _fin, _buf, snaps, _) = run_impl(&s, None, true);
        let total_calls = snaps.len();
        let entries = s.ops.iter().filter(|o| matches!(o, Op::Flush(Some((t, _, _))) if *t != 0)).count();
        out.count(&format!("calls.{}", match total_calls { 0..=3 => "0-3", 4..=15 => "4-15", _ => "16+" }));
        for (k, (written, content)) in snaps.iter().enumerate() {
            if !*written { continue; }
            let region = if content.len() as u64 >= s.pos0 { &content[s.pos0 as usize..] } else { &content[0..0] };
            let mut l = Line::new("c10_consistent"); l.z(sec).z(n).vec(region);
            out.count("snapshot.after_call");
            out.case(l.s(), "1", entries >= 1 && k > 1);
        }
        // an I/O error injected at call k leaves what the first k-1 calls left
        for _ in 0..3 {
            if total_calls == 0 { break; }
            let k = 2 + rng.below(total_calls as u64) as usize; // call numbering includes the position query of `new`
            let (_, fin, _, _, failed) = run_impl(&s, Some(k), false);
            if !failed { continue; }
            let writes_before = k >= 3;
            if !writes_before { continue; }
            let region = if fin.len() as u64 >= s.pos0 { &fin[s.pos0 as usize..] } else { &fin[0..0] };
            let mut l = Line::new("c10_consistent"); l.z(sec).z(n).vec(region);
            out.count("snapshot.after_injected_error");
            out.case(l.s(), "1", entries >= 1);
        }
    }
    out.finish(&a.out, "write_to_file sequences with valid entries on a destination empty beyond its start; the extracted predicate consistent_b is evaluated on the destination after every completed write/seek call and after an I/O error injected at a random call; non-trivial = the sequence emits at least one non-empty entry; distinct by snapshot text");
}

fn consistent_rs(r: &[u8], sec: usize, n: usize) -> bool {
    if sec + 12 * n > r.len() { return false; }
    (0..n).all(|i| { let e = &r[sec + 12 * i..sec + 12 * i + 12]; e.iter().all(|b| *b == 0) || {
        let size = u32::from_le_bytes(e[4..8].try_into().unwrap()) as u64; let rva = u32::from_le_bytes(e[8..12].try_into().unwrap()) as u64; rva + size <= r.len() as u64 } })
}

/// C09 / C10 on whole dumps: live targets dumped into a pre-filled destination positioned at a non-zero
/// offset, with short writes and with an I/O error injected at a chosen call
pub fn run_live(a: &Args) {
    use crate::live::*;
    use crate::tl::{configure, gen_plan};
    let mut rng = Rng::new(a.seed ^ 0x909);
    let mut out = Out::new();
    let work = format!("{}/tmp", a.out);
    for case in 0..a.n {
        let focus = ["c07", "c04", "c05", "c20"][(case % 4) as usize];
        let mut plan = gen_plan(&mut rng, focus, &a.tier, case + 5);
        if plan.crash == 3 { plan.crash = 1; }
        plan.scen.threads.truncate(3);
        for (i, t) in plan.scen.threads.iter_mut().enumerate() { if (case + i as u64) % 2 == 0 { t.name = Some(["ñandú-démo", "日本語", "tête"][i % 3].as_bytes().to_vec()); } }   // names whose UTF-8 and UTF-16 lengths differ
        if focus == "c20" { plan.skip = 1; }   // stacks that do not reference the principal mapping are left out
        if case == 0 && plan.napp == 0 { plan.scen.lines.push("appmem 0 100 4096".into()); plan.napp = 1; }
        // ... and a region whose tail lies in the unmapped page behind its mapping (only a prefix can be copied)
        if case == 1 { plan.scen.lines.push(format!("appmem 0 {} {}", 3 * 4096 - 0x180, 0x180 + 70_000)); plan.napp += 1; }   // the application-memory flush must be among the fault points
        let target = match Target::spawn(&plan.scen, &work) { Ok(t) => t, Err(e) => { out.notes.push(format!("spawn failed: {e}")); continue; } };
        // how many destination calls does a clean dump make?
        let total = { let mut cfg = configure(&mut rng, &plan, &target); let mut d = RecDest::new(vec![], 0, false); let _ = cfg.writer.dump(&mut d); d.calls };
        let mut runs: Vec<(Option<usize>, Option<usize>, bool)> = vec![(None, None, false), (None, Some(*rng.pick(&[1usize, 7, 100, 4096])), false), (None, None, true)];
        // every call as a fault point on the first two targets (a dump takes milliseconds), a sample on the others
        let ks: Vec<usize> = if a.tier == "thorough" || case < 2 { (2..=total).collect() } else { (0..5).map(|_| rng.range(2, total.max(3) as u64) as usize).collect() };
        for k in ks { runs.push((Some(k), None, false)); }
        // the first target again with a TRANSIENT failure (Interrupted) at each of the first calls: whether the request then
        // fails or carries on, the destination must stay consistent / equal the image
        if case == 0 { for k in 1..=12usize { runs.push((Some(k), Some(usize::MAX), false)); } out.count("run.transient_failures"); }   // a destination that tears single writes cannot keep the header+directory write atomic: not combined with injected errors
        // a destination positioned at and beyond 4 GiB (offsets that do not fit 32 bits)
        for start in [1u64 << 32, (1 << 32) + 64, (1 << 40) + 12345, u32::MAX as u64] {
            if case >= 3 && a.tier != "thorough" { break; }
            target.settle();
            let mut cfg = configure(&mut rng, &plan, &target);
            let mut dest = SparseDest::new(start);
            let res = quiet_catch(std::panic::AssertUnwindSafe(|| cfg.writer.dump(&mut dest).map_err(|e| format!("{e:?}"))));
            let mut l = Line::new("const"); l.u(case).u(3).u(start);
            let mut r = Line::bare();
            match &res {
                Ok(Ok(img)) => { if dest.stray.is_empty() && dest.hi == *img { r.u(case).u(3).u(start); } else { r.0 = format!("!destination positioned at {start} differs from the returned image: writes below the start {:?}, stored bytes equal the image {}", &dest.stray[..dest.stray.len().min(4)], dest.hi == *img); } }
                Ok(Err(e)) => { r.0 = format!("!dump into a destination positioned at {start} failed: {}", e.chars().take(200).collect::<String>()); }
                Err(p) => { r.0 = format!("!dump panicked (start {start}): {p}"); }
            }
            out.case(l.s(), r.s(), true); out.count("run.start_beyond_4gib");
        }
        for (fail_at, chunk, snapshots) in runs {
            target.settle();
            let mut cfg = configure(&mut rng, &plan, &target);
            // every other target: the plain run records a soft error (CPU information unreadable) - whatever the writer then does
            // to the image late in the request must reach the destination too
            let soft = fail_at.is_none() && chunk.is_none() && !snapshots && case % 2 == 0;
            let mut fp = if soft { let mut c = minidump_writer::FailSpotName::testing_client(); c.set_enabled(minidump_writer::FailSpotName::CpuInfoFileOpen, true); out.count("run.with_a_soft_error"); Some(c) } else { None };
            let start = *rng.pick(&[0u64, 1, 4095, 12345]);
            // beyond the start: empty when an error is injected (C10's premise), otherwise old content longer than the image
            let tail = if fail_at.is_some() || snapshots { 0 } else { 600_000 };
            let dest0: Vec<u8> = (0..start + tail).map(|i| 0xA0u8.wrapping_add((i % 29) as u8)).collect();
            let mut dest = RecDest::new(dest0.clone(), start, snapshots); dest.fail_at = fail_at; dest.chunk = chunk;
            let res = quiet_catch(std::panic::AssertUnwindSafe(|| cfg.writer.dump(&mut dest).map_err(|e| format!("{e:?}"))));
            if let Some(c) = fp.as_mut() { c.set_enabled(minidump_writer::FailSpotName::CpuInfoFileOpen, false); } drop(fp);
            let fin = dest.inner.get_ref().clone();
            let label = format!("fail_at {fail_at:?} chunk {chunk:?} start {start}");
            let mut l = Line::new("const"); l.u(case).u(1);
            let mut r = Line::bare();
            let prefix_ok = fin.len() as u64 >= start && fin[..start as usize] == dest0[..start as usize];
            match res {
                Err(p) => { r.0 = format!("!dump panicked ({label}): {p}"); }
                Ok(Ok(img)) => {
                    out.count(if fail_at.is_some() { "run.ok_despite_injected_error" } else { "run.ok" });
                    let s0 = start as usize;
                    let stored_ok = fin.len() >= s0 + img.len() && fin[s0..s0 + img.len()] == img[..];
                    let suffix_ok = if dest0.len() > s0 + img.len() { fin.len() == dest0.len() && fin[s0 + img.len()..] == dest0[s0 + img.len()..] } else { fin.len() == s0 + img.len() };
                    if prefix_ok && stored_ok && suffix_ok { r.u(case).u(1); } else { r.0 = format!("!destination differs from the returned image ({label}): bytes before the start untouched {prefix_ok}, stored bytes equal the image {stored_ok}, bytes beyond the image untouched {suffix_ok}"); }
                }
                Ok(Err(_)) => {
                    out.count("run.error_returned");
                    let region = if fin.len() as u64 >= start { &fin[start as usize..] } else { &fin[0..0] };
                    // the call that failed may be the very first write: then nothing has reached the destination yet
                    let mut ok = prefix_ok && (region.is_empty() || consistent_rs(region, 32, 18));
                    // ... and everything the streams present so far reference is present too
                    let mut why = String::new();
                    if ok && !region.is_empty() { if let Err(e) = crate::c01::references_inside(region) { ok = false; why = e; } }
                    if ok { r.u(case).u(1); } else if !why.is_empty() { r.0 = format!("!after an injected I/O error ({label}) a stream already named by the directory references data that is not present: {why}"); } else { r.0 = format!("!after an injected I/O error ({label}) the destination is not a consistent truncated minidump (prefix untouched {prefix_ok}, region {} bytes)", region.len()); }
                    // a sample goes through the extracted predicate as well
                    if !region.is_empty() && region.len() < 400_000 && rng.chance(1, 4) { let mut jl = Line::new("c10_consistent"); jl.u(32).u(18).vec(region); out.case(jl.s(), "1", true); out.count("predicate.coq_judged"); }
                }
            }
            out.case(l.s(), r.s(), fail_at.is_some() || chunk.is_some() || start != 0);
            if snapshots {
                let mut bad = None;
                let mut deep: Option<(usize, String)> = None;
                for (k, (written, content)) in dest.snaps.iter().enumerate() { if !*written { continue; } let region = &content[(start as usize).min(content.len())..]; if !consistent_rs(region, 32, 18) { bad = Some((k, region.len())); break; }
                    if deep.is_none() { if let Err(e) = crate::c01::references_inside(region) { deep = Some((k, e)); } } }
                let mut l = Line::new("const"); l.u(case).u(2); let mut r = Line::bare();
                match (bad, deep) { (None, None) => { r.u(case).u(2); }
                    (Some((k, n)), _) => { r.0 = format!("!after destination call {k} of a live dump the {n} bytes written so far are not a consistent truncated minidump"); }
                    (None, Some((k, e))) => { r.0 = format!("!after destination call {k} of a live dump a stream already named by the directory references data that is not present: {e}"); } }
                out.count_n("snapshots.checked", dest.snaps.len() as u64);
                out.case(l.s(), r.s(), true);
                // two snapshots through the extracted predicate
                for _ in 0..2 { if dest.snaps.is_empty() { break; } let (w, c) = rng.pick(&dest.snaps); if *w && c.len() < 400_000 { let region = &c[(start as usize).min(c.len())..]; let mut jl = Line::new("c10_consistent"); jl.u(32).u(18).vec(region); out.case(jl.s(), "1", true); out.count("predicate.coq_judged"); } }
            }
        }
    }
    // ---- a writer that has already served a request against a much larger thread list: its second image is small (every
    // scenario thread has meanwhile been taken by another tracer and is left out), and nothing recorded for the first image
    // may be referenced by it - at any boundary between two destination calls
    {
        let threads: Vec<ThreadSpec> = (0..24).map(|i| ThreadSpec { kind: Kind::Block, sp_off: 0x10, pages: 2, name: Some(format!("h{i}").into_bytes()), at: None }).collect();
        let scen = Scenario { threads, lines: vec!["anon 3 rwx 1".into(), "anon 2 rw- 0".into(), "anon 1 r-x 1".into()] };
        if let Ok(target) = Target::spawn(&scen, &work) {
            let blamed = *target.tids.last().unwrap();
            let mut w = minidump_writer::minidump_writer::MinidumpWriter::new(target.pid, blamed);
            let mut d1 = RecDest::new(vec![], 0, false);
            let first = quiet_catch(std::panic::AssertUnwindSafe(|| w.dump(&mut d1).map(|i| i.len()).map_err(|e| format!("{e:?}"))));
            target.settle();
            unsafe { for t in &target.tids { libc::ptrace(libc::PTRACE_SEIZE, *t, 0, 0); libc::ptrace(libc::PTRACE_INTERRUPT, *t, 0, 0); let mut st = 0; libc::waitpid(*t, &mut st, libc::__WALL); } }
            let mut d2 = RecDest::new(vec![], 0, true);
            let second = quiet_catch(std::panic::AssertUnwindSafe(|| w.dump(&mut d2).map(|i| i.len()).map_err(|e| format!("{e:?}"))));
            unsafe { for t in &target.tids { libc::ptrace(libc::PTRACE_DETACH, *t, 0, 0); } }
            let mut l = Line::new("const"); l.u(999).u(2); let mut r = Line::bare();
            let mut bad: Option<String> = None;
            for (k, (written, content)) in d2.snaps.iter().enumerate() { if !*written { continue; }
                if !consistent_rs(content, 32, 18) { bad = Some(format!("after destination call {k} of the second request of a writer the {} bytes written so far are not a consistent truncated minidump", content.len())); break; }
                if let Err(e) = crate::c01::references_inside(content) { bad = Some(format!("after destination call {k} of the second request of a writer a stream already named by the directory references data that is not present: {e}")); break; } }
            match (&first, &second, bad) { (Ok(Ok(n1)), Ok(Ok(n2)), None) => { r.u(999).u(2); out.count("history.second_request_after_larger_first"); out.count_n("snapshots.checked", d2.snaps.len() as u64); out.notes.push(format!("reused writer: first image {n1} bytes, second {n2} bytes")); }
                (_, _, Some(b)) => { r.0 = format!("!{b}"); }
                (f, s2, None) => { r.0 = format!("!reused-writer history did not complete: first {f:?} second {s2:?}").replace('\n', " ").chars().take(300).collect(); } }
            out.case(l.s(), r.s(), true);
        }
    }
    out.assumptions.push("a destination may accept fewer bytes than offered per write call (std::io::Write contract); an injected error does not modify the destination".into());
    out.finish(&a.out, "whole dumps of live targets into a destination pre-filled with old content and positioned at offsets {0,1,4095,12345}: clean, with writes limited to {1,7,64,100,4096} bytes per call, with a snapshot after every call, and with an I/O error injected at a call k (random k in the quick tier, every k in the thorough tier): on Ok the stored bytes equal the returned image and nothing before the start or beyond the image changes; on Err the destination is a consistent truncated minidump; snapshots judged by a Rust transcription of consistent_b and a sample by the extracted predicate");
}
