//! C20 (pure half): public `MappingInfo::stack_has_pointer_to_mapping` on generated stack copies.
use crate::common::*;
use crate::c12::{mapping_info, M};

pub fn run(a: &Args) {
    let mut rng = Rng::new(a.seed);
    let mut out = Out::new();
    for _ in 0..a.n {
        let lo = *rng.pick(&[0x1000u64, 0x5555_0000_0000, 0x7f00_1234_5000, 0]) ;
        let size = 0x1000 * (1 + rng.below(64));
        let hi = lo + size;
        let len = match rng.below(8) { 0 => rng.below(8), 1 => 8, 2 => 8 * rng.below(8) + rng.below(8), _ => rng.below(if a.tier == "thorough" { 4096 } else { 400 }) } as usize;
        let mut stack = vec![0u8; len];
        // background: values outside the mapping
        let mut i = 0;
        while i + 8 <= len { let w = match rng.below(4) { 0 => lo.wrapping_sub(1 + rng.below(16)), 1 => hi + rng.below(16) + if rng.chance(1, 2) { 1 } else { 0 }, 2 => 0, _ => rng.next() | (1 << 62) }; stack[i..i + 8].copy_from_slice(&w.to_le_bytes()); i += 8; }
        let sp_off = match rng.below(6) { 0 => 0, 1 => len + rng.below(12) as usize, 2 => len.saturating_sub(8), _ => rng.below(len as u64 + 1) as usize };
        // plant a pointer (or a near miss) at a chosen place
        let plant = rng.below(8);
        if len >= 8 && plant < 6 {
            let val = match rng.below(6) { 0 => lo, 1 => hi - 1, 2 => hi, 3 => lo.wrapping_sub(1), 4 => lo + size / 2, _ => hi + 1 };
            let first = (sp_off + 7) & !7;
            let pos = match plant { 0 => first, 1 => (len - 8) & !7, 2 => first.saturating_sub(8), 3 => first + 1 + rng.below(7) as usize, 4 => len - 8, _ => rng.below(len as u64 - 7) as usize };
            if pos + 8 <= len { stack[pos..pos + 8].copy_from_slice(&val.to_le_bytes()); }
            out.count(&format!("plant.{}", ["first_slot", "last_aligned_slot", "below_sp", "unaligned", "last_bytes", "anywhere"][plant as usize]));
        }
        let m = mapping_info(&M { start: lo, size, sys_start: lo, sys_end: hi, exec: true, readable: true });
        let r = quiet_catch(std::panic::AssertUnwindSafe(|| m.stack_has_pointer_to_mapping(&stack, sp_off)));
        let mut line = Line::new("c20"); line.u(lo).u(hi).z(sp_off).vec(&stack);
        let mut res = Line::bare();
        match r { Ok(b) => { res.u(0).b(b); } Err(_) => { res.u(2); } }
        out.count(&format!("len.{}", if len < 8 { "shorter_than_word" } else if len % 8 != 0 { "partial_tail" } else { "aligned" }));
        out.count(&format!("result.{}", match r { Ok(true) => "true", Ok(false) => "false", Err(_) => "panic" }));
        out.case(line.s(), res.s(), len >= 16 && plant < 6);
    }
    out.finish(&a.out, "stack_has_pointer_to_mapping on generated copies (0..4 KiB, also shorter than a word), offsets inside/at/beyond the copy, a pointer or near miss (lo-1, lo, hi-1, hi, hi+1) planted at the first slot, last slot, below SP, unaligned, anywhere; non-trivial = a value was planted in a copy of at least two words");
}
