mod common;
mod c16;
mod c13;
mod c09;
mod proc;
mod c12;
mod c20;
mod c06;
mod tiny;
mod c14;
mod ctx;
mod md;
mod live;
mod c15;
mod tl;
mod c11;
mod c03;
mod c17;
mod c18;
mod c08;
mod c02;
mod c01;

fn main() {
    let argv: Vec<String> = std::env::args().collect();
    if argv.len() < 2 { eprintln!("usage: mdw-harness <property> [--seed S] [--n N] [--out DIR] [--tier quick|thorough]"); std::process::exit(2); }
    let a = common::parse_args(&argv[2..]);
    common::set_part_dir(&a.out);
    match argv[1].as_str() {
        "c16" => c16::run(&a),
        "c13" => c13::run(&a),
        "c09" => c09::run(&a),
        "c10" => c09::run_c10(&a),
        "c09live" => c09::run_live(&a),
        "c12" => c12::run(&a),
        "c20" => c20::run(&a),
        "c06" => c06::run(&a),
        "c14mut" => c14::run_mut(&a),
        "c14files" => c14::run_files(&a),
        "c14synth" => c14::run_synth(&a),
        "ctxuc" => ctx::run_ucontext(&a),
        "ctxpt" => ctx::run_ptrace(&a),
        "c15" => c15::run(&a),
        "tl" => tl::run(&a),
        "reuse" => tl::run_reuse(&a),
        "c11" => c11::run(&a),
        "c03" => c03::run(&a),
        "c17" => c17::run(&a),
        "c18" => c18::run(&a),
        "c08" => c08::run(&a),
        "c02sov" => c02::run_sov(&a),
        "c02hostile" => c02::run_hostile(&a),
        "c01" => c01::run(&a),
        "c01img" => c01::run_image(&a),
        x => { eprintln!("unknown subcommand {x}"); std::process::exit(2); }
    }
}
