//! C08 (live): module list of targets that map harness-written ELF files (with / without build-id note,
//! with / without SONAME, deleted after mapping, embedded at a non-zero offset of an executable mapping,
//! non-ELF, all-zero identifier, names with blanks / non-ASCII / .so.N suffixes, a file under /dev/shm)
//! plus the system libraries, with and without caller-supplied mappings.
use crate::c14::{indep_build_id_pub, indep_soname_pub};
use crate::common::*;
use crate::live::*;
use crate::md;
use crate::tl::maps_tokens;
use crate::c13::classified;
use minidump_writer::maps_reader::{MappingEntry, MappingInfo, SystemMappingInfo};
use minidump_writer::minidump_writer::MinidumpWriter;
use procfs_core::process::MMPermissions;

/// [ehdr][.text][.note?][.dynamic?][.dynstr?][.shstrtab][section headers]; sh_addr = sh_offset so that the
/// image reads the same from a file and from a mapping of the whole file
pub fn synth_so(text: &[u8], note: Option<&[u8]>, soname: Option<&str>) -> Vec<u8> {
    let mut b = vec![0u8; 64];
    b[0..4].copy_from_slice(b"\x7fELF"); b[4] = 2; b[5] = 1; b[6] = 1; b[16] = 3; b[18] = 62; b[20] = 1;
    let pad8 = |b: &mut Vec<u8>| while b.len() % 8 != 0 { b.push(0) };
    let toff = b.len(); b.extend_from_slice(text); pad8(&mut b);
    let noff = b.len();
    if let Some(id) = note { b.extend_from_slice(&4u32.to_le_bytes()); b.extend_from_slice(&(id.len() as u32).to_le_bytes()); b.extend_from_slice(&3u32.to_le_bytes()); b.extend_from_slice(b"GNU\0"); b.extend_from_slice(id); pad8(&mut b); }
    let nlen = b.len() - noff;
    let dynstr_content: Vec<u8> = match soname { Some(s) => { let mut v = vec![0u8]; v.extend_from_slice(s.as_bytes()); v.push(0); v } None => vec![0u8] };
    let doff = b.len();
    if soname.is_some() { for (tag, val) in [(14u64, 1u64), (5, 0), (10, dynstr_content.len() as u64), (0, 0)] { b.extend_from_slice(&tag.to_le_bytes()); b.extend_from_slice(&val.to_le_bytes()); } }
    let dlen = b.len() - doff;
    let dsoff = b.len(); if soname.is_some() { b.extend_from_slice(&dynstr_content); pad8(&mut b); }
    let strtab = b"\0.text\0.note.gnu.build-id\0.dynamic\0.dynstr\0.shstrtab\0"; let soff = b.len(); b.extend_from_slice(strtab); pad8(&mut b);
    let shoff = b.len();
    let mut n = 0u16;
    let mut sh = |name: u32, typ: u32, flags: u64, off: usize, size: usize, link: u32, align: u64, b: &mut Vec<u8>, n: &mut u16| {
        b.extend_from_slice(&name.to_le_bytes()); b.extend_from_slice(&typ.to_le_bytes()); b.extend_from_slice(&flags.to_le_bytes()); b.extend_from_slice(&(off as u64).to_le_bytes());
        b.extend_from_slice(&(off as u64).to_le_bytes()); b.extend_from_slice(&(size as u64).to_le_bytes()); b.extend_from_slice(&link.to_le_bytes()); b.extend_from_slice(&0u32.to_le_bytes());
        b.extend_from_slice(&align.to_le_bytes()); b.extend_from_slice(&(if typ == 6 { 16u64 } else { 0 }).to_le_bytes()); *n += 1; };
    sh(0, 0, 0, 0, 0, 0, 0, &mut b, &mut n);
    sh(1, 1, 6, toff, text.len(), 0, 16, &mut b, &mut n);
    if note.is_some() { sh(7, 7, 2, noff, nlen, 0, 4, &mut b, &mut n); }
    if soname.is_some() { let dynstr_idx = n as u32 + 1; sh(26, 6, 3, doff, dlen, dynstr_idx, 8, &mut b, &mut n); sh(35, 3, 2, dsoff, dynstr_content.len(), 0, 1, &mut b, &mut n); }
    sh(43, 3, 0, soff, strtab.len(), 0, 1, &mut b, &mut n);
    b[40..48].copy_from_slice(&(shoff as u64).to_le_bytes()); b[58..60].copy_from_slice(&64u16.to_le_bytes()); b[60..62].copy_from_slice(&n.to_le_bytes()); b[62..64].copy_from_slice(&(n - 1).to_le_bytes());
    b
}

struct FileSpec { name: String, bytes: Vec<u8>, offset: u64, perms: &'static str, delete: bool, id: Option<Vec<u8>>, soname: Option<String> }

pub fn run(a: &Args) {
    let mut rng = Rng::new(a.seed);
    let mut out = Out::new();
    let work = format!("{}/tmp", a.out);
    for case in 0..a.n {
        let dir = format!("{}/mdw é {}-{case}", std::fs::canonicalize(&a.out).map(|p| p.to_string_lossy().into_owned()).unwrap_or(a.out.clone()), std::process::id());
        let _ = std::fs::create_dir_all(&dir);
        let rid = |rng: &mut Rng| -> Vec<u8> { (0..20).map(|_| rng.next() as u8).collect() };
        let rtext = |rng: &mut Rng, n: usize| -> Vec<u8> { (0..n).map(|_| rng.next() as u8 | 1).collect() };
        let mut files: Vec<FileSpec> = Vec::new();
        let mut add = |name: &str, text: Vec<u8>, id: Option<Vec<u8>>, soname: Option<&str>, offset: u64, perms: &'static str, delete: bool, files: &mut Vec<FileSpec>| {
            let img = synth_so(&text, id.as_deref(), soname);
            let eff_id = id.clone().or_else(|| { let mut f = vec![0u8; 16]; for (i, x) in text.iter().take(4096).enumerate() { f[i % 16] ^= *x; } Some(f) });
            let bytes = if offset > 0 { let mut v = vec![0xEEu8; offset as usize]; v.extend_from_slice(&img); v } else { img };
            files.push(FileSpec { name: name.to_string(), bytes, offset, perms, delete, id: eff_id, soname: soname.map(|s| s.to_string()) }); };
        let id_a = rid(&mut rng);
        add("libfoo bar.so.1.2.3", rtext(&mut rng, 100), Some(id_a), Some("libfoo.so.1"), 0, "r-x", false, &mut files);
        add("libnote.so", rtext(&mut rng, 64), Some(rid(&mut rng)), None, 0, "r--", false, &mut files);
        add("nonote.so.2", rtext(&mut rng, 5000), None, Some("libnn.so.2"), 0, "r-x", false, &mut files);
        add("zero.so", vec![0u8; 64], None, None, 0, "r-x", false, &mut files);
        add("libé.so.3rc5", rtext(&mut rng, 32), Some(rid(&mut rng)), None, 0, "r-x", false, &mut files);
        add("gone.so.7", rtext(&mut rng, 40), Some(rid(&mut rng)), Some("libgone.so.7"), 0, "r-x", true, &mut files);
        // identifiers shorter than a GUID (8 bytes: what `--build-id=fast` produces) and of 16 bytes exactly: recorded as they are
        add("libshort.so", rtext(&mut rng, 48), Some((0..8).map(|_| rng.next() as u8 | 1).collect()), None, 0, "r-x", false, &mut files);
        add("libguid.so", rtext(&mut rng, 48), Some((0..16).map(|_| rng.next() as u8 | 1).collect()), None, 0, "r-x", false, &mut files);
        // a SONAME as long as a file name can be (255 bytes), and a longer one
        let long_so = format!("lib{}.so.7", "x".repeat(if case % 2 == 0 { 248 } else { 300 }));
        add("liblongname.so", rtext(&mut rng, 56), Some(rid(&mut rng)), Some(&long_so), 0, "r-x", false, &mut files);
        add("cr🦀b 𝄞.so.2", rtext(&mut rng, 72), Some(rid(&mut rng)), None, 0, "r-x", false, &mut files);   // characters outside the BMP (two UTF-16 units each)
        add("archive.apk", rtext(&mut rng, 48), Some(rid(&mut rng)), Some("libemb.so"), 4096, "r-x", false, &mut files);
        // the build-id note in a SECOND PT_NOTE segment (the first holds another note), no section headers: the id can only
        // come from the program headers, also after the file has been deleted
        for (nm, del) in [("libtwonotes.so", false), ("libtwogone.so", true)] {
            let id = rid(&mut rng); let prop: Vec<u8> = (0..16).map(|_| rng.next() as u8).collect();
            let img = crate::c14::synth_elf_gen(true, true, false, true, &rtext(&mut rng, 200), &[(b"GNU", &prop[..], 5)], Some(&id), 8);
            files.push(FileSpec { name: nm.to_string(), bytes: img, offset: 0, perms: "r-x", delete: del, id: Some(id), soname: None });
        }
        if rng.chance(1, 2) { add("lib.so.1.2.3é4", rtext(&mut rng, 16), Some(rid(&mut rng)), None, 0, "r-x", false, &mut files); }
        // a non-ELF file and a file under /dev/shm (must never be opened by the writer)
        files.push(FileSpec { name: "notelf.bin".into(), bytes: (0..5000).map(|_| rng.next() as u8).collect(), offset: 0, perms: "r-x", delete: false, id: None, soname: None });
        let shm_path = format!("/dev/shm/mdw-verif-{}-{case}", std::process::id());
        let _ = std::fs::write(&shm_path, vec![0x55u8; 8192]);
        let mut lines = Vec::new();
        let mut paths = Vec::new();
        for f in &files { let p = format!("{dir}/{}", f.name); std::fs::write(&p, &f.bytes).unwrap(); paths.push(p.clone());
            let hex: String = p.bytes().map(|b| format!("{b:02x}")).collect(); let pages = (f.bytes.len() as u64 - f.offset + 4095) / 4096;
            lines.push(format!("filex {hex} {} {pages} {}", f.offset, f.perms)); }
        let hex: String = shm_path.bytes().map(|b| format!("{b:02x}")).collect(); lines.push(format!("filex {hex} 0 2 r-x"));
        // two different libraries embedded in ONE file, each mapped executable from its own offset, far apart
        let mut multi: Vec<(String, u64, Vec<u8>, String)> = Vec::new();
        {
            let p = format!("{dir}/multi.apk");
            let (ia, ib) = (rid(&mut rng), rid(&mut rng));
            let a_img = synth_so(&rtext(&mut rng, 40), Some(&ia), Some("libfirst.so"));
            let b_img = synth_so(&rtext(&mut rng, 72), Some(&ib), Some("libsecond.so"));
            let mut bytes = vec![0xEEu8; 4096]; bytes.extend_from_slice(&a_img); bytes.resize(8192, 0); bytes.extend_from_slice(&b_img);
            std::fs::write(&p, &bytes).unwrap();
            let hex: String = p.bytes().map(|b| format!("{b:02x}")).collect();
            lines.push(format!("filexat 30000000 {hex} 4096 1 r-x")); lines.push(format!("filexat 31000000 {hex} 8192 1 r-x"));
            multi.push((p.clone(), 4096, ia, "libfirst.so".into())); multi.push((p, 8192, ib, "libsecond.so".into()));
        }
        // every other case: an anonymous mapping and a file-backed module BELOW the executable, so that the module
        // holding the program entry point is not the first line of the memory map
        if case % 2 == 0 {
            lines.push("anonat 10000000 1 rw-".to_string());
            let hex: String = paths[0].bytes().map(|b| format!("{b:02x}")).collect();
            lines.push(format!("filexat 20000000 {hex} 0 1 r-x"));
            out.count("layout.modules_below_executable");
        }
        let scen = Scenario { threads: vec![], lines };
        let target = match Target::spawn(&scen, &work) { Ok(t) => t, Err(e) => { out.notes.push(format!("spawn failed: {e}")); continue; } };
        for (f, p) in files.iter().zip(&paths) { if f.delete { let _ = std::fs::remove_file(p); } }
        // watch the /dev/shm file for opens
        let ino = unsafe { libc::inotify_init1(libc::IN_NONBLOCK) };
        let cpath = std::ffi::CString::new(shm_path.clone()).unwrap();
        unsafe { libc::inotify_add_watch(ino, cpath.as_ptr(), libc::IN_OPEN | libc::IN_ACCESS); }
        // caller-supplied mappings
        let maps_before = parse_maps(&std::fs::read(format!("/proc/{}/maps", target.pid)).unwrap_or_default());
        let mut users: Vec<(u64, u64, String, Vec<u8>)> = Vec::new();
        if case % 2 == 1 {
            if let Some(m) = maps_before.iter().find(|m| m.name.ends_with("libnote.so")) { users.push((m.start, m.end - m.start, "/user/supplied/libnote.so".into(), rid(&mut rng))); }
            users.push((0x1000_0000, 0x2000, "/user/other.so.9".into(), if rng.chance(1, 2) { vec![] } else { rid(&mut rng) }));
            users.push((0x1100_0000, 0x1000, "/user/short-id.so".into(), vec![0xab, 0xcd, 0xef]));   // a 3-byte identifier, listed verbatim
        }
        let mut writer = MinidumpWriter::new(target.pid, target.pid);
        if !users.is_empty() { writer.set_user_mapping_list(users.iter().map(|(s, sz, n, id)| MappingEntry { mapping: MappingInfo { start_address: *s as usize, size: *sz as usize,
            system_mapping_info: SystemMappingInfo { start_address: *s as usize, end_address: (*s + *sz) as usize }, offset: 0, permissions: MMPermissions::READ | MMPermissions::EXECUTE, name: Some(n.into()) }, identifier: id.clone() }).collect()); }
        let mut dest = std::io::Cursor::new(Vec::new());
        let (res, world, _) = with_hooks(target.pid, target.pid, true, None, || quiet_catch(std::panic::AssertUnwindSafe(|| writer.dump(&mut dest).map_err(|e| format!("{e:?}")))));
        // /dev/shm file untouched?
        let mut evbuf = [0u8; 4096]; let nread = unsafe { libc::read(ino, evbuf.as_mut_ptr() as *mut libc::c_void, evbuf.len()) }; unsafe { libc::close(ino); }
        { let mut l = Line::new("const"); l.u(0); let mut r = Line::bare(); if nread > 0 { r.0 = format!("!the writer opened or read the mapped file {shm_path} under /dev"); } else { r.u(0); } out.case(l.s(), r.s(), true); out.count("devshm.watched"); }
        let _ = std::fs::remove_file(&shm_path);
        let cleanup = || { let _ = std::fs::remove_dir_all(&dir); };
        let Some(world) = world else { cleanup(); continue };
        let img = match res { Ok(Ok(i)) => i, other => { let mut l = Line::new("const"); l.u(1); out.case(l.s(), &format!("!dump failed: {other:?}").replace('\n', " ").chars().take(300).collect::<String>(), true); cleanup(); continue; } };
        // identification table by mapped name: harness-written files by construction, everything else by the independent reader
        let mut line = Line::new("c08"); maps_tokens(&mut line, &world);
        // one entry per (mapped name, file offset of a line with that name): one file can hold several images
        let mut keys: Vec<(Vec<u8>, u64)> = Vec::new();
        for m in world.lines() { if let Some(n) = classified(&m.name) { if !keys.contains(&(n.clone(), m.offset)) { keys.push((n, m.offset)); } } }
        if world.auxv_value(33).is_some() { keys.push((b"linux-gate.so".to_vec(), 0)); }
        let mut tbl: Vec<(Vec<u8>, u64, Option<Vec<u8>>, Option<Vec<u8>>)> = Vec::new();
        for (n, off) in &keys {
            let s = String::from_utf8_lossy(n).into_owned();
            if let Some((_, _, id, so)) = multi.iter().find(|(p, o, _, _)| *p == s && o == off) {
                tbl.push((n.clone(), *off, Some(id.clone()), Some(so.clone().into_bytes())));
            } else if let Some(f) = files.iter().find(|f| s == format!("{dir}/{}", f.name)) {
                if f.name == "notelf.bin" { tbl.push((n.clone(), *off, None, None)); }
                else { tbl.push((n.clone(), *off, f.id.clone(), f.soname.clone().map(|x| x.into_bytes()))); }
            } else if s == "linux-gate.so" {
                let g = world.auxv_value(33).unwrap();
                let mem = read_mem(target.pid, g, 2 * 4096).unwrap_or_default();
                tbl.push((n.clone(), *off, indep_build_id_pub(&mem), indep_soname_pub(&mem)));
            } else if s.starts_with('/') && !s.starts_with("/dev/") {
                let b = std::fs::read(&s).unwrap_or_default();
                tbl.push((n.clone(), *off, indep_build_id_pub(&b), indep_soname_pub(&b)));
            } else { tbl.push((n.clone(), *off, None, None)); }
        }
        line.z(tbl.len());
        for (n, off, id, so) in &tbl { line.vec(n).u(*off); match id { Some(i) => { line.u(1).vec(i); } None => { line.u(0).u(0); } } match so { Some(s) => { line.u(1).vec(s); } None => { line.u(0).u(0); } } }
        line.z(users.len()); for (s, sz, n, id) in &users { line.u(*s).u(*sz).vec(n.as_bytes()).vec(id); }
        let mut r = Line::bare();
        match md::Dump::parse(&img).and_then(|d| d.modules(&img)) {
            Err(e) => { r.0 = format!("!{e}"); }
            Ok(ms) => {
                r.z(ms.len());
                for m in &ms {
                    r.u(m.base).u(m.size as u64);
                    if m.cv.size == 0 { r.u(0); } else { match img.get(m.cv.rva as usize..m.cv.rva as usize + m.cv.size as usize) { Some(cv) if cv.len() >= 4 && &cv[0..4] == b"LEpB" => { r.vec(&cv[4..]); } _ => { r.0 = "!debug record is not a BpEL record inside the image".into(); break; } } }
                    match &m.name { Ok(n) => { r.u(0).vec(n.as_bytes()); } Err(e) => { r.0 = format!("!module name: {e}"); break; } }
                    if m.version[0] == 0 { r.u(0).u(0).u(0).u(0).u(0); } else { r.u(1).u(m.version[2] as u64).u(m.version[3] as u64).u(m.version[4] as u64).u(m.version[5] as u64); }
                }
                out.count_n("modules.listed", ms.len() as u64);
            }
        }
        out.count(if users.is_empty() { "users.none" } else { "users.supplied" });
        out.case(line.s(), r.s(), true);
        cleanup();
    }
    out.assumptions.push("the expected identifier / SONAME of every mapped file comes from construction (harness-written images) or from the harness's independent section-based reader (system libraries, vDSO memory)".into());
    out.finish(&a.out, "targets mapping harness-written ELF images (note+SONAME with blanks and a .so.1.2.3 suffix; note only, mapped read-only; no note -> text hash; all-zero text -> all-zero id; non-ASCII name with an rc version; deleted after mapping; embedded at file offset 4096 of an executable mapping; non-ELF file; a file under /dev/shm watched with inotify) plus the system libraries and vDSO; every other case with caller-supplied mappings (one wholly containing a target mapping, one elsewhere, with and without identifier); module list (base, size, identifier, name, version numbers) vs the model");
}
