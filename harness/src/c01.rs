//! C01 (live): structural soundness of successful dumps.  The harness's independent decoder abstracts
//! the image (header, directory entries with the size their record count implies, every object any stored
//! offset designates); the extracted predicate SoundAbs.sound_b judges the abstraction.
use crate::common::*;
use crate::live::*;
use crate::md::{self, u32_at, u64_at};
use crate::tl::{gen_plan, run_plan};

/// (kind, rva, size) of a MINIDUMP_STRING at rva, by its own header
fn string_obj(img: &[u8], rva: u32) -> Result<(u64, u64, u64), String> { let n = u32_at(img, rva as usize)?; Ok((7, rva as u64, 4 + n as u64)) }

/// every object that a stored offset of the (possibly truncated) image designates lies inside it; Err names the first one that does not
pub fn references_inside(img: &[u8]) -> Result<usize, String> {
    let l = abstract_image(img)?;
    let toks: Vec<u64> = l.s().split_whitespace().skip(1).filter_map(|t| u64::from_str_radix(t, 16).ok()).collect();
    // layout: len sig ver count dir_rva ndir (4 per entry) nobj (3 per object)
    let ndir = *toks.get(5).ok_or("short abstraction")? as usize; let base = 6 + 4 * ndir;
    let nobj = *toks.get(base).ok_or("short abstraction")? as usize;
    for i in 0..nobj { let (k, r, sz) = (toks[base + 1 + 3 * i], toks[base + 2 + 3 * i], toks[base + 3 + 3 * i]);
        if r + sz > img.len() as u64 { return Err(format!("object of kind {k} at {r:#x}+{sz} lies beyond the {} bytes present", img.len())); } }
    Ok(nobj)
}

pub fn abstract_image(img: &[u8]) -> Result<Line, String> {
    let d = md::Dump::parse(img)?;
    let mut l = Line::new("c01_sound");
    l.z(img.len()).u(d.signature as u64).u(d.version as u64).u(d.stream_count as u64).u(d.dir_rva as u64);
    l.z(d.dir.len());
    for (t, loc) in &d.dir {
        let n32 = |o: usize| u32_at(img, loc.rva as usize + o).unwrap_or(0) as u64;
        let implied: u64 = match *t {
            md::THREAD_LIST => 4 + 48 * n32(0), md::MODULE_LIST => 4 + 108 * n32(0), md::MEMORY_LIST => 4 + 16 * n32(0), md::EXCEPTION => 168, md::SYSTEM_INFO => 56,
            md::MEMORY_INFO_LIST => n32(0) + n32(4) * u64_at(img, loc.rva as usize + 8).unwrap_or(0), md::THREAD_NAMES => 4 + 12 * n32(0), md::HANDLE_DATA => n32(0) + n32(4) * n32(8),
            _ => loc.size as u64 };
        l.u(*t as u64).u(loc.size as u64).u(loc.rva as u64).u(implied);
    }
    let mut objs: Vec<(u64, u64, u64)> = vec![(1, 0, 32), (2, d.dir_rva as u64, 12 * d.stream_count as u64)];
    for (t, loc) in &d.dir { if *t != 0 || loc.size != 0 || loc.rva != 0 { objs.push((3, loc.rva as u64, loc.size as u64)); } }
    for t in d.threads(img)? {
        if t.stack.loc.size > 0 { objs.push((4, t.stack.loc.rva as u64, t.stack.loc.size as u64)); }
        if t.ctx.size != 1232 { return Err(format!("thread {} context has size {}", t.tid, t.ctx.size)); }
        objs.push((5, t.ctx.rva as u64, t.ctx.size as u64));
    }
    let threads = d.threads(img)?;
    for m in d.memory_list(img)? {
        if m.loc.size == 0 { continue; }
        let is_stack = threads.iter().any(|t| t.stack.loc.size > 0 && t.stack.loc.rva == m.loc.rva && t.stack.loc.size == m.loc.size && t.stack.start == m.start);
        objs.push((if is_stack { 10 } else { 6 }, m.loc.rva as u64, m.loc.size as u64));
    }
    if let Some(e) = d.exception(img)? { if e.ctx.size > 0 { let shared = threads.iter().any(|t| t.ctx.rva == e.ctx.rva && t.ctx.size == e.ctx.size); objs.push((if shared { 11 } else { 5 }, e.ctx.rva as u64, e.ctx.size as u64)); } }
    for m in d.modules(img)? { objs.push(string_obj(img, m.name_rva)?); m.name.as_ref().map_err(|e| format!("module name: {e}"))?; if m.cv.size > 0 { objs.push((8, m.cv.rva as u64, m.cv.size as u64)); } if m.misc.size > 0 { objs.push((8, m.misc.rva as u64, m.misc.size as u64)); } }
    if let Some(si) = d.system_info(img)? { objs.push(string_obj(img, si.csd_rva)?); si.csd.as_ref().map_err(|e| format!("OS version string: {e}"))?; }
    for n in d.thread_names(img)? { if n.rva > u32::MAX as u64 { return Err("thread name rva above 4 GiB".into()); } objs.push(string_obj(img, n.rva as u32)?); n.name.as_ref().map_err(|e| format!("thread name: {e}"))?; }
    for h in d.handles(img)? { if h.object_name_rva != 0 { objs.push(string_obj(img, h.object_name_rva)?); h.object_name.as_ref().map_err(|e| format!("handle name: {e}"))?; } }
    if let Some(dd) = d.dso_debug(img)? { if dd.count > 0 { objs.push((9, dd.map_rva as u64, 20 * dd.count as u64)); for m in &dd.maps { objs.push(string_obj(img, m.name_rva)?); m.name.as_ref().map_err(|e| format!("link map name: {e}"))?; } } }
    l.z(objs.len()); for (k, r, s) in &objs { l.u(*k).u(*r).u(*s); }
    Ok(l)
}

pub fn run(a: &Args) {
    let mut rng = Rng::new(a.seed);
    let mut out = Out::new();
    let work = format!("{}/tmp", a.out);
    for case in 0..a.n {
        let focus = ["c04", "c05", "c06", "c07", "c20", "c12"][(case % 6) as usize];
        let mut plan = gen_plan(&mut rng, focus, &a.tier, case + 1);
        if plan.crash == 3 { plan.crash = 1; }
        // names that are not ASCII: thread names and caller-supplied mapping names go through the string writer
        let fancy = ["tête", "", "ñandú-7", "日本語スレ", "😀😀", "a é", "ü", " "];   // the empty and the all-blank name are readable names too
        for (i, t) in plan.scen.threads.iter_mut().enumerate() { if rng.chance(1, 2) { t.name = Some(fancy[i % fancy.len()].as_bytes().to_vec()); } }
        if rng.chance(2, 3) { plan.user_maps.push((0x2000_0000, 0x3000, format!("/opt/démo/lib{}.so.{}", rng.pick(&["über‑café", "plain", "日本"]), rng.below(9)), (0..rng.below(24)).map(|_| rng.next() as u8).collect())); }
        // an application region whose tail lies in the unmapped page after the first anonymous mapping: the read
        // returns a prefix, and the descriptor must describe what was stored
        if case % 2 == 0 { plan.scen.lines.push(format!("appmem 0 {} {}", 3 * 4096 - *rng.pick(&[0x100u64, 1, 4095]), *rng.pick(&[0x200u64, 4096, 5000]))); plan.napp += 1; }
        // descriptors and a synthetic linker chain so that the handle and linker streams carry references
        for k in ["file", "pipe", "socket", "dir"] { if rng.chance(1, 2) { plan.scen.lines.push(format!("fd {k}")); } }
        let opts = format!("crash{} limit{} sanitize{} skip{} app{} threads{}", plan.crash, plan.limit.is_some() as u8, plan.sanitize as u8, plan.skip, plan.napp, plan.scen.threads.len());
        match run_plan(&mut rng, plan, &work) {
            Err(e) => { out.notes.push(format!("case skipped: {e}")); }
            Ok(lv) => match &lv.image {
                Err(e) => { let mut l = Line::new("const"); l.u(1); out.case(l.s(), &format!("!dump failed: {}", e.replace('\n', " ").chars().take(200).collect::<String>()), true); }
                Ok(img) => { match abstract_image(img) {
                    Ok(l) => { out.case(l.s(), "1", true); out.count(&format!("options.{opts}")); }
                    Err(e) => { let mut l = Line::new("const"); l.u(1); out.case(l.s(), &format!("!image does not decode: {e} [{opts}]"), true); } } }
            },
        }
    }
    out.assumptions.push("the abstraction (which objects the stored offsets designate, with the lengths their own headers declare) is computed by the harness's independent decoder harness/src/md.rs".into());
    out.finish(&a.out, "live dumps under generated option combinations (crash context, size limit, sanitize, skip-unreferenced, application memory; 0..63 threads; open descriptors): the decoded image is abstracted to header / directory / object list and judged by the extracted predicate sound_b (valid header, declared number of entries, unique types, sizes implied by record counts, every referenced object inside the image with its declared length, no overlap except the two intended sharings); distinct by abstraction");
}
