//! C01 (live): structural soundness of successful dumps.  The harness's independent decoder abstracts
//! the image (header, directory entries with the size their record count implies, every object any stored
//! offset designates); the extracted predicate SoundAbs.sound_b judges the abstraction.
use crate::common::*;
use crate::live::*;
use crate::md::{self, u32_at, u64_at};
use crate::tl::{gen_plan, run_plan_hist};

/// (kind, rva, size) of a MINIDUMP_STRING at rva, by its own header
fn string_obj(img: &[u8], rva: u32) -> Result<(u64, u64, u64), String> { let n = u32_at(img, rva as usize)?; Ok((7, rva as u64, 4 + n as u64)) }

/// every object that a stored offset of the (possibly truncated) image designates lies inside it; Err names the first one that does not
pub fn references_inside(img: &[u8]) -> Result<usize, String> {
    let l = abstract_image(img)?;
    let toks: Vec<u64> = l.s().split_whitespace().skip(1).filter_map(|t| u64::from_str_radix(t, 16).ok()).collect();
    // layout: len sig ver count dir_rva ndir (4 per entry) nobj (3 per object)
    let ndir = *toks.get(5).ok_or("short abstraction")? as usize; let base = 6 + 4 * ndir;
    let nobj = *toks.get(base).ok_or("short abstraction")? as usize;
    for i in 0..nobj { let (k, r, sz) = (toks[base + 1 + 3 * i], toks[base + 2 + 3 * i], toks[base + 3 + 3 * i]);
        if r + sz > img.len() as u64 { return Err(format!("object of kind {k} at {r:#x}+{sz} lies beyond the {} bytes present", img.len())); } }
    Ok(nobj)
}

pub fn abstract_image(img: &[u8]) -> Result<Line, String> {
    let d = md::Dump::parse(img)?;
    let mut l = Line::new("c01_sound");
    l.z(img.len()).u(d.signature as u64).u(d.version as u64).u(d.stream_count as u64).u(d.dir_rva as u64);
    l.z(d.dir.len());
    for (t, loc) in &d.dir {
        let n32 = |o: usize| u32_at(img, loc.rva as usize + o).unwrap_or(0) as u64;
        let implied: u64 = match *t {
            md::THREAD_LIST => 4 + 48 * n32(0), md::MODULE_LIST => 4 + 108 * n32(0), md::MEMORY_LIST => 4 + 16 * n32(0), md::EXCEPTION => 168, md::SYSTEM_INFO => 56,
            md::MEMORY_INFO_LIST => n32(0) + n32(4) * u64_at(img, loc.rva as usize + 8).unwrap_or(0), md::THREAD_NAMES => 4 + 12 * n32(0), md::HANDLE_DATA => n32(0) + n32(4) * n32(8),
            _ => loc.size as u64 };
        l.u(*t as u64).u(loc.size as u64).u(loc.rva as u64).u(implied);
    }
    let mut objs: Vec<(u64, u64, u64)> = vec![(1, 0, 32), (2, d.dir_rva as u64, 12 * d.stream_count as u64)];
    for (t, loc) in &d.dir { if *t != 0 || loc.size != 0 || loc.rva != 0 { objs.push((3, loc.rva as u64, loc.size as u64)); } }
    for t in d.threads(img)? {
        if t.stack.loc.size > 0 { objs.push((4, t.stack.loc.rva as u64, t.stack.loc.size as u64)); }
        if t.ctx.size != 1232 { return Err(format!("thread {} context has size {}", t.tid, t.ctx.size)); }
        objs.push((5, t.ctx.rva as u64, t.ctx.size as u64));
    }
    let threads = d.threads(img)?;
    for m in d.memory_list(img)? {
        if m.loc.size == 0 { continue; }
        let is_stack = threads.iter().any(|t| t.stack.loc.size > 0 && t.stack.loc.rva == m.loc.rva && t.stack.loc.size == m.loc.size && t.stack.start == m.start);
        objs.push((if is_stack { 10 } else { 6 }, m.loc.rva as u64, m.loc.size as u64));
    }
    if let Some(e) = d.exception(img)? { if e.ctx.size > 0 { let shared = threads.iter().any(|t| t.ctx.rva == e.ctx.rva && t.ctx.size == e.ctx.size); objs.push((if shared { 11 } else { 5 }, e.ctx.rva as u64, e.ctx.size as u64)); } }
    for m in d.modules(img)? { objs.push(string_obj(img, m.name_rva)?); m.name.as_ref().map_err(|e| format!("module name: {e}"))?; if m.cv.size > 0 { objs.push((8, m.cv.rva as u64, m.cv.size as u64)); } if m.misc.size > 0 { objs.push((8, m.misc.rva as u64, m.misc.size as u64)); } }
    if let Some(si) = d.system_info(img)? { objs.push(string_obj(img, si.csd_rva)?); si.csd.as_ref().map_err(|e| format!("OS version string: {e}"))?; }
    for n in d.thread_names(img)? { if n.rva > u32::MAX as u64 { return Err("thread name rva above 4 GiB".into()); } objs.push(string_obj(img, n.rva as u32)?); n.name.as_ref().map_err(|e| format!("thread name: {e}"))?; }
    for h in d.handles(img)? { if h.object_name_rva != 0 { objs.push(string_obj(img, h.object_name_rva)?); h.object_name.as_ref().map_err(|e| format!("handle name: {e}"))?; } }
    if let Some(dd) = d.dso_debug(img)? { if dd.count > 0 { objs.push((9, dd.map_rva as u64, 20 * dd.count as u64)); for m in &dd.maps { objs.push(string_obj(img, m.name_rva)?); m.name.as_ref().map_err(|e| format!("link map name: {e}"))?; } } }
    l.z(objs.len()); for (k, r, s) in &objs { l.u(*k).u(*r).u(*s); }
    Ok(l)
}

pub fn run(a: &Args) {
    let mut rng = Rng::new(a.seed);
    let mut out = Out::new();
    let work = format!("{}/tmp", a.out);
    for case in 0..a.n {
        let focus = ["c04", "c05", "c06", "c07", "c20", "c12"][(case % 6) as usize];
        let mut plan = gen_plan(&mut rng, focus, &a.tier, case + 1);
        if plan.crash == 3 { plan.crash = 1; }
        // one fixed shape: two regions collected one after the other that TOUCH in the target's address space - the window around
        // the crash instruction pointer (crash thread listed last) ends exactly where the first application region starts
        if case == 3 {
            if plan.scen.threads.is_empty() { plan.scen.threads.push(crate::live::ThreadSpec { kind: crate::live::Kind::Block, sp_off: 0x800, pages: 2, name: None, at: None }); }
            if let Some(t) = plan.scen.threads.last_mut() { t.kind = crate::live::Kind::Block; t.at = None; }
            plan.crash = 2; plan.blame_idx = Some(plan.scen.threads.len() - 1); plan.blame_late = false; plan.skip = 0; plan.limit = None;
            plan.crash_ip = Some(crate::tl::CRASH_IP_ANON0_PLUS_128);
            plan.scen.lines.retain(|l| !l.starts_with("appmem")); plan.scen.lines.push("appmem 0 256 3840".into()); plan.napp = 1;
            out.count("shape.application_region_touching_the_crash_window");
        }
        // another fixed shape: the crash instruction pointer lies in the crash thread's own captured stack (a smashed return address):
        // the window around it and the stack are two objects of the image, each with its own bytes
        if case == 4 { plan.crash = 1; plan.blame_idx = None; plan.blame_late = false; plan.skip = 0; plan.limit = None; plan.crash_ip = Some(crate::tl::CRASH_IP_SP_PLUS_400); out.count("shape.crash_ip_inside_the_crash_stack"); }
        // names that are not ASCII: thread names and caller-supplied mapping names go through the string writer
        let fancy = ["tête", "", "ñandú-7", "日本語スレ", "😀😀", "a é", "ü", " "];   // the empty and the all-blank name are readable names too
        for (i, t) in plan.scen.threads.iter_mut().enumerate() { if rng.chance(1, 2) { t.name = Some(fancy[i % fancy.len()].as_bytes().to_vec()); } }
        if rng.chance(2, 3) { plan.user_maps.push((0x2000_0000, 0x3000, format!("/opt/démo/lib{}.so.{}", rng.pick(&["über‑café", "plain", "日本"]), rng.below(9)), (0..rng.below(24)).map(|_| rng.next() as u8).collect())); }
        // an application region whose tail lies in the unmapped page after the first anonymous mapping: the read
        // returns a prefix, and the descriptor must describe what was stored
        if case % 2 == 0 { plan.scen.lines.push(format!("appmem 0 {} {}", 3 * 4096 - *rng.pick(&[0x100u64, 1, 4095]), *rng.pick(&[0x200u64, 4096, 5000]))); plan.napp += 1; }
        // descriptors and a synthetic linker chain so that the handle and linker streams carry references
        for k in ["file", "pipe", "socket", "dir"] { if rng.chance(1, 2) { plan.scen.lines.push(format!("fd {k}")); } }
        let opts = format!("crash{} limit{} sanitize{} skip{} app{} threads{}", plan.crash, plan.limit.is_some() as u8, plan.sanitize as u8, plan.skip, plan.napp, plan.scen.threads.len());
        // one case in three: the writer has already served a request that was abandoned after an I/O error of the destination
        let fail_first = if case % 3 == 1 { out.count("history.abandoned_request_first"); Some(rng.range(4, 14) as usize) } else { None };
        match run_plan_hist(&mut rng, plan, &work, fail_first) {
            Err(e) => { out.notes.push(format!("case skipped: {e}")); }
            Ok(lv) => match &lv.image {
                Err(e) => { let mut l = Line::new("const"); l.u(1); out.case(l.s(), &format!("!dump failed: {}", e.replace('\n', " ").chars().take(200).collect::<String>()), true); }
                Ok(img) => { match abstract_image(img) {
                    Ok(l) => { out.case(l.s(), "1", true); out.count(&format!("options.{opts}")); }
                    Err(e) => { let mut l = Line::new("const"); l.u(1); out.case(l.s(), &format!("!image does not decode: {e} [{opts}]"), true); } } }
            },
        }
    }
    out.assumptions.push("the abstraction (which objects the stored offsets designate, with the lengths their own headers declare) is computed by the harness's independent decoder harness/src/md.rs".into());
    out.finish(&a.out, "live dumps under generated option combinations (crash context, size limit, sanitize, skip-unreferenced, application memory; 0..63 threads; open descriptors): the decoded image is abstracted to header / directory / object list and judged by the extracted predicate sound_b (valid header, declared number of entries, unique types, sizes implied by record counts, every referenced object inside the image with its declared length, no overlap except the two intended sharings); distinct by abstraction");
}

// ------------------------------------------------------------------ whole-image stage
fn scalars(l: &mut Line, s: &str) { let cs: Vec<u32> = s.chars().map(|c| c as u32).collect(); l.z(cs.len()); for c in cs { l.u(c as u64); } }
fn opt_bytes(l: &mut Line, b: Option<&[u8]>) { match b { Some(b) => { l.u(1).vec(b); } None => { l.u(0).u(0); } } }
fn sl<'a>(img: &'a [u8], rva: u32, size: u32) -> Result<&'a [u8], String> { img.get(rva as usize..rva as usize + size as usize).ok_or_else(|| format!("location ({rva}, {size}) outside the image of {}", img.len())) }

/// The CONTENT of a real image (what each stream says), read by the independent decoder; what the caller asked for
/// (blamed thread, crash context, application regions) comes from the harness's own configuration.
pub fn content_line(img: &[u8], blamed: i32, crash: Option<&minidump_writer::crash_context::CrashContext>, app: &[(u64, usize)]) -> Result<Line, String> {
    let d = md::Dump::parse(img)?;
    let mut l = Line::new("image");
    l.u(u32_at(img, 20)? as u64).u(blamed as u32 as u64);
    match crash { Some(c) => { l.u(1).u(c.inner.siginfo.ssi_signo as u64).u(c.inner.siginfo.ssi_code as u32 as u64).u(c.inner.siginfo.ssi_addr); } None => { l.u(0).u(0).u(0).u(0); } }
    let threads = d.threads(img)?; let ml = d.memory_list(img)?;
    l.z(threads.len());
    for t in &threads {
        l.u(t.tid as u64).u(t.stack.start);
        if t.stack.loc.size > 0 { l.u(1).u(t.stack.start).vec(sl(img, t.stack.loc.rva, t.stack.loc.size)?); } else { l.u(0).u(0).u(0); }
        // the crash thread: whatever lies between its stack (or the position recorded for its empty stack) and its context is the window
        let gap_start = t.stack.loc.rva as usize + t.stack.loc.size as usize;
        let is_crash = crash.is_some() && t.tid as i32 == blamed;
        if is_crash && (t.ctx.rva as usize) > gap_start {
            let m = ml.iter().find(|m| m.loc.rva as usize == gap_start && m.loc.size as usize == t.ctx.rva as usize - gap_start).ok_or_else(|| format!("bytes [{gap_start}, {}) before the crash thread's context are in no memory-list entry", t.ctx.rva))?;
            l.u(1).u(m.start).vec(&img[gap_start..t.ctx.rva as usize]);
        } else { l.u(0).u(0).u(0); }
        l.vec(sl(img, t.ctx.rva, t.ctx.size)?);
    }
    let mods = d.modules(img)?;
    l.z(mods.len());
    for m in &mods {
        l.u(m.base).u(m.size as u64);
        if m.cv.size >= 4 { l.vec(&sl(img, m.cv.rva, m.cv.size)?[4..]); } else { l.u(0); }
        scalars(&mut l, m.name.as_ref().map_err(|e| format!("module name: {e}"))?);
        if m.version[0] != 0 { l.u(1).u(m.version[2] as u64).u(m.version[3] as u64).u(m.version[4] as u64).u(m.version[5] as u64); } else { l.u(0).u(0).u(0).u(0).u(0); }
    }
    if ml.len() < app.len() { return Err(format!("memory list has {} entries, fewer than the {} application regions", ml.len(), app.len())); }
    l.z(app.len());
    for (i, (p, _)) in app.iter().enumerate() { let m = &ml[ml.len() - app.len() + i]; l.u(*p).vec(sl(img, m.loc.rva, m.loc.size)?); }
    let si = d.streams.get(&md::SYSTEM_INFO).ok_or("no system-information stream")?;
    let mut raw = sl(img, si.rva, si.size)?.to_vec(); if raw.len() >= 28 { for b in &mut raw[24..28] { *b = 0; } }
    l.vec(&raw);
    let sinfo = d.system_info(img)?.ok_or("no system-information stream")?;
    scalars(&mut l, sinfo.csd.as_ref().map_err(|e| format!("OS version string: {e}"))?);
    let mi = d.memory_info(img)?;
    l.z(mi.len()); for m in &mi { l.u(m.base).u(m.alloc_base).u(m.alloc_prot as u64).u(m.size).u(m.state as u64).u(m.prot as u64).u(m.typ as u64); }
    let stream = |t: u32| -> Result<Option<&[u8]>, String> { match d.stream(img, t) { None => Ok(None), Some(r) => r.map(Some) } };
    let files = [md::LINUX_CPU_INFO, md::LINUX_PROC_STATUS, md::LINUX_LSB_RELEASE, md::LINUX_CMD_LINE, md::LINUX_ENVIRON, md::LINUX_AUXV, md::LINUX_MAPS, md::MOZ_LINUX_LIMITS];
    for t in files { opt_bytes(&mut l, stream(t)?); }
    match d.dso_debug(img)? {
        Some(dd) => { l.u(1).u(dd.version as u64).u(dd.brk).u(dd.ldbase).u(dd.dynamic); l.z(dd.maps.len());
            for m in &dd.maps { l.u(m.addr); scalars(&mut l, m.name.as_ref().map_err(|e| format!("link-map name: {e}"))?); l.u(m.ld); }
            l.vec(&dd.dynamic_bytes); }
        None => {
            // the step failed: whatever it had written before failing lies between the previous stream and the next one
            let mut prev_end = 0usize;
            for t in [md::MEMORY_INFO_LIST, md::LINUX_CPU_INFO, md::LINUX_PROC_STATUS, md::LINUX_LSB_RELEASE, md::LINUX_CMD_LINE, md::LINUX_ENVIRON, md::LINUX_AUXV, md::LINUX_MAPS] { if let Some(loc) = d.streams.get(&t) { prev_end = loc.rva as usize + loc.size as usize; } }
            let next = d.streams.get(&md::MOZ_LINUX_LIMITS).or_else(|| d.streams.get(&md::THREAD_NAMES)).ok_or("no stream after the linker data")?.rva as usize;
            l.u(0).vec(img.get(prev_end..next).ok_or("linker-data gap is not a range")?);
        }
    }
    let names = d.thread_names(img)?;
    l.z(names.len()); for n in &names { l.u(n.tid as u64); scalars(&mut l, n.name.as_ref().map_err(|e| format!("thread name: {e}"))?); }
    let hs = d.handles(img)?;
    l.z(hs.len()); for h in &hs { l.u(h.handle); scalars(&mut l, h.object_name.as_ref().map_err(|e| format!("handle name: {e}"))?); l.u(h.attributes as u64); }
    opt_bytes(&mut l, stream(md::MOZ_SOFT_ERRORS)?);
    Ok(l)
}

/// Whole image, byte for byte: the image must equal what the layout model (Image.v, driven by the stream plan regenerated
/// from the source) builds from the image's own content.
pub fn run_image(a: &Args) {
    let mut rng = Rng::new(a.seed ^ 0x1a6e);
    let mut out = Out::new();
    let work = format!("{}/tmp", a.out);
    for case in 0..a.n {
        let focus = ["c04", "c05", "c06", "c07", "c20", "c12"][(case % 6) as usize];
        let mut plan = gen_plan(&mut rng, focus, "quick", case + 1);
        if plan.crash == 3 { plan.crash = 1; }
        // modest images: the model handles any size, the token files should stay small
        for t in plan.scen.threads.iter_mut() { t.pages = t.pages.min(3); }
        if plan.scen.threads.len() > 30 { plan.scen.threads.truncate(30); }
        plan.scen.lines.retain(|l| !l.starts_with("anon 320") && !l.starts_with("appmem 3"));
        plan.napp = plan.scen.lines.iter().filter(|l| l.starts_with("appmem")).count();
        let fancy = ["tête", "", "ñandú-7", "日本語スレ", "😀😀", "a é", "ü", " "];
        for (i, t) in plan.scen.threads.iter_mut().enumerate() { match rng.below(4) { 0 => t.name = Some(fancy[i % fancy.len()].as_bytes().to_vec()), 1 => t.name = None, _ => {} } }
        if rng.chance(2, 3) { plan.user_maps.push((0x2000_0000, 0x3000, format!("/opt/démo/lib{}.so.{}", rng.pick(&["über‑café", "plain", "日本"]), rng.below(9)), (0..rng.below(24)).map(|_| rng.next() as u8).collect())); }
        if rng.chance(1, 3) { plan.user_maps.push((0x3000_0000, 0x1000, "noid".into(), vec![])); }
        if case % 3 == 0 { plan.user_maps.push((0x3800_0000, 0x2000, "/opt/sha256/libwide.so".into(), (0..32).map(|_| rng.next() as u8).collect())); }   // a 32-byte identifier
        if case % 2 == 0 { plan.scen.lines.push(format!("appmem 0 {} {}", 3 * 4096 - *rng.pick(&[0x100u64, 1, 4095]), *rng.pick(&[0x200u64, 4096, 5000]))); plan.napp += 1; }
        for k in ["file", "pipe", "socket", "dir"] { if rng.chance(1, 2) { plan.scen.lines.push(format!("fd {k}")); } }
        let opts = format!("crash{} limit{} sanitize{} skip{} app{} threads{}", plan.crash, plan.limit.is_some() as u8, plan.sanitize as u8, plan.skip, plan.napp, plan.scen.threads.len());
        // one case in three: the writer has already served a request that was abandoned after an I/O error of the destination
        let fail_first = if case % 3 == 1 { out.count("history.abandoned_request_first"); Some(rng.range(4, 14) as usize) } else { None };
        match run_plan_hist(&mut rng, plan, &work, fail_first) {
            Err(e) => { out.notes.push(format!("case skipped: {e}")); }
            Ok(lv) => match &lv.image {
                Err(e) => { out.count("dump.failed"); out.notes.push(format!("dump failed (no image to compare): {}", e.chars().take(120).collect::<String>())); }
                Ok(img) => match content_line(img, lv.blamed, lv.crash.as_ref(), &lv.app) {
                    Ok(l) => { let mut r = Line::bare(); r.u(1).bytes(img); out.case(l.s(), r.s(), true); out.count(&format!("options.{opts}"));
                        // the same image judged by the property predicate itself (so that a layout difference comes with a verdict)
                        match abstract_image(img) { Ok(al) => out.case(al.s(), "1", true), Err(e) => { let mut l = Line::new("const"); l.u(1); out.case(l.s(), &format!("!image does not decode: {e} [{opts}]"), true); } } out.count(&format!("image.kib.{}", match img.len() / 1024 { 0..=63 => "<64", 64..=255 => "64-255", _ => ">=256" })); }
                    Err(e) => { let mut l = Line::new("const"); l.u(1); out.case(l.s(), &format!("!image content does not decode: {e} [{opts}]"), true); } },
            },
        }
    }
    out.assumptions.push("the content handed to the layout model (thread ids, stack/context/region bytes, names, identifiers, file copies) is read from the real image by the harness's independent decoder; the requested options (blamed thread, crash signal, application addresses) come from the harness's own configuration".into());
    out.finish(&a.out, "live dumps under generated option combinations: the real image must equal, byte for byte, the image the layout model builds from the same content in the order of the stream plan regenerated from the source (header, directory patches, every stream header / array / blob position, every stored offset); distinct by content");
}
