(* Laws of the auxiliary-vector resolution (Auxv.v). *)
From Coq Require Import List NArith Arith Bool Lia.
From MDW Require Import Bytes Auxv.
Import ListNotations.
Local Open Scope N_scope.

(* what the caller supplied always wins, whatever the file says *)
Theorem supplied_wins dn dp dg de file :
  (dn <> 0 -> r_phnum (resolve dn dp dg de file) = Some dn) /\ (dp <> 0 -> r_phdr (resolve dn dp dg de file) = Some dp) /\
  (dg <> 0 -> r_gate (resolve dn dp dg de file) = Some dg) /\ (de <> 0 -> r_entry (resolve dn dp dg de file) = Some de).
Proof.
  unfold resolve, supplied.
  destruct (dn =? 0) eqn:E1, (dp =? 0) eqn:E2, (dg =? 0) eqn:E3, (de =? 0) eqn:E4; destruct file as [b|]; try destruct (parse b) as (ps, eof);
    cbn [r_phnum r_phdr r_gate r_entry pick]; repeat split; intro H; try reflexivity;
    try (apply N.eqb_eq in E1; contradiction); try (apply N.eqb_eq in E2; contradiction); try (apply N.eqb_eq in E3; contradiction); try (apply N.eqb_eq in E4; contradiction).
Qed.

(* a key the caller did not supply takes the value of its FIRST occurrence in the file: later occurrences do not matter *)
Theorem first_occurrence key v ps ps' : (forall p, In p ps -> fst p <> key) -> first_of key (ps ++ (key, v) :: ps') = Some v.
Proof.
  intro H. unfold first_of. induction ps as [|p r IH]; cbn [app find].
  - cbn [fst]. now rewrite N.eqb_refl.
  - destruct (fst p =? key) eqn:E; [apply N.eqb_eq in E; exfalso; apply (H p); [now left|exact E]|]. apply IH. intros q Hq. apply H. now right.
Qed.

(* nothing behind AT_NULL is read *)
Theorem null_ends_the_vector fuel (a rest rest' : bytes) :
  length a = 16%nat -> unle (firstn 8 a) = AT_NULL ->
  parse_pairs fuel (a ++ rest) = ([], match fuel with O => true | S _ => false end) /\
  parse_pairs fuel (a ++ rest) = parse_pairs fuel (a ++ rest').
Proof.
  intros La Hk.
  assert (H : forall r, parse_pairs fuel (a ++ r) = ([], match fuel with O => true | S _ => false end)).
  { intro r. destruct fuel as [|f]; [reflexivity|]. cbn [parse_pairs].
    replace (length (a ++ r) <? 16)%nat with false by (symmetry; apply Nat.ltb_ge; rewrite app_length; lia).
    assert (Hf : firstn 8 (a ++ r) = firstn 8 a) by (rewrite firstn_app, La; cbn [Nat.sub firstn]; apply app_nil_r).
    rewrite Hf, Hk. reflexivity. }
  split; [apply H|now rewrite !H].
Qed.
Print Assumptions supplied_wins.
