From Coq Require Import List NArith ZArith Arith Lia Bool.
Import ListNotations.
Open Scope N_scope.

Record smap := { s_start : N; s_size : N; s_sys_start : N; s_sys_end : N; s_rw : bool (* READ|WRITE intersect *) }.

Definition W64 : N := 2 ^ 64.
Definition PAGE : N := 4096.
Definition GUARD : N := 1024 * 1024.

Definition find_mapping (ms : list smap) (a : N) : option smap :=
  find (fun m => (s_start m <=? a) && (a - s_start m <? s_size m)) ms.
Definition may_be_stack (o : option smap) : bool := match o with Some m => s_rw m | None => false end.
Definition contains_sys (m : smap) (a : N) : bool := (s_sys_start m <=? a) && (a <? s_sys_end m).

Inductive outcome (A : Type) := Ok (a : A) | Err | Panic | Hang.
Arguments Ok {A} _. Arguments Err {A}. Arguments Panic {A}. Arguments Hang {A}.

(* profile: how `stack_pointer += page_size` behaves at 2^64 *)
Inductive profile := Debug (* trap *) | Release (* wrap *) | Checked (* stop at the top of the address space *)
  | Strict (* repaired code: stop at the top, and give up with no mapping when the search ends on a non-stack mapping *).

Fixpoint walk (p : profile) (ms : list smap) (guard : N) (fuel : nat) (sp : N) : outcome (option smap * N) :=
  let m := find_mapping ms sp in
  if may_be_stack m then Ok (m, sp)
  else if negb (sp <=? guard) then Ok (match p with Strict => None | _ => m end, sp)
  else match fuel with
       | O => Hang
       | S f =>
           let sp' := sp + PAGE in
           if W64 <=? sp' then
             match p with
             | Debug => Panic
             | Release => walk p ms guard f (sp' - W64)
             | Checked | Strict => Ok (None, sp)
             end
           else walk p ms guard f sp'
       end.

Definition get_stack_info (p : profile) (fuel : nat) (ms : list smap) (sp0 : N) : outcome (N * N) :=
  let sp := sp0 - sp0 mod PAGE in
  let guard := N.min (sp + GUARD) (W64 - 1) in      (* saturating_add *)
  match walk p ms guard fuel sp with
  | Ok (Some m, sp') =>
      let v := if contains_sys m sp' then sp' else s_start m in
      Ok (v, s_size m - (v - s_start m))
  | Ok (None, _) => Err
  | Err => Err | Panic => Panic | Hang => Hang
  end.

Definition FUEL : nat := 258.
