(* C18 / C02 model: the whole linker-debug stream writer (src/linux/dso_debug.rs) over a memory oracle,
   as repaired: checked table size, exact-length reads, wrapping base arithmetic, bounded loops.
   Definitions only (the link_map walk and its proofs are in DsoDebug.v). *)
From Coq Require Import List NArith Arith Bool.
From MDW Require Import Bytes DsoDebug.
Import ListNotations.
Local Open Scope N_scope.

Definition W64 : N := 2 ^ 64.
Definition MAX_TABLE : N := 2 ^ 24.        (* model limit: no modelled target has a larger readable table *)
Definition MAX_DYN : nat := 4096.          (* the repaired code gives up after this many dynamic entries *)

Definition exact (m : mem) (a : N) (n : nat) : option bytes :=
  match copy m a n with Some b => if (length b =? n)%nat then Some b else None | None => None end.

Record phdr := { p_type : N; p_offset : N; p_vaddr : N }.
Fixpoint parse_phdrs (b : bytes) (n : nat) (off : nat) : list phdr :=
  match n with
  | O => []
  | S k => {| p_type := unle (slice b off 4); p_offset := unle (slice b (off + 8) 8); p_vaddr := unle (slice b (off + 16) 8) |}
           :: parse_phdrs b k (off + 56)
  end.

Definition scan_phdrs (phdr_addr : N) (phs : list phdr) : N * N :=   (* base, dyn_addr *)
  fold_left (fun '(base, dyn) p =>
               let base' := if (p_type p =? 1) && (p_offset p =? 0) then (base + W64 - p_vaddr p mod W64) mod W64 else base in
               let dyn' := if p_type p =? 2 then p_vaddr p else dyn in
               (base', dyn'))
            phs (phdr_addr - phdr_addr mod 4096, 0).

(* the dynamic section: entries of 16 bytes until DT_NULL; returns (r_debug, length in bytes including DT_NULL) *)
Fixpoint scan_dyn (m : mem) (fuel : nat) (addr : N) (rdebug : N) (len : N) : res (N * N) :=
  match fuel with
  | O => Err
  | S f =>
      if W64 <=? addr + len then Err
      else match exact m (addr + len) 16 with
           | None => Err
           | Some b =>
               let tag := unle (slice b 0 8) in let val := unle (slice b 8 8) in
               if tag =? 0 then Ok (rdebug, len + 16)
               else scan_dyn m f addr (if tag =? 21 then val else rdebug) (len + 16)
           end
  end.

Inductive name_res := NameOk (b : bytes) | NameErr | NameUnspec.
Definition read_name (m : mem) (a : N) : name_res :=
  if a =? 0 then NameOk []
  else match copy m a 256 with
       | None => NameErr
       | Some b =>
           let nm := (fix upto (l : bytes) : bytes := match l with [] => [] | x :: t => if x =? 0 then [] else x :: upto t end) b in
           if forallb (fun x => x <? 128) nm then NameOk nm else NameUnspec
       end.

Record dso_out := { d_version : N; d_brk : N; d_ldbase : N; d_dynamic : N; d_dynlen : N;
                    d_entries : list (N * bytes * N) }.   (* addr, name, ld *)
Inductive dres := DOk (o : dso_out) | DErr | DUnspec.

Fixpoint names (m : mem) (lms : list link_map) : option (option (list (N * bytes * N))) :=   (* None = Err, Some None = Unspec *)
  match lms with
  | [] => Some (Some [])
  | lm :: t =>
      match read_name m (l_name lm), names m t with
      | NameErr, _ => None
      | _, None => None
      | NameUnspec, _ => Some None
      | _, Some None => Some None
      | NameOk nm, Some (Some r) => Some (Some ((l_addr lm, nm, l_ld lm) :: r))
      end
  end.

Definition dso_stream (m : mem) (phdr_addr phnum : N) : dres :=
  let size := 56 * phnum in
  if (W64 <=? size) || (MAX_TABLE <? size) then DErr
  else match exact m phdr_addr (N.to_nat size) with
  | None => DErr
  | Some ph =>
      let '(base, dyn0) := scan_phdrs phdr_addr (parse_phdrs ph (N.to_nat phnum) 0) in
      if dyn0 =? 0 then DErr
      else
        let dyn_addr := (dyn0 + base) mod W64 in
        match scan_dyn m MAX_DYN dyn_addr 0 0 with
        | Ok (rdebug, dynlen) =>
            match exact m rdebug 40 with
            | None => DErr
            | Some rd =>
                match walk_fixed m (unle (slice rd 8 8)) with
                | Ok lms =>
                    match names m lms with
                    | None => DErr
                    | Some None => DUnspec
                    | Some (Some es) =>
                        match exact m dyn_addr (N.to_nat dynlen) with
                        | None => DErr
                        | Some _ =>
                            DOk {| d_version := unle (slice rd 0 4); d_brk := unle (slice rd 16 8); d_ldbase := unle (slice rd 32 8);
                                   d_dynamic := dyn_addr; d_dynlen := dynlen; d_entries := es |}
                        end
                    end
                | _ => DErr
                end
            end
        | _ => DErr
        end
  end.
