From Coq Require Import List NArith Arith Lia Bool.
From MDW Require Import Bytes DirSection.
Import ListNotations.
Open Scope nat_scope.

(* ---- list facts ---- *)
Lemma pad_length b n : length (pad b n) = Nat.max (length b) n.
Proof. unfold pad. rewrite app_length, repeat_length. lia. Qed.
Lemma pad_id b n : (n <= length b)%nat -> pad b n = b.
Proof. intro H. unfold pad. replace (n - length b)%nat with 0%nat by lia. cbn. now rewrite app_nil_r. Qed.

(* writing [v] at the end of the valid region appends/overwrites exactly there *)
Lemma dwrite_at d pre old v :
  d_bytes d = pre ++ old -> d_pos d = length pre ->
  d_bytes (dwrite d v) = pre ++ v ++ skipn (length v) old /\ d_pos (dwrite d v) = (length pre + length v)%nat.
Proof.
  intros Hb Hp. destruct v as [|x v].
  - cbn [dwrite length app skipn]. rewrite Hb, Hp. split; [reflexivity|lia].
  - unfold dwrite; cbn [d_bytes d_pos]. rewrite Hb, Hp.
    rewrite pad_id by (rewrite app_length; lia). split; [apply update_app_r|reflexivity].
Qed.

(* ---- C09 invariant (grammar used by the writer: the directory is flushed before any entry) ---- *)
(* destination = pre ++ (first [last] bytes of the image) ++ (what was there before, beyond them) *)
Record Inv (pre post : bytes) (buf : bytes) (s : dirsec) (d : dest) : Prop := {
  i_last : ds_last s <= length buf;
  i_bytes : d_bytes d = pre ++ firstn (ds_last s) buf ++ skipn (ds_last s) post;
  i_pos : d_pos d = length pre + ds_last s;
  i_start : ds_start s = length pre;
}.

(* a flush re-establishes the invariant with last = |image| : the destination holds the whole image *)
Lemma flush_inv pre post buf s d :
  Inv pre post buf s d ->
  Inv pre post buf (set_last s (length buf)) (dwrite d (skipn (ds_last s) buf)).
Proof.
  intros [Hl Hb Hp Hs].
  assert (E : d_bytes d = (pre ++ firstn (ds_last s) buf) ++ skipn (ds_last s) post)
    by (rewrite Hb; now rewrite app_assoc).
  destruct (dwrite_at d _ _ (skipn (ds_last s) buf) E) as (Hb' & Hp').
  { rewrite app_length, firstn_length, Nat.min_l by lia. exact Hp. }
  constructor; cbn [set_last ds_last ds_start].
  - lia.
  - rewrite Hb'. rewrite firstn_all. rewrite <- app_assoc. f_equal.
    rewrite app_assoc. rewrite firstn_skipn. f_equal.
    rewrite skipn_add, skipn_length. f_equal. lia.
  - rewrite Hp'. rewrite app_length, firstn_length, skipn_length, Nat.min_l by lia. lia.
  - exact Hs.
Qed.

(* growth of the image does not disturb it *)
Lemma grow_inv pre post buf s d bs : Inv pre post buf s d -> Inv pre post (buf ++ bs) s d.
Proof.
  intros [Hl Hb Hp Hs]. constructor; try assumption.
  - rewrite app_length; lia.
  - rewrite Hb. f_equal. f_equal. rewrite firstn_app. replace (ds_last s - length buf) with 0 by lia.
    cbn [firstn]. now rewrite app_nil_r.
Qed.

(* ---- list facts about update ---- *)
Lemma firstn_update (b v : bytes) o n : o + length v <= n -> n <= length b ->
  firstn n (update b o v) = update (firstn n b) o v.
Proof.
  intros H Hn. unfold update.
  rewrite firstn_app, firstn_length, Nat.min_l by lia.
  rewrite firstn_firstn, Nat.min_r by lia.
  rewrite firstn_app. replace (n - o - length v) with (n - (o + length v)) by lia.
  rewrite (firstn_all2 v) by lia.
  rewrite firstn_firstn, Nat.min_l by lia. f_equal. f_equal.
  (* firstn (n - (o+|v|)) (skipn (o+|v|) b) = skipn (o+|v|) (firstn n b) *)
  rewrite skipn_firstn_comm. reflexivity.
Qed.

Lemma entry_inv pre post buf s d e :
  Inv pre post buf s d -> length e = 12 -> ds_sec s + 12 * ds_idx s + 12 <= ds_last s ->
  let '(buf', s', d') := dump_dir_entry buf s d e in
  Inv pre post buf' s' d' /\ ds_last s' = ds_last s /\ length buf' = length buf.
Proof.
  intros [Hl Hb Hp Hs] He Hin. unfold dump_dir_entry.
  set (off := ds_sec s + 12 * ds_idx s) in *.
  assert (Hlen : length (update buf off e) = length buf) by (apply update_length; lia).
  split; [|split; [reflexivity|exact Hlen]].
  assert (Hsl : slice (update buf off e) off 12 = e) by (pose proof (slice_update_same buf off e) as Hx; rewrite He in Hx; apply Hx; lia).
  rewrite Hsl. destruct e as [|x0 e0] eqn:Ee; [discriminate He|]. rewrite <- Ee in *. clear Hsl.
  assert (Hdw : forall d0, dwrite d0 e = {| d_bytes := update (pad (d_bytes d0) (d_pos d0)) (d_pos d0) e; d_pos := d_pos d0 + length e |})
    by (intro d0; rewrite Ee; reflexivity).
  rewrite Hdw.
  constructor; cbn [ds_last ds_start d_pos d_bytes dseek].
  - rewrite Hlen. exact Hl.
  - rewrite Hs. rewrite pad_id.
    2:{ rewrite Hb, !app_length, firstn_length, Nat.min_l by lia. lia. }
    rewrite Hb. rewrite update_app_l. f_equal.
    rewrite update_app_in by (rewrite firstn_length, Nat.min_l by lia; lia). f_equal.
    symmetry. apply firstn_update; lia.
  - exact Hp.
  - exact Hs.
Qed.

(* ---- C09 for one write_to_file call, fixed order and original order alike ---- *)
Theorem write_to_file_inv ef pre post buf s d e :
  Inv pre post buf s d ->
  (forall x, e = Some x -> length x = 12 /\ ds_sec s + 12 * ds_idx s + 12 <= ds_last s) ->
  let '(buf', s', d') := write_to_file ef buf s d e in
  Inv pre post buf' s' d' /\ ds_last s' = length buf' /\
  d_bytes d' = pre ++ buf' ++ skipn (length buf') post.
Proof.
  intros HI He. unfold write_to_file. destruct e as [x|].
  - destruct (He x eq_refl) as (Hx & Hin). destruct ef.
    + (* entry first *)
      pose proof (entry_inv pre post buf s d x HI Hx Hin) as H.
      destruct (dump_dir_entry buf s d x) as ((buf1, s1), d1). destruct H as (HI1 & Hl1 & Hlen1).
      unfold flush. pose proof (flush_inv _ _ _ _ _ HI1) as HI2. split; [exact HI2|]. split; [reflexivity|].
      destruct HI2 as [_ Hb2 _ _]. cbn [set_last ds_last] in Hb2. now rewrite firstn_all in Hb2.
    + (* data first *)
      unfold flush. pose proof (flush_inv _ _ _ _ _ HI) as HI1.
      assert (Hin1 : ds_sec (set_last s (length buf)) + 12 * ds_idx (set_last s (length buf)) + 12
                     <= ds_last (set_last s (length buf))).
      { cbn [set_last ds_sec ds_idx ds_last]. destruct HI; lia. }
      pose proof (entry_inv pre post buf _ _ x HI1 Hx Hin1) as H.
      destruct (dump_dir_entry buf (set_last s (length buf)) _ x) as ((buf2, s2), d2).
      destruct H as (HI2 & Hl2 & Hlen2). split; [exact HI2|]. cbn [set_last ds_last] in Hl2.
      split; [congruence|].
      destruct HI2 as [_ Hb2 _ _]. rewrite Hl2, <- Hlen2, firstn_all in Hb2. now rewrite Hlen2 in Hb2 |- *.
  - unfold flush. pose proof (flush_inv _ _ _ _ _ HI) as HI1. split; [exact HI1|]. split; [reflexivity|].
    destruct HI1 as [_ Hb1 _ _]. cbn [set_last ds_last] in Hb1. now rewrite firstn_all in Hb1.
Qed.
Print Assumptions write_to_file_inv.
