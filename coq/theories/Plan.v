(* The stream plan of generate_dump, regenerated from the source (Generated.stream_plan): vocabulary shared by the whole-image
   model (Image.v) and the plan theorems (PlanProofs.v).  Definitions only, so that the model still builds and runs when a
   theorem about the regenerated plan breaks. *)
From Coq Require Import List NArith Arith Bool.
From MDW Require Import GenTypes Generated.
Import ListNotations.
Local Open Scope N_scope.

(* stream type written by each step (None: the step writes no directory entry) *)
Definition stream_type (s : step) : option N :=
  match s with
  | St_thread_list_stream => Some 3 | St_mappings => Some 4 | St_app_memory => None | St_memory_list_stream => Some 5
  | St_exception_stream => Some 6 | St_systeminfo_stream => Some 7 | St_memory_info_list_stream => Some 16
  | St_file_proc_cpuinfo => Some 0x47670003 | St_file_proc_pid_status => Some 0x47670004 | St_file_etc_lsb_release => Some 0x47670005
  | St_file_proc_pid_cmdline => Some 0x47670006 | St_file_proc_pid_environ => Some 0x47670007 | St_file_proc_pid_auxv => Some 0x47670008
  | St_file_proc_pid_maps => Some 0x47670009 | St_dso_debug => Some 0x4767000A | St_file_proc_pid_limits => Some 0x4d7a0003
  | St_thread_names_stream => Some 24 | St_handle_data_stream => Some 12 | St_resume_threads => None | St_soft_errors => Some 0x4d7a0004
  end.
Definition plan_types : list N := flat_map (fun '(s, _) => match stream_type s with Some t => [t] | None => [] end) stream_plan.

Fixpoint nodup_b (l : list N) : bool := match l with [] => true | x :: t => negb (existsb (N.eqb x) t) && nodup_b t end.

(* C11: exactly the /proc and release file copies, the linker debug data and the open-file list are
   best-effort steps of the plan (the other best-effort steps - stopping the process, auxv completion, thread
   names, attaching, CPU information - report through sub-lists inside hard steps); every stream that
   carries target state proper is a hard step; target memory is read only before resume_threads *)
Definition expected_soft : list step :=
  [St_file_proc_cpuinfo; St_file_proc_pid_status; St_file_etc_lsb_release; St_file_proc_pid_cmdline; St_file_proc_pid_environ;
   St_file_proc_pid_auxv; St_file_proc_pid_maps; St_dso_debug; St_file_proc_pid_limits; St_handle_data_stream].
Definition step_eqb (a b : step) : bool :=
  match a, b with
  | St_thread_list_stream, St_thread_list_stream | St_mappings, St_mappings | St_app_memory, St_app_memory
  | St_memory_list_stream, St_memory_list_stream | St_exception_stream, St_exception_stream | St_systeminfo_stream, St_systeminfo_stream
  | St_memory_info_list_stream, St_memory_info_list_stream | St_file_proc_cpuinfo, St_file_proc_cpuinfo
  | St_file_proc_pid_status, St_file_proc_pid_status | St_file_etc_lsb_release, St_file_etc_lsb_release
  | St_file_proc_pid_cmdline, St_file_proc_pid_cmdline | St_file_proc_pid_environ, St_file_proc_pid_environ
  | St_file_proc_pid_auxv, St_file_proc_pid_auxv | St_file_proc_pid_maps, St_file_proc_pid_maps | St_dso_debug, St_dso_debug
  | St_file_proc_pid_limits, St_file_proc_pid_limits | St_thread_names_stream, St_thread_names_stream
  | St_handle_data_stream, St_handle_data_stream | St_resume_threads, St_resume_threads | St_soft_errors, St_soft_errors => true
  | _, _ => false
  end.
(* every step that reads target memory or registers precedes resume_threads; only the soft-error stream follows *)
Fixpoint after {A} (f : A -> bool) (l : list A) : list A := match l with [] => [] | x :: t => if f x then t else after f t end.
