(* C08 model: the module list as a function of the dumper's mappings, what ELF identification finds for
   each mapped file, and the caller-supplied mappings.  Names are lists of Unicode scalar values. *)
From Coq Require Import List NArith Arith Bool.
From MDW Require Import Bytes Maps EffPath SoVersion ThreadList.
Import ListNotations.
Local Open Scope N_scope.

Definition m_is_exec (m : minfo) : bool := N.testbit (m_perms m) 2.
Definition interesting (m : minfo) : bool :=
  match m_name m with Some _ => true | None => false end
  && ((m_off m =? 0) || m_is_exec m) && (4096 <=? m_size m).
Definition contained (m : minfo) (users : list (N * N)) : bool :=
  existsb (fun '(us, usz) => (us <=? m_start m) && (m_start m + m_size m <=? us + usz)) users.
Definition usable_id (id : bytes) : bool := negb (forallb (N.eqb 0) id).    (* non-empty and not all zero *)

(* what identification finds for the image mapped from file [ei_name] at file offset [ei_off] (one file can hold
   several images, e.g. libraries embedded in an archive): build id (None = none found), SONAME *)
Record elfinfo := { ei_name : list N; ei_off : N; ei_id : option bytes; ei_soname : option (list N) }.
Definition lookup (tbl : list elfinfo) (nm : list N) (off : N) : option elfinfo :=
  find (fun e => EffPath.beq (ei_name e) nm && (ei_off e =? off)) tbl.

(* md_mapname: the mapping's own name, from which the version numbers are parsed *)
Record module := { md_base : N; md_size : N; md_id : bytes; md_name : EffPath.res (list N); md_mapname : list N }.

Definition file_name_of (p : list N) : list N := snd (last_slash_split p [] []).

Definition module_of (m : minfo) (id : bytes) (soname : option (list N)) : module :=
  let nm := match m_name m with Some n => n | None => [] end in
  {| md_base := m_start m; md_size := m_size m mod 2 ^ 32; md_id := id;
     md_name := match soname with
                | None => EffPath.Ok nm
                | Some so => effective_path nm so (m_is_exec m) (m_off m)
                end;
     md_mapname := nm |}.

Definition target_modules (ms : list minfo) (tbl : list elfinfo) (users : list (N * N)) : list module :=
  flat_map (fun m =>
    if interesting m && negb (contained m users) then
      match m_name m with
      | Some nm => match lookup tbl nm (m_off m) with
                   | Some e => match ei_id e with
                               | Some id => if usable_id id then [module_of m id (ei_soname e)] else []
                               | None => []
                               end
                   | None => []
                   end
      | None => []
      end
    else []) ms.

(* caller-supplied mappings: listed verbatim (start, size, name, identifier) after the target's *)
Record usermap := { um_start : N; um_size : N; um_name : list N; um_id : bytes }.
Definition user_module (u : usermap) : module :=
  {| md_base := um_start u; md_size := um_size u mod 2 ^ 32; md_id := um_id u; md_name := EffPath.Ok (um_name u);
     md_mapname := um_name u |}.
Definition module_list (ms : list minfo) (tbl : list elfinfo) (users : list usermap) : list module :=
  target_modules ms tbl (map (fun u => (um_start u, um_size u)) users) ++ map user_module users.
