(* The stream plan of generate_dump, regenerated from the source (Generated.stream_plan), against the
   property texts of C01 (declared number of directory entries, unique stream types) and C11 (which steps
   are best-effort). *)
From Coq Require Import List NArith Arith Bool.
From MDW Require Import GenTypes Generated.
From MDW Require Export Plan.
Import ListNotations.
Local Open Scope N_scope.

(* C01: the plan writes exactly the declared number of directory entries, all of distinct types *)
Theorem plan_entry_count : N.of_nat (length plan_types) = NUM_WRITERS /\ NUM_WRITERS = 18.
Proof. split; reflexivity. Qed.
Theorem plan_types_unique : nodup_b plan_types = true.
Proof. reflexivity. Qed.

(* C11: exactly the /proc and release file copies, the linker debug data and the open-file list are best-effort steps of the
   plan (the other best-effort steps - stopping the process, auxv completion, thread names, attaching, CPU information - report
   through sub-lists inside hard steps); every stream that carries target state proper is a hard step *)
Theorem plan_soft_steps :
  forallb (fun '(s, soft) => Bool.eqb soft (existsb (step_eqb s) expected_soft)) stream_plan = true.
Proof. reflexivity. Qed.

(* every step that reads target memory or registers precedes resume_threads; only the soft-error stream follows *)
Theorem plan_only_soft_errors_after_resume :
  map fst (after (fun '(s, _) => step_eqb s St_resume_threads) stream_plan) = [St_soft_errors].
Proof. reflexivity. Qed.

