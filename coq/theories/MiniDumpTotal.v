(* C02 for the composed builder: the reduced whole dump on the writer monad (real write_at semantics: a write whose
   offset lies beyond the end of the buffer traps) never takes the Panic outcome - for every world, configuration,
   carried state, thread count and image size (positions wrap at 2^32 exactly as the stored u32 does). *)
From Coq Require Import List NArith ZArith Arith Lia Bool ZifyNat ZifyN ZifyBool.
From MDW Require Import Bytes MemWriter Writer Hoare MiniDump MiniDumpProofs.
Import ListNotations.
Open Scope nat_scope.

Lemma alloc_np k v s : w_alloc k v s <> Panic. Proof. discriminate. Qed.
Lemma ref_np k l s : w_ref k l s <> Panic. Proof. discriminate. Qed.
Lemma patch_np off v s : off <= blen s -> w_patch off v s <> Panic.
Proof.
  intro H. unfold w_patch, write_at. unfold blen in H.
  destruct (length (w_buf s) <? off) eqn:E; [apply Nat.ltb_lt in E; lia|]. discriminate.
Qed.

Lemma fill_stack_np w sp blocks s : fill_stack w sp blocks s <> Panic.
Proof.
  unfold fill_stack, bind, w_pos. destruct (wd_stack w sp) as [[v bs]|]; cbn; discriminate.
Qed.

Lemma thread_core_np w base idx tid blocks sp ctxb (k : loc -> list memdesc -> list memdesc * crashctx) s0 :
  Inv s0 -> base + THREAD_SZ * (idx + 1) <= blen s0 ->
  (r <- fill_stack w sp blocks ;; let '(d, blocks') := r in
   c <- w_alloc KContext ctxb ;; w_ref KContext c ;;;
   w_patch (base + THREAD_SZ * idx) (enc_thread tid d c) ;;; ret (k c blocks')) s0 <> Panic.
Proof.
  intros HI0 Hb0. unfold bind at 1.
  destruct (fill_stack w sp blocks s0) as [[[d blocks'] s1]| |] eqn:E0; [|discriminate|exfalso; now apply (fill_stack_np w sp blocks s0)].
  destruct (fill_stack_ok _ _ _ _ _ _ HI0 E0) as (HI1 & Hl1).
  unfold bind at 1. destruct (w_alloc KContext ctxb s1) as [[c s2]| |] eqn:E1; [|discriminate|discriminate].
  unfold bind at 1. destruct (w_ref KContext c s2) as [[u s3]| |] eqn:E2; [|discriminate|discriminate].
  destruct (alloc_ref_ok _ _ _ _ _ _ HI1 _ E1 E2) as (HI3 & Hl3).
  unfold bind at 1. destruct (w_patch (base + THREAD_SZ * idx) (enc_thread tid d c) s3) as [[u2 s4]| |] eqn:E3; [discriminate|discriminate|].
  exfalso. apply (patch_np (base + THREAD_SZ * idx) (enc_thread tid d c) s3); [lia|exact E3].
Qed.

Lemma write_thread_np w cfg base idx t st s :
  Inv s -> base + THREAD_SZ * (idx + 1) <= blen s -> write_thread w cfg base idx t st s <> Panic.
Proof.
  intros HI Hb. unfold write_thread. destruct st as (blocks, cc).
  destruct (cf_crash cfg) as [cr|].
  - destruct (N.eqb (tw_tid t) (cf_blamed cfg)).
    + now apply (thread_core_np w base idx (tw_tid t) blocks (cr_sp cr) (cr_ctx cr) (fun c b => (b, CCtx c))).
    + now apply (thread_core_np w base idx (tw_tid t) blocks (tw_sp t) (tw_ctx t) (fun c b => (b, cc))).
  - now apply (thread_core_np w base idx (tw_tid t) blocks (tw_sp t) (tw_ctx t)
                 (fun c b => (b, if N.eqb (tw_tid t) (cf_blamed cfg) then CCtxAddr c (tw_ip t) else cc))).
Qed.

Lemma write_threads_np w cfg base ts : forall idx st s,
  Inv s -> base + THREAD_SZ * (idx + length ts) <= blen s -> write_threads w cfg base idx ts st s <> Panic.
Proof.
  induction ts as [|t rest IH]; intros idx st s HI Hb; cbn [write_threads]; [discriminate|].
  cbn [length] in Hb. unfold bind.
  destruct (write_thread w cfg base idx t st s) as [[p s1]| |] eqn:E0; [|discriminate|exfalso; apply (write_thread_np w cfg base idx t st s); [exact HI|lia|exact E0]].
  destruct (write_thread_ok w cfg base idx t st s p s1 HI) as (HI1 & Hl1); [lia|exact E0|].
  apply IH; [exact HI1|lia].
Qed.

Lemma thread_list_np w cfg st s : Inv s -> thread_list w cfg st s <> Panic.
Proof.
  intro HI. unfold thread_list.
  unfold bind at 1. destruct (w_alloc (KStreamHdr T_THREADS) (le 4 (N.of_nat (length (wd_threads w)))) s) as [[h s1]| |] eqn:E0; [|discriminate|discriminate].
  unfold bind at 1. destruct (w_alloc (KArray T_THREADS) (repeat 0%N (THREAD_SZ * length (wd_threads w))) s1) as [[a s2]| |] eqn:E1; [|discriminate|discriminate].
  destruct (alloc_ok _ _ _ _ _ HI E0) as (HI1 & Hl1 & _ & _ & -> & _).
  destruct (alloc_ok _ _ _ _ _ HI1 E1) as (HI2 & Hl2 & _ & _ & -> & _).
  rewrite repeat_length in Hl2. cbn [l_rva].
  unfold bind at 1.
  destruct (write_threads w cfg (N.to_nat (u32 (blen s1))) 0 (wd_threads w) st s2) as [[p s3]| |] eqn:E2; [discriminate|discriminate|].
  exfalso. apply (write_threads_np w cfg (N.to_nat (u32 (blen s1))) (wd_threads w) 0 st s2 HI2); [|exact E2].
  pose proof (u32_le (blen s1)). lia.
Qed.

Lemma app_memory_np w regions : forall blocks s, Inv s -> app_memory w regions blocks s <> Panic.
Proof.
  induction regions as [|[p n] rest IH]; intros blocks s HI; cbn [app_memory]; [discriminate|].
  destruct (wd_read w p n) as [bs|]; [|discriminate].
  unfold bind at 1. destruct (w_alloc KAppMem bs s) as [[l s1]| |] eqn:E0; [|discriminate|discriminate].
  unfold bind at 1. destruct (w_ref KAppMem l s1) as [[u s2]| |] eqn:E1; [|discriminate|discriminate].
  destruct (alloc_ref_ok _ _ _ _ _ _ HI _ E0 E1) as (HI2 & _). now apply IH.
Qed.

Theorem dump_never_panics reset w cfg ca : dump reset w cfg ca empty_wst <> Panic.
Proof.
  assert (HI0 : Inv empty_wst) by (constructor; cbn; [reflexivity|constructor]).
  unfold dump. set (ca0 := if reset then fresh else ca).
  unfold bind at 1.
  destruct (thread_list w cfg (ca_blocks ca0, ca_crash ca0) empty_wst) as [[[d1 [blocks cc]] s1]| |] eqn:E0;
    [|discriminate|exfalso; now apply (thread_list_np w cfg (ca_blocks ca0, ca_crash ca0) empty_wst HI0)].
  destruct (thread_list_ok _ _ _ _ _ _ HI0 E0) as (HI1 & _).
  unfold bind at 1.
  destruct (app_memory w (cf_app cfg) blocks s1) as [[blocks' s2]| |] eqn:E1;
    [|discriminate|exfalso; now apply (app_memory_np w (cf_app cfg) blocks s1 HI1)].
  unfold memory_list, exception, bind, w_alloc, ret.
  destruct (match cf_crash cfg with Some cr => _ | None => _ end) as ((code, flags), addr). discriminate.
Qed.

Print Assumptions dump_never_panics.
