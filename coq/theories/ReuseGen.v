(* C19, tied to the CURRENT source by the translator: the fields of MinidumpWriter that any code running during a
   dump request assigns, pushes to, clears, takes or borrows mutably (dump(), generate_dump(), the section writers that
   receive `config: &mut MinidumpWriter`) are all among the fields that dump() resets before it does anything else.
   Configuration (set by the builder methods) is therefore never modified by a request, and what a request records is
   cleared before the next one starts. *)
From Coq Require Import List String Bool.
From MDW Require Import GenTypes Generated.
Import ListNotations.

Definition only_reset_state_mutated : bool :=
  forallb (fun f => existsb (String.eqb f) dump_reset_fields) dump_mutated_fields.

Theorem dump_mutates_only_reset_state : forall f, In f dump_mutated_fields -> In f dump_reset_fields.
Proof.
  assert (H : only_reset_state_mutated = true) by (vm_compute; reflexivity).
  intros f Hin. unfold only_reset_state_mutated in H. rewrite forallb_forall in H. specialize (H f Hin).
  apply existsb_exists in H. destruct H as (g & Hg & E). apply String.eqb_eq in E. now subst.
Qed.

(* the per-request state is the three fields the carried-state model (Reuse.v) speaks about *)
Theorem reset_fields_are_the_modelled_ones :
  dump_reset_fields = ["crashing_thread_context"; "memory_blocks"; "principal_mapping"]%string.
Proof. reflexivity. Qed.

Print Assumptions dump_mutates_only_reset_state.
