(* ABI entries for C14 *)
From Coq Require Import List NArith Arith Bool.
From MDW Require Import Bytes Elf ElfSoname Utf8 AbiBase.
From MDW Require ElfBE ElfSonameBE.
Import ListNotations.
Local Open Scope N_scope.

Definition slice_mem (b : bytes) : memory :=
  {| m_byte := fun a => nth_error b (N.to_nat a); m_size := N.of_nat (length b); m_start := None |}.

(* the byte order named by EI_DATA selects the copy of the reader model (Elf.v: little-endian, ElfBE.v: big-endian) *)
Definition is_be (b : bytes) : bool := nth 5 b 0 =? 2.
Definition be_mem (m : memory) : ElfBE.memory := {| ElfBE.m_byte := m_byte m; ElfBE.m_size := m_size m; ElfBE.m_start := m_start m |}.
Definition build_id_any (b : bytes) (m : memory) : list N :=
  if is_be b then match ElfBE.build_id true (be_mem m) with ElfBE.Ok d => 0 :: d | ElfBE.Err => [1] | ElfBE.Panic => [2] | ElfBE.Unspec => [3] end
  else match build_id true m with Ok d => 0 :: d | Err => [1] | Panic => [2] | Unspec => [3] end.
Definition soname_any (b : bytes) (m : memory) : list N :=
  let fin (d : bytes) := match utf8_decode (length d) d with Some _ => 0 :: d | None => [3] end in
  if is_be b then match ElfSonameBE.soname (be_mem m) with ElfBE.Ok d => fin d | ElfBE.Err => [1] | ElfBE.Panic => [2] | ElfBE.Unspec => [3] end
  else match soname m with Ok d => fin d | Err => [1] | Panic => [2] | Unspec => [3] end.

(* [bytes...] -> [0; id bytes...] | [1] error | [2] panic | [3] outside the modelled fragment *)
Definition entry_c14 (args : list N) : list N := build_id_any args (slice_mem args).

(* [bytes...] -> [0; name bytes...] | [1] error | [2] panic | [3] outside the modelled fragment (a name that is not valid UTF-8: the implementation returns its lossy decoding) *)
Definition entry_c14_soname (args : list N) : list N := soname_any args (slice_mem args).

(* the same readers on a module read from PROCESS memory: [start; bytes of the mapping...] (nothing mapped beyond) *)
Definition proc_mem (start : N) (b : bytes) : memory :=
  {| m_byte := fun a => if (a <? start) || (N.of_nat (length b) <=? a - start) then None else nth_error b (N.to_nat (a - start));
     m_size := 0; m_start := Some start |}.
Definition entry_c14p (args : list N) : list N :=
  match args with
  | start :: b => build_id_any b (proc_mem start b)
  | [] => []
  end.
Definition entry_c14p_soname (args : list N) : list N :=
  match args with
  | start :: b => soname_any b (proc_mem start b)
  | [] => []
  end.

(* oracle lines computed by the harness's independent reader: the expected answer is the input *)
Definition entry_const (args : list N) : list N := args.
