(* ABI entries for C14 *)
From Coq Require Import List NArith Arith Bool.
From MDW Require Import Bytes Elf ElfSoname Utf8 AbiBase.
Import ListNotations.
Local Open Scope N_scope.

Definition slice_mem (b : bytes) : memory :=
  {| m_byte := fun a => nth_error b (N.to_nat a); m_size := N.of_nat (length b); m_start := None |}.

(* [bytes...] -> [0; id bytes...] | [1] error | [2] panic | [3] outside the modelled fragment *)
Definition entry_c14 (args : list N) : list N :=
  match build_id true (slice_mem args) with
  | Ok d => 0 :: d | Err => [1] | Panic => [2] | Unspec => [3]
  end.

(* [bytes...] -> [0; name bytes...] | [1] error | [2] panic | [3] outside the modelled fragment (big-endian image, or
   a name that is not valid UTF-8: the implementation returns its lossy decoding) *)
Definition entry_c14_soname (args : list N) : list N :=
  match soname (slice_mem args) with
  | Ok d => match utf8_decode (length d) d with Some _ => 0 :: d | None => [3] end
  | Err => [1] | Panic => [2] | Unspec => [3]
  end.

(* the same readers on a module read from PROCESS memory: [start; bytes of the mapping...] (nothing mapped beyond) *)
Definition proc_mem (start : N) (b : bytes) : memory :=
  {| m_byte := fun a => if (a <? start) || (N.of_nat (length b) <=? a - start) then None else nth_error b (N.to_nat (a - start));
     m_size := 0; m_start := Some start |}.
Definition entry_c14p (args : list N) : list N :=
  match args with
  | start :: b => match build_id true (proc_mem start b) with Ok d => 0 :: d | Err => [1] | Panic => [2] | Unspec => [3] end
  | [] => []
  end.
Definition entry_c14p_soname (args : list N) : list N :=
  match args with
  | start :: b => match soname (proc_mem start b) with
                  | Ok d => match utf8_decode (length d) d with Some _ => 0 :: d | None => [3] end
                  | Err => [1] | Panic => [2] | Unspec => [3] end
  | [] => []
  end.

(* oracle lines computed by the harness's independent reader: the expected answer is the input *)
Definition entry_const (args : list N) : list N := args.
