(* C11 model: the soft-error tree (variant tags only) as a function of which best-effort steps fail. *)
From Coq Require Import List NArith Arith Bool.
Import ListNotations.
Local Open Scope N_scope.

Inductive tree := Node (tag : N) (children : list tree).
Definition leaf (t : N) : tree := Node t [].

(* tag numbering shared with the harness (harness/src/c11.rs) *)
Definition T_InitErrors := 1. Definition T_StopProcessFailed := 2. Definition T_FillMissingAuxvInfoErrors := 3.
Definition T_InvalidFormat := 4. Definition T_EnumerateThreadsErrors := 5. Definition T_ReadThreadNameFailed := 6.
Definition T_SuspendThreadsErrors := 7. Definition T_PtraceAttachError := 8. Definition T_DetachSkippedThread := 9.
Definition T_SuspendNoThreadsLeft := 10. Definition T_PrincipalMappingNotReferenced := 11.
Definition T_WriteSystemInfoErrors := 12. Definition T_WriteCpuInformationFailed := 13.
Definition T_WriteOsReleaseInfoFailed := 16. Definition T_WriteDSODebugStreamFailed := 21.

Inductive attach := AOk | ASkip (* null-SP helper: detached and dropped *) | AGone (* vanished before attach *).

Record faults := {
  f_stop : bool; f_auxv : bool; f_name : bool; f_suspend : bool; f_cpu : bool;   (* the five fail points *)
  f_threads : list attach;           (* enumerated threads, attach outcome of each *)
  f_principal : bool;                (* skipping enabled and the crash thread does not reference the mapping *)
  f_os_release : bool;               (* neither release file readable *)
  f_dso : bool                       (* linker debug data unreadable *)
}.

Definition opt_node (t : N) (cs : list tree) : list tree := match cs with [] => [] | _ => [Node t cs] end.
Definition when (b : bool) (l : list tree) : list tree := if b then l else [].

Definition attach_errors (ts : list attach) : list tree :=
  flat_map (fun a => match a with AOk => [] | ASkip => [leaf T_DetachSkippedThread] | AGone => [leaf T_PtraceAttachError] end) ts.
Definition retained (ts : list attach) : nat := length (filter (fun a => match a with AOk => true | _ => false end) ts).

Definition expected_tree (f : faults) : list tree :=
  opt_node T_InitErrors
    (when (f_stop f) [leaf T_StopProcessFailed]
     ++ when (f_auxv f) [Node T_FillMissingAuxvInfoErrors [leaf T_InvalidFormat]]
     ++ when (f_name f) (opt_node T_EnumerateThreadsErrors (map (fun _ => leaf T_ReadThreadNameFailed) (f_threads f))))
  ++ opt_node T_SuspendThreadsErrors (attach_errors (f_threads f) ++ when (f_suspend f) [leaf T_PtraceAttachError])
  ++ when (Nat.eqb (retained (f_threads f)) 0) [leaf T_SuspendNoThreadsLeft]
  ++ when (f_principal f) [leaf T_PrincipalMappingNotReferenced]
  ++ when (f_cpu f) [Node T_WriteSystemInfoErrors [leaf T_WriteCpuInformationFailed]]
  ++ when (f_os_release f) [leaf T_WriteOsReleaseInfoFailed]
  ++ when (f_dso f) [leaf T_WriteDSODebugStreamFailed].

(* pre-order encoding: [tag; nchildren; children...] *)
Fixpoint enc_tree (t : tree) : list N :=
  match t with Node tag cs => tag :: N.of_nat (length cs) :: flat_map enc_tree cs end.
Definition enc_forest (ts : list tree) : list N := N.of_nat (length ts) :: flat_map enc_tree ts.

(* tag paths *)
Fixpoint paths (pre : list N) (t : tree) : list (list N) :=
  match t with Node tag cs => (pre ++ [tag]) :: flat_map (paths (pre ++ [tag])) cs end.
Definition forest_paths (ts : list tree) : list (list N) := flat_map (paths []) ts.

Definition no_failure (f : faults) : Prop :=
  f_stop f = false /\ f_auxv f = false /\ (f_name f = false \/ f_threads f = []) /\ f_suspend f = false /\ f_cpu f = false /\
  Forall (fun a => a = AOk) (f_threads f) /\ f_threads f <> [] /\ f_principal f = false /\ f_os_release f = false /\ f_dso f = false.
