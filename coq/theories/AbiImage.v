(* ABI entry for the whole-image model: flat token list -> content -> image bytes *)
From Coq Require Import List NArith Arith Bool.
From MDW Require Import Bytes MemWriter Writer MiniDump MemInfo Image AbiBase.
Import ListNotations.
Local Open Scope N_scope.

(* tiny parser combinators over the token list *)
Definition P (A : Type) := list N -> A * list N.
Definition pret {A} (a : A) : P A := fun l => (a, l).
Definition pbind {A B} (p : P A) (f : A -> P B) : P B := fun l => let '(a, r) := p l in f a r.
Notation "x <~ p ;; k" := (pbind p (fun x => k)) (at level 61, p at next level, right associativity).
Definition pn : P N := fun l => match l with x :: r => (x, r) | [] => (0, []) end.
Definition pvec : P (list N) := take_vec.
Definition popt {A} (p : P A) : P (option A) := h <~ pn ;; a <~ p ;; pret (if n2b h then Some a else None).
Definition pmany {A} (p : P A) : P (list A) := fun l => match l with n :: r => take_many p (cnt n r) r | [] => ([], []) end.

Definition p_addr_bytes : P (N * bytes) := a <~ pn ;; b <~ pvec ;; pret (a, b).
Definition p_thread : P ithread :=
  tid <~ pn ;; sp <~ pn ;; stack <~ popt p_addr_bytes ;; ipw <~ popt p_addr_bytes ;; ctx <~ pvec ;;
  pret {| it_tid := tid; it_sp := sp; it_stack := stack; it_ipwin := ipw; it_ctx := ctx |}.
Definition p_ver : P (N * N * N * N) := a <~ pn ;; b <~ pn ;; c <~ pn ;; d <~ pn ;; pret (a, b, c, d).
Definition p_module : P imodule :=
  base <~ pn ;; size <~ pn ;; id <~ pvec ;; nm <~ pvec ;; ver <~ popt p_ver ;;
  pret {| im_base := base; im_size := size; im_id := id; im_name := nm; im_ver := ver |}.
Definition p_mi : P mi :=
  a <~ pn ;; b <~ pn ;; c <~ pn ;; d <~ pn ;; e <~ pn ;; f <~ pn ;; g <~ pn ;;
  pret {| mi_base := a; mi_alloc_base := b; mi_alloc_prot := c; mi_size := d; mi_state := e; mi_prot := f; mi_type := g |}.
Definition p_link : P ilink := a <~ pn ;; nm <~ pvec ;; ld <~ pn ;; pret {| il_addr := a; il_name := nm; il_ld := ld |}.
Definition p_dso : P idso :=
  k <~ pn ;;
  if n2b k then
    v <~ pn ;; brk <~ pn ;; ldb <~ pn ;; dyn <~ pn ;; links <~ pmany p_link ;; db <~ pvec ;; pret (IDsoOk v brk ldb dyn links db)
  else o <~ pvec ;; pret (IDsoFail o).
Definition p_name : P (N * list N) := t <~ pn ;; nm <~ pvec ;; pret (t, nm).
Definition p_handle : P ihandle := fd <~ pn ;; nm <~ pvec ;; mode <~ pn ;; pret {| ih_fd := fd; ih_name := nm; ih_mode := mode |}.
Definition p_crash : P (N * N * N) := a <~ pn ;; b <~ pn ;; c <~ pn ;; pret (a, b, c).

Definition p_content : P content :=
  time <~ pn ;; blamed <~ pn ;; crash <~ popt p_crash ;;
  threads <~ pmany p_thread ;; modules <~ pmany p_module ;; app <~ pmany p_addr_bytes ;;
  sysinfo <~ pvec ;; osver <~ pvec ;; meminfo <~ pmany p_mi ;;
  cpuinfo <~ popt pvec ;; status <~ popt pvec ;; lsb <~ popt pvec ;; cmdline <~ popt pvec ;;
  environ <~ popt pvec ;; auxv <~ popt pvec ;; maps <~ popt pvec ;; limits <~ popt pvec ;;
  dso <~ p_dso ;; names <~ pmany p_name ;; handles <~ pmany p_handle ;; soft <~ popt pvec ;;
  pret {| ic_time := time; ic_threads := threads; ic_blamed := blamed; ic_crash := crash; ic_modules := modules; ic_app := app;
          ic_sysinfo := sysinfo; ic_osver := osver; ic_meminfo := meminfo;
          ic_cpuinfo := cpuinfo; ic_status := status; ic_lsb := lsb; ic_cmdline := cmdline; ic_environ := environ;
          ic_auxv := auxv; ic_maps := maps; ic_limits := limits; ic_dso := dso; ic_names := names; ic_handles := handles;
          ic_soft := soft |}.

(* -> [1; image bytes...] | [0] (the model never fails; 0 would mean Err, 2 Panic) *)
Definition entry_image (args : list N) : list N :=
  match image (fst (p_content args)) empty_wst with
  | Ok (_, s) => 1 :: w_buf s
  | Err => [0]
  | Panic => [2]
  end.
