(* C16 model: operation sequences on the image builder (src/mem_writer.rs), run with the
   real semantics of Buffer::write_at (see MemWriter.v).  Definitions only. *)
From Coq Require Import List NArith Arith Bool.
From MDW Require Import Bytes MemWriter Text FillArray ThreadNames WriteString.
Import ListNotations.
Local Open Scope nat_scope.

Inductive op :=
| OAlloc (size : nat)                       (* MemoryWriter::<T>::alloc *)
| OAllocVal (v : bytes)                     (* MemoryWriter::alloc_with_val *)
| OSet (k : nat) (v : bytes)                (* k-th MemoryWriter .set_value *)
| OAllocArray (n esz : nat)                 (* MemoryArrayWriter::alloc_array *)
| OSetAt (k idx : nat) (v : bytes)          (* k-th MemoryArrayWriter .set_value_at *)
| OFromArray (vs : list bytes) (esz : nat)  (* alloc_from_array / alloc_from_iter *)
| OBytes (v : bytes)                        (* MemoryArrayWriter::<u8>::write_bytes *)
| OString (s : list N).                     (* write_string_to_location *)

Record mstate := {
  buf : bytes;
  singles : list (N * nat);          (* position (stored u32), size *)
  arrays : list (N * nat * nat)      (* position (stored u32), element size, count *)
}.

Definition empty_state : mstate := {| buf := []; singles := []; arrays := [] |}.

(* the location an op hands back: (rva, data_size), both as the u32 the code computes *)
Definition u32N (n : N) : N := (n mod 2 ^ 32)%N.

Fixpoint fill_from (b : bytes) (pos esz idx : nat) (vs : list bytes) : outcome bytes :=
  match vs with
  | [] => Ok b
  | v :: t => match write_at b (pos + idx * esz) v with
              | Ok b' => fill_from b' pos esz (S idx) t
              | Err => Err | Panic => Panic
              end
  end.

Definition step (s : mstate) (o : op) : outcome (mstate * (N * N)) :=
  match o with
  | OAlloc size =>
      let '(b', l) := alloc (buf s) size in
      Ok ({| buf := b'; singles := singles s ++ [(l_rva l, size)]; arrays := arrays s |},
          (l_rva l, u32 size))
  | OAllocVal v =>
      match alloc_with_val (buf s) v with
      | Ok (b', l) => Ok ({| buf := b'; singles := singles s ++ [(l_rva l, length v)]; arrays := arrays s |},
                          (l_rva l, u32 (length v)))
      | Err => Err | Panic => Panic
      end
  | OSet k v =>
      match nth_error (singles s) k with
      | None => Err
      | Some (pos, _) =>
          match set_value (buf s) pos v with
          | Ok b' => Ok ({| buf := b'; singles := singles s; arrays := arrays s |}, (pos, u32 (length v)))
          | Err => Err | Panic => Panic
          end
      end
  | OAllocArray n esz =>
      let '(b', pos) := alloc_array (buf s) esz n in
      Ok ({| buf := b'; singles := singles s; arrays := arrays s ++ [(pos, esz, n)] |}, (pos, u32 (n * esz)))
  | OSetAt k idx v =>
      match nth_error (arrays s) k with
      | None => Err
      | Some (pos, esz, n) =>
          match set_value_at (buf s) pos esz idx v with
          | Ok b' => Ok ({| buf := b'; singles := singles s; arrays := arrays s |},
                         (u32N (pos + N.of_nat (esz * idx)), u32 esz))   (* location_of_index *)
          | Err => Err | Panic => Panic
          end
      end
  | OFromArray vs esz =>
      let n := length vs in
      let '(b', p) := reserve (buf s) (n * esz) in
      match fill_from b' p esz 0 vs with
      | Ok b'' => Ok ({| buf := b''; singles := singles s; arrays := arrays s ++ [(u32 p, esz, n)] |},
                      (u32 p, u32 (n * esz)))
      | Err => Err | Panic => Panic
      end
  | OBytes v =>
      Ok ({| buf := buf s ++ v; singles := singles s; arrays := arrays s |}, (u32 (length (buf s)), u32 (length v)))
  | OString str =>
      match write_string (buf s) str with
      | Ok (b', l) => Ok ({| buf := b'; singles := singles s; arrays := arrays s |}, (l_rva l, u32N (l_size l)))
      | Err => Err | Panic => Panic
      end
  end.

(* run a sequence; report per-op (tag, rva, size, buffer length) and stop at the first failure *)
Fixpoint run_ops (s : mstate) (ops : list op) : list (N * N * N * N) * mstate :=
  match ops with
  | [] => ([], s)
  | o :: t =>
      match step s o with
      | Ok (s', (rva, sz)) =>
          let '(r, sf) := run_ops s' t in ((0%N, rva, sz, N.of_nat (length (buf s'))) :: r, sf)
      | Err => ([(1%N, 0%N, 0%N, N.of_nat (length (buf s)))], s)
      | Panic => ([(2%N, 0%N, 0%N, N.of_nat (length (buf s)))], s)
      end
  end.
