(* ABI entries for C18 *)
From Coq Require Import List NArith Arith Bool FMapPositive.
From MDW Require Import Bytes DsoDebug DsoStream MemInfo Auxv AbiBase.
Import ListNotations.
Local Open Scope N_scope.

(* memory from regions [base; vec bytes] *)
Fixpoint dec_regions (n : nat) (l : list N) : list (N * bytes) * list N :=
  match n, l with
  | S k, base :: rest => let '(b, r) := take_vec rest in let '(rs, r') := dec_regions k r in ((base, b) :: rs, r')
  | _, _ => ([], l)
  end.
(* each region's bytes are put into a binary trie once, so that a byte access costs O(log n) *)
Fixpoint trie_of (b : bytes) (idx : positive) (t : PositiveMap.t N) : PositiveMap.t N :=
  match b with
  | [] => t
  | x :: r => trie_of r (Pos.succ idx) (PositiveMap.add idx x t)
  end.
Definition regions_mem (rs : list (N * bytes)) : mem :=
  let tries := map (fun '(base, b) => (base, N.of_nat (length b), trie_of b 1%positive (PositiveMap.empty N))) rs in
  fun a => match find (fun '(base, len, _) => (base <=? a) && (a <? base + len)) tries with
           | Some (base, _, t) => PositiveMap.find (N.succ_pos (a - base)) t
           | None => None
           end.

(* [phdr; phnum; nregions; regions...] -> [0; version; brk; ldbase; dynamic; dynlen; n; (addr; ld; name vec)...] | [1] | [3] *)
Definition entry_c18_dso (args : list N) : list N :=
  match args with
  | phdr :: phnum :: n :: rest =>
      let '(rs, _) := dec_regions (cnt n rest) rest in
      match dso_stream (regions_mem rs) phdr phnum with
      | DOk o => 0 :: d_version o :: d_brk o :: d_ldbase o :: d_dynamic o :: d_dynlen o :: N.of_nat (length (d_entries o))
                 :: flat_map (fun '(a, nm, ld) => a :: ld :: enc_vec nm) (d_entries o)
      | DErr => [1]
      | DUnspec => [3]
      end
  | _ => []
  end.

(* the same with the auxiliary values RESOLVED by the model of the writer's auxv handling:
   [direct phnum; direct phdr; direct gate; direct entry; file readable?; auxv bytes (vec); nregions; regions...] *)
Definition entry_c18_dso_auxv (args : list N) : list N :=
  match args with
  | dn :: dp :: dg :: de :: hf :: rest =>
      let '(file, rest1) := take_vec rest in
      let r := resolve dn dp dg de (if n2b hf then Some file else None) in
      match r_phdr r, r_phnum r with
      | Some phdr, Some phnum => entry_c18_dso (phdr :: phnum :: rest1)
      | _, _ => [1]
      end
  | _ => []
  end.

Fixpoint dec_triples (n : nat) (l : list N) : list (N * N * N) :=
  match n, l with S k, a :: b :: c :: r => (a, b, c) :: dec_triples k r | _, _ => [] end.
(* [n; (start; end; perms)...] -> [n; (base; alloc_base; alloc_prot; size; state; prot; type)...] *)
Definition entry_c18_meminfo (args : list N) : list N :=
  match args with
  | n :: rest =>
      let l := meminfo_list (dec_triples (cnt n rest) rest) in
      N.of_nat (length l) :: flat_map (fun m => [mi_base m; mi_alloc_base m; mi_alloc_prot m; mi_size m; mi_state m; mi_prot m; mi_type m]) l
  | _ => []
  end.

Definition entry_c18_meminfo_spec (args : list N) : list N :=
  match args with
  | n :: rest =>
      let l := meminfo_list_spec (dec_triples (cnt n rest) rest) in
      N.of_nat (length l) :: flat_map (fun m => [mi_base m; mi_alloc_base m; mi_alloc_prot m; mi_size m; mi_state m; mi_prot m; mi_type m]) l
  | _ => []
  end.

Definition dec_key (k : N) : cpukey :=
  if k =? 0 then K_processor else if k =? 1 then K_model else if k =? 2 then K_stepping else if k =? 3 then K_family else if k =? 4 then K_vendor else K_other.
Fixpoint dec_cpulines (n : nat) (l : list N) : list cpuline :=
  match n, l with
  | S k, key :: hasnum :: num :: rest => let '(raw, r) := take_vec rest in
      {| ck := dec_key key; cnum := if n2b hasnum then Some num else None; craw := raw |} :: dec_cpulines k r
  | _, _ => []
  end.
(* [n; (key; has_num; num; raw vec)...] -> [1; ncpu; level; revision; vendor vec] | [0] *)
Definition entry_c18_cpu (args : list N) : list N :=
  match args with
  | n :: rest => match cpu_select (dec_cpulines (cnt n rest) rest) with
                 | Some (p, f, r, v) => 1 :: p :: f :: r :: enc_vec v
                 | None => [0]
                 end
  | _ => []
  end.
