(* Structural model of the thread-list / memory-list / exception writers (C04-C07, C19, C20):
   what each stream must contain, as a function of what the writer observes.  Definitions only. *)
From Coq Require Import List NArith Arith Bool.
From MDW Require Import Bytes Maps StackInfo Shorten GenTypes Generated.
Import ListNotations.
Local Open Scope N_scope.

(* ---- the mapping list the dumper works with: aggregation, then the entry-point mapping first ---- *)
Definition covers (m : minfo) (a : N) : bool := (m_start m <=? a) && (a <? m_start m + m_size m).
Fixpoint index_of {A} (f : A -> bool) (l : list A) : option nat :=
  match l with
  | [] => None
  | x :: t => if f x then Some O else option_map S (index_of f t)
  end.
Definition swap0 {A} (i : nat) (l : list A) : list A :=
  match l, nth_error l i with
  | h :: t, Some x => match i with O => l | S j => x :: firstn j t ++ h :: skipn (S j) t end
  | _, _ => l
  end.
Definition dumper_mappings (gate entry : option N) (lines : list line) : list minfo :=
  let ms := aggregate gate lines in
  match entry with
  | Some e => match index_of (fun m => covers m e) ms with Some i => swap0 i ms | None => ms end
  | None => ms
  end.
Definition to_smap (m : minfo) : smap :=
  {| s_start := m_start m; s_size := m_size m; s_sys_start := m_sys_start m; s_sys_end := m_sys_end m;
     s_rw := N.testbit (m_perms m) 0 || N.testbit (m_perms m) 1 |}.

(* ---- C04: which threads are listed ---- *)
Record tobs := { t_tid : N; t_attached : bool; t_rsp : N }.
Definition retained (t : tobs) : bool := t_attached t && negb (t_rsp t =? 0).
Definition listed (ts : list tobs) : list N := map t_tid (filter retained ts).

(* ---- C06: the stack region of the thread at list position idx ---- *)
Definition limit_active (limit : option N) (nthreads pos : N) : bool :=
  match limit with
  | Some l => l <? pos + nthreads * LIMIT_AVERAGE_THREAD_STACK_LENGTH + LIMIT_MINIDUMP_FUDGE_FACTOR
  | None => false
  end.
Definition shortened (limit : option N) (nthreads pos idx : N) (is_crash : bool) : bool :=
  limit_active limit nthreads pos && (LIMIT_BASE_THREAD_COUNT <=? idx) && negb is_crash.
Definition thread_region (maps : list smap) (short : bool) (sp : N) : option (N * N) :=
  match get_stack_info Strict FUEL maps sp with
  | Ok (v, len) => Some (if short then shorten_fixed v len LIMIT_MAX_EXTRA_THREAD_STACK_LEN sp else (v, len))
  | _ => None
  end.

(* ---- C07: the memory list ---- *)
Definition ip_window (ms : list minfo) (ip : N) : option (N * N) :=
  match find (fun m => covers m ip) ms with
  | Some m =>
      let half := IP_MEMORY_SIZE / 2 in
      let s := N.max (m_start m) (ip - half) in
      let e := N.min (m_start m + m_size m) (ip + half) in
      Some (s, e - s)
  | None => None
  end.
(* per listed thread: its stack block (None = no region or filtered out) and, for the thread described
   by a crash context, the instruction pointer *)
Record tblocks := { tb_stack : option (N * N); tb_crash_ip : option N }.
Definition thread_blocks (ms : list minfo) (t : tblocks) : list (N * N) :=
  (match tb_stack t with Some b => [b] | None => [] end)
  ++ (match tb_crash_ip t with Some ip => match ip_window ms ip with Some w => [w] | None => [] end | None => [] end).
Definition memory_list (ms : list minfo) (ths : list tblocks) (app : list (N * N)) : list (N * N) :=
  flat_map (thread_blocks ms) ths ++ app.

(* ---- C05: the exception record ---- *)
Definition DUMP_REQUESTED : N := 0xFFFFFFFF.
(* crash = Some (signo, code, addr); req_ip = instruction pointer of the blamed thread if it is listed *)
Definition exception_fields (crash : option (N * N * N)) (req_ip : option N) : N * N * N :=
  match crash with
  | Some (signo, code, addr) => (signo mod 2 ^ 32, code mod 2 ^ 32, addr)
  | None => (DUMP_REQUESTED, 0, match req_ip with Some ip => ip | None => 0 end)
  end.
