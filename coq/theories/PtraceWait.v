(* C03: the wait loop after PTRACE_ATTACH (suspend_thread in src/linux/ptrace_dumper.rs) as a function of what waitpid
   reports, call after call: an interrupted wait (EINTR) is retried, a stop with a signal other than SIGSTOP is handed
   back to the thread (PTRACE_CONT with that signal) and the wait continues, the SIGSTOP stop ends the loop, any other
   error ends it with a failure.  Interrupted waits never change the outcome; the signals seen before the SIGSTOP are
   exactly the ones re-injected, once each and in order - which is what [Ptrace.suspend_thread] abstracts as t_sigs. *)
From Coq Require Import List Arith Bool.
From MDW Require Import Ptrace.
Import ListNotations.

Inductive wev := WEintr | WSig (s : nat) | WStop | WErr.
Definition is_eintr (w : wev) : bool := match w with WEintr => true | _ => false end.

(* result: the re-injections issued, and Some true = stopped, Some false = failed, None = still waiting *)
Fixpoint wait_loop (t : nat) (ws : list wev) : list ev * option bool :=
  match ws with
  | [] => ([], None)
  | WEintr :: r => wait_loop t r
  | WSig s :: r => let '(e, o) := wait_loop t r in (Reinject t s :: e, o)
  | WStop :: _ => ([], Some true)
  | WErr :: _ => ([], Some false)
  end.

Theorem eintr_irrelevant t ws : wait_loop t ws = wait_loop t (filter (fun w => negb (is_eintr w)) ws).
Proof.
  induction ws as [|w r IH]; [reflexivity|]. destruct w; cbn [wait_loop filter is_eintr negb]; try reflexivity.
  - exact IH.
  - now rewrite IH.
Qed.

Theorem signals_then_stop t sigs rest :
  wait_loop t (map WSig sigs ++ WStop :: rest) = (map (Reinject t) sigs, Some true).
Proof. induction sigs as [|s r IH]; cbn [map app wait_loop]; [reflexivity|]. now rewrite IH. Qed.

(* with interruptions anywhere: the same re-injections, the same outcome - the attach of an AOk thread *)
Theorem interrupted_attach t ws sigs rest :
  filter (fun w => negb (is_eintr w)) ws = map WSig sigs ++ WStop :: rest ->
  wait_loop t ws = (map (Reinject t) sigs, Some true) /\
  fst (suspend_thread {| t_id := t; t_kind := AOk; t_sigs := sigs |}) = map (Reinject t) sigs ++ [Attach t].
Proof. intro H. split; [rewrite eintr_irrelevant, H; apply signals_then_stop|reflexivity]. Qed.

Example interrupted_example :
  wait_loop 7 [WEintr; WSig 10; WEintr; WEintr; WSig 12; WStop; WSig 3] = ([Reinject 7 10; Reinject 7 12], Some true).
Proof. reflexivity. Qed.

Print Assumptions eintr_irrelevant.
Print Assumptions interrupted_attach.
