From Coq Require Import List NArith ZArith Arith Lia Bool.
From MDW Require Import Bytes Sanitize SanitizeProofs.
Import ListNotations.
Open Scope N_scope.
Ltac Zify.zify_post_hook ::= Z.div_mod_to_equations.

Lemma mod_shift r b : r < 2048 -> b < 2048 -> (r + (b + 2048 - r) mod 2048) mod 2048 = b.
Proof.
  intros Hr Hb. destruct (N.lt_ge_cases b r) as [H|H].
  - rewrite (N.mod_small (b + 2048 - r)) by lia.
    replace (r + (b + 2048 - r)) with (b + 1 * 2048) by lia.
    rewrite N.mod_add by lia. apply N.mod_small; lia.
  - replace (b + 2048 - r) with ((b - r) + 1 * 2048) by lia.
    rewrite N.mod_add by lia. rewrite (N.mod_small (b - r)) by lia.
    replace (r + (b - r)) with b by lia. apply N.mod_small; lia.
Qed.

Lemma mod_unshift r t : r < 2048 -> t < 2048 -> ((r + t) mod 2048 + 2048 - r) mod 2048 = t.
Proof.
  intros Hr Ht. destruct (N.lt_ge_cases (r + t) 2048) as [H|H].
  - rewrite (N.mod_small (r + t)) by lia.
    replace (r + t + 2048 - r) with (t + 1 * 2048) by lia.
    rewrite N.mod_add by lia. apply N.mod_small; lia.
  - replace (r + t) with ((r + t - 2048) + 1 * 2048) by lia.
    rewrite N.mod_add by lia. rewrite (N.mod_small (r + t - 2048)) by lia.
    replace (r + t - 2048 + 2048 - r) with t by lia. apply N.mod_small; lia.
Qed.

Lemma range_hits_spec lo hi b : b < NBITS ->
  range_hits lo hi b = true <-> exists k, lo <= k /\ k <= hi /\ k mod NBITS = b.
Proof.
  intro Hb. unfold range_hits, NBITS in *.
  rewrite andb_true_iff, orb_true_iff, !N.leb_le. split.
  - intros (Hle & Hcase).
    set (d := (b + 2048 - lo mod 2048) mod 2048) in *.
    assert (Hd : d < 2048) by (apply N.mod_lt; lia).
    assert (Hdle : d <= hi - lo) by (destruct Hcase; lia).
    exists (lo + d). split; [lia|]. split; [lia|].
    rewrite <- N.add_mod_idemp_l by lia. subst d. apply mod_shift; [apply N.mod_lt; lia|exact Hb].
  - intros (k & H1 & H2 & H3). split; [lia|].
    destruct (N.le_gt_cases 2047 (hi - lo)) as [Hbig|Hsmall]; [now left|right].
    assert (Ht : k - lo < 2048) by lia.
    assert (Ek : k mod 2048 = (lo mod 2048 + (k - lo)) mod 2048).
    { rewrite N.add_mod_idemp_l by lia. f_equal. lia. }
    rewrite <- H3, Ek. rewrite mod_unshift; [lia|apply N.mod_lt; lia|exact Ht].
Qed.

Lemma range_fast_loop lo hi b : b < NBITS ->
  range_hits lo hi b = range_sets lo (N.to_nat (hi + 1 - lo)) b.
Proof.
  intro Hb. apply eq_true_iff_eq. rewrite range_hits_spec by assumption. rewrite range_sets_spec.
  rewrite N2Nat.id. split; intros (k & H1 & H2 & H3); exists k; repeat split; try assumption; lia.
Qed.

Lemma bit_of_lt a : bit_of a < NBITS.
Proof. unfold bit_of, NBITS. apply N.mod_lt. lia. Qed.

Theorem bitmap_fast_loop ms a : bitmap_fast ms (bit_of a) = bitmap_loop ms (bit_of a).
Proof.
  unfold bitmap_fast, bitmap_loop. induction ms as [|m t IH]; cbn [existsb]; [reflexivity|].
  rewrite IH. f_equal. f_equal. apply range_fast_loop. apply bit_of_lt.
Qed.
Print Assumptions bitmap_fast_loop.
