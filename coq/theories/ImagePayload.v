(* What the streams SAY (functional correctness of the layout model): the arrays that are filled at once from records handed
   over (memory list, memory-information list, module list, descriptor list) hold, in the image built by the section, exactly
   the encodings of those records in order, right behind their header; together with the frame law (a later section never
   changes a byte that is already there) the same bytes are still there in the final image. *)
From Coq Require Import List NArith ZArith Arith Lia Bool ZifyNat ZifyN ZifyBool.
From MDW Require Import Bytes MemWriter Writer Hoare MiniDump WComb WCombProofs WFrame MemInfo GenTypes Generated PlanProofs Image ImageProofs ImageDirProofs.
Import ListNotations.
Local Open Scope nat_scope.

Section KeepArray.
  Context {R : Type}.
  Variable size : nat.
  Variable enc : R -> bytes.
  Hypothesis enc_size : forall r, length (enc r) = size.

  (* filling slots idx.. of an array at [base] with the records themselves *)
  Lemma fill_keep_payload base : forall (xs : list R) idx s u s',
    fill_from size enc keep base idx xs tt s = Ok (u, s') ->
    base + size * (idx + length xs) <= blen s ->
    blen s' = blen s /\
    slice (w_buf s') (base + size * idx) (size * length xs) = concat (map enc xs) /\
    firstn (base + size * idx) (w_buf s') = firstn (base + size * idx) (w_buf s) /\
    skipn (base + size * (idx + length xs)) (w_buf s') = skipn (base + size * (idx + length xs)) (w_buf s).
  Proof.
    induction xs as [|x r IH]; intros idx s u s' E Hb; cbn [fill_from] in E.
    - injection E as _ <-. cbn [length]. rewrite Nat.mul_0_r. unfold slice. cbn [firstn concat map]. auto.
    - unfold bind at 1 in E. unfold keep at 1 in E. cbn [ret] in E. cbn [fst snd] in E.
      unfold bind at 1 in E. cbn [length] in Hb.
      assert (Hin : base + size * idx + length (enc x) <= length (w_buf s)) by (rewrite enc_size; unfold blen in Hb; nia).
      unfold w_patch in E. rewrite write_at_inside in E by exact Hin.
      set (s1 := {| w_buf := update (w_buf s) (base + size * idx) (enc x); w_objs := w_objs s; w_refs := w_refs s |}) in E.
      assert (L1 : blen s1 = blen s) by (unfold blen, s1; cbn [w_buf]; now rewrite update_length).
      assert (Hb1 : base + size * (S idx + length r) <= blen s1) by (rewrite L1; replace (S idx + length r) with (idx + S (length r)) by lia; exact Hb).
      destruct (IH (S idx) s1 u s' E Hb1) as (L2 & P2 & F2 & T2).
      split; [lia|]. split; [|split].
      + cbn [length map concat]. replace (size * S (length r)) with (size + size * length r) by lia.
        rewrite slice_split. f_equal.
        * (* slot idx: written by the patch, untouched afterwards *)
          transitivity (slice (w_buf s1) (base + size * idx) size).
          -- apply slice_firstn_eq. replace (base + size * idx + size) with (base + size * S idx) by lia. exact F2.
          -- unfold s1. cbn [w_buf]. pose proof (slice_update_same (w_buf s) (base + size * idx) (enc x) Hin) as Hsl. rewrite enc_size in Hsl. exact Hsl.
        * replace (base + size * idx + size) with (base + size * S idx) by lia. exact P2.
      + transitivity (firstn (base + size * idx) (w_buf s1)).
        * eapply firstn_le_eq with (off := base + size * S idx); [lia|exact F2].
        * unfold s1. cbn [w_buf]. unfold update. rewrite firstn_app, firstn_firstn, Nat.min_id, firstn_length, Nat.min_l by lia.
          rewrite Nat.sub_diag. cbn [firstn]. apply app_nil_r.
      + cbn [length]. replace (idx + S (length r)) with (S idx + length r) by lia. rewrite T2. unfold s1. cbn [w_buf].
        unfold update. rewrite app_assoc, skipn_app.
        rewrite skipn_all2 by (rewrite app_length, firstn_length, enc_size; unfold blen in Hb; nia).
        rewrite app_length, firstn_length, enc_size, Nat.min_l by (unfold blen in Hb; nia). cbn [app].
        rewrite skipn_add. f_equal. nia.
  Qed.
End KeepArray.

Lemma three_parts {A} (b : list A) p n : b = firstn p b ++ firstn n (skipn p b) ++ skipn (p + n) b.
Proof. rewrite <- skipn_add. now rewrite !firstn_skipn. Qed.

(* an array filled at once: the combinator appends exactly the encodings of the records *)
Lemma array_keep_payload {R} size (enc : R -> bytes) k (xs : list R) s r s' :
  (forall x, length (enc x) = size) ->
  w_array size enc keep true k xs tt s = Ok (r, s') ->
  w_buf s' = w_buf s ++ concat (map enc xs) /\
  fst r = {| l_rva := u32 (blen s); l_size := N.of_nat (size * length xs) |}.
Proof.
  intros Henc E. unfold w_array in E.
  unfold bind at 1 in E. unfold w_pos at 1 in E. cbv beta iota in E.
  unfold bind at 1 in E. unfold w_alloc at 1 in E. cbv beta iota in E.
  set (s2 := {| w_buf := w_buf s ++ repeat 0%N (size * length xs); w_objs := _; w_refs := w_refs s |}) in E.
  unfold bind at 1 in E.
  destruct (fill_from size enc keep (length (w_buf s)) 0 xs tt s2) as [[u s3]| |] eqn:Ef; try discriminate.
  unfold ret in E. injection E as <- <-. cbn [fst].
  destruct (fill_keep_payload size enc Henc (length (w_buf s)) xs 0 s2 u s3 Ef) as (L & P & F & T).
  { unfold blen, s2. cbn [w_buf]. rewrite app_length, repeat_length. lia. }
  rewrite Nat.mul_0_r, Nat.add_0_r in P, F. cbn [plus] in T.
  split.
  - rewrite (three_parts (w_buf s3) (length (w_buf s)) (size * length xs)).
    unfold slice in P. rewrite P, F, T. unfold s2. cbn [w_buf].
    rewrite firstn_app, firstn_all, Nat.sub_diag. cbn [firstn]. rewrite app_nil_r.
    rewrite skipn_all2 by (rewrite app_length, repeat_length; lia). now rewrite app_nil_r.
  - rewrite repeat_length. reflexivity.
Qed.

(* a stream made of a header and such an array: the section appends exactly  header ++ encodings of the records *)
Lemma span_keep_payload {R} size (enc : R -> bytes) ty hdr (xs : list R) s r s' :
  (forall x, length (enc x) = size) ->
  w_span_array size enc keep true ty hdr xs tt s = Ok (r, s') ->
  w_buf s' = w_buf s ++ hdr ++ concat (map enc xs) /\
  fst r = (ty, {| l_rva := u32 (blen s); l_size := (N.of_nat (length hdr) + N.of_nat (size * length xs))%N |}).
Proof.
  intros Henc E. unfold w_span_array in E.
  unfold bind at 1 in E. unfold w_alloc at 1 in E. cbv beta iota in E.
  set (s1 := {| w_buf := w_buf s ++ hdr; w_objs := _; w_refs := w_refs s |}) in E.
  unfold bind at 1 in E.
  destruct (w_array size enc keep true (KArray ty) xs tt s1) as [[ra s3]| |] eqn:Ea; try discriminate.
  unfold ret in E. injection E as <- <-. cbn [fst snd l_rva l_size].
  destruct (array_keep_payload size enc (KArray ty) xs s1 ra s3 Henc Ea) as (Hb & Hr).
  split.
  - rewrite Hb. unfold s1. cbn [w_buf]. now rewrite <- app_assoc.
  - rewrite Hr. cbn [l_size]. reflexivity.
Qed.

(* the memory list and the memory-information list, as the sections build them *)
Theorem memory_list_payload blocks s d s' :
  sec_memory_list blocks s = Ok (d, s') ->
  w_buf s' = w_buf s ++ le 4 (N.of_nat (length blocks)) ++ concat (map enc_memdesc blocks) /\
  d = (T_MEMLIST, {| l_rva := u32 (blen s); l_size := (4 + N.of_nat (MEMDESC_SZ * length blocks))%N |}).
Proof.
  unfold sec_memory_list. intro E. unfold bind in E.
  destruct (w_span_array MEMDESC_SZ enc_memdesc keep true T_MEMLIST (le 4 (N.of_nat (length blocks))) blocks tt s) as [[r s1]| |] eqn:E1; try discriminate.
  cbn [ret] in E. injection E as <- <-.
  destruct (span_keep_payload _ _ _ _ _ _ _ _ enc_memdesc_len E1) as (Hb & Hr). split; [exact Hb|]. rewrite Hr, le_length. reflexivity.
Qed.

Theorem meminfo_payload c s d s' :
  sec_meminfo c s = Ok (d, s') ->
  w_buf s' = w_buf s ++ (le 4 16 ++ le 4 48 ++ le 8 (N.of_nat (length (ic_meminfo c)))) ++ concat (map enc_meminfo (ic_meminfo c)) /\
  d = (T_MEMINFO, {| l_rva := u32 (blen s); l_size := (16 + N.of_nat (MEMINFO_SZ * length (ic_meminfo c)))%N |}).
Proof.
  unfold sec_meminfo. intro E. unfold bind in E.
  destruct (w_span_array MEMINFO_SZ enc_meminfo keep true T_MEMINFO _ (ic_meminfo c) tt s) as [[r s1]| |] eqn:E1; try discriminate.
  cbn [ret] in E. injection E as <- <-.
  destruct (span_keep_payload _ _ _ _ _ _ _ _ enc_meminfo_len E1) as (Hb & Hr). split; [exact Hb|]. rewrite Hr, !app_length, !le_length. reflexivity.
Qed.
Print Assumptions memory_list_payload.

(* ---------- everything outside the directory is final once it is part of the image ---------- *)
Definition stable_from (lo : nat) (s s' : wst) : Prop :=
  forall off n, lo <= off -> off + n <= blen s -> slice (w_buf s') off n = slice (w_buf s) off n.

Lemma stable_refl lo s : stable_from lo s s. Proof. intros off n _ _. reflexivity. Qed.
Lemma stable_trans lo a b c : blen a <= blen b -> stable_from lo a b -> stable_from lo b c -> stable_from lo a c.
Proof. intros L H1 H2 off n Ho Hn. rewrite H2 by lia. now apply H1. Qed.

Lemma stable_of_frame lo s s1 : blen s <= blen s1 -> firstn (blen s) (w_buf s1) = firstn (blen s) (w_buf s) -> stable_from lo s s1.
Proof. intros L F off n _ Hn. apply slice_firstn_eq. eapply firstn_le_eq; [|exact F]. exact Hn. Qed.

Lemma stable_of_patch lo s off v s2 : off + length v <= lo -> off + length v <= blen s ->
  w_buf s2 = update (w_buf s) off v -> stable_from lo s s2.
Proof. intros Hlo Hin Hb o n Ho Hn. rewrite Hb. apply slice_update_after; unfold blen in *; lia. Qed.

Lemma run_plan_stable c dir_base lo : forall plan idx ds acc log s res s',
  run_plan c dir_base plan idx ds acc log s = Ok (res, s') -> small (blen s') ->
  dir_base + DIRENT_SZ * (idx + length (types_of plan)) <= lo -> lo <= blen s ->
  stable_from lo s s' /\ blen s <= blen s' /\
  (* ... and the same for every state the run records from here on *)
  (forall sn, In sn (snd res) -> In sn (rev log) \/ (stable_from lo (fst sn) s' /\ blen (fst sn) <= blen s')).
Proof.
  induction plan as [|st rest IH]; intros idx ds acc log s res s' E Hs Hlo Hls; cbn [run_plan] in E.
  - injection E as <- <-. split; [apply stable_refl|]. split; [lia|]. intros sn Hin. now left.
  - unfold bind at 1 in E. destruct (run_step c st ds s) as [[r s1]| |] eqn:E1; try discriminate.
    pose proof (run_step_shape _ _ _ _ _ _ E1) as Hshape.
    unfold bind at 1 in E. cbn [w_get] in E.
    destruct (run_step_frame (blen s) c st ds s r s1 E1 (le_n _)) as (L1 & K1).
    cbn [types_of flat_map] in Hlo. fold (types_of rest) in Hlo.
    destruct (fst r) as [d0|] eqn:Ed; destruct (stream_type st) as [ty|] eqn:Et; try contradiction.
    + cbn [app length] in Hlo.
      unfold bind at 1 in E. destruct (w_patch (dir_base + DIRENT_SZ * idx) (enc_dirent d0) s1) as [[u s2]| |] eqn:E2; try discriminate.
      unfold bind at 1 in E. cbn [w_get] in E.
      assert (Hin : dir_base + DIRENT_SZ * idx + length (enc_dirent d0) <= length (w_buf s1)) by (rewrite enc_dirent_len; unfold blen, DIRENT_SZ in *; lia).
      unfold w_patch in E2. rewrite write_at_inside in E2 by exact Hin. injection E2 as _ Hs2.
      assert (Hb2 : w_buf s2 = update (w_buf s1) (dir_base + DIRENT_SZ * idx) (enc_dirent d0)) by (rewrite <- Hs2; reflexivity).
      assert (L2 : blen s2 = blen s1) by (unfold blen; rewrite Hb2; now apply update_length).
      destruct (IH (S idx) (snd r) (d0 :: acc) ((s2, d0 :: acc) :: (s1, acc) :: log) s2 res s' E Hs ltac:(unfold DIRENT_SZ in *; lia) ltac:(lia)) as (St2 & L3 & Hlog).
      assert (Hs1 : small (blen s1)) by (eapply small_le; [|exact Hs]; lia).
      assert (St01 : stable_from lo s s1) by (apply stable_of_frame; [exact L1|]; rewrite (K1 Hs1); reflexivity).
      assert (St12 : stable_from lo s1 s2).
      { eapply stable_of_patch; [| |exact Hb2]; rewrite enc_dirent_len; unfold blen, DIRENT_SZ in *; lia. }
      assert (St1 : stable_from lo s1 s') by (eapply stable_trans; [|exact St12|exact St2]; lia).
      split; [eapply stable_trans; [|exact St01|exact St1]; lia|]. split; [lia|].
      intros sn Hin'. destruct (Hlog sn Hin') as [Hl|Hr]; [|now right].
      cbn [rev] in Hl. rewrite <- app_assoc in Hl. apply in_app_or in Hl. destruct Hl as [Hl|Hl]; [now left|right].
      cbn [app] in Hl. destruct Hl as [<-|[<-|[]]]; cbn [fst]; [split; [exact St1|lia]|split; [exact St2|lia]].
    + cbn [app] in Hlo.
      destruct (IH idx (snd r) acc ((s1, acc) :: log) s1 res s' E Hs Hlo ltac:(lia)) as (St1 & L3 & Hlog).
      assert (Hs1 : small (blen s1)) by (eapply small_le; [|exact Hs]; lia).
      assert (St01 : stable_from lo s s1) by (apply stable_of_frame; [exact L1|]; rewrite (K1 Hs1); reflexivity).
      split; [eapply stable_trans; [|exact St01|exact St1]; lia|]. split; [lia|].
      intros sn Hin'. destruct (Hlog sn Hin') as [Hl|Hr]; [|now right].
      cbn [rev] in Hl. apply in_app_or in Hl. destruct Hl as [Hl|Hl]; [now left|right].
      destruct Hl as [<-|[]]. cbn [fst]. split; [exact St1|lia].
Qed.

(* for the whole image: every byte outside header and directory is final as soon as it has been built - at every boundary
   between two destination calls, what lies beyond byte 248 is already what the final image has there *)
Theorem image_flushed_bytes_final c dirs lg s' :
  image c empty_wst = Ok ((dirs, lg), s') -> small (blen s') ->
  forall sn, In sn lg -> stable_from (HEADER_SZ + DIRENT_SZ * NUM_DIRS) (fst sn) s' /\ blen (fst sn) <= blen s'.
Proof.
  intros E Hs sn Hin. rewrite image_eq in E.
  destruct (run_plan_stable c HEADER_SZ (HEADER_SZ + DIRENT_SZ * NUM_DIRS) (map fst stream_plan) 0 ([], CNone) [] [(head_state c, [])] (head_state c) (dirs, lg) s' E Hs)
    as (St0 & L0 & Hlog).
  - rewrite plan_types_are. vm_compute. lia.
  - rewrite head_state_len. vm_compute. lia.
  - destruct (Hlog sn Hin) as [Hl|Hr]; [|exact Hr].
    cbn [rev app] in Hl. destruct Hl as [<-|[]]. cbn [fst]. split; [exact St0|exact L0].
Qed.
Print Assumptions image_flushed_bytes_final.
