(* C03 (signals) and C04 (window) on the dumper's event trace. *)
From Coq Require Import List NArith Arith Lia Bool.
From MDW Require Import Ptrace PtraceProofs.
Import ListNotations.
Local Open Scope nat_scope.

(* ---- signals: what was seen while attaching is re-injected exactly once, in order; nothing else ---- *)
Definition reinjects (es : list ev) : list (nat * nat) :=
  flat_map (fun e => match e with Reinject t s => [(t, s)] | _ => [] end) es.
Definition seen (t : thr) : list (nat * nat) :=
  match t_kind t with AFail => [] | _ => map (fun s => (t_id t, s)) (t_sigs t) end.

Lemma delivered_fold es : forall k, delivered (fold_left kstep es k) = rev (reinjects es) ++ delivered k.
Proof.
  induction es as [|e r IH]; intro k; [reflexivity|]. cbn [fold_left]. rewrite IH.
  destruct e; cbn [reinjects flat_map kstep delivered app rev]; try reflexivity.
  rewrite <- app_assoc. reflexivity.
Qed.

Lemma reinjects_app a b : reinjects (a ++ b) = reinjects a ++ reinjects b.
Proof. unfold reinjects. apply flat_map_app. Qed.
Lemma reinjects_map_reinject t sigs : reinjects (map (Reinject t) sigs) = map (fun s => (t, s)) sigs.
Proof. induction sigs as [|s r IH]; [reflexivity|]. cbn [map reinjects flat_map app]. f_equal. exact IH. Qed.
Lemma reinjects_neutral_free es : (forall e, In e es -> match e with Reinject _ _ => False | _ => True end) -> reinjects es = [].
Proof.
  induction es as [|e r IH]; intro H; [reflexivity|]. cbn [reinjects flat_map].
  assert (He := H e (or_introl eq_refl)). destruct e; try contradiction; cbn [app]; apply IH; intros x Hx; apply H; now right.
Qed.

Lemma suspend_thread_reinjects t : reinjects (fst (suspend_thread t)) = seen t.
Proof.
  unfold suspend_thread, seen. destruct (t_kind t); cbn [fst]; rewrite ?reinjects_app, ?reinjects_map_reinject;
    cbn [reinjects flat_map app]; rewrite ?app_nil_r; reflexivity.
Qed.
Lemma suspend_threads_reinjects ts : reinjects (fst (suspend_threads ts)) = flat_map seen ts.
Proof.
  induction ts as [|t r IH]; [reflexivity|]. cbn [suspend_threads flat_map].
  pose proof (suspend_thread_reinjects t) as H1. destruct (suspend_thread t) as (e1, keep).
  destruct (suspend_threads r) as (e2, kept). cbn [fst] in *. rewrite reinjects_app, H1, IH. reflexivity.
Qed.
Lemma work_no_reinject kept reads : reinjects (work kept reads) = [].
Proof.
  apply reinjects_neutral_free. unfold work. intros e He. apply in_app_or in He. destruct He as [He|He].
  - apply in_map_iff in He. destruct He as (t & <- & _). exact I.
  - apply repeat_spec in He. subst. exact I.
Qed.
Lemma detaches_no_reinject kept : reinjects (map (fun t => Detach (t_id t)) kept) = [].
Proof. apply reinjects_neutral_free. intros e He. apply in_map_iff in He. destruct He as (t & <- & _). exact I. Qed.

Theorem signals_reinjected_once ts reads :
  delivered (final (run ts (Completes reads))) = rev (flat_map seen ts) /\
  delivered (final (run ts (AfterSuspend reads))) = rev (flat_map seen ts) /\
  delivered (final (run ts InitFails)) = [].
Proof.
  unfold final. rewrite !delivered_fold. cbn [delivered k0]. rewrite !app_nil_r.
  pose proof (suspend_threads_reinjects ts) as H. cbn [run]. destruct (suspend_threads ts) as (e, kept). cbn [fst] in H.
  repeat split.
  - rewrite !reinjects_app. cbn [resume_threads]. rewrite H, work_no_reinject, detaches_no_reinject.
    cbn [reinjects flat_map app]. rewrite !app_nil_r. reflexivity.
  - rewrite !reinjects_app. cbn [resume_threads]. rewrite H, work_no_reinject, detaches_no_reinject.
    cbn [reinjects flat_map app]. rewrite !app_nil_r. reflexivity.
Qed.

(* ---- window: all register / memory reads lie after every retained thread's attach and before any
        detach of a retained thread ---- *)
Lemma suspend_thread_kept t : snd (suspend_thread t) = true -> In (Attach (t_id t)) (fst (suspend_thread t)) /\ ~ In (Detach (t_id t)) (fst (suspend_thread t)).
Proof.
  unfold suspend_thread. destruct (t_kind t); cbn [fst snd]; intro H; try discriminate.
  split.
  - apply in_or_app. right. now left.
  - intro Hin. apply in_app_or in Hin. destruct Hin as [Hin|[Hin|[]]]; [|discriminate].
    apply in_map_iff in Hin. destruct Hin as (s & Hs & _). discriminate.
Qed.

Lemma suspend_thread_events_own t e : In e (fst (suspend_thread t)) ->
  match e with Attach x | Detach x | ReadRegs x | Reinject x _ => x = t_id t | _ => True end.
Proof.
  unfold suspend_thread. destruct (t_kind t); cbn [fst]; intro H; try destruct H;
    repeat (apply in_app_or in H; destruct H as [H|H]);
    try (apply in_map_iff in H; destruct H as (s & <- & _); reflexivity);
    repeat (destruct H as [<-|H]; [reflexivity|]); try destruct H.
Qed.

Theorem kept_attached_not_detached ts : NoDup (map t_id ts) ->
  forall t, In t (snd (suspend_threads ts)) ->
  In (Attach (t_id t)) (fst (suspend_threads ts)) /\ ~ In (Detach (t_id t)) (fst (suspend_threads ts)).
Proof.
  induction ts as [|a r IH]; intros Hnd t Hin; [destruct Hin|].
  cbn [suspend_threads] in *. inversion Hnd as [|? ? Hna Hr]; subst.
  pose proof (suspend_thread_kept a) as Hk. pose proof (suspend_thread_events_own a) as Hown.
  destruct (suspend_thread a) as (e1, keep) eqn:Ea. cbn [fst snd] in Hk, Hown.
  specialize (IH Hr). destruct (suspend_threads r) as (e2, kept) eqn:Er. cbn [fst snd] in *.
  assert (Hsub : forall x, In x kept -> In (t_id x) (map t_id r)).
  { clear -Er. revert e2 kept Er. induction r as [|b r IHr]; intros e2 kept Er x Hx; cbn [suspend_threads] in Er.
    - injection Er as <- <-. destruct Hx.
    - destruct (suspend_thread b) as (eb, kb). destruct (suspend_threads r) as (er, kr) eqn:E2. injection Er as <- <-.
      destruct kb; [destruct Hx as [<-|Hx]; [now left|]|]; right; eapply IHr; eauto. }
  destruct keep.
  - destruct Hin as [<-|Hin].
    + destruct (Hk eq_refl) as (H1 & H2). split; [apply in_or_app; now left|].
      intro Hd. apply in_app_or in Hd. destruct Hd as [Hd|Hd]; [contradiction|].
      (* a Detach of a's id inside the events of the remaining threads would belong to a thread with the same id *)
      assert (Hex : exists b, In b r /\ In (Detach (t_id a)) (fst (suspend_thread b))).
      { clear -Er Hd. revert e2 kept Er Hd. induction r as [|b r IHr]; intros e2 kept Er Hd; cbn [suspend_threads] in Er.
        - injection Er as <- <-. destruct Hd.
        - destruct (suspend_thread b) as (eb, kb) eqn:Eb. destruct (suspend_threads r) as (er, kr) eqn:E2. injection Er as <- <-.
          apply in_app_or in Hd. destruct Hd as [Hd|Hd].
          + exists b. split; [now left|]. rewrite Eb. exact Hd.
          + destruct (IHr _ _ eq_refl Hd) as (c & Hc & Hc2). exists c. split; [now right|exact Hc2]. }
      destruct Hex as (b & Hb & Hdb). pose proof (suspend_thread_events_own b _ Hdb) as Hid. cbn in Hid.
      apply Hna. rewrite Hid. apply in_map. exact Hb.
    + destruct (IH t Hin) as (H1 & H2). split; [apply in_or_app; now right|].
      intro Hd. apply in_app_or in Hd. destruct Hd as [Hd|Hd]; [|contradiction].
      pose proof (Hown _ Hd) as Hid. cbn in Hid. apply Hna. rewrite <- Hid. apply Hsub. exact Hin.
  - destruct (IH t Hin) as (H1 & H2). split; [apply in_or_app; now right|].
    intro Hd. apply in_app_or in Hd. destruct Hd as [Hd|Hd]; [|contradiction].
    pose proof (Hown _ Hd) as Hid. cbn in Hid. apply Hna. rewrite <- Hid. apply Hsub. exact Hin.
Qed.

(* the run: stop, attach phase, then ONLY reads, then the detaches of the retained threads, then SIGCONT *)
Theorem run_shape ts reads :
  let '(e, kept) := suspend_threads ts in
  run ts (Completes reads) = [SigStop] ++ e ++ work kept reads ++ map (fun t => Detach (t_id t)) kept ++ [SigCont]
  /\ forallb neutral (work kept reads) = true.
Proof.
  cbn [run]. destruct (suspend_threads ts) as (e, kept). split; [|apply work_neutral].
  cbn [resume_threads app]. reflexivity.
Qed.
