(* UTF-8 decoding of byte strings into Unicode scalar values (for names that reach string functions). *)
From Coq Require Import List NArith Arith Bool.
Import ListNotations.
Local Open Scope N_scope.

Definition cont (b : N) : bool := (0x80 <=? b) && (b <? 0xC0).
(* fuel = length of the input; None on malformed input (to_string_lossy would substitute U+FFFD) *)
Fixpoint utf8_decode (fuel : nat) (b : list N) : option (list N) :=
  match fuel with
  | O => match b with [] => Some [] | _ => None end
  | S f =>
      match b with
      | [] => Some []
      | x :: t =>
          if x <? 0x80 then option_map (cons x) (utf8_decode f t)
          else if (0xC2 <=? x) && (x <? 0xE0) then
            match t with
            | y :: t' => if cont y then option_map (cons ((x - 0xC0) * 64 + (y - 0x80))) (utf8_decode f t') else None
            | _ => None end
          else if (0xE0 <=? x) && (x <? 0xF0) then
            match t with
            | y :: z :: t' =>
                let c := (x - 0xE0) * 4096 + (y - 0x80) * 64 + (z - 0x80) in
                if cont y && cont z && (0x800 <=? c) && negb ((0xD800 <=? c) && (c <? 0xE000))
                then option_map (cons c) (utf8_decode f t') else None
            | _ => None end
          else if (0xF0 <=? x) && (x <? 0xF5) then
            match t with
            | y :: z :: w :: t' =>
                let c := (x - 0xF0) * 262144 + (y - 0x80) * 4096 + (z - 0x80) * 64 + (w - 0x80) in
                if cont y && cont z && cont w && (0x10000 <=? c) && (c <? 0x110000)
                then option_map (cons c) (utf8_decode f t') else None
            | _ => None end
          else None
      end
  end.
