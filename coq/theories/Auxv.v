(* C18 / C02 model: the auxiliary vector as the writer resolves it (src/linux/auxv): /proc/<pid>/auxv is a sequence of
   (key, value) pairs of native words, read until AT_NULL; of the four keys the writer needs, the FIRST occurrence counts; a value
   the caller supplied directly (non-zero) takes precedence, and the file is not consulted at all when all four were supplied.
   A file that ends before AT_NULL is reported (InvalidFormat) and what was read up to there still counts.  Definitions only. *)
From Coq Require Import List NArith Arith Bool.
From MDW Require Import Bytes.
Import ListNotations.
Local Open Scope N_scope.

Definition AT_NULL : N := 0.  Definition AT_PHDR : N := 3.  Definition AT_PHNUM : N := 5.
Definition AT_ENTRY : N := 9. Definition AT_SYSINFO_EHDR : N := 33.

(* pairs up to AT_NULL; the flag says whether the end of the file was hit first (a trailing partial pair counts as that) *)
Fixpoint parse_pairs (fuel : nat) (b : bytes) : list (N * N) * bool :=
  match fuel with
  | O => ([], true)
  | S f =>
      if (length b <? 16)%nat then ([], true)
      else
        let k := unle (firstn 8 b) in let v := unle (firstn 8 (skipn 8 b)) in
        if k =? AT_NULL then ([], false)
        else let '(ps, eof) := parse_pairs f (skipn 16 b) in ((k, v) :: ps, eof)
  end.
Definition parse (b : bytes) : list (N * N) * bool := parse_pairs (S (length b / 16)) b.

Definition first_of (key : N) (ps : list (N * N)) : option N := option_map snd (find (fun p => fst p =? key) ps).
Definition supplied (v : N) : option N := if v =? 0 then None else Some v.
Definition pick (direct : option N) (key : N) (ps : list (N * N)) : option N :=
  match direct with Some v => Some v | None => first_of key ps end.

Record resolved := { r_phnum : option N; r_phdr : option N; r_gate : option N; r_entry : option N; r_invalid : bool }.
(* direct values: (phnum, phdr, gate, entry), 0 = not supplied; file = content of /proc/<pid>/auxv (None: cannot be opened) *)
Definition resolve (d_phnum d_phdr d_gate d_entry : N) (file : option bytes) : resolved :=
  let dn := supplied d_phnum in let dp := supplied d_phdr in let dg := supplied d_gate in let de := supplied d_entry in
  match dn, dp, dg, de, file with
  | Some _, Some _, Some _, Some _, _ => {| r_phnum := dn; r_phdr := dp; r_gate := dg; r_entry := de; r_invalid := false |}
  | _, _, _, _, None => {| r_phnum := dn; r_phdr := dp; r_gate := dg; r_entry := de; r_invalid := false |}
  | _, _, _, _, Some b =>
      let '(ps, eof) := parse b in
      {| r_phnum := pick dn AT_PHNUM ps; r_phdr := pick dp AT_PHDR ps; r_gate := pick dg AT_SYSINFO_EHDR ps; r_entry := pick de AT_ENTRY ps;
         r_invalid := eof |}
  end.
