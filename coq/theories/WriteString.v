From Coq Require Import List NArith ZArith Arith Lia Bool ZifyNat ZifyN ZifyBool.
From MDW Require Import Bytes MemWriter FillArray Text ThreadNames.
Import ListNotations.
Open Scope nat_scope.

(* write_string_to_location as the code does it: header via alloc_with_val, a zeroed u16 array,
   then set_value_at for each code unit *)
Definition emit_unit (u : N) (_ : nat) : bytes * bytes := ([], le 2 u).
Definition write_string (buf : bytes) (s : list N) : outcome (bytes * loc) :=
  let units := utf16 s in
  let n := length units in
  let buf1 := buf ++ le 4 (2 * N.of_nat n) in                 (* alloc_with_val: appended *)
  let buf2 := buf1 ++ repeat 0%N (2 * n) in                    (* alloc_array *)
  match fill_loop _ 2 emit_unit (length buf1) units buf2 0 with
  | Ok b => Ok (b, {| l_rva := u32 (length buf); l_size := N.of_nat (4 + 2 * n) |})
  | Err => Err | Panic => Panic
  end.

Lemma emit_unit_size u p : length (snd (emit_unit u p)) = 2.
Proof. unfold emit_unit. cbn [snd]. apply le_length. Qed.

(* C16, strings: the net effect is exactly one appended MINIDUMP string, located where it starts *)
Theorem write_string_closed buf s :
  write_string buf s = Ok (buf ++ md_string s, {| l_rva := u32 (length buf); l_size := N.of_nat (length (md_string s)) |}).
Proof.
  unfold write_string. set (units := utf16 s). set (n := length units).
  rewrite (fill_loop_closed _ 2 emit_unit emit_unit_size).
  2:{ rewrite !app_length, le_length, repeat_length. fold n. lia. }
  cbv zeta.
  assert (Hsnd : forall l p, map snd (emitted _ emit_unit l p) = map (le 2) l).
  { induction l as [|x l IH]; intro p; cbn [emitted map]; [reflexivity|]. cbn [emit_unit fst snd length]. f_equal. apply IH. }
  assert (Hfst : forall l p, concat (map fst (emitted _ emit_unit l p)) = []).
  { induction l as [|x l IH]; intro p; cbn [emitted map concat]; [reflexivity|]. cbn [emit_unit fst app]. apply IH. }
  rewrite Hsnd, Hfst, app_nil_r.
  replace (2 * n) with (2 * length (map (le 2) units)) by (rewrite map_length; reflexivity).
  rewrite <- (app_nil_r (repeat 0%N (2 * length (map (le 2) units)))).
  rewrite fill_slots_concat.
  - rewrite app_nil_r. rewrite md_string_length. fold units. fold n.
    assert (E1 : buf ++ le 4 (2 * N.of_nat n) ++ concat (map (le 2) units) = buf ++ md_string s).
    { unfold md_string. fold units. fold n. now rewrite flat_map_concat_map. }
    rewrite <- app_assoc. rewrite E1. rewrite map_length. reflexivity.
  - apply Forall_forall. intros e He. apply in_map_iff in He. destruct He as (u & <- & _). apply le_length.
Qed.
Print Assumptions write_string_closed.
