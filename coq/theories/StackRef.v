From Coq Require Import List NArith ZArith Arith Lia Bool ZifyNat ZifyN ZifyBool.
From MDW Require Import Bytes.
Import ListNotations.
Open Scope nat_scope.
Ltac Zify.zify_post_hook ::= Z.to_euclidean_division_equations.

(* MappingInfo::stack_has_pointer_to_mapping over a stack copy.
   incl_end = true is the unchanged code (addr <= high_addr), false the repaired half-open test. *)
Definition in_range (incl_end : bool) (lo hi a : N) : bool :=
  (lo <=? a)%N && (if incl_end then (a <=? hi)%N else (a <? hi)%N).

Definition word_at (b : bytes) (off : nat) : N := unle (slice b off 8).

(* the loop `while offset <= len - 8 { ...; offset += 8 }`, by recursion on the number of words left *)
Fixpoint scan (incl_end : bool) (lo hi : N) (b : bytes) (off : nat) (count : nat) : bool :=
  match count with
  | O => false
  | S c => in_range incl_end lo hi (word_at b off) || scan incl_end lo hi b (off + 8) c
  end.

Definition roundup8 (n : nat) : nat := (n + 7) / 8 * 8.

Inductive outcome (A : Type) := Ok (a : A) | Panic.
Arguments Ok {A} _. Arguments Panic {A}.

(* debug profile of the unchanged code: `len - 8` traps when len < 8 *)
Definition has_pointer (guard_short incl_end : bool) (lo hi : N) (b : bytes) (sp_off : nat) : outcome bool :=
  if length b <? 8 then (if guard_short then Ok false else Panic)
  else
    let off := roundup8 sp_off in
    (* number of iterations: offsets off, off+8, ... <= len-8 *)
    let count := if off <=? length b - 8 then (length b - 8 - off) / 8 + 1 else 0 in
    Ok (scan incl_end lo hi b off count).

Lemma scan_spec incl lo hi b : forall count off,
  scan incl lo hi b off count = true <->
  exists k, k < count /\ in_range incl lo hi (word_at b (off + 8 * k)) = true.
Proof.
  induction count as [|c IH]; intro off; cbn [scan].
  - split; [discriminate|]. intros (k & Hk & _). lia.
  - rewrite orb_true_iff, IH. split.
    + intros [H|(k & Hk & H)].
      * exists 0. split; [lia|]. now rewrite Nat.mul_0_r, Nat.add_0_r.
      * exists (S k). split; [lia|]. now replace (off + 8 * S k) with (off + 8 + 8 * k) by lia.
    + intros (k & Hk & H). destruct k as [|k].
      * left. now rewrite Nat.mul_0_r, Nat.add_0_r in H.
      * right. exists k. split; [lia|]. now replace (off + 8 + 8 * k) with (off + 8 * S k) by lia.
Qed.

(* C20, scan half: true iff some pointer-aligned whole word at or above the stack pointer is in [lo,hi) *)
Theorem has_pointer_iff lo hi b sp_off :
  8 <= length b ->
  has_pointer true false lo hi b sp_off = Ok true <->
  exists o, roundup8 sp_off <= o /\ (o - roundup8 sp_off) mod 8 = 0 /\ o + 8 <= length b /\
            (lo <= word_at b o < hi)%N.
Proof.
  intro Hlen. unfold has_pointer. replace (length b <? 8) with false by (symmetry; apply Nat.ltb_ge; lia).
  set (off := roundup8 sp_off).
  split.
  - intro H. injection H as H. apply scan_spec in H. destruct H as (k & Hk & Hin).
    destruct (off <=? length b - 8) eqn:E; [|lia]. apply Nat.leb_le in E.
    exists (off + 8 * k). split; [lia|]. split.
    + replace (off + 8 * k - off) with (k * 8) by lia. apply Nat.mod_mul. lia.
    + split.
      * change (fst (Nat.divmod (length b - 8 - off) 7 0 7)) with ((length b - 8 - off) / 8) in Hk. lia.
      * unfold in_range in Hin. apply andb_prop in Hin. destruct Hin as (H1 & H2).
        apply N.leb_le in H1. apply N.ltb_lt in H2. lia.
  - intros (o & Ho1 & Hmod & Ho2 & Hlo & Hhi). f_equal. apply scan_spec.
    assert (E : off <= length b - 8) by lia. apply Nat.leb_le in E as E'. rewrite E'.
    exists ((o - off) / 8). split.
    + lia.
    + assert (Hd : 8 * ((o - off) / 8) = o - off) by lia.
      replace (off + 8 * ((o - off) / 8)) with o by lia.
      unfold in_range. apply andb_true_iff. split; [apply N.leb_le|apply N.ltb_lt]; lia.
Qed.
Print Assumptions has_pointer_iff.

(* unchanged code: one-past-the-end counts, and short copies trap *)
Example end_counts_as_inside : has_pointer false true 0x1000 0x2000 (le 8 0x2000) 0 = Ok true.
Proof. vm_compute. reflexivity. Qed.
Example short_copy_traps : has_pointer false true 0x1000 0x2000 [0;0;0;0]%N 0 = Panic.
Proof. vm_compute. reflexivity. Qed.
