(* C01 / C02 for the WHOLE image model (all section writers, in the order of the regenerated stream plan):
   for every content, the image is built without error or panic; the ghost object map tiles it; every stored location
   designates an object of its kind and exact length; every directory entry handed to the directory section is unused or
   has the planned stream type and spans exactly the stream's objects. *)
From Coq Require Import List NArith ZArith Arith Lia Bool ZifyNat ZifyN ZifyBool.
From MDW Require Import Bytes MemWriter Writer Hoare Text MiniDump MiniDumpProofs WComb WCombProofs MemInfo GenTypes Generated PlanProofs Image.
Import ListNotations.
Local Open Scope nat_scope.

(* ---------- what a directory entry must designate ---------- *)
Definition ext (objs : list obj) (l : loc) : Prop :=
  exists o1, In o1 objs /\ u32 (o_rva o1) = l_rva l /\
    (N.of_nat (o_len o1) = l_size l \/
     exists o2, In o2 objs /\ o_rva o2 = o_rva o1 + o_len o1 /\ (N.of_nat (o_len o1) + N.of_nat (o_len o2))%N = l_size l).
Definition stream_ok (ty : N) (objs : list obj) (d : dirent) : Prop :=
  d = zero_dirent \/ (fst d = ty /\ ext objs (snd d)).

Lemma ext_mono objs objs' l : (forall o, In o objs -> In o objs') -> ext objs l -> ext objs' l.
Proof.
  intros H (o1 & Hin & Hr & Hs). exists o1. split; [auto|]. split; [exact Hr|].
  destruct Hs as [Hs|(o2 & Hin2 & Ha & Hs)]; [now left|right]. exists o2. auto.
Qed.
Lemma stream_ok_mono ty s s' d : grows s s' -> stream_ok ty (w_objs s) d -> stream_ok ty (w_objs s') d.
Proof. intros Hg [H|(Ht & He)]; [now left|right]. split; [exact Ht|]. eapply ext_mono; [|exact He]. intros o. now apply grows_in. Qed.

Definition dpost (ty : N) : wst -> dirent -> wst -> Prop := fun _ d s' => stream_ok ty (w_objs s') d.

(* ---------- composition rules with post-conditions on the result and the final state ---------- *)
Lemma goodq_bind_l {A B} K (m : W A) (f : A -> W B) (Q2 : B -> wst -> Prop) :
  good K m -> (forall a, goodq K (f a) (fun _ b s' => Q2 b s')) -> goodq K (bind m f) (fun _ b s' => Q2 b s').
Proof.
  intros Hm Hf s HI Hb. destruct (Hm s HI Hb) as (a & s1 & E1 & HI1 & Hg1 & _).
  assert (Hb1 : K <= blen s1) by (destruct Hg1; lia).
  destruct (Hf a s1 HI1 Hb1) as (b & s2 & E2 & HI2 & Hg2 & Hq).
  exists b, s2. unfold bind. rewrite E1. split; [exact E2|]. split; [exact HI2|]. split; [eapply grows_trans; eauto|exact Hq].
Qed.
Lemma goodq_then_ret {A B} K (m : W A) (g : A -> B) (Q : wst -> A -> wst -> Prop) (Q' : wst -> B -> wst -> Prop) :
  goodq K m Q -> (forall s r s', Inv s' -> Q s r s' -> Q' s (g r) s') -> goodq K (bind m (fun r => ret (g r))) Q'.
Proof.
  intros Hm HQ s HI Hb. destruct (Hm s HI Hb) as (a & s1 & E1 & HI1 & Hg1 & Hq).
  exists (g a), s1. unfold bind. rewrite E1. split; [reflexivity|]. split; [exact HI1|]. split; [exact Hg1|now apply HQ].
Qed.

Lemma span_stream_ok size ty (hdr : bytes) n s (d : dirent) s' :
  d = (ty, {| l_rva := u32 (blen s); l_size := (N.of_nat (length hdr) + N.of_nat (size * n))%N |}) ->
  In {| o_kind := KStreamHdr ty; o_rva := blen s; o_len := length hdr |} (w_objs s') ->
  In {| o_kind := KArray ty; o_rva := blen s + length hdr; o_len := size * n |} (w_objs s') ->
  stream_ok ty (w_objs s') d.
Proof.
  intros -> H1 H2. right. split; [reflexivity|]. eexists. split; [exact H1|]. split; [reflexivity|].
  right. eexists. split; [exact H2|]. split; reflexivity.
Qed.
Lemma single_stream_ok ty k v s l s' : new_obj k v s l s' -> stream_ok ty (w_objs s') (ty, l).
Proof.
  intros (-> & Ho & _). right. split; [reflexivity|]. eexists. split; [rewrite Ho; now left|]. split; [reflexivity|now left].
Qed.

(* ---------- every item body only appends blobs ---------- *)
Lemma good_pos K : good K w_pos. Proof. eapply good_of_goodq, goodq_pos. Qed.
Lemma good_string K s : good K (w_string s). Proof. apply good_blob. Qed.

Ltac gd :=
  repeat first
    [ apply good_ret | apply good_blob | apply good_string | apply good_alloc | apply good_pos
    | apply good_bind; [|intros ?]
    | match goal with
      | |- good _ (match ?x with _ => _ end) => destruct x
      | |- good _ (if ?x then _ else _) => destruct x
      end ].

Lemma thread_body_good c t st : good 0 (thread_body c t st).
Proof. unfold thread_body. gd. Qed.
Lemma module_body_good m u : good 0 (module_body m u).
Proof. unfold module_body. gd. Qed.
Lemma keep_good {R} (r : R) u : good 0 (keep r u).
Proof. apply good_ret. Qed.
Lemma link_body_good l u : good 0 (link_body l u).
Proof. unfold link_body. gd. Qed.
Lemma name_body_good t u : good 0 (name_body t u).
Proof. unfold name_body. gd. Qed.
Lemma handle_body_good h u : good 0 (handle_body h u).
Proof. unfold handle_body. gd. Qed.

(* ---------- record sizes ---------- *)
Lemma enc_loc_len l : length (enc_loc l) = 8. Proof. unfold enc_loc. now rewrite app_length, !le_length. Qed.
Lemma enc_memdesc_len d : length (enc_memdesc d) = MEMDESC_SZ. Proof. unfold enc_memdesc. now rewrite app_length, le_length, enc_loc_len. Qed.
Lemma enc_thread3_len r : length (enc_thread3 r) = THREAD_SZ. Proof. destruct r as ((tid, d), c). apply enc_thread_len. Qed.
Lemma enc_version_len v : length (enc_version v) = 52.
Proof. destruct v as [(((a, b), c), d)|]; cbn [enc_version]; [now rewrite !app_length, !le_length, repeat_length|apply repeat_length]. Qed.
Lemma enc_module_len r : length (enc_module r) = MODULE_SZ.
Proof. destruct r as ((m, cv), nm). unfold enc_module. now rewrite !app_length, !le_length, !enc_loc_len, enc_version_len. Qed.
Lemma enc_meminfo_len m : length (enc_meminfo m) = MEMINFO_SZ. Proof. unfold enc_meminfo. now rewrite !app_length, !le_length. Qed.
Lemma enc_name_len r : length (enc_name r) = NAME_SZ. Proof. unfold enc_name. now rewrite app_length, !le_length. Qed.
Lemma enc_handle_len r : length (enc_handle r) = HANDLE_SZ. Proof. unfold enc_handle. now rewrite !app_length, !le_length. Qed.
Lemma enc_link_len r : length (enc_link r) = LINK_SZ. Proof. unfold enc_link. now rewrite !app_length, !le_length. Qed.
Lemma enc_dirent_len d : length (enc_dirent d) = DIRENT_SZ. Proof. unfold enc_dirent. now rewrite app_length, le_length, enc_loc_len. Qed.
Lemma enc_sysinfo_len raw l : length (enc_sysinfo raw l) = SYSINFO_SZ.
Proof.
  unfold enc_sysinfo, SYSINFO_SZ. rewrite !app_length, le_length, !firstn_length, skipn_length, app_length, repeat_length. lia.
Qed.
Lemma enc_header_len t d : length (enc_header t d) = HEADER_SZ. Proof. unfold enc_header. now rewrite !app_length, !le_length. Qed.

(* ---------- the sections ---------- *)
Lemma sec_thread_list_ok K c st :
  goodq K (sec_thread_list c st) (fun _ r s' => stream_ok T_THREADS (w_objs s') (fst r)).
Proof.
  unfold sec_thread_list. eapply goodq_weaken; [reflexivity| |apply (goodq_span_array _ _ _ enc_thread3_len (thread_body_good c))].
  intros s r s' _ _ _ (Hr & H1 & H2). eapply span_stream_ok; eauto.
Qed.

Lemma span_then_fst_ok {X R} K size (enc : R -> bytes) (body : X -> unit -> W (R * unit)) exact ty hdr xs :
  (forall r, length (enc r) = size) -> (forall x u, good 0 (body x u)) ->
  goodq K (r <- w_span_array size enc body exact ty hdr xs tt ;; ret (fst r)) (dpost ty).
Proof.
  intros He Hb. eapply goodq_then_ret; [apply (goodq_span_array _ _ _ He Hb)|].
  intros s r s' _ (Hr & H1 & H2). eapply span_stream_ok; eauto.
Qed.

Lemma sec_modules_ok K c : goodq K (sec_modules c) (dpost T_MODULES).
Proof.
  unfold sec_modules. apply goodq_bind_l; [apply good_collect, module_body_good|]. intro rs.
  apply span_then_fst_ok; [apply enc_module_len|intros; apply keep_good].
Qed.
Lemma sec_memory_list_ok K blocks : goodq K (sec_memory_list blocks) (dpost T_MEMLIST).
Proof. unfold sec_memory_list. apply span_then_fst_ok; [apply enc_memdesc_len|intros; apply keep_good]. Qed.
Lemma sec_meminfo_ok K c : goodq K (sec_meminfo c) (dpost T_MEMINFO).
Proof. unfold sec_meminfo. apply span_then_fst_ok; [apply enc_meminfo_len|intros; apply keep_good]. Qed.
Lemma sec_names_ok K c : goodq K (sec_names c) (dpost T_NAMES).
Proof. unfold sec_names. apply span_then_fst_ok; [apply enc_name_len|apply name_body_good]. Qed.
Lemma sec_handles_ok K c : goodq K (sec_handles c) (dpost T_HANDLES).
Proof.
  unfold sec_handles. apply goodq_bind_l; [apply good_collect, handle_body_good|]. intro rs.
  apply span_then_fst_ok; [apply enc_handle_len|intros; apply keep_good].
Qed.

Lemma sec_app_memory_good K regions : forall blocks, good K (sec_app_memory regions blocks).
Proof. induction regions as [|(p, bs) r IH]; intro blocks; cbn [sec_app_memory]; [apply good_ret|]. apply good_bind; [apply good_blob|]. intro l. apply IH. Qed.

Lemma sec_exception_ok K c cc : goodq K (sec_exception c cc) (dpost T_EXC).
Proof.
  unfold sec_exception. destruct (match ic_crash c with Some _ => _ | None => _ end) as ((code, flags), addr).
  eapply (goodq_then_ret K _ (fun l => (T_EXC, l))); [apply goodq_alloc|]. intros s l s' _ H. eapply single_stream_ok; eauto.
Qed.

Lemma sec_sysinfo_ok K c : goodq K (sec_sysinfo c) (dpost T_SYSINFO).
Proof.
  unfold sec_sysinfo. eapply (goodq_then_ret K _ (fun l => (T_SYSINFO, l))).
  - apply goodq_slot; [intro; apply enc_sysinfo_len|apply good_string].
  - intros s l s' _ (-> & Hin). right. split; [reflexivity|]. eexists. split; [exact Hin|]. split; [reflexivity|now left].
Qed.

Lemma sec_raw_ok K ty content : goodq K (sec_raw ty content) (dpost ty).
Proof.
  unfold sec_raw. destruct content as [bs|].
  - eapply (goodq_then_ret K _ (fun l => (ty, l))); [apply goodq_alloc|]. intros s l s' _ H. eapply single_stream_ok; eauto.
  - apply goodq_ret. intros s _. now left.
Qed.

Lemma sec_dso_ok K c : goodq K (sec_dso c) (dpost T_DSO).
Proof.
  unfold sec_dso. destruct (ic_dso c) as [version brk ldbase dynamic links dyn|orphan].
  - apply goodq_bind_l.
    + destruct links as [|l0 lr]; [apply good_ret|].
      intros s HI Hb.
      destruct (goodq_array LINK_SZ enc_link link_body enc_link_len link_body_good K false (KArray T_DSO) (l0 :: lr) tt s HI Hb)
        as (a & s1 & E1 & HI1 & Hg1 & (Ha & Hin1)).
      unfold bind at 1. rewrite E1.
      destruct (good_ref_existing K (KArray T_DSO) (fst a) s1 HI1 ltac:(destruct Hg1; lia)) as (s2 & E2 & HI2 & Hg2 & _).
      { eexists. split; [exact Hin1|]. rewrite Ha. cbn. auto. }
      unfold bind. rewrite E2. eexists _, s2. split; [reflexivity|]. split; [exact HI2|]. split; [eapply grows_trans; eauto|exact I].
    + intro map_rva. intros s HI Hb.
      destruct (goodq_alloc K (KStreamHdr T_DSO) (enc_debug version map_rva (N.of_nat (length links)) brk ldbase dynamic) s HI Hb)
        as (h & s1 & E1 & HI1 & Hg1 & (Hh & Ho1 & Hl1)).
      unfold bind at 1. rewrite E1.
      destruct (goodq_alloc K (KArray 0) dyn s1 HI1 ltac:(destruct Hg1; lia)) as (d & s2 & E2 & HI2 & Hg2 & (Hd & Ho2 & Hl2)).
      unfold bind. rewrite E2. eexists _, s2. split; [reflexivity|]. split; [exact HI2|]. split; [eapply grows_trans; eauto|].
      right. split; [reflexivity|]. unfold span. cbn [snd]. rewrite Hh, Hd. cbn [l_rva l_size].
      eexists. split; [rewrite Ho2; right; rewrite Ho1; now left|]. split; [reflexivity|]. right.
      eexists. split; [rewrite Ho2; now left|]. cbn [o_rva o_len]. split; [lia|reflexivity].
  - apply goodq_bind_l; [apply good_alloc|]. intros _. apply goodq_ret. intros s _. now left.
Qed.

(* ---------- one step of the plan ---------- *)
Definition step_post (st : step) (r : option dirent * dstate) (s' : wst) : Prop :=
  match fst r, stream_type st with
  | Some d, Some ty => stream_ok ty (w_objs s') d
  | None, None => True
  | _, _ => False
  end.

Lemma run_step_ok K c st ds : goodq K (run_step c st ds) (fun _ r s' => step_post st r s').
Proof.
  destruct st; cbn [run_step raw_type stream_type];
    try (eapply (goodq_then_ret K _ (fun d => (Some d, ds))); [first [apply sec_modules_ok | apply sec_memory_list_ok | apply sec_exception_ok
          | apply sec_sysinfo_ok | apply sec_meminfo_ok | apply sec_raw_ok | apply sec_dso_ok | apply sec_names_ok | apply sec_handles_ok]|];
         intros s r s' _ H; exact H).
  - eapply (goodq_then_ret K _ (fun r => (Some (fst r), snd r))); [apply sec_thread_list_ok|]. intros s r s' _ H. exact H.
  - eapply (goodq_then_ret K _ (fun b => (None, (b, snd ds)))); [eapply goodq_weaken; [reflexivity| |apply sec_app_memory_good]|]; intros; exact I.
  - apply goodq_ret. intros; exact I.
Qed.

Lemma Forall2_rev' {A B} (P : A -> B -> Prop) l1 l2 : Forall2 P l1 l2 -> Forall2 P (rev l1) (rev l2).
Proof. induction 1 as [|a b l1 l2 H H' IH]; cbn [rev]; [constructor|]. apply Forall2_app; [exact IH|repeat constructor; exact H]. Qed.
Lemma Forall2_impl' {A B} (P Q : A -> B -> Prop) l1 l2 : (forall a b, P a b -> Q a b) -> Forall2 P l1 l2 -> Forall2 Q l1 l2.
Proof. intros H. induction 1; constructor; auto. Qed.

(* ---------- the plan: entries are patched into consecutive directory slots ---------- *)
Definition types_of (plan : list step) : list N := flat_map (fun s => match stream_type s with Some t => [t] | None => [] end) plan.

(* what holds at every boundary between two destination calls: the builder invariant (so every location stored so far
   designates an object already built) and every entry handed over so far spans objects already built *)
Definition snap_ok (sn : snap) : Prop :=
  Inv (fst sn) /\ Forall (fun d => exists ty, stream_ok ty (w_objs (fst sn)) d) (snd sn).

Lemma goodq_get K : goodq K w_get (fun s r s' => r = s /\ s' = s).
Proof. intros s HI _. exists s, s. split; [reflexivity|]. split; [exact HI|]. split; [apply grows_refl|auto]. Qed.

Lemma dirs_any s acc tys : Forall2 (fun d ty => stream_ok ty (w_objs s) d) acc tys -> Forall (fun d => exists ty, stream_ok ty (w_objs s) d) acc.
Proof. induction 1; constructor; eauto. Qed.

Lemma run_plan_ok c dir_base : forall plan idx ds acc log tys K,
  dir_base + DIRENT_SZ * (idx + length (types_of plan)) <= K ->
  goodq K (run_plan c dir_base plan idx ds acc log)
    (fun s r s' => Forall2 (fun d ty => stream_ok ty (w_objs s) d) acc tys ->
                   Forall snap_ok log ->
                   Forall2 (fun d ty => stream_ok ty (w_objs s') d) (fst r) (rev tys ++ types_of plan) /\
                   Forall snap_ok (snd r)).
Proof.
  induction plan as [|st rest IH]; intros idx ds acc log tys K Hb; cbn [run_plan].
  - apply goodq_ret. intros s _ H Hlog. cbn [types_of flat_map fst snd]. rewrite app_nil_r. split; [now apply Forall2_rev'|].
    apply Forall_rev. exact Hlog.
  - intros s HI HK. destruct (run_step_ok K c st ds s HI HK) as (r & s1 & E1 & HI1 & Hg1 & Hp).
    unfold bind at 1. rewrite E1. unfold step_post in Hp. unfold bind at 1. cbn [w_get].
    assert (HK1 : K <= blen s1) by (destruct Hg1; lia).
    cbn [types_of flat_map] in Hb |- *. fold (types_of rest) in Hb |- *.
    destruct (fst r) as [d|] eqn:Ed; destruct (stream_type st) as [ty|] eqn:Et; try contradiction.
    + cbn [app length] in Hb.
      destruct (goodq_patch K (dir_base + DIRENT_SZ * idx) (enc_dirent d) ltac:(rewrite enc_dirent_len; unfold DIRENT_SZ in *; lia) s1 HI1 HK1)
        as (u & s2 & E2 & HI2 & Hg2 & (Hl2 & Ho2)).
      unfold bind at 1. rewrite E2. unfold bind at 1. cbn [w_get].
      destruct (IH (S idx) (snd r) (d :: acc) ((s2, d :: acc) :: (s1, acc) :: log) (ty :: tys) K ltac:(lia) s2 HI2 ltac:(lia)) as (res & s3 & E3 & HI3 & Hg3 & Hq).
      exists res, s3. split; [exact E3|]. split; [exact HI3|]. split; [eapply grows_trans; [exact Hg1|eapply grows_trans; eauto]|].
      intros Hacc Hlog. cbn [app]. replace (rev tys ++ ty :: types_of rest) with (rev (ty :: tys) ++ types_of rest) by (cbn [rev]; now rewrite <- app_assoc).
      assert (Hacc1 : Forall2 (fun d0 t0 => stream_ok t0 (w_objs s1) d0) acc tys).
      { eapply Forall2_impl'; [|exact Hacc]. intros d0 t0 H0. eapply stream_ok_mono; eauto. }
      assert (Hacc2 : Forall2 (fun d0 t0 => stream_ok t0 (w_objs s2) d0) (d :: acc) (ty :: tys)).
      { constructor; [rewrite Ho2; exact Hp|]. rewrite Ho2. exact Hacc1. }
      apply Hq; [exact Hacc2|].
      constructor; [split; [exact HI2|eapply dirs_any; exact Hacc2]|].
      constructor; [split; [exact HI1|eapply dirs_any; exact Hacc1]|exact Hlog].
    + cbn [app] in Hb |- *.
      destruct (IH idx (snd r) acc ((s1, acc) :: log) tys K Hb s1 HI1 HK1) as (res & s3 & E3 & HI3 & Hg3 & Hq).
      exists res, s3. split; [exact E3|]. split; [exact HI3|]. split; [eapply grows_trans; eauto|].
      intros Hacc Hlog.
      assert (Hacc1 : Forall2 (fun d0 t0 => stream_ok t0 (w_objs s1) d0) acc tys).
      { eapply Forall2_impl'; [|exact Hacc]. intros d0 t0 H0. eapply stream_ok_mono; eauto. }
      apply Hq; [exact Hacc1|]. constructor; [split; [exact HI1|eapply dirs_any; exact Hacc1]|exact Hlog].
Qed.

(* ---------- the whole image ---------- *)
Lemma plan_types_are : types_of (map fst stream_plan) = plan_types.
Proof. reflexivity. Qed.

(* the state after the header has been written: header object, directory object, 248 bytes *)
Definition head_state (c : content) : wst :=
  {| w_buf := update (repeat 0%N HEADER_SZ ++ repeat 0%N (DIRENT_SZ * NUM_DIRS)) 0 (enc_header (ic_time c) 32%N);
     w_objs := [{| o_kind := KDirectory; o_rva := HEADER_SZ; o_len := DIRENT_SZ * NUM_DIRS |}; {| o_kind := KHeader; o_rva := 0; o_len := HEADER_SZ |}];
     w_refs := [] |}.
Lemma image_head_eq c : image_head c empty_wst = Ok (HEADER_SZ, head_state c).
Proof. reflexivity. Qed.
Lemma head_state_len c : blen (head_state c) = 248.
Proof. unfold blen, head_state. cbn [w_buf]. rewrite update_length; rewrite ?enc_header_len, ?app_length, ?repeat_length; [reflexivity|unfold HEADER_SZ; cbn; lia]. Qed.
Lemma head_state_inv c : Inv (head_state c).
Proof.
  pose proof (head_state_len c) as HL. unfold blen in HL.
  constructor; [|constructor]. cbn [tiled]. rewrite HL. cbn. repeat split.
Qed.

Theorem image_sound c :
  exists r s', image c empty_wst = Ok (r, s') /\ Inv s' /\
    Forall2 (fun d ty => stream_ok ty (w_objs s') d) (fst r) plan_types /\
    In {| o_kind := KHeader; o_rva := 0; o_len := HEADER_SZ |} (w_objs s') /\
    In {| o_kind := KDirectory; o_rva := HEADER_SZ; o_len := DIRENT_SZ * NUM_DIRS |} (w_objs s') /\
    Forall snap_ok (snd r).
Proof.
  unfold image. unfold bind at 1. rewrite image_head_eq. unfold bind at 1. cbn [w_get].
  pose proof (head_state_inv c) as HI3. pose proof (head_state_len c) as Hl3.
  destruct (run_plan_ok c HEADER_SZ (map fst stream_plan) 0 ([], CNone) [] [(head_state c, [])] [] (blen (head_state c))
              ltac:(rewrite Hl3, plan_types_are; vm_compute; lia) (head_state c) HI3 (le_n _)) as (res & s4 & E4 & HI4 & Hg4 & Hq).
  exists res, s4. split; [exact E4|]. split; [exact HI4|].
  rewrite plan_types_are in Hq. destruct Hq as (Hq1 & Hq2); [constructor|constructor; [split; [exact HI3|constructor]|constructor]|].
  split; [exact Hq1|]. split; [|split; [|exact Hq2]].
  - eapply grows_in; [exact Hg4|]. right. now left.
  - eapply grows_in; [exact Hg4|]. now left.
Qed.
Print Assumptions image_sound.

(* the image model never fails and never panics, whatever the content (C02 for the composed layout) *)
Corollary image_total c : exists r s', image c empty_wst = Ok (r, s').
Proof. destruct (image_sound c) as (d & s & E & _). eauto. Qed.

(* non-vacuity: a content with a thread, a module, a failed file copy *)
Example image_example :
  exists b, image_bytes {| ic_time := 7; ic_threads := [{| it_tid := 5; it_sp := 4096; it_stack := Some (4096%N, [1;2;3]%N); it_ipwin := None; it_ctx := [9]%N |}];
     ic_blamed := 5; ic_crash := None; ic_modules := [{| im_base := 1; im_size := 2; im_id := [1]%N; im_name := [97]%N; im_ver := None |}]; ic_app := [];
     ic_sysinfo := []; ic_osver := []; ic_meminfo := []; ic_cpuinfo := None; ic_status := Some [1]%N; ic_lsb := None; ic_cmdline := None;
     ic_environ := None; ic_auxv := None; ic_maps := None; ic_limits := None; ic_dso := IDsoFail []; ic_names := [(5%N, [97]%N)]; ic_handles := [];
     ic_soft := None |} = Some b /\ length b = 730.
Proof. vm_compute. eexists. split; reflexivity. Qed.

(* C10 for the whole image: at every boundary between two destination calls of generate_dump (after the flush of each
   stream's bytes, and again after its directory entry) every location stored so far designates bytes already built and
   every directory entry handed over so far names bytes already built *)
Definition ref_inside (len : nat) (r : ref) : Prop := r_len r = 0%N \/ N.to_nat (r_rva r) + N.to_nat (r_len r) <= len.
Definition dirent_inside (len : nat) (d : dirent) : Prop :=
  d = zero_dirent \/ N.to_nat (l_rva (snd d)) + N.to_nat (l_size (snd d)) <= len.

Lemma ext_inside s l : Inv s -> ext (w_objs s) l -> N.to_nat (l_rva l) + N.to_nat (l_size l) <= blen s.
Proof.
  intros [Ht _] (o1 & Hin1 & Hr & Hs).
  pose proof (tiled_bounds _ _ o1 Ht Hin1) as B1. pose proof (u32_le (o_rva o1)) as U. rewrite Hr in U. unfold blen.
  destruct Hs as [Hs|(o2 & Hin2 & Ha & Hs)].
  - rewrite <- Hs. lia.
  - pose proof (tiled_bounds _ _ o2 Ht Hin2) as B2. rewrite <- Hs. lia.
Qed.

Theorem image_prefixes c r s' : image c empty_wst = Ok (r, s') ->
  Forall (fun sn => Forall (ref_inside (blen (fst sn))) (w_refs (fst sn)) /\ Forall (dirent_inside (blen (fst sn))) (snd sn)) (snd r).
Proof.
  intro E. destruct (image_sound c) as (r0 & s0 & E0 & _ & _ & _ & _ & Hlog). rewrite E in E0. injection E0 as <- <-.
  eapply Forall_impl; [|exact Hlog]. intros (s, dirs) (HI & Hd). cbn [fst snd] in *. split.
  - destruct HI as [Ht Hr]. eapply Forall_impl; [|exact Hr]. intros rf [H0|(o & Hin & _ & Hrva & Hlen)]; [now left|right].
    pose proof (tiled_bounds _ _ o Ht Hin) as Hb. pose proof (u32_le (o_rva o)) as Hu. rewrite <- Hrva, <- Hlen, Nat2N.id. unfold blen. lia.
  - eapply Forall_impl; [|exact Hd]. intros d (ty & [Hz|(_ & He)]); [now left|right]. now apply ext_inside.
Qed.
Print Assumptions image_prefixes.

(* the log is not empty talk: one snapshot for the header flush and one or two per step of the plan *)
Example image_log_length :
  match image {| ic_time := 0; ic_threads := []; ic_blamed := 0; ic_crash := None; ic_modules := []; ic_app := []; ic_sysinfo := []; ic_osver := [];
                 ic_meminfo := []; ic_cpuinfo := None; ic_status := None; ic_lsb := None; ic_cmdline := None; ic_environ := None; ic_auxv := None;
                 ic_maps := None; ic_limits := None; ic_dso := IDsoFail []; ic_names := []; ic_handles := []; ic_soft := None |} empty_wst with
  | Ok (r, _) => length (snd r) = 39 | _ => False end.
Proof. vm_compute. reflexivity. Qed.
