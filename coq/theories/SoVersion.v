From Coq Require Import List NArith ZArith Arith Lia Bool.
Import ListNotations.
Open Scope N_scope.

(* strings are lists of Unicode scalar values; Rust indexes them by UTF-8 byte offsets *)
Definition utf8_len (c : N) : N := if c <? 0x80 then 1 else if c <? 0x800 then 2 else if c <? 0x10000 then 3 else 4.
Definition is_digit (c : N) : bool := (48 <=? c) && (c <=? 57).

Inductive res (A : Type) := Ok (a : A) | Panic.
Arguments Ok {A} _. Arguments Panic {A}.

(* str::parse::<u32>() : optional '+', at least one digit, value < 2^32 *)
Fixpoint digits_val (acc : N) (s : list N) : option N :=
  match s with
  | [] => Some acc
  | c :: t => if is_digit c then
                let v := acc * 10 + (c - 48) in
                if v <? 2 ^ 32 then digits_val v t else None
              else None
  end.
Definition parse_u32 (s : list N) : option N :=
  match s with
  | [] => None
  | 43 :: [] => None
  | 43 :: t => digits_val 0 t
  | _ => digits_val 0 s
  end.
Definition parse_or0 (s : list N) : N := match parse_u32 s with Some v => v | None => 0 end.

(* split on a separator char *)
Fixpoint split_on (sep : N) (s : list N) (cur : list N) : list (list N) :=
  match s with
  | [] => [rev cur]
  | c :: t => if c =? sep then rev cur :: split_on sep t [] else split_on sep t (c :: cur)
  end.

(* first occurrence of ".so." ; returns the rest after it *)
Fixpoint after_so (s : list N) : option (list N) :=
  match s with
  | 46 :: 115 :: 111 :: 46 :: rest => Some rest
  | _ :: t => after_so t
  | [] => None
  end.

Fixpoint take_digits (s : list N) : list N * list N :=
  match s with
  | c :: t => if is_digit c then let '(d, r) := take_digits t in (c :: d, r) else ([], s)
  | [] => ([], [])
  end.

(* suffix after the LAST non-digit char, and that char *)
Fixpoint last_nondigit (s : list N) (acc : option (N * list N)) : option (N * list N) :=
  match s with
  | [] => acc
  | c :: t => if is_digit c then last_nondigit t acc else last_nondigit t (Some (c, t))
  end.

Record sov := { major : N; minor : N; patch : N; prerelease : N }.
Definition set_comp (v : sov) (i : nat) (x : N) : sov :=
  match i with
  | 0%nat => {| major := x; minor := minor v; patch := patch v; prerelease := prerelease v |}
  | 1%nat => {| major := major v; minor := x; patch := patch v; prerelease := prerelease v |}
  | 2%nat => {| major := major v; minor := minor v; patch := x; prerelease := prerelease v |}
  | _ => {| major := major v; minor := minor v; patch := patch v; prerelease := x |}
  end.

(* the loop over version.split('.').enumerate(); fixed = step over the char by its UTF-8 length *)
Fixpoint comps_loop (fixed : bool) (comps : list (list N)) (i : nat) (v : sov) : res sov :=
  match comps with
  | [] => Ok v
  | comp :: rest =>
      if (i <=? 1)%nat then comps_loop fixed rest (S i) (set_comp v i (parse_or0 comp))
      else if (4 <=? i)%nat then Ok v
      else
        let '(ds, tail) := take_digits comp in
        match tail with
        | [] => comps_loop fixed rest (S i) (set_comp v i (parse_or0 comp))      (* no non-digit *)
        | _ :: _ =>
            let v1 := match parse_u32 ds with Some p => set_comp v i p | None => v end in
            if (3 <=? i)%nat then Ok v1
            else match last_nondigit comp None with
                 | Some (c, suffix) =>
                     if negb fixed && negb (utf8_len c =? 1) then Panic    (* comp[pre + 1..] inside a char *)
                     else match parse_u32 suffix with
                          | Some pre => Ok (set_comp v1 (S i) pre)
                          | None => comps_loop fixed rest (S i) v1
                          end
                 | None => comps_loop fixed rest (S i) v1
                 end
        end
  end.

Definition parse (fixed : bool) (filename : list N) : res (option sov) :=
  match after_so filename with
  | None => Ok None
  | Some version =>
      match comps_loop fixed (split_on 46 version []) 0 {| major := 0; minor := 0; patch := 0; prerelease := 0 |} with
      | Ok v => Ok (Some v) | Panic => Panic
      end
  end.

(* the repaired parser never traps, for every string *)
Lemma comps_loop_fixed_total comps : forall i v, comps_loop true comps i v <> Panic.
Proof.
  induction comps as [|c t IH]; intros i v; cbn [comps_loop]; [discriminate|].
  destruct (i <=? 1)%nat; [apply IH|]. destruct (4 <=? i)%nat; [discriminate|].
  destruct (take_digits c) as (ds, tail). destruct tail; [apply IH|].
  destruct (3 <=? i)%nat; [discriminate|].
  destruct (last_nondigit c None) as [[ch suf]|]; [|apply IH].
  cbn [negb andb]. destruct (parse_u32 suf); [discriminate|apply IH].
Qed.
Theorem parse_fixed_total s : parse true s <> Panic.
Proof.
  unfold parse. destruct (after_so s); [|discriminate].
  pose proof (comps_loop_fixed_total (split_on 46 l []) 0 {| major := 0; minor := 0; patch := 0; prerelease := 0 |}) as H.
  destruct (comps_loop _ _ _ _); [discriminate|contradiction].
Qed.
(* "lib.so.1.2.3é4" *)
Example parse_orig_panics : parse false [108;105;98;46;115;111;46;49;46;50;46;51;233;52] = Panic.
Proof. vm_compute. reflexivity. Qed.
Print Assumptions parse_fixed_total.
