(* C04 / C05: the register-assignment tables the property demands, written independently of the source (the tables regenerated
   from the source are in Generated.v; CtxProofs.generated_tables proves the two equal).  Definitions only: the correspondence
   check runs BOTH, so that a changed source table yields a concrete register file on which the contexts differ. *)
From Coq Require Import List NArith.
From MDW Require Import GenTypes.
Import ListNotations.

Definition expected_ptrace_table : list (cfield * src) :=
  [ (C_context_flags, SConst 0x10000f);
    (C_cs, SReg R_cs); (C_ds, SReg R_ds); (C_es, SReg R_es); (C_fs, SReg R_fs); (C_gs, SReg R_gs); (C_ss, SReg R_ss);
    (C_eflags, SReg R_eflags);
    (C_dr0, SDreg 0); (C_dr1, SDreg 1); (C_dr2, SDreg 2); (C_dr3, SDreg 3); (C_dr6, SDreg 6); (C_dr7, SDreg 7);
    (C_rax, SReg R_rax); (C_rcx, SReg R_rcx); (C_rdx, SReg R_rdx); (C_rbx, SReg R_rbx); (C_rsp, SReg R_rsp);
    (C_rbp, SReg R_rbp); (C_rsi, SReg R_rsi); (C_rdi, SReg R_rdi);
    (C_r8, SReg R_r8); (C_r9, SReg R_r9); (C_r10, SReg R_r10); (C_r11, SReg R_r11); (C_r12, SReg R_r12);
    (C_r13, SReg R_r13); (C_r14, SReg R_r14); (C_r15, SReg R_r15); (C_rip, SReg R_rip) ]%N.
Definition expected_ucontext_table : list (cfield * src) :=
  [ (C_context_flags, SConst 0x10000b);
    (C_cs, SGregShiftMask G_CSGSFS 0 0xffff); (C_fs, SGregShiftMask G_CSGSFS 32 0xffff); (C_gs, SGregShiftMask G_CSGSFS 16 0xffff);
    (C_eflags, SGreg G_EFL);
    (C_rax, SGreg G_RAX); (C_rcx, SGreg G_RCX); (C_rdx, SGreg G_RDX); (C_rbx, SGreg G_RBX); (C_rsp, SGreg G_RSP);
    (C_rbp, SGreg G_RBP); (C_rsi, SGreg G_RSI); (C_rdi, SGreg G_RDI);
    (C_r8, SGreg G_R8); (C_r9, SGreg G_R9); (C_r10, SGreg G_R10); (C_r11, SGreg G_R11); (C_r12, SGreg G_R12);
    (C_r13, SGreg G_R13); (C_r14, SGreg G_R14); (C_r15, SGreg G_R15); (C_rip, SGreg G_RIP) ]%N.
Definition expected_xtable : list (xfield * src) :=
  [ (X_control_word, SFp FP_cwd 0); (X_status_word, SFp FP_swd 0); (X_tag_word, SFp FP_ftw 1);
    (X_error_opcode, SFp FP_fop 0); (X_error_offset, SFp FP_rip 4); (X_data_offset, SFp FP_rdp 4);
    (X_error_selector, SConst 0); (X_data_selector, SConst 0);
    (X_mx_csr, SFp FP_mxcsr 0); (X_mx_csr_mask, SFp FP_mxcr_mask 0) ]%N.
Definition expected_copies : list (xarray * fparray) := [(XA_float_registers, FA_st_space); (XA_xmm_registers, FA_xmm_space)].

