(* C01: executable statement of structural soundness over the ABSTRACTION of an image (header fields,
   directory entries with the size their record count implies, and every object any stored offset
   designates), applied by the check to the abstraction of the IMPLEMENTATION's image. *)
From Coq Require Import List NArith Arith Bool Lia.
Import ListNotations.
Local Open Scope N_scope.

Record sobj := { so_kind : N; so_rva : N; so_size : N }.
(* kinds: 1 header, 2 directory, 3 stream body, 4 thread stack, 5 thread context, 6 other memory region,
   7 string, 8 debug-id record, 9 link-map array, 10 memory-list entry, 11 exception context *)
Record dirent := { de_type : N; de_size : N; de_rva : N; de_implied : N }.
Record absimg := { ai_len : N; ai_signature : N; ai_version : N; ai_count : N; ai_dir_rva : N;
                   ai_dir : list dirent; ai_objs : list sobj }.

Definition inside (len : N) (o : sobj) : bool := so_rva o + so_size o <=? len.
Definition disjoint_b (a b : sobj) : bool := (so_rva a + so_size a <=? so_rva b) || (so_rva b + so_size b <=? so_rva a).
(* the two intended sharings: (thread stack, its memory-list entry), (thread context, exception context) *)
Definition shared_ok (a b : sobj) : bool :=
  (so_rva a =? so_rva b) && (so_size a =? so_size b) &&
  (((so_kind a =? 4) && (so_kind b =? 10)) || ((so_kind a =? 10) && (so_kind b =? 4)) ||
   ((so_kind a =? 5) && (so_kind b =? 11)) || ((so_kind a =? 11) && (so_kind b =? 5))).
Definition compatible (a b : sobj) : bool := disjoint_b a b || shared_ok a b.
Fixpoint pairwise (objs : list sobj) : bool :=
  match objs with
  | [] => true
  | a :: t => forallb (compatible a) t && pairwise t
  end.
Definition dir_zero (d : dirent) : bool := (de_type d =? 0) && (de_size d =? 0) && (de_rva d =? 0).
Fixpoint types_unique (ds : list dirent) : bool :=
  match ds with
  | [] => true
  | d :: t => (dir_zero d || negb (existsb (fun e => negb (dir_zero e) && (de_type e =? de_type d)) t)) && types_unique t
  end.
Definition dirent_ok (len : N) (d : dirent) : bool :=
  dir_zero d || ((de_rva d + de_size d <=? len) && (de_size d =? de_implied d)).

Definition sound_b (a : absimg) : bool :=
  (ai_signature a =? 0x504d444d) && (ai_version a mod 65536 =? 0xa793)
  && (N.of_nat (length (ai_dir a)) =? ai_count a)
  && (ai_dir_rva a + 12 * ai_count a <=? ai_len a)
  && forallb (dirent_ok (ai_len a)) (ai_dir a) && types_unique (ai_dir a)
  && forallb (inside (ai_len a)) (ai_objs a)
  && pairwise (ai_objs a).

(* ---- what the boolean means ---- *)
Lemma pairwise_spec objs : pairwise objs = true ->
  forall i j a b, (i < j)%nat -> nth_error objs i = Some a -> nth_error objs j = Some b -> compatible a b = true.
Proof.
  induction objs as [|x t IH]; intros H i j a b Hij Hi Hj; [destruct i; discriminate|].
  cbn [pairwise] in H. apply andb_prop in H. destruct H as (Hx & Ht).
  destruct i as [|i].
  - cbn in Hi. injection Hi as <-. destruct j as [|j]; [exfalso; exact (Nat.lt_irrefl 0 Hij)|]. cbn in Hj.
    rewrite forallb_forall in Hx. apply Hx. eapply nth_error_In; eauto.
  - destruct j as [|j]; [exfalso; exact (Nat.nlt_0_r _ Hij)|]. cbn [nth_error] in Hi, Hj. apply (IH Ht i j a b); [now apply Nat.succ_lt_mono|exact Hi|exact Hj].
Qed.

Lemma compatible_spec a b : compatible a b = true ->
  so_rva a + so_size a <= so_rva b \/ so_rva b + so_size b <= so_rva a \/
  (so_rva a = so_rva b /\ so_size a = so_size b /\
   ((so_kind a = 4 /\ so_kind b = 10) \/ (so_kind a = 10 /\ so_kind b = 4) \/ (so_kind a = 5 /\ so_kind b = 11) \/ (so_kind a = 11 /\ so_kind b = 5))).
Proof.
  unfold compatible. intro H. apply orb_true_iff in H. destruct H as [H|H].
  - unfold disjoint_b in H. apply orb_true_iff in H. destruct H as [H|H]; apply N.leb_le in H; auto.
  - right; right. unfold shared_ok in H. apply andb_prop in H. destruct H as (H & Hk). apply andb_prop in H. destruct H as (Hr & Hs).
    apply N.eqb_eq in Hr, Hs. split; [exact Hr|]. split; [exact Hs|].
    repeat (apply orb_true_iff in Hk; destruct Hk as [Hk|Hk]);
      apply andb_prop in Hk; destruct Hk as (K1 & K2); apply N.eqb_eq in K1, K2; auto.
Qed.

Theorem sound_b_objects a : sound_b a = true ->
  (forall o, In o (ai_objs a) -> so_rva o + so_size o <= ai_len a) /\
  (forall i j x y, (i < j)%nat -> nth_error (ai_objs a) i = Some x -> nth_error (ai_objs a) j = Some y ->
     so_rva x + so_size x <= so_rva y \/ so_rva y + so_size y <= so_rva x \/
     (so_rva x = so_rva y /\ so_size x = so_size y /\
      ((so_kind x = 4 /\ so_kind y = 10) \/ (so_kind x = 10 /\ so_kind y = 4) \/ (so_kind x = 5 /\ so_kind y = 11) \/ (so_kind x = 11 /\ so_kind y = 5)))).
Proof.
  unfold sound_b. rewrite !andb_true_iff. intros (((((((_ & _) & _) & _) & _) & _) & Hin) & Hp). split.
  - intros o Ho. rewrite forallb_forall in Hin. specialize (Hin o Ho). unfold inside in Hin. now apply N.leb_le.
  - intros i j x y Hij Hi Hj. apply compatible_spec. eapply pairwise_spec; eauto.
Qed.

Theorem sound_b_directory a : sound_b a = true ->
  ai_signature a = 0x504d444d /\ N.of_nat (length (ai_dir a)) = ai_count a /\ ai_dir_rva a + 12 * ai_count a <= ai_len a /\
  (forall d, In d (ai_dir a) -> dir_zero d = true \/ (de_rva d + de_size d <= ai_len a /\ de_size d = de_implied d)).
Proof.
  unfold sound_b. rewrite !andb_true_iff. intros (((((((Hs & _) & Hc) & Hd) & He) & _) & _) & _).
  apply N.eqb_eq in Hs, Hc. apply N.leb_le in Hd. repeat split; auto.
  intros d Hin. rewrite forallb_forall in He. specialize (He d Hin). unfold dirent_ok in He.
  apply orb_true_iff in He. destruct He as [He|He]; [now left|right].
  apply andb_prop in He. destruct He as (H1 & H2). apply N.leb_le in H1. apply N.eqb_eq in H2. auto.
Qed.
