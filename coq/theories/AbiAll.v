(* every entry point exposed to the harness *)
From MDW Require Export AbiC16 AbiC13 AbiC09 AbiC12 AbiC20 AbiC06 AbiC14 AbiCtx AbiC15 AbiTl AbiC11 AbiC03 AbiC17 AbiC18 AbiC08 AbiC02 AbiC01 AbiImage.
