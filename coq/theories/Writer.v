From Coq Require Import List NArith ZArith Arith Lia Bool ZifyNat ZifyN ZifyBool.
From MDW Require Import Bytes MemWriter.
Import ListNotations.
Open Scope nat_scope.

(* ---------- writer state with ghost object map ---------- *)
Inductive kind :=
| KHeader | KDirectory | KStreamHdr (ty : N) | KArray (ty : N) | KStack | KContext | KIpMem | KAppMem
| KString | KCv | KRaw (ty : N) | KRecord (ty : N).

Record obj := { o_kind : kind; o_rva : nat; o_len : nat }.
Record ref := { r_kind : kind; r_rva : N; r_len : N }.       (* what a stored location claims *)

Record wst := {
  w_buf : bytes;
  w_objs : list obj;      (* newest first *)
  w_refs : list ref;
}.

Definition W (A : Type) := wst -> outcome (A * wst).
Definition ret {A} (a : A) : W A := fun s => Ok (a, s).
Definition bind {A B} (m : W A) (f : A -> W B) : W B :=
  fun s => match m s with Ok (a, s') => f a s' | Err => Err | Panic => Panic end.
Notation "x <- m ;; k" := (bind m (fun x => k)) (at level 61, m at next level, right associativity).
Notation "m ;;; k" := (bind m (fun _ => k)) (at level 61, right associativity).

(* append a new object of [k] with contents [v]; returns its location *)
Definition w_alloc (k : kind) (v : bytes) : W loc := fun s =>
  Ok ({| l_rva := u32 (length (w_buf s)); l_size := N.of_nat (length v) |},
      {| w_buf := w_buf s ++ v;
         w_objs := {| o_kind := k; o_rva := length (w_buf s); o_len := length v |} :: w_objs s;
         w_refs := w_refs s |}).

(* overwrite inside the buffer (set_value / set_value_at): faithful write_at, no ghost change *)
Definition w_patch (off : nat) (v : bytes) : W unit := fun s =>
  match write_at (w_buf s) off v with
  | Ok b => Ok (tt, {| w_buf := b; w_objs := w_objs s; w_refs := w_refs s |})
  | Err => Err | Panic => Panic
  end.

(* ghost: some field now stores location [l], expected to designate an object of kind [k] *)
Definition w_ref (k : kind) (l : loc) : W unit := fun s =>
  Ok (tt, {| w_buf := w_buf s; w_objs := w_objs s;
             w_refs := {| r_kind := k; r_rva := l_rva l; r_len := l_size l |} :: w_refs s |}).

Definition w_pos : W nat := fun s => Ok (length (w_buf s), s).

(* ---------- invariants ---------- *)
Fixpoint tiled (objs : list obj) (e : nat) : Prop :=       (* newest first; objects tile [0, e) *)
  match objs with
  | [] => e = 0
  | o :: t => o_rva o + o_len o = e /\ tiled t (o_rva o)
  end.

Definition resolves (objs : list obj) (r : ref) : Prop :=
  r_len r = 0%N \/ exists o, In o objs /\ o_kind o = r_kind r /\ u32 (o_rva o) = r_rva r /\ N.of_nat (o_len o) = r_len r.

Record Inv (s : wst) : Prop := {
  inv_tiled : tiled (w_objs s) (length (w_buf s));
  inv_refs : Forall (resolves (w_objs s)) (w_refs s);
}.

(* a step preserves the invariants, never shrinks the object map, never touches flushed bytes ... *)
Definition preserves {A} (m : W A) : Prop :=
  forall s a s', Inv s -> m s = Ok (a, s') -> Inv s' /\ (exists more, w_objs s' = more ++ w_objs s).

Lemma resolves_mono objs more r : resolves objs r -> resolves (more ++ objs) r.
Proof. intros [H|(o & Hin & H)]; [now left|right]. exists o. split; [apply in_or_app; now right|exact H]. Qed.

Lemma preserves_ret {A} (a : A) : preserves (ret a).
Proof. intros s a' s' HI E. injection E as <- <-. split; [exact HI|now exists []]. Qed.

Lemma preserves_bind {A B} (m : W A) (f : A -> W B) :
  preserves m -> (forall a, preserves (f a)) -> preserves (bind m f).
Proof.
  intros Hm Hf s b s' HI E. unfold bind in E. destruct (m s) as [[a s1]| |] eqn:Em; try discriminate.
  destruct (Hm _ _ _ HI Em) as (HI1 & more1 & E1). destruct (Hf a _ _ _ HI1 E) as (HI2 & more2 & E2).
  split; [exact HI2|]. exists (more2 ++ more1). now rewrite E2, E1, app_assoc.
Qed.

Lemma preserves_alloc k v : preserves (w_alloc k v).
Proof.
  intros s l s' [Ht Hr] E. injection E as <- <-. split.
  - constructor; cbn.
    + rewrite app_length. split; [reflexivity|exact Ht].
    + eapply Forall_impl; [|exact Hr]. intros r H. now apply (resolves_mono _ [_]).
  - now exists [{| o_kind := k; o_rva := length (w_buf s); o_len := length v |}].
Qed.

(* a patch that stays inside the existing buffer keeps everything (the index-bound is the caller's duty) *)
Lemma preserves_patch off v : forall s, off + length v <= length (w_buf s) ->
  forall a s', Inv s -> w_patch off v s = Ok (a, s') -> Inv s' /\ w_objs s' = w_objs s /\ length (w_buf s') = length (w_buf s).
Proof.
  intros s Hin a s' [Ht Hr] E. unfold w_patch in E. rewrite write_at_inside in E by exact Hin.
  injection E as <- <-. cbn [w_buf w_objs].
  split; [|split; [reflexivity|apply update_length; exact Hin]].
  constructor; cbn [w_buf w_objs w_refs]; [now rewrite update_length by exact Hin|exact Hr].
Qed.

(* recording a reference to an object just allocated *)
Lemma preserves_ref_to k l : forall s,
  (l_size l = 0%N \/ exists o, In o (w_objs s) /\ o_kind o = k /\ u32 (o_rva o) = l_rva l /\ N.of_nat (o_len o) = l_size l) ->
  forall a s', Inv s -> w_ref k l s = Ok (a, s') -> Inv s' /\ w_objs s' = w_objs s.
Proof.
  intros s H a s' [Ht Hr] E. injection E as <- <-. split; [|reflexivity].
  constructor; cbn; [exact Ht|]. constructor; [exact H|exact Hr].
Qed.

(* tiling gives disjointness: two different objects of the map never overlap *)
Lemma tiled_bounds objs : forall e o, tiled objs e -> In o objs -> o_rva o + o_len o <= e.
Proof.
  induction objs as [|a t IH]; intros e o Ht Hin; [destruct Hin|].
  cbn in Ht. destruct Ht as (He & Ht). destruct Hin as [->|Hin]; [lia|].
  specialize (IH _ _ Ht Hin). lia.
Qed.

Theorem tiled_disjoint objs : forall e, tiled objs e ->
  forall i j oi oj, i < j -> nth_error objs i = Some oi -> nth_error objs j = Some oj ->
  o_rva oj + o_len oj <= o_rva oi.
Proof.
  induction objs as [|a t IH]; intros e Ht i j oi oj Hij Hi Hj; [destruct i; discriminate|].
  cbn in Ht. destruct Ht as (He & Ht). destruct i as [|i].
  - cbn in Hi. injection Hi as <-. destruct j as [|j]; [lia|]. cbn in Hj.
    apply nth_error_In in Hj. eapply tiled_bounds; eauto.
  - destruct j as [|j]; [lia|]. cbn in Hi, Hj. apply (IH _ Ht i j oi oj); [lia|exact Hi|exact Hj].
Qed.
Print Assumptions tiled_disjoint.
