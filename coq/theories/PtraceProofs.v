From Coq Require Import List NArith Arith Lia Bool.
From MDW Require Import Ptrace.
Import ListNotations.
Open Scope nat_scope.

Lemma fold_app (es1 es2 : list ev) k : fold_left kstep (es1 ++ es2) k = fold_left kstep es2 (fold_left kstep es1 k).
Proof. apply fold_left_app. Qed.

Definition ids (l : list thr) : list nat := map t_id l.

(* events that do not attach or detach leave [traced] alone *)
Definition neutral (e : ev) : bool := match e with Attach _ | Detach _ => false | _ => true end.
Lemma neutral_traced es : forall k, forallb neutral es = true -> traced (fold_left kstep es k) = traced k.
Proof.
  induction es as [|e r IH]; intros k H; cbn in *; [reflexivity|]. apply andb_prop in H. destruct H as (He & Hr).
  rewrite IH by exact Hr. destruct e; try reflexivity; discriminate.
Qed.
Lemma reinject_neutral t sigs : forallb neutral (map (Reinject t) sigs) = true.
Proof. induction sigs; cbn; auto. Qed.
Lemma work_neutral kept reads : forallb neutral (work kept reads) = true.
Proof.
  unfold work. rewrite forallb_app. apply andb_true_iff. split.
  - induction kept; cbn; auto.
  - induction reads; cbn; auto.
Qed.

(* suspend_thread traces at most its own thread, and only if it is kept *)
Lemma suspend_thread_traced t k x :
  let '(e, keep) := suspend_thread t in
  traced (fold_left kstep e k) x = true -> (keep = true /\ x = t_id t) \/ traced k x = true.
Proof.
  unfold suspend_thread. destruct (t_kind t); rewrite ?fold_app; cbn [fold_left kstep traced];
    rewrite ?(neutral_traced _ _ (reinject_neutral _ _)); unfold upd; intro H.
  - destruct (Nat.eqb x (t_id t)) eqn:E; [left; split; [reflexivity|now apply Nat.eqb_eq]|now right].
  - now right.
  - destruct (Nat.eqb x (t_id t)); [discriminate|now right].
  - destruct (Nat.eqb x (t_id t)); [discriminate|now right].
Qed.

Lemma suspend_threads_traced ts : forall k x,
  let '(e, kept) := suspend_threads ts in
  traced (fold_left kstep e k) x = true -> In x (ids kept) \/ traced k x = true.
Proof.
  induction ts as [|t r IH]; intros k x; cbn [suspend_threads]; [intro H; now right|].
  pose proof (suspend_thread_traced t k x) as H1. destruct (suspend_thread t) as (e1, keep).
  specialize (IH (fold_left kstep e1 k) x). destruct (suspend_threads r) as (e2, kept).
  rewrite fold_app. intro H. destruct (IH H) as [Hin|Hprev].
  - left. destruct keep; [right|]; exact Hin.
  - destruct (H1 Hprev) as [(-> & ->)|Hk]; [left; now left|now right].
Qed.

Lemma detach_all_traced kept : forall k x,
  traced (fold_left kstep (map (fun t => Detach (t_id t)) kept) k) x = true -> ~ In x (ids kept) /\ traced k x = true.
Proof.
  induction kept as [|t r IH]; intros k x H; cbn in *; [split; [tauto|exact H]|].
  apply IH in H. destruct H as (Hn & H). cbn in H. unfold upd in H.
  destruct (Nat.eqb x (t_id t)) eqn:E; [discriminate|]. apply Nat.eqb_neq in E. split; [|exact H].
  intros [He|Hi]; [congruence|contradiction].
Qed.

Lemma gstop_last es k : gstop (fold_left kstep (es ++ [SigCont]) k) = false.
Proof. rewrite fold_app. reflexivity. Qed.

(* C03 (bookkeeping half): however the dump ends, nothing stays traced and the last stop/continue
   signal is SIGCONT *)
Theorem run_releases ts s : forall x, traced (final (run ts s)) x = false /\ gstop (final (run ts s)) = false.
Proof.
  intro x. unfold final. destruct s as [|reads|reads]; cbn [run].
  - split; reflexivity.
  - pose proof (suspend_threads_traced ts (kstep k0 SigStop) x) as Hs.
    destruct (suspend_threads ts) as (e, kept). split.
    + apply not_true_is_false. intro T.
      change ([SigStop] ++ e ++ work kept reads ++ resume_threads true kept ++ [SigCont])
        with (SigStop :: (e ++ work kept reads ++ resume_threads true kept ++ [SigCont])) in T.
      cbn [fold_left] in T. rewrite !fold_app in T. cbn [fold_left kstep traced] in T.
      unfold resume_threads in T. apply detach_all_traced in T. destruct T as (Hn & T).
      rewrite (neutral_traced _ _ (work_neutral kept reads)) in T.
      destruct (Hs T) as [Hin|Hk0]; [contradiction|discriminate].
    + rewrite !app_assoc. apply gstop_last.
  - pose proof (suspend_threads_traced ts (kstep k0 SigStop) x) as Hs.
    destruct (suspend_threads ts) as (e, kept). split.
    + apply not_true_is_false. intro T.
      change ([SigStop] ++ e ++ work kept reads ++ resume_threads true kept ++ resume_threads false kept ++ [SigCont])
        with (SigStop :: (e ++ work kept reads ++ resume_threads true kept ++ [] ++ [SigCont])) in T.
      cbn [fold_left app] in T. rewrite !fold_app in T. cbn [fold_left kstep traced] in T.
      unfold resume_threads in T. apply detach_all_traced in T. destruct T as (Hn & T).
      rewrite (neutral_traced _ _ (work_neutral kept reads)) in T.
      destruct (Hs T) as [Hin|Hk0]; [contradiction|discriminate].
    + rewrite !app_assoc. apply gstop_last.
Qed.
Print Assumptions run_releases.

(* every memory/register read happens while the thread set is suspended: after the last Attach, before
   the first Detach of a kept thread (C04 window) -- by construction of [run]; stated on the trace *)
