(* C16 at the level of operation sequences: every state reachable from the empty image by operations used as the
   writers use them (fills go to slots handed out earlier, with a value of the slot's size; array elements by an index
   below the count) keeps every handed-out slot inside the buffer, never fails, and therefore meets the hypotheses of
   the per-operation laws (MemOpsProofs) - for every history, of any length, as long as the image stays below 4 GiB. *)
From Coq Require Import List NArith Arith Lia Bool ZifyNat ZifyN.
From MDW Require Import Bytes MemWriter Text FillArray ThreadNames WriteString MemOps MemOpsProofs.
Import ListNotations.
Local Open Scope nat_scope.

Definition single_in (b : bytes) (x : N * nat) : Prop := N.to_nat (fst x) + snd x <= length b.
Definition array_in (b : bytes) (x : N * nat * nat) : Prop := let '(pos, esz, n) := x in N.to_nat pos + n * esz <= length b.
Definition slots_in (s : mstate) : Prop := Forall (single_in (buf s)) (singles s) /\ Forall (array_in (buf s)) (arrays s).

(* the operation is used the way the writers use it *)
Definition disciplined (s : mstate) (o : op) : Prop :=
  match o with
  | OSet k v => exists pos size, nth_error (singles s) k = Some (pos, size) /\ length v = size
  | OSetAt k idx v => exists pos esz n, nth_error (arrays s) k = Some (pos, esz, n) /\ length v = esz /\ idx < n
  | OFromArray vs esz => Forall (fun v => length v = esz) vs
  | _ => True
  end.

Inductive reach : mstate -> Prop :=
| reach_init : reach empty_state
| reach_step s o s' out : reach s -> disciplined s o -> step s o = Ok (s', out) ->
                          (N.of_nat (length (buf s')) < 2 ^ 32)%N -> reach s'.

Lemma single_in_grow b c x : single_in b x -> single_in (b ++ c) x.
Proof. unfold single_in. rewrite app_length. lia. Qed.
Lemma array_in_grow b c x : array_in b x -> array_in (b ++ c) x.
Proof. destruct x as [[pos esz] n]. unfold array_in. rewrite app_length. lia. Qed.
Lemma single_in_len b b' x : length b' = length b -> single_in b x -> single_in b' x.
Proof. unfold single_in. intros ->. auto. Qed.
Lemma array_in_len b b' x : length b' = length b -> array_in b x -> array_in b' x.
Proof. destruct x as [[pos esz] n]. unfold array_in. intros ->. auto. Qed.

Lemma u32_small n : (N.of_nat n < 2 ^ 32)%N -> N.to_nat (u32 n) = n.
Proof. intro H. unfold u32. rewrite N.mod_small by exact H. apply Nat2N.id. Qed.

(* an allocating operation keeps the slots inside and registers its own slot inside *)
Lemma step_alloc_inv s o c s' out :
  slots_in s -> appended o = Some c -> well_typed o -> step s o = Ok (s', out) ->
  (N.of_nat (length (buf s')) < 2 ^ 32)%N -> slots_in s'.
Proof.
  intros (H1 & H2) Ha Hw E Hlt.
  destruct (alloc_appends s o c Ha Hw) as (s2 & E2 & Hb). rewrite E in E2. injection E2 as <- _.
  assert (Hlen : (N.of_nat (length (buf s)) < 2 ^ 32)%N).
  { pose proof Hlt as Hl2. rewrite Hb in Hl2. rewrite app_length in Hl2. lia. }
  assert (G1 : Forall (single_in (buf s')) (singles s)) by (rewrite Hb; eapply Forall_impl; [|exact H1]; intros; now apply single_in_grow).
  assert (G2 : Forall (array_in (buf s')) (arrays s)) by (rewrite Hb; eapply Forall_impl; [|exact H2]; intros; now apply array_in_grow).
  destruct o as [size|v|k v|n esz|k idx v|vs esz|v|str]; cbn [appended] in Ha; try discriminate; injection Ha as <-.
  - cbn [step alloc reserve] in E. injection E as <- _. unfold slots_in. cbn [buf singles arrays l_rva] in *. split; [|exact G2].
    apply Forall_app. split; [exact G1|]. constructor; [|constructor].
    unfold single_in. cbn [fst snd]. rewrite u32_small by exact Hlen. rewrite app_length, repeat_length. lia.
  - cbn [step] in E. rewrite alloc_with_val_law in E. injection E as <- _. unfold slots_in. cbn [buf singles arrays l_rva] in *. split; [|exact G2].
    apply Forall_app. split; [exact G1|]. constructor; [|constructor].
    unfold single_in. cbn [fst snd]. rewrite u32_small by exact Hlen. rewrite app_length. lia.
  - cbn [step alloc_array reserve] in E. injection E as <- _. unfold slots_in. cbn [buf singles arrays] in *. split; [exact G1|].
    apply Forall_app. split; [exact G2|]. constructor; [|constructor].
    unfold array_in. rewrite u32_small by exact Hlen. rewrite app_length, repeat_length. lia.
  - cbn [step reserve] in E. cbn [well_typed] in Hw. rewrite fill_from_fresh in E by assumption. injection E as <- _.
    unfold slots_in. cbn [buf singles arrays] in *. split; [exact G1|].
    apply Forall_app. split; [exact G2|]. constructor; [|constructor].
    unfold array_in. rewrite u32_small by exact Hlen. rewrite app_length, (concat_length_const esz) by assumption. lia.
  - cbn [step] in E. injection E as <- _. unfold slots_in. cbn [buf singles arrays] in *. split; assumption.
  - cbn [step] in E. rewrite write_string_closed in E. injection E as <- _. unfold slots_in. cbn [buf singles arrays] in *. split; assumption.
Qed.

(* a disciplined operation on a state whose slots are inside never fails *)
Theorem disciplined_succeeds s o : slots_in s -> disciplined s o -> exists s' out, step s o = Ok (s', out).
Proof.
  intros (H1 & H2) Hd.
  destruct (appended o) as [c|] eqn:Ha.
  - assert (Hw : well_typed o) by (destruct o; cbn in *; auto).
    destruct (alloc_appends s o c Ha Hw) as (s' & E & _). eauto.
  - destruct o as [size|v|k v|n esz|k idx v|vs esz|v|str]; cbn [appended] in Ha; try discriminate.
    + destruct Hd as (pos & size & Hk & Hv). cbn [step]. rewrite Hk.
      rewrite Forall_forall in H1. pose proof (H1 _ (nth_error_In _ _ Hk)) as Hin. unfold single_in in Hin. cbn [fst snd] in Hin.
      unfold set_value. rewrite write_at_inside by lia. eauto.
    + destruct Hd as (pos & esz & n & Hk & Hv & Hi). cbn [step]. rewrite Hk.
      rewrite Forall_forall in H2. pose proof (H2 _ (nth_error_In _ _ Hk)) as Hin. unfold array_in in Hin.
      unfold set_value_at. rewrite write_at_inside by nia. eauto.
Qed.

Lemma step_fill_inv s o s' out :
  slots_in s -> appended o = None -> disciplined s o -> step s o = Ok (s', out) ->
  slots_in s' /\ length (buf s') = length (buf s) /\ singles s' = singles s /\ arrays s' = arrays s.
Proof.
  intros (H1 & H2) Ha Hd E.
  destruct o as [size|v|k v|n esz|k idx v|vs esz|v|str]; cbn [appended] in Ha; try discriminate.
  - destruct Hd as (pos & size & Hk & Hv). cbn [step] in E. rewrite Hk in E.
    pose proof H1 as H1'. rewrite Forall_forall in H1'. pose proof (H1' _ (nth_error_In _ _ Hk)) as Hin. unfold single_in in Hin. cbn [fst snd] in Hin.
    unfold set_value in E. rewrite write_at_inside in E by lia. injection E as <- _. cbn [buf singles arrays].
    assert (L : length (update (buf s) (N.to_nat pos) v) = length (buf s)) by (apply update_length; lia).
    repeat split; try reflexivity; try exact L.
    + eapply Forall_impl; [|exact H1]. intros x Hx. now apply (single_in_len (buf s)).
    + eapply Forall_impl; [|exact H2]. intros x Hx. now apply (array_in_len (buf s)).
  - destruct Hd as (pos & esz & n & Hk & Hv & Hi). cbn [step] in E. rewrite Hk in E.
    pose proof H2 as H2'. rewrite Forall_forall in H2'. pose proof (H2' _ (nth_error_In _ _ Hk)) as Hin. unfold array_in in Hin.
    unfold set_value_at in E. rewrite write_at_inside in E by nia. injection E as <- _. cbn [buf singles arrays].
    assert (L : length (update (buf s) (N.to_nat pos + esz * idx) v) = length (buf s)) by (apply update_length; nia).
    repeat split; try reflexivity; try exact L.
    + eapply Forall_impl; [|exact H1]. intros x Hx. now apply (single_in_len (buf s)).
    + eapply Forall_impl; [|exact H2]. intros x Hx. now apply (array_in_len (buf s)).
Qed.

(* every reachable state has all its handed-out slots inside the image *)
Theorem reach_slots_in s : reach s -> slots_in s.
Proof.
  induction 1 as [|s o s' out Hr IH Hd E Hlt].
  - split; constructor.
  - destruct (appended o) as [c|] eqn:Ha.
    + eapply step_alloc_inv; eauto. destruct o; cbn in *; auto.
    + now destruct (step_fill_inv s o s' out IH Ha Hd E).
Qed.

(* hence, in every reachable state, filling a reserved slot succeeds and changes only that slot ... *)
Theorem reach_fill_slot s k v pos size :
  reach s -> nth_error (singles s) k = Some (pos, size) -> length v = size ->
  exists s' out, step s (OSet k v) = Ok (s', out) /\
    length (buf s') = length (buf s) /\ slice (buf s') (N.to_nat pos) size = v /\
    (forall o n, o + n <= N.to_nat pos -> slice (buf s') o n = slice (buf s) o n) /\
    (forall o n, N.to_nat pos + size <= o -> slice (buf s') o n = slice (buf s) o n).
Proof.
  intros Hr Hk Hv. pose proof (reach_slots_in s Hr) as Hin.
  destruct (disciplined_succeeds s (OSet k v) Hin) as (s' & out & E); [exists pos, size; auto|].
  exists s', out. split; [exact E|].
  destruct Hin as (H1 & _). rewrite Forall_forall in H1. pose proof (H1 _ (nth_error_In _ _ Hk)) as Hb. unfold single_in in Hb. cbn [fst snd] in Hb.
  exact (set_changes_only_slot s k v pos size s' out Hk Hv Hb E).
Qed.

(* ... and so does storing element idx of a reserved array *)
Theorem reach_fill_element s k idx v pos esz n :
  reach s -> nth_error (arrays s) k = Some (pos, esz, n) -> length v = esz -> idx < n ->
  exists s' out, step s (OSetAt k idx v) = Ok (s', out) /\
    length (buf s') = length (buf s) /\ slice (buf s') (N.to_nat pos + idx * esz) esz = v /\
    (forall j, j < n -> j <> idx -> slice (buf s') (N.to_nat pos + j * esz) esz = slice (buf s) (N.to_nat pos + j * esz) esz) /\
    (forall o m, o + m <= N.to_nat pos -> slice (buf s') o m = slice (buf s) o m) /\
    (forall o m, N.to_nat pos + n * esz <= o -> slice (buf s') o m = slice (buf s) o m).
Proof.
  intros Hr Hk Hv Hi. pose proof (reach_slots_in s Hr) as Hin.
  destruct (disciplined_succeeds s (OSetAt k idx v) Hin) as (s' & out & E); [exists pos, esz, n; auto|].
  exists s', out. split; [exact E|].
  destruct Hin as (_ & H2). rewrite Forall_forall in H2. pose proof (H2 _ (nth_error_In _ _ Hk)) as Hb. unfold array_in in Hb.
  exact (set_at_element s k idx v pos esz n s' out Hk Hv Hi Hb E).
Qed.

(* the image only ever grows by what allocating operations append; earlier bytes move only through fills of slots *)
Theorem reach_step_length s o s' out :
  slots_in s -> disciplined s o -> step s o = Ok (s', out) ->
  length (buf s') = length (buf s) + match appended o with Some c => length c | None => 0 end.
Proof.
  intros Hin Hd E. destruct (appended o) as [c|] eqn:Ha.
  - assert (Hw : well_typed o) by (destruct o; cbn in *; auto).
    destruct (alloc_appends s o c Ha Hw) as (s2 & E2 & Hb). rewrite E in E2. injection E2 as <- _.
    now rewrite Hb, app_length.
  - destruct (step_fill_inv s o s' out Hin Ha Hd E) as (_ & L & _). lia.
Qed.

Example reach_example :
  exists s, reach s /\ length (singles s) = 1 /\ length (arrays s) = 1 /\ length (buf s) = 10.
Proof.
  eexists. split.
  - eapply (reach_step _ (OAllocArray 3 2)); [eapply (reach_step _ (OAllocVal [1;2;3;4]%N)); [apply reach_init|exact I|reflexivity|vm_compute; reflexivity]|exact I|reflexivity|vm_compute; reflexivity].
  - vm_compute. repeat split.
Qed.

Print Assumptions reach_slots_in.
Print Assumptions reach_fill_slot.
Print Assumptions reach_fill_element.
