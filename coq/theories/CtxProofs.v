(* C04 / C05: every assigned register can be read back from the context bytes at the offset the
   AMD64 CONTEXT layout gives it. *)
From Coq Require Import List NArith ZArith Arith Lia Bool ZifyNat ZifyN ZifyBool.
From MDW Require Import Bytes CpuCtx GenTypes Generated CtxModel.
From MDW Require Export CtxSpec.
Import ListNotations.
Local Open Scope nat_scope.

(* ---- well-formedness of a table depends on its offsets and widths only ---- *)
Definition shape (l : list assign) : list (nat * nat) := map (fun '(o, w, _) => (o, w)) l.
Definition disj_b (a b : nat * nat) : bool := (fst a + snd a <=? fst b) || (fst b + snd b <=? fst a).
Fixpoint shape_ok_b (size : nat) (sh : list (nat * nat)) : bool :=
  match sh with
  | [] => true
  | a :: t => (fst a + snd a <=? size) && forallb (disj_b a) t && shape_ok_b size t
  end.

Lemma shape_ok size : forall l, shape_ok_b size (shape l) = true -> Forall (in_range size) l /\ pairwise_disjoint l.
Proof.
  induction l as [|[[o w] v] t IH]; cbn [shape map shape_ok_b]; intro H; [split; constructor|].
  apply andb_prop in H. destruct H as (H & Ht). apply andb_prop in H. destruct H as (Hr & Hd).
  destruct (IH Ht) as (IH1 & IH2). split.
  - constructor; [cbn in *; apply Nat.leb_le in Hr; exact Hr|exact IH1].
  - cbn [pairwise_disjoint]. split; [|exact IH2].
    rewrite forallb_forall in Hd. apply Forall_forall. intros [[o2 w2] v2] Hin.
    assert (Hin' : In (o2, w2) (shape t)) by (unfold shape; apply in_map_iff; exists (o2, w2, v2); auto).
    specialize (Hd _ Hin'). unfold disj_b in Hd. cbn in Hd. apply orb_true_iff in Hd.
    cbn. destruct Hd as [Hd|Hd]; apply Nat.leb_le in Hd; lia.
Qed.

Section Ctx.
  Variable tbl : list (cfield * src).
  Variable xtbl : list (xfield * src).
  Variable r : regfile.
  Hypothesis Hshape : shape_ok_b CONTEXT_SIZE (shape (scalar_assigns tbl xtbl r)) = true.
  Hypothesis Hst : length (rf_st r) = 128.
  Hypothesis Hxmm : length (rf_xmm r) = 256.
  (* every scalar lies below the two register arrays *)
  Hypothesis Hbelow : forallb (fun '(o, w) => o + w <=? FLOAT_SAVE + 32) (shape (scalar_assigns tbl xtbl r)) = true.

  Let std_copies := [(XA_float_registers, FA_st_space); (XA_xmm_registers, FA_xmm_space)].
  Let img := ctx_bytes tbl xtbl std_copies r.

  Lemma build_len : length (build CONTEXT_SIZE (scalar_assigns tbl xtbl r)) = CONTEXT_SIZE.
  Proof.
    unfold build. destruct (shape_ok _ _ Hshape) as (Hr & _).
    rewrite fold_update_length; [apply repeat_length|].
    rewrite repeat_length. eapply Forall_impl; [|exact Hr]. intros [[o w] v]; cbn; lia.
  Qed.

  Lemma img_eq : img = update (update (build CONTEXT_SIZE (scalar_assigns tbl xtbl r)) 288 (rf_st r)) 416 (rf_xmm r).
  Proof.
    unfold img, ctx_bytes, std_copies. cbn [fold_left apply_copy xarray_layout fparray_bytes].
    replace (firstn 128 (rf_st r)) with (rf_st r) by (symmetry; apply firstn_all2; lia).
    replace (firstn 256 (rf_xmm r)) with (rf_xmm r) by (symmetry; apply firstn_all2; lia).
    reflexivity.
  Qed.

  Lemma upd1_len : length (update (build CONTEXT_SIZE (scalar_assigns tbl xtbl r)) 288 (rf_st r)) = CONTEXT_SIZE.
  Proof. rewrite update_length; [apply build_len|]. rewrite build_len, Hst. unfold CONTEXT_SIZE. lia. Qed.

  Lemma img_len : length img = CONTEXT_SIZE.
  Proof. rewrite img_eq. rewrite update_length; [apply upd1_len|]. rewrite upd1_len, Hxmm. unfold CONTEXT_SIZE. lia. Qed.

  Lemma scalar_read o w v :
    In (o, w, v) (scalar_assigns tbl xtbl r) -> read img o w = (v mod 256 ^ N.of_nat w)%N.
  Proof.
    intro Hin. destruct (shape_ok _ _ Hshape) as (Hr & Hd).
    assert (Hb : o + w <= 288).
    { rewrite forallb_forall in Hbelow. specialize (Hbelow (o, w)).
      assert (In (o, w) (shape (scalar_assigns tbl xtbl r))) by (unfold shape; apply in_map_iff; exists (o, w, v); auto).
      specialize (Hbelow H). apply Nat.leb_le in Hbelow. unfold FLOAT_SAVE in Hbelow. lia. }
    rewrite img_eq. unfold read.
    rewrite slice_update_before by (rewrite ?upd1_len; unfold CONTEXT_SIZE; lia).
    rewrite slice_update_before by (rewrite ?build_len; unfold CONTEXT_SIZE; lia).
    apply (build_read CONTEXT_SIZE _ Hr Hd o w v Hin).
  Qed.

  (* a general-purpose / segment / flag / debug register field *)
  Theorem cfield_read f s :
    In (f, s) tbl ->
    read img (fst (cfield_layout f)) (snd (cfield_layout f)) = (eval s r mod 256 ^ N.of_nat (snd (cfield_layout f)))%N.
  Proof.
    intro Hin. apply scalar_read. unfold scalar_assigns. apply in_or_app. left.
    apply in_map_iff. exists (f, s). split; [|exact Hin]. destruct (cfield_layout f); reflexivity.
  Qed.

  (* a scalar of the floating-point save area *)
  Theorem xfield_read f s :
    In (f, s) xtbl ->
    read img (FLOAT_SAVE + fst (xfield_layout f)) (snd (xfield_layout f)) = (eval s r mod 256 ^ N.of_nat (snd (xfield_layout f)))%N.
  Proof.
    intro Hin. apply scalar_read. unfold scalar_assigns. apply in_or_app. right.
    apply in_map_iff. exists (f, s). split; [|exact Hin]. destruct (xfield_layout f); reflexivity.
  Qed.

  (* ST0-7 and XMM0-15 *)
  Theorem st_read : slice img 288 128 = rf_st r.
  Proof.
    rewrite img_eq. rewrite slice_update_before by (rewrite ?upd1_len; unfold CONTEXT_SIZE; lia).
    pose proof (slice_update_same (build CONTEXT_SIZE (scalar_assigns tbl xtbl r)) 288 (rf_st r)) as H.
    rewrite Hst in H. apply H. rewrite build_len. unfold CONTEXT_SIZE. lia.
  Qed.
  Theorem xmm_read : slice img 416 256 = rf_xmm r.
  Proof.
    rewrite img_eq.
    pose proof (slice_update_same (update (build CONTEXT_SIZE (scalar_assigns tbl xtbl r)) 288 (rf_st r)) 416 (rf_xmm r)) as H.
    rewrite Hxmm in H. apply H. rewrite upd1_len. unfold CONTEXT_SIZE. lia.
  Qed.
End Ctx.

(* ---- the tables regenerated from the source are the expected ones (CtxSpec.v) ---- *)
Lemma generated_tables :
  ptrace_table = expected_ptrace_table /\ ptrace_xtable = expected_xtable /\ ptrace_copies = expected_copies /\
  ucontext_table = expected_ucontext_table /\ ucontext_xtable = expected_xtable /\ ucontext_copies = expected_copies.
Proof. repeat split; reflexivity. Qed.

Lemma ptrace_shape r : shape_ok_b CONTEXT_SIZE (shape (scalar_assigns ptrace_table ptrace_xtable r)) = true
  /\ forallb (fun '(o, w) => o + w <=? FLOAT_SAVE + 32) (shape (scalar_assigns ptrace_table ptrace_xtable r)) = true.
Proof. split; vm_compute; reflexivity. Qed.
Lemma ucontext_shape r : shape_ok_b CONTEXT_SIZE (shape (scalar_assigns ucontext_table ucontext_xtable r)) = true
  /\ forallb (fun '(o, w) => o + w <=? FLOAT_SAVE + 32) (shape (scalar_assigns ucontext_table ucontext_xtable r)) = true.
Proof. split; vm_compute; reflexivity. Qed.
