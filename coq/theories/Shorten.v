From Coq Require Import List NArith ZArith Arith Lia Bool ZifyNat ZifyN ZifyBool.
Import ListNotations.
Open Scope N_scope.
Ltac Zify.zify_post_hook ::= Z.to_euclidean_division_equations.

(* fill_thread_stack, size-limit part.  [v, v+len) is the region get_stack_info chose, sp the thread's
   stack pointer, cap the per-thread limit (2048 in the code).
   orig : min(len, cap) bytes from v                         (unchanged code)
   fixed: skip whole cap-sized chunks below sp, then at most cap bytes, never past the region end *)
Definition shorten_orig (v len cap sp : N) : N * N := (v, N.min len cap).
Definition shorten_fixed (v len cap sp : N) : N * N :=
  if len <=? cap then (v, len)
  else
    let start := if (v <=? sp) && (sp <? v + len) then v + (sp - v) / cap * cap else v in
    (start, N.min cap (v + len - start)).

Theorem shorten_fixed_contains v len cap sp :
  0 < cap -> v <= sp -> sp < v + len ->
  let '(s, l) := shorten_fixed v len cap sp in
  s <= sp /\ sp < s + l /\ l <= N.max cap 0 /\ (cap < len -> l <= cap) /\ v <= s /\ s + l <= v + len.
Proof.
  intros Hc Hlo Hhi. unfold shorten_fixed.
  destruct (len <=? cap) eqn:E.
  - apply N.leb_le in E. repeat split; lia.
  - apply N.leb_gt in E. replace ((v <=? sp) && (sp <? v + len)) with true
      by (symmetry; apply andb_true_intro; split; [apply N.leb_le|apply N.ltb_lt]; lia).
    set (q := (sp - v) / cap).
    assert (Hq1 : q * cap <= sp - v) by (unfold q; nia).
    assert (Hq2 : sp - v < q * cap + cap) by (unfold q; nia).
    repeat split; try lia.
Qed.

(* when the stack pointer is below the region (guard-page case) nothing is skipped *)
Lemma shorten_fixed_below v len cap sp : sp < v -> cap < len -> shorten_fixed v len cap sp = (v, cap).
Proof.
  intros H Hl. unfold shorten_fixed.
  replace (len <=? cap) with false by (symmetry; apply N.leb_gt; lia).
  replace (v <=? sp) with false by (symmetry; apply N.leb_gt; lia). cbn [andb].
  f_equal. lia.
Qed.

(* the unchanged code loses the stack pointer as soon as its in-region offset reaches the cap *)
Example shorten_orig_misses : let '(s, l) := shorten_orig 0x7000 0x2000 2048 (0x7000 + 0xea0) in negb (0x7000 + 0xea0 <? s + l) = true.
Proof. vm_compute. reflexivity. Qed.
Print Assumptions shorten_fixed_contains.
