From Coq Require Import List NArith ZArith Arith Lia Bool ZifyNat ZifyN ZifyBool.
From MDW Require Import Bytes MemWriter Writer.
Import ListNotations.
Open Scope nat_scope.

(* ---------- world and configuration (reduced) ---------- *)
Record thread_w := { tw_tid : N; tw_sp : N; tw_ip : N; tw_ctx : bytes }.     (* ctx: serialized context, 1232 bytes *)
Record world := {
  wd_threads : list thread_w;
  wd_stack : N -> option (N * bytes);     (* get_stack_info + copy: valid start and the copied bytes *)
  wd_read : N -> nat -> option bytes;     (* copy_from_process for app memory *)
}.
Record crash := { cr_ip : N; cr_sp : N; cr_ctx : bytes; cr_signo : N; cr_code : N; cr_addr : N }.
Record config := { cf_blamed : N; cf_crash : option crash; cf_app : list (N * nat) }.

Record memdesc := { md_start : N; md_loc : loc }.
Inductive crashctx := CNone | CCtx (l : loc) | CCtxAddr (l : loc) (a : N).

(* writer-carried state across dump() calls *)
Record carried := { ca_blocks : list memdesc; ca_crash : crashctx }.
Definition fresh : carried := {| ca_blocks := []; ca_crash := CNone |}.

Definition enc_loc (l : loc) : bytes := le 4 (l_size l) ++ le 4 (l_rva l).
Definition enc_memdesc (d : memdesc) : bytes := le 8 (md_start d) ++ enc_loc (md_loc d).
Definition THREAD_SZ : nat := 48.
Definition enc_thread (tid : N) (stack : memdesc) (ctx : loc) : bytes :=
  le 4 tid ++ le 4 0 ++ le 4 0 ++ le 4 0 ++ le 8 0 ++ enc_memdesc stack ++ enc_loc ctx.

Definition T_THREADS : N := 3.  Definition T_MEMLIST : N := 5.  Definition T_EXC : N := 6.

(* fill_thread_stack: append the stack copy (if any), register it; returns the descriptor *)
Definition fill_stack (w : world) (sp : N) (blocks : list memdesc) : W (memdesc * list memdesc) :=
  pos <- w_pos ;;
  match wd_stack w sp with
  | Some (v, bs) =>
      l <- w_alloc KStack bs ;;
      let d := {| md_start := v; md_loc := l |} in
      w_ref KStack l ;;;
      ret (d, blocks ++ [d])
  | None => ret ({| md_start := sp; md_loc := {| l_rva := u32 pos; l_size := 0 |} |}, blocks)
  end.

(* one thread of the list: blobs first, then its record is patched into slot idx *)
Definition write_thread (w : world) (cfg : config) (base : nat) (idx : nat) (t : thread_w)
           (st : list memdesc * crashctx) : W (list memdesc * crashctx) :=
  let '(blocks, cc) := st in
  match cf_crash cfg with
  | Some cr =>
      if N.eqb (tw_tid t) (cf_blamed cfg) then
        r <- fill_stack w (cr_sp cr) blocks ;;
        let '(d, blocks') := r in
        c <- w_alloc KContext (cr_ctx cr) ;; w_ref KContext c ;;;
        w_patch (base + THREAD_SZ * idx) (enc_thread (tw_tid t) d c) ;;;
        ret (blocks', CCtx c)
      else
        r <- fill_stack w (tw_sp t) blocks ;;
        let '(d, blocks') := r in
        c <- w_alloc KContext (tw_ctx t) ;; w_ref KContext c ;;;
        w_patch (base + THREAD_SZ * idx) (enc_thread (tw_tid t) d c) ;;;
        ret (blocks', cc)
  | None =>
      r <- fill_stack w (tw_sp t) blocks ;;
      let '(d, blocks') := r in
      c <- w_alloc KContext (tw_ctx t) ;; w_ref KContext c ;;;
      w_patch (base + THREAD_SZ * idx) (enc_thread (tw_tid t) d c) ;;;
      ret (blocks', if N.eqb (tw_tid t) (cf_blamed cfg) then CCtxAddr c (tw_ip t) else cc)
  end.

Fixpoint write_threads (w : world) (cfg : config) (base idx : nat) (ts : list thread_w)
         (st : list memdesc * crashctx) : W (list memdesc * crashctx) :=
  match ts with
  | [] => ret st
  | t :: r => st' <- write_thread w cfg base idx t st ;; write_threads w cfg base (S idx) r st'
  end.

Definition thread_list (w : world) (cfg : config) (st : list memdesc * crashctx) : W (loc * (list memdesc * crashctx)) :=
  let n := length (wd_threads w) in
  h <- w_alloc (KStreamHdr T_THREADS) (le 4 (N.of_nat n)) ;;
  a <- w_alloc (KArray T_THREADS) (repeat 0%N (THREAD_SZ * n)) ;;
  st' <- write_threads w cfg (N.to_nat (l_rva a)) 0 (wd_threads w) st ;;
  ret ({| l_rva := l_rva h; l_size := (l_size h + l_size a)%N |}, st').

Fixpoint app_memory (w : world) (regions : list (N * nat)) (blocks : list memdesc) : W (list memdesc) :=
  match regions with
  | [] => ret blocks
  | (p, n) :: r =>
      match wd_read w p n with
      | None => fun _ => Err
      | Some bs => l <- w_alloc KAppMem bs ;; w_ref KAppMem l ;;; app_memory w r (blocks ++ [{| md_start := p; md_loc := l |}])
      end
  end.

Definition memory_list (blocks : list memdesc) : W loc :=
  h <- w_alloc (KStreamHdr T_MEMLIST) (le 4 (N.of_nat (length blocks))) ;;
  a <- w_alloc (KArray T_MEMLIST) (flat_map enc_memdesc blocks) ;;
  ret {| l_rva := l_rva h; l_size := (l_size h + l_size a)%N |}.

Definition exception (cfg : config) (cc : crashctx) : W loc :=
  let ctxloc := match cc with CNone => {| l_rva := 0; l_size := 0 |} | CCtx l => l | CCtxAddr l _ => l end in
  let '(code, flags, addr) :=
    match cf_crash cfg with
    | Some cr => (cr_signo cr, cr_code cr, cr_addr cr)
    | None => (0xFFFFFFFF%N, 0%N, match cc with CCtxAddr _ a => a | _ => 0%N end)
    end in
  w_alloc (KRecord T_EXC)
    (le 4 (cf_blamed cfg) ++ le 4 0 ++ le 4 code ++ le 4 flags ++ le 8 0 ++ le 8 addr ++ le 4 0 ++ le 4 0
       ++ repeat 0%N 120 ++ enc_loc ctxloc).

(* the dump: [reset] = the repaired writer clears its per-dump state first *)
Definition dump (reset : bool) (w : world) (cfg : config) (ca : carried) : W (list loc * carried) :=
  let ca0 := if reset then fresh else ca in
  r <- thread_list w cfg (ca_blocks ca0, ca_crash ca0) ;;
  let '(d1, (blocks, cc)) := r in
  blocks' <- app_memory w (cf_app cfg) blocks ;;
  d2 <- memory_list blocks' ;;
  d3 <- exception cfg cc ;;
  ret ([d1; d2; d3], {| ca_blocks := blocks'; ca_crash := cc |}).

Definition empty_wst : wst := {| w_buf := []; w_objs := []; w_refs := [] |}.
