From Coq Require Import List NArith ZArith Arith Lia Bool ZifyNat ZifyN ZifyBool.
From MDW Require Import Bytes MemWriter Writer Hoare MiniDump.
Import ListNotations.
Open Scope nat_scope.

(* ---------- C19: the repaired writer's output does not depend on carried state ---------- *)
Theorem dump_reset_independent w cfg ca s : dump true w cfg ca s = dump true w cfg fresh s.
Proof. reflexivity. Qed.

(* ---------- stepping through binds ---------- *)
Ltac step :=
  match goal with
  | H : bind ?m ?f ?s = Ok _ |- _ =>
      let E := fresh "E" in
      unfold bind in H at 1; destruct (m s) as [[? ?]| |] eqn:E; try discriminate
  end.

Lemma enc_thread_len tid d c : length (enc_thread tid d c) = THREAD_SZ.
Proof. unfold enc_thread, enc_memdesc, enc_loc. now rewrite !app_length, !le_length. Qed.

(* the basic facts about each primitive, in a directly usable form *)
Lemma alloc_ok k v s l s' : Inv s -> w_alloc k v s = Ok (l, s') ->
  Inv s' /\ blen s' = blen s + length v /\ w_refs s' = w_refs s /\
  In {| o_kind := k; o_rva := blen s; o_len := length v |} (w_objs s') /\
  l = {| l_rva := u32 (blen s); l_size := N.of_nat (length v) |} /\ (forall o, In o (w_objs s) -> In o (w_objs s')).
Proof.
  intros HI E. destruct (preserves_alloc k v s l s' HI E) as (HI' & _). injection E as <- <-.
  unfold blen; cbn [w_buf w_objs w_refs]. rewrite app_length.
  split; [exact HI'|]. split; [reflexivity|]. split; [reflexivity|]. split; [now left|]. split; [reflexivity|].
  intros o Ho. now right.
Qed.

Lemma ref_ok k l s u s' : Inv s ->
  (exists o, In o (w_objs s) /\ o_kind o = k /\ u32 (o_rva o) = l_rva l /\ N.of_nat (o_len o) = l_size l) ->
  w_ref k l s = Ok (u, s') -> Inv s' /\ blen s' = blen s /\ w_objs s' = w_objs s.
Proof.
  intros HI Ho E. destruct (preserves_ref_to k l s (or_intror Ho) u s' HI E) as (HI' & Hobj).
  injection E as <- <-. auto.
Qed.

Lemma patch_ok off v s u s' : Inv s -> off + length v <= blen s -> w_patch off v s = Ok (u, s') ->
  Inv s' /\ blen s' = blen s /\ w_objs s' = w_objs s.
Proof.
  intros HI Hin E. destruct (preserves_patch off v s Hin u s' HI E) as (HI' & Ho & Hl). auto.
Qed.

(* allocate-and-reference, the pattern used for every blob *)
Lemma alloc_ref_ok k v s s2 l u :
  Inv s -> forall s1, w_alloc k v s = Ok (l, s1) -> w_ref k l s1 = Ok (u, s2) ->
  Inv s2 /\ blen s2 = blen s + length v.
Proof.
  intros HI s1 E1 E2. destruct (alloc_ok _ _ _ _ _ HI E1) as (HI1 & Hl1 & _ & Hin & -> & _).
  destruct (ref_ok k {| l_rva := u32 (blen s); l_size := N.of_nat (length v) |} s1 u s2 HI1) as (HI2 & Hl2 & _); [|exact E2|].
  - eexists. split; [exact Hin|]. cbn. auto.
  - split; [exact HI2|lia].
Qed.

Lemma fill_stack_ok w sp blocks s r s' :
  Inv s -> fill_stack w sp blocks s = Ok (r, s') -> Inv s' /\ blen s <= blen s'.
Proof.
  intros HI E. unfold fill_stack in E. step. unfold w_pos in E0. injection E0 as <- <-.
  destruct (wd_stack w sp) as [[v bs]|].
  - step. step. unfold ret in E. injection E as <- <-.
    destruct (alloc_ref_ok _ _ _ _ _ _ HI _ E0 E1) as (HI2 & Hl). split; [exact HI2|lia].
  - unfold ret in E. injection E as <- <-. split; [exact HI|lia].
Qed.

(* one thread: invariants kept, the record patch stays inside the array *)
Lemma thread_core_ok w base idx tid blocks sp ctxb (k : loc -> list memdesc -> list memdesc * crashctx) s0 r0 s0' :
  Inv s0 -> base + THREAD_SZ * (idx + 1) <= blen s0 ->
  (r <- fill_stack w sp blocks ;; let '(d, blocks') := r in
   c <- w_alloc KContext ctxb ;; w_ref KContext c ;;;
   w_patch (base + THREAD_SZ * idx) (enc_thread tid d c) ;;; ret (k c blocks')) s0 = Ok (r0, s0') ->
  Inv s0' /\ blen s0 <= blen s0'.
Proof.
  intros HI0 Hb0 E. step. destruct p as (d, blocks').
  destruct (fill_stack_ok _ _ _ _ _ _ HI0 E0) as (HI1 & Hl1). step. step. step.
  destruct (alloc_ref_ok _ _ _ _ _ _ HI1 _ E1 E2) as (HI3 & Hl3).
  destruct (patch_ok (base + THREAD_SZ * idx) (enc_thread tid d l) w2 u0 w3 HI3) as (HI4 & Hl4 & _); [rewrite enc_thread_len; lia|exact E3|].
  unfold ret in E. injection E as <- <-. split; [exact HI4|lia].
Qed.

Lemma write_thread_ok w cfg base idx t st s r s' :
  Inv s -> base + THREAD_SZ * (idx + 1) <= blen s ->
  write_thread w cfg base idx t st s = Ok (r, s') -> Inv s' /\ blen s <= blen s'.
Proof.
  intros HI Hb E. unfold write_thread in E. destruct st as (blocks, cc).
  destruct (cf_crash cfg) as [cr|].
  - destruct (N.eqb (tw_tid t) (cf_blamed cfg)).
    + eapply (thread_core_ok w base idx (tw_tid t) blocks (cr_sp cr) (cr_ctx cr) (fun c b => (b, CCtx c))); eauto.
    + eapply (thread_core_ok w base idx (tw_tid t) blocks (tw_sp t) (tw_ctx t) (fun c b => (b, cc))); eauto.
  - eapply (thread_core_ok w base idx (tw_tid t) blocks (tw_sp t) (tw_ctx t)
              (fun c b => (b, if N.eqb (tw_tid t) (cf_blamed cfg) then CCtxAddr c (tw_ip t) else cc))); eauto.
Qed.

Lemma write_threads_ok w cfg base ts : forall idx st s r s',
  Inv s -> base + THREAD_SZ * (idx + length ts) <= blen s ->
  write_threads w cfg base idx ts st s = Ok (r, s') -> Inv s' /\ blen s <= blen s'.
Proof.
  induction ts as [|t rest IH]; intros idx st s r s' HI Hb E; cbn [write_threads] in E.
  - unfold ret in E. injection E as <- <-. split; [exact HI|lia].
  - step. cbn [length] in Hb.
    match type of E0 with _ = Ok (?p, ?w1) =>
      destruct (write_thread_ok w cfg base idx t st s p w1 HI) as (HI1 & Hl1); [lia|exact E0|];
      destruct (IH (S idx) p w1 r s' HI1) as (HI2 & Hl2); [lia|exact E|] end.
    split; [exact HI2|lia].
Qed.

Lemma u32_le n : N.to_nat (u32 n) <= n.
Proof. unfold u32. pose proof (N.mod_le (N.of_nat n) (2 ^ 32)). assert (2 ^ 32 <> 0)%N by (apply N.pow_nonzero; discriminate). lia. Qed.

(* the thread-list stream keeps the tiling / reference invariants *)
Theorem thread_list_ok w cfg st s r s' :
  Inv s -> thread_list w cfg st s = Ok (r, s') -> Inv s' /\ blen s <= blen s'.
Proof.
  intros HI E. unfold thread_list in E. step. step. step. unfold ret in E. injection E as <- <-.
  destruct (alloc_ok _ _ _ _ _ HI E0) as (HI1 & Hl1 & _ & _ & -> & _).
  destruct (alloc_ok _ _ _ _ _ HI1 E1) as (HI2 & Hl2 & _ & _ & -> & _).
  rewrite repeat_length in Hl2. cbn [l_rva] in E2.
  match type of E2 with write_threads _ _ ?b _ _ _ _ = Ok (?p, ?w2) =>
    destruct (write_threads_ok w cfg b (wd_threads w) 0 st _ p w2 HI2) as (HI3 & Hl3); [|exact E2|] end.
  - pose proof (u32_le (blen w0)). lia.
  - split; [exact HI3|lia].
Qed.

Lemma app_memory_ok w regions : forall blocks s r s',
  Inv s -> app_memory w regions blocks s = Ok (r, s') -> Inv s' /\ blen s <= blen s'.
Proof.
  induction regions as [|[p n] rest IH]; intros blocks s r s' HI E; cbn [app_memory] in E.
  - unfold ret in E. injection E as <- <-. split; [exact HI|lia].
  - destruct (wd_read w p n) as [bs|]; [|discriminate]. step. step.
    destruct (alloc_ref_ok _ _ _ _ _ _ HI _ E0 E1) as (HI2 & Hl2).
    destruct (IH _ _ _ _ HI2 E) as (HI3 & Hl3). split; [exact HI3|lia].
Qed.

(* C07 (completeness, abstract level): the blocks handed to the memory list are the carried ones,
   then one per captured stack in thread order, then the application regions in order *)
Lemma app_memory_blocks w regions : forall blocks s r s',
  app_memory w regions blocks s = Ok (r, s') ->
  exists locs, length locs = length regions /\
     r = blocks ++ map (fun '((p, _), l) => {| md_start := p; md_loc := l |}) (combine regions locs).
Proof.
  induction regions as [|[p n] rest IH]; intros blocks s r s' E; cbn [app_memory] in E.
  - unfold ret in E. injection E as <- <-. exists []. split; [reflexivity|now rewrite app_nil_r].
  - destruct (wd_read w p n) as [bs|]; [|discriminate]. step. step.
    destruct (IH _ _ _ _ E) as (locs & Hlen & ->). exists (l :: locs). split; [cbn; lia|].
    cbn [combine map]. now rewrite <- app_assoc.
Qed.

(* whole reduced dump: invariants from the empty image *)
Theorem dump_ok reset w cfg ca r s' :
  dump reset w cfg ca empty_wst = Ok (r, s') -> Inv s'.
Proof.
  intro E. unfold dump in E. step. destruct p as (d1, (blocks, cc)).
  assert (HI0 : Inv empty_wst) by (constructor; cbn; [reflexivity|constructor]).
  destruct (thread_list_ok _ _ _ _ _ _ HI0 E0) as (HI1 & _).
  step. destruct (app_memory_ok _ _ _ _ _ _ HI1 E1) as (HI2 & _).
  step. unfold memory_list in E2.
  match type of E2 with bind ?m ?f ?s = _ => unfold bind in E2 at 1; destruct (m s) as [[hh ws]| |] eqn:Eh; try discriminate end.
  match type of E2 with bind ?m ?f ?s = _ => unfold bind in E2 at 1; destruct (m s) as [[aa wa]| |] eqn:Ea; try discriminate end.
  unfold ret in E2. injection E2 as <- <-.
  destruct (alloc_ok _ _ _ _ _ HI2 Eh) as (HI3 & _). destruct (alloc_ok _ _ _ _ _ HI3 Ea) as (HI4 & _).
  step. unfold ret in E. injection E as <- <-.
  unfold exception in E2. destruct (match cf_crash cfg with Some cr => _ | None => _ end) as ((code, flags), addr).
  destruct (alloc_ok _ _ _ _ _ HI4 E2) as (HI5 & _). exact HI5.
Qed.
Print Assumptions dump_ok.

(* the unchanged writer: blocks of an earlier dump reappear *)
Example reuse_leaks :
  let w := {| wd_threads := []; wd_stack := fun _ => None; wd_read := fun _ _ => Some [1%N] |} in
  let cfg := {| cf_blamed := 1%N; cf_crash := None; cf_app := [(16%N, 1)] |} in
  match dump false w cfg fresh empty_wst with
  | Ok (_, ca1, _) =>
      match dump false w cfg ca1 empty_wst, dump true w cfg ca1 empty_wst with
      | Ok (_, ca2, _), Ok (_, ca2', _) => length (ca_blocks ca2) = 2 /\ length (ca_blocks ca2') = 1
      | _, _ => False end
  | _ => False end.
Proof. vm_compute. split; reflexivity. Qed.
