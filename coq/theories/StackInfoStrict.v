(* C06 / C02: the repaired guard-page search (profile Strict). *)
From Coq Require Import List NArith ZArith Arith Lia Bool.
From MDW Require Import StackInfo.
Import ListNotations.
Local Open Scope N_scope.
Ltac Zify.zify_post_hook ::= Z.to_euclidean_division_equations.

Lemma walk_strict_total ms guard : forall fuel sp,
  sp < W64 -> guard < sp + PAGE * N.of_nat fuel ->
  exists r, walk Strict ms guard fuel sp = Ok r.
Proof.
  induction fuel as [|f IH]; intros sp Hsp Hg; cbn [walk].
  - destruct (may_be_stack _); [eauto|]. destruct (negb (sp <=? guard)) eqn:E; [eauto|].
    apply negb_false_iff, N.leb_le in E. cbn in Hg. lia.
  - destruct (may_be_stack _); [eauto|]. destruct (negb (sp <=? guard)) eqn:E; [eauto|].
    destruct (W64 <=? sp + PAGE) eqn:Eo; [eauto|].
    apply N.leb_gt in Eo. apply IH; [exact Eo|]. rewrite Nat2N.inj_succ in Hg. lia.
Qed.

(* totality: for every stack pointer and every mapping list the search returns within 258
   iterations, without overflow *)
Theorem get_stack_info_strict_total ms sp0 :
  sp0 < W64 -> get_stack_info Strict FUEL ms sp0 <> Panic /\ get_stack_info Strict FUEL ms sp0 <> Hang.
Proof.
  intro H. unfold get_stack_info.
  set (sp := sp0 - sp0 mod PAGE).
  assert (Hsp : sp < W64) by (unfold sp, PAGE, W64 in *; lia).
  destruct (walk_strict_total ms (N.min (sp + GUARD) (W64 - 1)) FUEL sp Hsp) as ((m, sp') & E).
  { unfold FUEL, GUARD, PAGE. cbn. lia. }
  rewrite E. destruct m; split; discriminate.
Qed.

(* what the search finds: the first page address sp + k*PAGE (k >= 0) whose mapping is readable or
   writable, all earlier pages being unmapped or permissionless and within the guard distance *)
Lemma walk_strict_found ms guard : forall fuel sp m sp',
  walk Strict ms guard fuel sp = Ok (Some m, sp') ->
  find_mapping ms sp' = Some m /\ s_rw m = true /\
  exists k, sp' = sp + PAGE * N.of_nat k /\
            (forall j, (j < k)%nat -> may_be_stack (find_mapping ms (sp + PAGE * N.of_nat j)) = false
                                      /\ sp + PAGE * N.of_nat j <= guard).
Proof.
  induction fuel as [|f IH]; intros sp m sp' E; cbn [walk] in E.
  - destruct (find_mapping ms sp) as [m0|] eqn:Ef; cbn [may_be_stack] in E.
    + destruct (s_rw m0) eqn:Erw.
      * injection E as <- <-. split; [exact Ef|]. split; [exact Erw|]. exists 0%nat. split; [cbn; lia|]. intros j Hj. lia.
      * destruct (negb (sp <=? guard)); discriminate.
    + destruct (negb (sp <=? guard)); discriminate.
  - destruct (may_be_stack (find_mapping ms sp)) eqn:Em.
    + injection E as E1 <-. destruct (find_mapping ms sp) as [m0|] eqn:Ef; [|discriminate].
      injection E1 as <-. cbn [may_be_stack] in Em. split; [reflexivity|]. split; [exact Em|].
      exists 0%nat. split; [cbn; lia|]. intros j Hj. lia.
    + destruct (negb (sp <=? guard)) eqn:Eg; [discriminate|].
      destruct (W64 <=? sp + PAGE); [discriminate|].
      destruct (IH _ _ _ E) as (Hf & Hrw & k & Hk & Hall).
      split; [exact Hf|]. split; [exact Hrw|]. exists (S k). split; [rewrite Nat2N.inj_succ; lia|].
      intros j Hj. destruct j as [|j].
      * replace (sp + PAGE * N.of_nat 0) with sp by (cbn; lia). split; [exact Em|].
        apply negb_false_iff, N.leb_le in Eg. exact Eg.
      * destruct (Hall j) as (H1 & H2); [lia|]. rewrite Nat2N.inj_succ.
        replace (sp + PAGE * N.succ (N.of_nat j)) with (sp + PAGE + PAGE * N.of_nat j) by lia. split; assumption.
Qed.

(* guard-page / unmapped case: either no region (the descriptor stays empty), or the region starts
   in the first plausible stack mapping found by stepping pages upward within the guard distance *)
Theorem get_stack_info_strict_guard ms sp0 v len :
  get_stack_info Strict FUEL ms sp0 = Ok (v, len) ->
  let sp := sp0 - sp0 mod PAGE in
  exists m k,
    find_mapping ms (sp + PAGE * N.of_nat k) = Some m /\ s_rw m = true /\
    (forall j, (j < k)%nat -> may_be_stack (find_mapping ms (sp + PAGE * N.of_nat j)) = false
                              /\ sp + PAGE * N.of_nat j <= sp + GUARD) /\
    v = (if contains_sys m (sp + PAGE * N.of_nat k) then sp + PAGE * N.of_nat k else s_start m) /\
    len = s_size m - (v - s_start m).
Proof.
  intros E sp. unfold get_stack_info in E. fold sp in E.
  destruct (walk Strict ms (N.min (sp + GUARD) (W64 - 1)) FUEL sp) as [[[m|] sp']| | |] eqn:Ew; try discriminate.
  injection E as <- <-.
  destruct (walk_strict_found _ _ _ _ _ _ Ew) as (Hf & Hrw & k & -> & Hall).
  exists m, k. split; [exact Hf|]. split; [exact Hrw|]. split; [|split; reflexivity].
  intros j Hj. destruct (Hall j Hj) as (H1 & H2). split; [exact H1|lia].
Qed.
