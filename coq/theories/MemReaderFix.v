From Coq Require Import List NArith ZArith Arith Lia Bool ZifyNat ZifyN ZifyBool.
From MDW Require Import Bytes MemReader.
Import ListNotations.
Open Scope nat_scope.

(* repaired ptrace strategy: whole words as before; a tail of r < 8 bytes is taken from the word that
   ENDS at the range end when the range has at least 8 bytes, otherwise byte-exact from aligned words.
   Modelled at the level that matters for C17: the tail never touches a byte outside [src, src+len). *)
Definition ptrace_fixed (m : mem) (src len : nat) : res :=
  match ptrace_words m src (len / 8) with
  | None => RErr
  | Some body =>
      let rem := len mod 8 in
      if rem =? 0 then ROk body
      else if 8 <=? len then
        match peek m (src + len - 8) with
        | Some w => ROk (body ++ skipn (8 - rem) w)
        | None => RErr
        end
      else match read_range m src len with Some b => ROk b | None => RErr end
  end.

Lemma read_range_app m : forall n1 n2 a b,
  read_range m a (n1 + n2) = Some b ->
  exists b1 b2, read_range m a n1 = Some b1 /\ read_range m (a + n1) n2 = Some b2 /\ b = b1 ++ b2.
Proof.
  induction n1 as [|k IH]; intros n2 a b H; cbn [plus] in *.
  - exists [], b. rewrite Nat.add_0_r. auto.
  - cbn [read_range] in H |- *. destruct (m a) as [x|]; [|discriminate].
    destruct (read_range m (S a) (k + n2)) as [t|] eqn:E; [|discriminate]. injection H as <-.
    destruct (IH _ _ _ E) as (b1 & b2 & H1 & H2 & ->). exists (x :: b1), b2.
    rewrite H1. replace (a + S k) with (S a + k) by lia. auto.
Qed.

Lemma read_range_join m : forall n1 n2 a b1 b2,
  read_range m a n1 = Some b1 -> read_range m (a + n1) n2 = Some b2 -> read_range m a (n1 + n2) = Some (b1 ++ b2).
Proof.
  induction n1 as [|k IH]; intros n2 a b1 b2 H1 H2; cbn [plus] in *.
  - injection H1 as <-. now rewrite Nat.add_0_r in H2.
  - cbn [read_range] in H1 |- *. destruct (m a) as [x|]; [|discriminate].
    destruct (read_range m (S a) k) as [t|] eqn:E; [|discriminate]. injection H1 as <-.
    replace (a + S k) with (S a + k) in H2 by lia. now rewrite (IH _ _ _ _ E H2).
Qed.

Lemma words_exact m : forall n a b, read_range m a (8 * n) = Some b -> ptrace_words m a n = Some b.
Proof.
  induction n as [|k IH]; intros a b H.
  - cbn in H. injection H as <-. reflexivity.
  - replace (8 * S k) with (8 + 8 * k) in H by lia.
    destruct (read_range_app m 8 (8 * k) a b H) as (w & t & Hw & Ht & ->).
    cbn [ptrace_words]. unfold peek. rewrite Hw. now rewrite (IH _ _ Ht).
Qed.

(* C17 for the repaired strategy: a fully readable range is returned exactly, whatever its length *)
Theorem ptrace_fixed_exact m src len b : read_range m src len = Some b -> ptrace_fixed m src len = ROk b.
Proof.
  intro H. unfold ptrace_fixed.
  pose proof (Nat.div_mod_eq len 8) as Hdm.
  set (q := len / 8) in *. set (r := len mod 8) in *.
  assert (Hr : r < 8) by (apply Nat.mod_upper_bound; lia).
  rewrite Hdm in H. destruct (read_range_app m (8 * q) r src b H) as (body & tail & Hb & Ht & ->).
  rewrite (words_exact _ _ _ _ Hb).
  destruct (r =? 0) eqn:Er.
  - apply Nat.eqb_eq in Er. rewrite Er in Ht. cbn in Ht. injection Ht as <-. now rewrite app_nil_r.
  - apply Nat.eqb_neq in Er. destruct (8 <=? len) eqn:E8.
    + apply Nat.leb_le in E8.
      (* the word ending at src+len: its last r bytes are the tail *)
      assert (Hq : 1 <= q) by lia.
      replace (src + len - 8) with (src + (8 * q - (8 - r))) by lia.
      assert (Hsplit : 8 * q = (8 * q - (8 - r)) + (8 - r)) by lia.
      rewrite Hsplit in Hb. destruct (read_range_app m _ _ src body Hb) as (b1 & b2 & H1 & H2 & ->).
      assert (Hw : read_range m (src + (8 * q - (8 - r))) ((8 - r) + r) = Some (b2 ++ tail)).
      { apply read_range_join; [exact H2|]. replace (src + (8 * q - (8 - r)) + (8 - r)) with (src + 8 * q) by lia. exact Ht. }
      replace (8 - r + r) with 8 in Hw by lia. unfold peek. rewrite Hw.
      apply read_range_length in H2. rewrite skipn_app, H2, Nat.sub_diag. rewrite skipn_all2 by lia. reflexivity.
    + apply Nat.leb_gt in E8. assert (Hq0 : q = 0) by lia.
      assert (Hbody : body = []).
      { apply read_range_length in Hb. rewrite Hq0 in Hb. destruct body; [reflexivity|discriminate]. }
      subst body. cbn [app]. rewrite Hq0 in Ht. rewrite Nat.mul_0_r, Nat.add_0_r in Ht.
      rewrite Hdm, Hq0, Nat.mul_0_r. cbn [Nat.add]. now rewrite Ht.
Qed.
Print Assumptions ptrace_fixed_exact.
