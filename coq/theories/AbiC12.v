(* ABI entry for C12 *)
From Coq Require Import List NArith Arith Bool.
From MDW Require Import Bytes Sanitize AbiBase.
Import ListNotations.
Local Open Scope N_scope.

Fixpoint dec_maps (n : nat) (l : list N) : list mapping * list N :=
  match n with
  | O => ([], l)
  | S k =>
      match l with
      | s :: sz :: ss :: se :: x :: rest =>
          let '(ms, r) := dec_maps k rest in
          ({| mp_start := s; mp_size := sz; mp_sys_start := ss; mp_sys_end := se; mp_exec := n2b x |} :: ms, r)
      | _ => ([], l)
      end
  end.

(* [sp; sp_off; nmaps; maps...; stack vec] -> [0; bytes...] | [2] *)
Definition entry_c12 (args : list N) : list N :=
  match args with
  | sp :: off :: n :: rest =>
      let '(ms, rest') := dec_maps (cnt n rest) rest in
      let '(stack, _) := take_vec rest' in
      match sanitize_exec ms stack sp (N.to_nat (N.min off 10000000)) with
      | Ok b => 0 :: b
      | Panic => [2]
      end
  | _ => []
  end.
