(* C14, functional half end to end for a second family of well-formed files: ELF64 images without program
   headers and without a build-id note, with one executable PROGBITS section.  For every text the whole
   reader [build_id] returns the bytewise XOR-fold of the first page (at most 4096 bytes) of that section. *)
From Coq Require Import List NArith ZArith Arith Lia Bool ZifyNat ZifyN ZifyBool.
From MDW Require Import Bytes Elf ElfNotes ElfImage ElfXor.
Import ListNotations.
Local Open Scope nat_scope.

Definition hdr_s : bytes :=
  ([0x7f; 0x45; 0x4c; 0x46; 2; 1; 1; 0; 0; 0; 0; 0; 0; 0; 0; 0]
   ++ le 2 3 ++ le 2 62 ++ le 4 1 ++ le 8 0
   ++ le 8 0 ++ le 8 64 ++ le 4 0                                       (* e_phoff = 0, e_shoff = 64 *)
   ++ le 2 64 ++ le 2 56 ++ le 2 0 ++ le 2 64 ++ le 2 3 ++ le 2 2)%N.    (* phnum = 0, shentsize 64, shnum = 3, shstrndx = 2 *)
Definition sh_null : bytes := repeat 0%N 64.
Definition sh_text_pre : bytes := (le 4 1 ++ le 4 1 ++ le 8 6 ++ le 8 280 ++ le 8 280)%N.   (* ".text", PROGBITS, ALLOC|EXEC, addr, offset *)
Definition sh_text_post : bytes := (le 4 0 ++ le 4 0 ++ le 8 16 ++ le 8 0)%N.
Definition sh_text (n : nat) : bytes := sh_text_pre ++ le 8 (N.of_nat n) ++ sh_text_post.
Definition sh_str : bytes := (le 4 7 ++ le 4 3 ++ le 8 0 ++ le 8 0 ++ le 8 256 ++ le 8 17 ++ le 4 0 ++ le 4 0 ++ le 8 1 ++ le 8 0)%N.
Definition strtab : bytes := ([0; 46;116;101;120;116;0; 46;115;104;115;116;114;116;97;98;0] ++ repeat 0 7)%N.   (* "\0.text\0.shstrtab\0" *)
Definition image_s (text : bytes) : bytes := hdr_s ++ (sh_null ++ sh_text (length text) ++ sh_str) ++ strtab ++ text.

Definition header_s : ehdr :=
  {| e_class64 := true; e_phoff := 0; e_shoff := 64; e_phentsize := 56; e_phnum := 0; e_shentsize := 64; e_shnum := 3; e_shstrndx := 2 |}.
Lemma hdr_s_parses : parse_header hdr_s = Ok header_s. Proof. vm_compute. reflexivity. Qed.
Lemma sh_text_length n : length (sh_text n) = 64.
Proof. unfold sh_text. rewrite !app_length, !le_length. reflexivity. Qed.

Definition S_null : shdr := {| sh_name := 0; sh_type := 0; sh_flags := 0; sh_addr := 0; sh_offset := 0; sh_size := 0; sh_link := 0; sh_addralign := 0 |}.
Definition S_text (n : nat) : shdr := {| sh_name := 1; sh_type := 1; sh_flags := 6; sh_addr := 280; sh_offset := 280; sh_size := N.of_nat n; sh_link := 0; sh_addralign := 16 |}.
Definition S_str : shdr := {| sh_name := 7; sh_type := 3; sh_flags := 0; sh_addr := 0; sh_offset := 256; sh_size := 17; sh_link := 0; sh_addralign := 1 |}.

(* a field read inside one part of a concatenation *)
Lemma get_window (x y z : bytes) off o w : off = length x + o -> o + w <= length y -> get (x ++ y ++ z) off w = get y o w.
Proof.
  intros -> H. unfold get. rewrite !app_length.
  destruct (length x + o + w <=? length x + (length y + length z)) eqn:A; [|apply Nat.leb_gt in A; lia].
  destruct (o + w <=? length y) eqn:B; [|apply Nat.leb_gt in B; lia].
  unfold slice. rewrite skipn_app. rewrite (skipn_all2 x) by lia. cbn [app].
  replace (length x + o - length x) with o by lia.
  rewrite skipn_app, firstn_app, skipn_length. replace (w - (length y - o)) with 0 by lia.
  cbn [firstn]. now rewrite app_nil_r.
Qed.

Lemma parse_shdr_window (x y z : bytes) : length y = 64 -> parse_shdr true (x ++ y ++ z) (length x) = parse_shdr true y 0.
Proof.
  intro H. unfold parse_shdr.
  rewrite (get_window x y z (length x) 0 4), (get_window x y z (length x + 4) 4 4), (get_window x y z (length x + 8) 8 8),
    (get_window x y z (length x + 16) 16 8), (get_window x y z (length x + 24) 24 8), (get_window x y z (length x + 32) 32 8),
    (get_window x y z (length x + 40) 40 4), (get_window x y z (length x + 48) 48 8), (get_window x y z (length x + 56) 56 8) by lia.
  reflexivity.
Qed.

Lemma parse_sh_text n : (N.of_nat n < 2 ^ 63)%N -> parse_shdr true (sh_text n) 0 = Some (S_text n).
Proof.
  intro Hn. unfold parse_shdr, sh_text.
  assert (Lp : length sh_text_pre = 32) by reflexivity.
  set (tl := le 8 (N.of_nat n) ++ sh_text_post).
  rewrite (get_in_prefix sh_text_pre tl 0 4), (get_in_prefix sh_text_pre tl (0 + 4) 4), (get_in_prefix sh_text_pre tl (0 + 8) 8),
    (get_in_prefix sh_text_pre tl (0 + 16) 8), (get_in_prefix sh_text_pre tl (0 + 24) 8) by (rewrite Lp; lia).
  unfold tl.
  assert (B : (256 ^ N.of_nat 8 = 2 ^ 64)%N) by reflexivity.
  rewrite (get_mid sh_text_pre _ 8 (N.of_nat n) (0 + 32)) by (rewrite ?Lp, ?B; lia).
  rewrite (app_assoc sh_text_pre). rewrite <- (app_nil_r sh_text_post).
  rewrite (get_window (sh_text_pre ++ le 8 (N.of_nat n)) sh_text_post [] (0 + 40) 0 4),
    (get_window (sh_text_pre ++ le 8 (N.of_nat n)) sh_text_post [] (0 + 48) 8 8),
    (get_window (sh_text_pre ++ le 8 (N.of_nat n)) sh_text_post [] (0 + 56) 16 8)
    by (rewrite ?app_length, ?le_length, ?Lp; cbn [length sh_text_post]; try reflexivity; unfold sh_text_post; rewrite ?app_length, ?le_length; lia).
  reflexivity.
Qed.

Lemma section_table n : (N.of_nat n < 2 ^ 63)%N ->
  let data := sh_null ++ sh_text n ++ sh_str in
  parse_shdr true data 0 = Some S_null /\ parse_shdr true data 64 = Some (S_text n) /\ parse_shdr true data 128 = Some S_str.
Proof.
  intros Hn data. unfold data. split; [|split].
  - pose proof (parse_shdr_window [] sh_null (sh_text n ++ sh_str)) as H. cbn [app length] in H. rewrite H by reflexivity. reflexivity.
  - pose proof (parse_shdr_window sh_null (sh_text n) sh_str) as H. change (length sh_null) with 64 in H.
    rewrite H by apply sh_text_length. now apply parse_sh_text.
  - pose proof (parse_shdr_window (sh_null ++ sh_text n) sh_str []) as H.
    rewrite app_length, sh_text_length in H. change (length sh_null + 64) with 128 in H.
    rewrite app_nil_r, <- app_assoc in H. rewrite H by reflexivity. reflexivity.
Qed.

Lemma read_sections text :
  (N.of_nat (length (image_s text)) < 2 ^ 63)%N ->
  read_section_headers (mem_of (image_s text)) header_s = Ok [S_null; S_text (length text); S_str].
Proof.
  intro Hsz. unfold read_section_headers, header_s. cbn [e_shoff e_shentsize e_shnum e_class64]. cbn [N.eqb Pos.eqb].
  set (tbl := sh_null ++ sh_text (length text) ++ sh_str).
  assert (Lt : length tbl = 192) by (unfold tbl; rewrite !app_length, sh_text_length; reflexivity).
  assert (Hn : (N.of_nat (length text) < 2 ^ 63)%N).
  { unfold image_s in Hsz. rewrite !app_length in Hsz. lia. }
  replace (rd (mem_of (image_s text)) 64 (64 * 3)) with
    (rd (mem_of (hdr_s ++ tbl ++ strtab ++ text)) (N.of_nat (length hdr_s)) (N.of_nat (length tbl)))
    by (rewrite Lt; reflexivity).
  rewrite rd_mid.
  - cbn [bind shdr_size]. destruct (section_table (length text) Hn) as (P0 & P1 & P2). fold tbl in P0, P1, P2.
    rewrite P0. cbn [N.eqb]. rewrite Lt. change (N.of_nat (192 / 64) <? 3)%N with false. cbn iota.
    change (N.to_nat 3 - 1) with 2. cbn [parse_many]. change (64 + 64) with 128. rewrite P1, P2. reflexivity.
  - intro E. apply (f_equal (@length N)) in E. rewrite Lt in E. discriminate.
  - exact Hsz.
Qed.

Theorem build_id_of_text_image text :
  text <> [] -> (N.of_nat (length (image_s text)) < 2 ^ 63)%N ->
  build_id true (mem_of (image_s text)) = Ok (xor_spec (firstn 4096 text)).
Proof.
  intros Hne Hsz. unfold build_id.
  assert (R0 : rd (mem_of (image_s text)) 0 64 = Ok hdr_s).
  { pose proof (rd_mid [] hdr_s ((sh_null ++ sh_text (length text) ++ sh_str) ++ strtab ++ text)) as H.
    cbn [app length] in H. apply H; [discriminate|exact Hsz]. }
  rewrite R0. cbn [bind]. rewrite hdr_s_parses. cbn [bind].
  (* no program headers *)
  change (read_program_headers (mem_of (image_s text)) header_s) with (@Err (list phdr)). cbn [bind or_else].
  (* the named-section path finds no note section: every name offset is too close to the end of the string table *)
  rewrite (read_sections text Hsz). cbn [bind].
  unfold section_header_with_name. change (N.to_nat (e_shstrndx header_s)) with 2.
  cbn [nth_error S_str sh_type N.eqb Pos.eqb].
  cbn [find_named S_null S_text S_str sh_size sh_name NOTE_NAME length].
  change (17 <=? 0)%N with false. change (17 <=? 0 + N.of_nat 19)%N with true.
  change (17 <=? 1)%N with false. change (17 <=? 1 + N.of_nat 19)%N with true.
  change (17 <=? 7)%N with false. change (17 <=? 7 + N.of_nat 19)%N with true. cbn iota. cbn [bind or_else].
  (* the text-hash path (the section table was rewritten above already) *)
  assert (F : find is_exec_section [S_null; S_text (length text); S_str] = Some (S_text (length text))) by reflexivity.
  rewrite F. cbn [S_text sh_offset sh_size].
  set (page := firstn 4096 text).
  assert (Lp : N.min 4096 (N.of_nat (length text)) = N.of_nat (length page)).
  { unfold page. rewrite firstn_length. lia. }
  rewrite Lp.
  assert (R2 : rd (mem_of (image_s text)) 280 (N.of_nat (length page)) = Ok page).
  { assert (E : image_s text = (hdr_s ++ (sh_null ++ sh_text (length text) ++ sh_str) ++ strtab) ++ page ++ skipn 4096 text)
      by (unfold image_s, page; rewrite <- !app_assoc, firstn_skipn; reflexivity).
    rewrite E.
    replace 280%N with (N.of_nat (length (hdr_s ++ (sh_null ++ sh_text (length text) ++ sh_str) ++ strtab)))
      by (rewrite !app_length, sh_text_length; reflexivity).
    apply rd_mid.
    - unfold page. destruct text; [contradiction|discriminate].
    - rewrite <- E. exact Hsz. }
  rewrite R2. cbn [bind]. now rewrite xor16_is_spec.
Qed.

Example text_image_example : build_id true (mem_of (image_s [1; 2; 3]%N)) = Ok ([1; 2; 3] ++ repeat 0 13)%N.
Proof. vm_compute. reflexivity. Qed.

Print Assumptions build_id_of_text_image.
