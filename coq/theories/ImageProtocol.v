(* C09 / C10 for the WHOLE dump: the whole-image model is an instance of the directory-section protocol.
   Between two flushes the builder only APPENDS to the image (frame law: a section never changes a byte that was there
   when it started - arrays are patched inside the part not flushed yet); the directory entry is patched into its slot.
   So the buffer history of a dump is: header ++ zeroed directory, then for each step of the plan  Grow (new bytes) ;
   Flush (entry) - exactly the operation sequences the C09 / C10 theorems quantify over.  Hence, for every content, every
   starting position and pre-existing content of the destination, and either write order: after the dump the destination
   holds  pre ++ image ++ (old bytes beyond it). *)
From Coq Require Import List NArith ZArith Arith Lia Bool ZifyNat ZifyN ZifyBool.
From MDW Require Import Bytes MemWriter Writer Hoare MiniDump WComb WFrame GenTypes Generated PlanProofs Image ImageProofs ImageDirProofs
                        DirSection DirSectionProofs DirSeqProofs.
Import ListNotations.
Local Open Scope nat_scope.

Definition bufof (st : bytes * dirsec * dest) : bytes := fst (fst st).
Definition secof (st : bytes * dirsec * dest) : dirsec := snd (fst st).

Lemma wtf_buf ef buf s d e :
  bufof (write_to_file ef buf s d e) = match e with Some x => update buf (ds_sec s + 12 * ds_idx s) x | None => buf end /\
  ds_sec (secof (write_to_file ef buf s d e)) = ds_sec s /\
  ds_idx (secof (write_to_file ef buf s d e)) = match e with Some _ => S (ds_idx s) | None => ds_idx s end.
Proof. unfold write_to_file, flush, dump_dir_entry, set_last, bufof, secof. destruct e as [x|]; [destruct ef|]; cbn; auto. Qed.

(* does this step end with a flush of the directory section? (every step does, except restarting the threads) *)
Definition flushes (s : step) : bool := match s with St_resume_threads => false | _ => true end.

Lemma firstn_all_app {A} (a l : list A) : firstn (length a) l = a -> l = a ++ skipn (length a) l.
Proof. intro H. rewrite <- H at 1. symmetry. apply firstn_skipn. Qed.

Lemma run_plan_protocol c dir_base : forall plan idx ds acc log s res s',
  run_plan c dir_base plan idx ds acc log s = Ok (res, s') -> small (blen s') ->
  dir_base + DIRENT_SZ * (idx + length (types_of plan)) <= blen s ->
  exists ops, fits (length (types_of plan)) ops /\
    forall ef sd d, ds_sec sd = dir_base -> ds_idx sd = idx ->
      bufof (fold_left (run_op ef) ops (w_buf s, sd, d)) = w_buf s'.
Proof.
  induction plan as [|st rest IH]; intros idx ds acc log s res s' E Hs Hdb; cbn [run_plan] in E.
  - injection E as _ <-. exists []. split; [exact I|]. intros. reflexivity.
  - unfold bind at 1 in E. destruct (run_step c st ds s) as [[r s1]| |] eqn:E1; try discriminate.
    pose proof (run_step_shape _ _ _ _ _ _ E1) as Hshape.
    unfold bind at 1 in E. cbn [w_get] in E.
    destruct (run_step_frame (blen s) c st ds s r s1 E1 (le_n _)) as (L1 & K1).
    cbn [types_of flat_map] in Hdb |- *. fold (types_of rest) in Hdb |- *.
    destruct (fst r) as [d0|] eqn:Ed; destruct (stream_type st) as [ty|] eqn:Et; try contradiction.
    + unfold bind at 1 in E. destruct (w_patch (dir_base + DIRENT_SZ * idx) (enc_dirent d0) s1) as [[u s2]| |] eqn:E2; try discriminate.
      unfold bind at 1 in E. cbn [w_get] in E.
      pose proof (run_plan_mono _ _ _ _ _ _ _ _ _ _ E) as L3.
      destruct (frame_patch 0 _ _ ltac:(lia) _ _ _ E2 ltac:(lia)) as (L2 & _).
      assert (Hs1 : small (blen s1)) by (eapply small_le; [|exact Hs]; lia).
      specialize (K1 Hs1). unfold blen in K1. rewrite firstn_all in K1.
      apply firstn_all_app in K1.
      cbn [app length] in Hdb.
      assert (Hdb2 : dir_base + DIRENT_SZ * (S idx + length (types_of rest)) <= blen s2) by lia.
      destruct (IH _ _ _ _ _ _ _ E Hs Hdb2) as (ops & Hfit & Hrun).
      exists (Grow (skipn (length (w_buf s)) (w_buf s1)) :: Flush (Some (enc_dirent d0)) :: ops).
      split.
      * cbn [app length fits]. rewrite enc_dirent_len. split; [reflexivity|]. split; [lia|].
        match goal with |- fits ?k ops => replace k with (length (types_of rest)) by lia end. exact Hfit.
      * intros ef sd d Hsec Hidx. cbn [fold_left run_op]. rewrite <- K1.
        destruct (wtf_buf ef (w_buf s1) sd d (Some (enc_dirent d0))) as (Hb & Hsc & Hix).
        destruct (write_to_file ef (w_buf s1) sd d (Some (enc_dirent d0))) as ((b2, sd2), d2) eqn:Ew.
        unfold bufof, secof in Hb, Hsc, Hix. cbn [fst snd] in Hb, Hsc, Hix.
        (* the model's patch is the same update *)
        assert (Hin : dir_base + DIRENT_SZ * idx + length (enc_dirent d0) <= length (w_buf s1)) by (rewrite enc_dirent_len; unfold blen, DIRENT_SZ in *; lia).
        unfold w_patch in E2. rewrite write_at_inside in E2 by exact Hin. injection E2 as _ Hs2.
        rewrite <- Hs2 in Hrun. cbn [w_buf] in Hrun.
        rewrite <- (Hrun ef sd2 d2); [|rewrite Hsc; exact Hsec|rewrite Hix, Hidx; reflexivity].
        rewrite Hb, Hsec, Hidx. reflexivity.
    + cbn [app] in Hdb. destruct (IH _ _ _ _ _ _ _ E Hs ltac:(lia)) as (ops & Hfit & Hrun).
      pose proof (run_plan_mono _ _ _ _ _ _ _ _ _ _ E) as L3.
      assert (Hs1 : small (blen s1)) by (eapply small_le; [|exact Hs]; lia).
      specialize (K1 Hs1). unfold blen in K1. rewrite firstn_all in K1. apply firstn_all_app in K1.
      exists (Grow (skipn (length (w_buf s)) (w_buf s1)) :: (if flushes st then [Flush None] else []) ++ ops).
      split.
      * cbn [app fits]. destruct (flushes st); cbn [app fits]; exact Hfit.
      * intros ef sd d Hsec Hidx. cbn [fold_left run_op]. rewrite <- K1.
        destruct (flushes st); cbn [app fold_left run_op].
        -- destruct (wtf_buf ef (w_buf s1) sd d None) as (Hb & Hsc & Hix).
           destruct (write_to_file ef (w_buf s1) sd d None) as ((b2, sd2), d2) eqn:Ew.
           unfold bufof, secof in Hb, Hsc, Hix. cbn [fst snd] in Hb, Hsc, Hix. subst b2.
           apply Hrun; [rewrite Hsc; exact Hsec|rewrite Hix; exact Hidx].
        -- now apply Hrun.
Qed.

Lemma head_buffer c : w_buf (head_state c) = enc_header (ic_time c) 32%N ++ repeat 0%N (12 * NUM_DIRS).
Proof.
  unfold head_state. cbn [w_buf]. change (DIRENT_SZ * NUM_DIRS) with (12 * NUM_DIRS).
  rewrite update_app_in by (rewrite enc_header_len, repeat_length; unfold HEADER_SZ; lia). reflexivity.
Qed.

(* The whole dump as an instance of the directory-section protocol: there is ONE operation sequence (growth of the image by
   appending, flushes, flushes with entry - at most the declared number of entries) such that, whatever the destination held
   and wherever it was positioned, and in either write order, running the directory-section model on it ends with exactly the
   image the whole-image model builds; the C09 invariant then says what the destination holds. *)
Theorem image_destination c dirs lg s' :
  image c empty_wst = Ok ((dirs, lg), s') -> small (blen s') ->
  exists ops, fits NUM_DIRS ops /\
    forall ef pre post,
      let d0 := {| d_bytes := pre ++ post; d_pos := length pre |} in
      let '(b1, s1) := ds_new (enc_header (ic_time c) 32%N) NUM_DIRS d0 in
      let '(buf', sd', d') := fold_left (run_op ef) (Flush None :: ops) (b1, s1, d0) in
      buf' = w_buf s' /\ Inv pre post buf' sd' d' /\ dir_flushed sd'.
Proof.
  intros E Hs. rewrite image_eq in E.
  assert (Hdb : HEADER_SZ + DIRENT_SZ * (0 + length (types_of (map fst stream_plan))) <= blen (head_state c)) by apply side1.
  destruct (run_plan_protocol c HEADER_SZ (map fst stream_plan) 0 ([], CNone) [] _ (head_state c) (dirs, lg) s' E Hs Hdb) as (ops & Hfit & Hrun).
  rewrite plan_types_are in Hfit. change (length plan_types) with NUM_DIRS in Hfit.
  exists ops. split; [exact Hfit|]. intros ef pre post.
  pose proof (protocol_inv ef pre post (enc_header (ic_time c) 32%N) NUM_DIRS ops Hfit) as HP. cbv zeta in HP |- *.
  set (d0 := {| d_bytes := pre ++ post; d_pos := length pre |}) in *.
  destruct (ds_new (enc_header (ic_time c) 32%N) NUM_DIRS d0) as (b1, s1) eqn:En.
  destruct (fold_left (run_op ef) (Flush None :: ops) (b1, s1, d0)) as ((buf', sd'), d') eqn:Ef.
  destruct HP as (HI & Hfl). split; [|split; [exact HI|exact Hfl]].
  cbn [fold_left run_op] in Ef.
  destruct (wtf_buf ef b1 s1 d0 None) as (Hb & Hsc & Hix).
  destruct (write_to_file ef b1 s1 d0 None) as ((b2, sd2), d2) eqn:Ew. unfold bufof, secof in Hb, Hsc, Hix. cbn [fst snd] in Hb, Hsc, Hix. subst b2.
  unfold ds_new in En. injection En as Hb1 Hs1.
  assert (Hhead : b1 = w_buf (head_state c)) by (rewrite head_buffer, <- Hb1; reflexivity).
  specialize (Hrun ef sd2 d2). rewrite <- Hhead in Hrun. rewrite Ef in Hrun. unfold bufof in Hrun. cbn [fst] in Hrun. apply Hrun.
  - rewrite Hsc, <- Hs1. cbn [ds_sec]. reflexivity.
  - rewrite Hix, <- Hs1. reflexivity.
Qed.
Print Assumptions image_destination.
