(* GENERATED from ElfProofs.v by tools/mk_be.py (big-endian copy) - do not edit; edit ElfProofs.v and re-run the script. *)
From Coq Require Import List NArith ZArith Arith Lia Bool.
From MDW Require Import Bytes ElfBE.
Import ListNotations.
Open Scope N_scope.

(* With the two additions checked, no input makes the build-id reader trap. *)
Lemma bind_np {A B} (m : res A) (f : A -> res B) :
  m <> Panic -> (forall a, f a <> Panic) -> bind m f <> Panic.
Proof. destruct m; cbn; auto; discriminate. Qed.

Lemma of_opt_np {A} (o : option A) : of_opt o <> Panic.
Proof. destruct o; discriminate. Qed.

Lemma rd_np m o l : rd m o l <> Panic.
Proof.
  unfold rd. destruct (m_start m).
  - destruct (l =? 0); [discriminate|]. destruct (W64 <=? n + o); [discriminate|].
    destruct (prefix_from _ _ _); discriminate.
  - destruct (W64 <=? o + l); [discriminate|]. destruct (o + l <=? m_size m); discriminate.
Qed.

Lemma add_site_checked_np a b : add_site true a b <> Panic.
Proof. unfold add_site. destruct (a + b <? W64); discriminate. Qed.

Lemma parse_header_np b : parse_header b <> Panic.
Proof.
  unfold parse_header.
  destruct (length b <? 16)%nat; [discriminate|]. destruct (negb _); [discriminate|].
  destruct (nth 4 b 0 =? 2).
  - destruct (nth 5 b 0 =? _).
    + repeat (apply bind_np; [apply of_opt_np|intro]). discriminate.
    + destruct (nth 5 b 0 =? _); [destruct (64 <=? length b)%nat|]; discriminate.
  - destruct (nth 4 b 0 =? 1); [|discriminate].
    destruct (nth 5 b 0 =? _).
    + repeat (apply bind_np; [apply of_opt_np|intro]). discriminate.
    + destruct (nth 5 b 0 =? _); [destruct (52 <=? length b)%nat|]; discriminate.
Qed.

Lemma read_program_headers_np m h : read_program_headers m h <> Panic.
Proof.
  unfold read_program_headers. destruct (e_phoff h =? 0); [discriminate|].
  apply bind_np; [apply rd_np|intro d]. destruct (_ <? _)%nat; [discriminate|apply of_opt_np].
Qed.

Lemma note_iter_np fuel : forall a b size off, note_iter fuel a b size off <> Panic.
Proof.
  induction fuel as [|f IH]; intros a b size off; cbn [note_iter]; [discriminate|].
  destruct (size <=? N.of_nat off); [discriminate|].
  destruct (parse_note a b off) as [[[[name desc] ty] next]|]; [|discriminate].
  destruct (negb (ascii_only name)); [discriminate|].
  destruct (is_gnu name && (ty =? 3)); [discriminate|apply IH].
Qed.

Lemma find_note_np m o s a : find_build_id_note m o s a <> Panic.
Proof.
  unfold find_build_id_note. apply bind_np; [apply rd_np|intro d].
  destruct (negb _); [discriminate|apply note_iter_np].
Qed.

Lemma first_note_np m phs : first_note m phs <> Panic.
Proof.
  induction phs as [|p t IH]; cbn [first_note]; [discriminate|].
  destruct (p_type p =? 4); [|exact IH].
  pose proof (find_note_np m (p_offset p) (p_filesz p) (p_align p)) as H.
  destruct (find_build_id_note m (p_offset p) (p_filesz p) (p_align p)) as [[d|]| | |]; try exact IH; try discriminate; contradiction.
Qed.

Lemma read_section_headers_np m h : read_section_headers m h <> Panic.
Proof.
  unfold read_section_headers. destruct (e_shoff h =? 0); [discriminate|].
  apply bind_np; [apply rd_np|intro d]. destruct (parse_shdr _ d 0); [|discriminate].
  destruct (_ <? _); [discriminate|]. destruct (parse_many _ _ _ _ _); discriminate.
Qed.

Lemma find_named_np m st name hs : find_named true m st name hs <> Panic.
Proof.
  induction hs as [|h t IH]; cbn [find_named]; [discriminate|].
  destruct (sh_size st <=? sh_name h); [exact IH|].
  destruct (sh_size st <=? sh_name h + N.of_nat (length name)); [exact IH|].
  apply bind_np; [apply add_site_checked_np|intro off].
  apply bind_np; [apply rd_np|intro n]. destruct (beq n name); [discriminate|exact IH].
Qed.

Lemma or_else_np {A} (a : res A) b : a <> Panic -> (b tt <> Panic) -> or_else a b <> Panic.
Proof. destruct a; cbn; auto; discriminate. Qed.

Theorem build_id_total m : build_id true m <> Panic.
Proof.
  unfold build_id. apply bind_np; [apply rd_np|intro hb]. apply bind_np; [apply parse_header_np|intro h].
  apply or_else_np; [|apply or_else_np].
  - apply bind_np; [apply read_program_headers_np|intro phs; apply first_note_np].
  - apply bind_np; [apply read_section_headers_np|intro hs].
    apply bind_np.
    + unfold section_header_with_name. destruct (nth_error hs _); [|discriminate].
      destruct (sh_type s =? 3); [apply find_named_np|discriminate].
    + intros [s|]; [|discriminate]. apply bind_np; [apply find_note_np|intro r; apply of_opt_np].
  - apply bind_np; [apply read_section_headers_np|intro hs].
    destruct (find is_exec_section hs); [|discriminate].
    apply bind_np; [apply rd_np|intro d; discriminate].
Qed.
Print Assumptions build_id_total.
