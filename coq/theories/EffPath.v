From Coq Require Import List NArith Arith Bool.
Import ListNotations.
Open Scope N_scope.

(* Paths are byte lists.  Modelled fragment: the mapping name is an absolute path without trailing
   '/' whose last component is not "." or ".." (what the kernel prints for file mappings), or has no
   '/' at all (pseudo names); the SONAME is non-empty.  Outside it the model answers Unspec. *)
Inductive res (A : Type) := Ok (a : A) | Unspec.
Arguments Ok {A} _. Arguments Unspec {A}.

Definition SLASH : N := 47.
Fixpoint last_slash_split (s : list N) (acc_dir acc_comp : list N) : list N * list N :=
  (* returns (everything up to and including the last '/', last component) *)
  match s with
  | [] => (acc_dir, acc_comp)
  | c :: t => if c =? SLASH then last_slash_split t (acc_dir ++ acc_comp ++ [c]) [] else last_slash_split t acc_dir (acc_comp ++ [c])
  end.
Definition beq (a b : list N) : bool := if list_eq_dec N.eq_dec a b then true else false.
Definition dot_comp (c : list N) : bool := beq c [46] || beq c [46; 46] || beq c [].
Definition has_slash (s : list N) : bool := existsb (N.eqb SLASH) s.

(* PathBuf::set_file_name(name): pop the last component (if there is a normal one), then push *)
(* PathBuf::push(name): absolute name replaces; otherwise append with a separator if needed *)
Definition push (p name : list N) : list N :=
  match name with
  | 47 :: _ => name
  | _ => match p with
         | [] => name
         | _ => if (last p 0 =? SLASH) then p ++ name else p ++ [SLASH] ++ name
         end
  end.

Definition effective_path (name soname : list N) (exec : bool) (offset : N) : res (list N) :=
  let '(dir, comp) := last_slash_split name [] [] in
  if dot_comp comp && negb (beq name []) then Unspec
  else if beq soname [] then Unspec
  else if has_slash soname then Unspec
  else if exec && negb (offset =? 0) then Ok (push name soname)
  else
    (* set_file_name: parent = dir without its trailing '/', unless it is the root *)
    let parent := match dir with [] => [] | _ => if beq dir [SLASH] then dir else removelast dir end in
    Ok (push parent soname).
