From Coq Require Import List NArith ZArith Arith Lia Bool.
From MDW Require Import Bytes.
Import ListNotations.
Open Scope N_scope.

(* Target memory for copy_from_process: prefix semantics (vectored read); empty prefix = error. *)
Definition mem := N -> option N.
Fixpoint prefix_from (m : mem) (a : N) (n : nat) : bytes :=
  match n with O => [] | S k => match m a with Some x => x :: prefix_from m (a + 1) k | None => [] end end.
Definition copy (m : mem) (a : N) (n : nat) : option bytes :=
  match n with O => None | _ => match prefix_from m a n with [] => None | b => Some b end end.

Inductive res (A : Type) := Ok (a : A) | Err | Panic | Hang.
Arguments Ok {A} _. Arguments Err {A}. Arguments Panic {A}. Arguments Hang {A}.

Definition get (b : bytes) (off w : nat) : option N :=
  if (off + w <=? length b)%nat then Some (unle (slice b off w)) else None.

Record link_map := { l_addr : N; l_name : N; l_ld : N; l_next : N }.

(* one step of the `while curr_map != 0` loop: read 40 bytes (5 words), reinterpret.
   exact = repaired code (a short read is an error); unchanged code indexes body[0] of an empty slice -> Panic *)
Definition read_link_map (exact : bool) (m : mem) (a : N) : res link_map :=
  match copy m a 40 with
  | None => Err
  | Some b =>
      if (length b <? 40)%nat then (if exact then Err else Panic)
      else match get b 0 8, get b 8 8, get b 16 8, get b 24 8 with
           | Some x, Some n, Some d, Some nx => Ok {| l_addr := x; l_name := n; l_ld := d; l_next := nx |}
           | _, _, _, _ => Err
           end
  end.

(* bound = None: the unchanged unbounded walk (fuel exhaustion = Hang);
   bound = Some k: the repaired walk gives up (error) after k entries *)
Fixpoint walk (exact : bool) (bound : option nat) (m : mem) (fuel : nat) (cur : N) (acc : list link_map) : res (list link_map) :=
  if cur =? 0 then Ok (rev acc)
  else match fuel with
       | O => match bound with Some _ => Err | None => Hang end
       | S f => match read_link_map exact m cur with
                | Ok lm => walk exact bound m f (l_next lm) (lm :: acc)
                | Err => Err | Panic => Panic | Hang => Hang
                end
       end.

Definition MAX_DSOS : nat := 4096.
Definition walk_fixed (m : mem) (r_map : N) : res (list link_map) := walk true (Some MAX_DSOS) m MAX_DSOS r_map [].

(* the repaired walk never traps or hangs, whatever the memory contains (cyclic chains included) *)
Lemma walk_fixed_total m : forall fuel cur acc,
  walk true (Some MAX_DSOS) m fuel cur acc <> Panic /\ walk true (Some MAX_DSOS) m fuel cur acc <> Hang.
Proof.
  induction fuel as [|f IH]; intros cur acc; cbn [walk].
  - destruct (cur =? 0); split; discriminate.
  - destruct (cur =? 0); [split; discriminate|].
    unfold read_link_map. destruct (copy m cur 40) as [b|]; [|split; discriminate].
    destruct (length b <? 40)%nat; [split; discriminate|].
    destruct (get b 0 8), (get b 8 8), (get b 16 8), (get b 24 8); try (split; discriminate). apply IH.
Qed.

(* specification: the chain as an inductive relation over memory *)
Inductive chain (m : mem) : N -> list link_map -> Prop :=
| chain_nil : chain m 0 []
| chain_cons a lm t : a <> 0 -> read_link_map true m a = Ok lm -> chain m (l_next lm) t -> chain m a (lm :: t).

Lemma walk_chain m : forall fuel cur acc l,
  walk true (Some MAX_DSOS) m fuel cur acc = Ok l -> exists t, l = rev acc ++ t /\ chain m cur t.
Proof.
  induction fuel as [|f IH]; intros cur acc l H; cbn [walk] in H.
  - destruct (cur =? 0) eqn:E; [|discriminate]. apply N.eqb_eq in E. subst. injection H as <-.
    exists []. split; [now rewrite app_nil_r|constructor].
  - destruct (cur =? 0) eqn:E.
    + apply N.eqb_eq in E. subst. injection H as <-. exists []. split; [now rewrite app_nil_r|constructor].
    + apply N.eqb_neq in E. destruct (read_link_map true m cur) as [lm| | |] eqn:R; try discriminate.
      destruct (IH _ _ _ H) as (t & -> & Hc). exists (lm :: t). split.
      * cbn [rev]. now rewrite <- app_assoc.
      * econstructor; eauto.
Qed.

(* C18 (linker list): a successful walk returns exactly the chain reachable from r_map *)
Theorem walk_fixed_spec m r l : walk_fixed m r = Ok l -> chain m r l.
Proof. intro H. destruct (walk_chain m _ _ _ _ H) as (t & -> & Hc). exact Hc. Qed.

(* unchanged code on a 2-cycle: no fuel suffices *)
Definition cyc : mem := fun a =>
  if (0x1000 <=? a) && (a <? 0x1028) then Some (nth (N.to_nat (a - 0x1000)) (le 8 1 ++ le 8 0 ++ le 8 2 ++ le 8 0x1000 ++ le 8 0) 0) else None.
Lemma cyc_read : read_link_map false cyc 0x1000 = Ok {| l_addr := 1; l_name := 0; l_ld := 2; l_next := 0x1000 |}.
Proof. vm_compute. reflexivity. Qed.
Theorem walk_orig_hangs_on_cycle fuel : forall acc, walk false None cyc fuel 0x1000 acc = Hang.
Proof.
  induction fuel as [|f IH]; intro acc; cbn [walk]; [reflexivity|].
  change (0x1000 =? 0) with false. cbv iota. rewrite cyc_read. cbn [l_next]. apply IH.
Qed.
Print Assumptions walk_fixed_spec.
Print Assumptions walk_orig_hangs_on_cycle.
