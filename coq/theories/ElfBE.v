(* GENERATED from Elf.v by tools/mk_be.py (big-endian copy) - do not edit; edit Elf.v and re-run the script. *)
From Coq Require Import List NArith ZArith Arith Lia Bool.
From MDW Require Import Bytes.
Import ListNotations.
Open Scope N_scope.

(* ---------- outcomes ---------- *)
Inductive res (A : Type) := Ok (a : A) | Err | Panic | Unspec.
Arguments Ok {A} _. Arguments Err {A}. Arguments Panic {A}. Arguments Unspec {A}.
Definition bind {A B} (m : res A) (f : A -> res B) : res B :=
  match m with Ok a => f a | Err => Err | Panic => Panic | Unspec => Unspec end.
Notation "x <- m ;; k" := (bind m (fun x => k)) (at level 61, m at next level, right associativity).
Definition of_opt {A} (o : option A) : res A := match o with Some a => Ok a | None => Err end.

Definition W64 : N := 2 ^ 64.
Definition beq (a b : bytes) : bool := if list_eq_dec N.eq_dec a b then true else false.

(* ---------- module memory ---------- *)
(* byte oracle + mode.  Slice: [m_size] bytes, all-or-nothing reads.  Process: reads at start+offset,
   may be short (vectored read returns the readable prefix), empty prefix = error. *)
Record memory := {
  m_byte : N -> option N;
  m_size : N;                 (* slice length (slice mode) *)
  m_start : option N;         (* Some start_address = process mode *)
}.

Fixpoint prefix_from (m : N -> option N) (a : N) (n : nat) : bytes :=
  match n with O => [] | S k => match m a with Some x => x :: prefix_from m (a + 1) k | None => [] end end.

(* [checked]: are the two additions of module_reader.rs:144/:429 checked (repaired) or not (unchanged) *)
Definition rd (m : memory) (offset length : N) : res bytes :=
  match m_start m with
  | Some start =>
      if length =? 0 then Err
      else if W64 <=? start + offset then Err
      else match prefix_from (m_byte m) (start + offset) (N.to_nat length) with
           | [] => Err
           | bs => Ok bs
           end
  | None =>
      if W64 <=? offset + length then Err
      else if offset + length <=? m_size m
           then Ok (prefix_from (m_byte m) offset (N.to_nat length))
           else Err
  end.

Definition add_site (checked : bool) (a b : N) : res N :=
  if a + b <? W64 then Ok (a + b) else if checked then Err else Panic.

(* ---------- BIG-endian field access on a byte block ---------- *)
Definition get (b : bytes) (off w : nat) : option N :=
  if (off + w <=? length b)%nat then Some (unbe (slice b off w)) else None.

(* ---------- header ---------- *)
Record ehdr := { e_class64 : bool; e_phoff : N; e_shoff : N; e_phentsize : N; e_phnum : N;
                 e_shentsize : N; e_shnum : N; e_shstrndx : N }.

Definition parse_header (b : bytes) : res ehdr :=
  if (length b <? 16)%nat then Err
  else if negb (beq (firstn 4 b) [0x7f; 0x45; 0x4c; 0x46]) then Err
  else
    let cls := nth 4 b 0 in let dat := nth 5 b 0 in
    if cls =? 2 then
      if dat =? 2 then
        phoff <- of_opt (get b 32 8) ;; shoff <- of_opt (get b 40 8) ;;
        phes <- of_opt (get b 54 2) ;; phn <- of_opt (get b 56 2) ;;
        shes <- of_opt (get b 58 2) ;; shn <- of_opt (get b 60 2) ;; shx <- of_opt (get b 62 2) ;;
        Ok {| e_class64 := true; e_phoff := phoff; e_shoff := shoff; e_phentsize := phes; e_phnum := phn;
              e_shentsize := shes; e_shnum := shn; e_shstrndx := shx |}
      else if dat =? 1 then (if (64 <=? length b)%nat then Unspec else Err) else Err
    else if cls =? 1 then
      if dat =? 2 then
        phoff <- of_opt (get b 28 4) ;; shoff <- of_opt (get b 32 4) ;;
        phes <- of_opt (get b 42 2) ;; phn <- of_opt (get b 44 2) ;;
        shes <- of_opt (get b 46 2) ;; shn <- of_opt (get b 48 2) ;; shx <- of_opt (get b 50 2) ;;
        Ok {| e_class64 := false; e_phoff := phoff; e_shoff := shoff; e_phentsize := phes; e_phnum := phn;
              e_shentsize := shes; e_shnum := shn; e_shstrndx := shx |}
      else if dat =? 1 then (if (52 <=? length b)%nat then Unspec else Err) else Err
    else Err.

(* ---------- program headers ---------- *)
Record phdr := { p_type : N; p_offset : N; p_vaddr : N; p_filesz : N; p_memsz : N; p_align : N }.
Definition phdr_size (c64 : bool) : nat := if c64 then 56%nat else 32%nat.

Definition parse_phdr (c64 : bool) (b : bytes) (off : nat) : option phdr :=
  if c64 then
    match get b off 4, get b (off + 8) 8, get b (off + 16) 8, get b (off + 32) 8, get b (off + 40) 8, get b (off + 48) 8 with
    | Some t, Some o, Some v, Some fs, Some ms, Some al =>
        Some {| p_type := t; p_offset := o; p_vaddr := v; p_filesz := fs; p_memsz := ms; p_align := al |}
    | _, _, _, _, _, _ => None
    end
  else
    match get b off 4, get b (off + 4) 4, get b (off + 8) 4, get b (off + 16) 4, get b (off + 20) 4, get b (off + 28) 4 with
    | Some t, Some o, Some v, Some fs, Some ms, Some al =>
        Some {| p_type := t; p_offset := o; p_vaddr := v; p_filesz := fs; p_memsz := ms; p_align := al |}
    | _, _, _, _, _, _ => None
    end.

Fixpoint parse_many {A} (parse1 : bytes -> nat -> option A) (b : bytes) (off stride : nat) (count : nat) : option (list A) :=
  match count with
  | O => Some []
  | S k => match parse1 b off, parse_many parse1 b (off + stride) stride k with
           | Some x, Some t => Some (x :: t) | _, _ => None end
  end.

Definition read_program_headers (m : memory) (h : ehdr) : res (list phdr) :=
  if e_phoff h =? 0 then Err
  else
    data <- rd m (e_phoff h) (e_phentsize h * e_phnum h) ;;      (* u16 * u16: cannot overflow *)
    let sz := phdr_size (e_class64 h) in
    if (length data / sz <? N.to_nat (e_phnum h))%nat then Err
    else of_opt (parse_many (parse_phdr (e_class64 h)) data 0 sz (N.to_nat (e_phnum h))).

(* ---------- notes ---------- *)
Definition align_up (a off : nat) : nat := ((off + a - 1) / a * a)%nat.

(* one note at [off]: Some (name bytes, desc, type, next offset) *)
Definition parse_note (a : nat) (b : bytes) (off : nat) : option (bytes * bytes * N * nat) :=
  match get b off 4, get b (off + 4) 4, get b (off + 8) 4 with
  | Some namesz, Some descsz, Some ty =>
      (* compare in N before converting: the sizes are target-controlled 32-bit values *)
      if N.of_nat (length b) <? namesz - 1 then None else
      if N.of_nat (length b) <? descsz then None else
      let nlen := N.to_nat (namesz - 1) in                        (* saturating_sub(1) *)
      let o1 := (off + 12)%nat in
      if (o1 + nlen <=? length b)%nat then
        let name := slice b o1 nlen in
        let o2 := align_up a (o1 + nlen + (if (namesz =? 0)%N then 0 else 1))%nat in
        let dlen := N.to_nat descsz in
        if (o2 <=? length b)%nat && (dlen <=? length b - o2)%nat then
          Some (name, slice b o2 dlen, ty, align_up a (o2 + dlen))
        else None
      else None
  | _, _, _ => None
  end.

Definition GNU : bytes := [71; 78; 85].
Definition is_gnu (name : bytes) : bool := beq name GNU.
Definition ascii_only (b : bytes) : bool := forallb (fun x => x <? 128) b.

(* iterate notes while offset < size (the REQUESTED size); stop at the first malformed note *)
Fixpoint note_iter (fuel : nat) (a : nat) (b : bytes) (size : N) (off : nat) : res (option bytes) :=
  match fuel with
  | O => Ok None      (* unreachable: every step advances by >= 12 bytes, fuel = |b|+1 suffices *)
  | S f =>
      if (size <=? N.of_nat off) then Ok None
      else match parse_note a b off with
           | None => Ok None
           | Some (name, desc, ty, next) =>
               if negb (ascii_only name) then Unspec
               else if is_gnu name && (ty =? 3) then Ok (Some desc)
               else note_iter f a b size next
           end
  end.

Definition find_build_id_note (m : memory) (offset size align : N) : res (option bytes) :=
  notes <- rd m offset size ;;
  let a := if align <? 4 then 4 else align in
  if negb ((a =? 4) || (a =? 8)) then Ok None
  else note_iter (S (length notes)) (N.to_nat a) notes size 0.

(* ---------- section headers ---------- *)
Record shdr := { sh_name : N; sh_type : N; sh_flags : N; sh_addr : N; sh_offset : N; sh_size : N;
                 sh_link : N; sh_addralign : N }.
Definition shdr_size (c64 : bool) : nat := if c64 then 64%nat else 40%nat.
Definition parse_shdr (c64 : bool) (b : bytes) (off : nat) : option shdr :=
  if c64 then
    match get b off 4, get b (off + 4) 4, get b (off + 8) 8, get b (off + 16) 8, get b (off + 24) 8,
          get b (off + 32) 8, get b (off + 40) 4, get b (off + 48) 8, get b (off + 56) 8 with
    | Some n, Some t, Some fl, Some ad, Some o, Some s, Some lk, Some al, Some _ =>
        Some {| sh_name := n; sh_type := t; sh_flags := fl; sh_addr := ad; sh_offset := o; sh_size := s;
                sh_link := lk; sh_addralign := al |}
    | _, _, _, _, _, _, _, _, _ => None
    end
  else
    match get b off 4, get b (off + 4) 4, get b (off + 8) 4, get b (off + 12) 4, get b (off + 16) 4,
          get b (off + 20) 4, get b (off + 24) 4, get b (off + 32) 4, get b (off + 36) 4 with
    | Some n, Some t, Some fl, Some ad, Some o, Some s, Some lk, Some al, Some _ =>
        Some {| sh_name := n; sh_type := t; sh_flags := fl; sh_addr := ad; sh_offset := o; sh_size := s;
                sh_link := lk; sh_addralign := al |}
    | _, _, _, _, _, _, _, _, _ => None
    end.

Definition read_section_headers (m : memory) (h : ehdr) : res (list shdr) :=
  if e_shoff h =? 0 then Err
  else
    data <- rd m (e_shoff h) (e_shentsize h * e_shnum h) ;;
    let sz := shdr_size (e_class64 h) in
    match parse_shdr (e_class64 h) data 0 with
    | None => Err
    | Some first =>
        let count := if e_shnum h =? 0 then sh_size first else e_shnum h in
        if (N.of_nat (length data / sz) <? count) then Err
        else match parse_many (parse_shdr (e_class64 h)) data sz sz (N.to_nat count - 1) with
             | Some rest => Ok (first :: rest)
             | None => Err
             end
    end.

Fixpoint find_named (checked : bool) (m : memory) (strtab : shdr) (name : bytes) (hs : list shdr) : res (option shdr) :=
  match hs with
  | [] => Ok None
  | h :: t =>
      if sh_size strtab <=? sh_name h then find_named checked m strtab name t
      else if sh_size strtab <=? sh_name h + N.of_nat (length name) then find_named checked m strtab name t
      else
        off <- add_site checked (sh_offset strtab) (sh_name h) ;;
        n <- rd m off (N.of_nat (length name)) ;;
        if beq n name then Ok (Some h) else find_named checked m strtab name t
  end.

Definition section_header_with_name (checked : bool) (m : memory) (hs : list shdr) (idx : N) (name : bytes)
  : res (option shdr) :=
  match nth_error hs (N.to_nat idx) with
  | Some st => if sh_type st =? 3 then find_named checked m st name hs else Err
  | None => Err
  end.

(* ---------- build id ---------- *)
Fixpoint first_note (m : memory) (phs : list phdr) : res bytes :=
  match phs with
  | [] => Err
  | p :: t =>
      if p_type p =? 4 then
        match find_build_id_note m (p_offset p) (p_filesz p) (p_align p) with
        | Ok (Some d) => Ok d
        | Unspec => Unspec
        | _ => first_note m t
        end
      else first_note m t
  end.

Definition NOTE_NAME : bytes :=      (* ".note.gnu.build-id\0" *)
  [46;110;111;116;101;46;103;110;117;46;98;117;105;108;100;45;105;100;0].

Definition xor16 (data : bytes) : bytes :=
  let fix go (acc : bytes) (d : bytes) (fuel : nat) : bytes :=
    match fuel with
    | O => acc
    | S f => match d with
             | [] => acc
             | _ => go (map (fun '(a, c) => N.lxor a c) (combine acc (firstn 16 d ++ repeat 0 (16 - length (firstn 16 d)))))
                       (skipn 16 d) f
             end
    end in go (repeat 0 16) data (S (length data)).

Definition is_exec_section (s : shdr) : bool :=
  (sh_type s =? 1) && N.testbit (sh_flags s) 1 && N.testbit (sh_flags s) 2.

Definition or_else {A} (a : res A) (b : unit -> res A) : res A :=
  match a with Ok x => Ok x | Panic => Panic | Unspec => Unspec | Err => b tt end.

Definition build_id (checked : bool) (m : memory) : res bytes :=
  hb <- rd m 0 64 ;;
  h <- parse_header hb ;;
  or_else (phs <- read_program_headers m h ;; first_note m phs) (fun _ =>
  or_else (hs <- read_section_headers m h ;;
           s <- section_header_with_name checked m hs (e_shstrndx h) NOTE_NAME ;;
           match s with
           | None => Err
           | Some s => r <- find_build_id_note m (sh_offset s) (sh_size s) (sh_addralign s) ;; of_opt r
           end) (fun _ =>
          (hs <- read_section_headers m h ;;
           match find is_exec_section hs with
           | None => Err
           | Some t => d <- rd m (sh_offset t) (N.min 4096 (sh_size t)) ;; Ok (xor16 d)
           end))).
