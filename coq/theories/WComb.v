(* Combinators of the whole-image model (Image.v) on the writer monad: the shapes in which the section writers use the
   memory-writer primitives.  Definitions only; their laws are in WCombProofs.v.

   - [w_blob]   : MemoryArrayWriter::write_bytes / alloc_with_val of an object whose location some record stores
   - [w_array]  : alloc_array of n zeroed slots, then per item: the item's own blobs, then set_value_at(slot idx)
   - [w_slot]   : MemoryWriter::alloc (zeroed), a body, then set_value
   - [w_collect]: a loop that appends blobs and collects one record per item (records written later in one array) *)
From Coq Require Import List NArith Arith Bool.
From MDW Require Import Bytes MemWriter Writer.
Import ListNotations.
Local Open Scope nat_scope.

Definition w_blob (k : kind) (v : bytes) : W loc :=
  l <- w_alloc k v ;; w_ref k l ;;; ret l.

Section Array.
  Context {X R St : Type}.
  Variable size : nat.
  Variable enc : R -> bytes.
  Variable body : X -> St -> W (R * St).

  Fixpoint fill_from (base idx : nat) (xs : list X) (st : St) : W St :=
    match xs with
    | [] => ret st
    | x :: r =>
        p <- body x st ;;
        w_patch (base + size * idx) (enc (fst p)) ;;;
        fill_from base (S idx) r (snd p)
    end.

  (* [exact]: alloc_from_array / alloc_from_iter write at the reserved position itself; alloc_array + set_value_at
     write at the position as stored (a u32) *)
  Definition w_array (exact : bool) (k : kind) (xs : list X) (st : St) : W (loc * St) :=
    p <- w_pos ;;
    a <- w_alloc k (repeat 0%N (size * length xs)) ;;
    st' <- fill_from (if exact then p else N.to_nat (l_rva a)) 0 xs st ;;
    ret (a, st').

  (* a stream made of a header object immediately followed by such an array: the directory entry names both *)
  Definition w_span_array (exact : bool) (ty : N) (hdr : bytes) (xs : list X) (st : St) : W ((N * loc) * St) :=
    h <- w_alloc (KStreamHdr ty) hdr ;;
    r <- w_array exact (KArray ty) xs st ;;
    ret ((ty, {| l_rva := l_rva h; l_size := (l_size h + l_size (fst r))%N |}), snd r).

  Fixpoint w_collect (xs : list X) (st : St) : W (list R * St) :=
    match xs with
    | [] => ret ([], st)
    | x :: r =>
        p <- body x st ;;
        q <- w_collect r (snd p) ;;
        ret (fst p :: fst q, snd q)
    end.
End Array.

Section Slot.
  Context {R : Type}.
  Variable size : nat.
  Variable enc : R -> bytes.
  Definition w_slot (k : kind) (body : W R) : W loc :=
    a <- w_alloc k (repeat 0%N size) ;;
    r <- body ;;
    w_patch (N.to_nat (l_rva a)) (enc r) ;;;
    ret a.
End Slot.

(* a stream made of a header object immediately followed by an array object: the directory entry names both *)
Definition span (h a : loc) : loc := {| l_rva := l_rva h; l_size := (l_size h + l_size a)%N |}.
