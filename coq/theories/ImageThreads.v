(* What the thread list SAYS in the image the layout model builds (the functional half for C04 / C05 / C06 / C07 in the whole
   image): arrays whose slots are filled one by one while each item appends its own objects (thread list, thread names, link
   maps).  For every content: the stream holds one record per item, in order; the locations a record stores designate exactly
   the bytes handed over for that item (stack bytes at the stack's start address, the serialised context, the window around the
   crash instruction pointer); the per-dump state handed to the later sections (memory blocks, crash context) is exactly what
   the items contributed, in order.  Together with the stability theorem of ImagePayload the same holds in the final image. *)
From Coq Require Import List NArith ZArith Arith Lia Bool ZifyNat ZifyN ZifyBool.
From MDW Require Import Bytes MemWriter Writer Hoare Text MiniDump MiniDumpProofs WComb WCombProofs WFrame GenTypes Generated Plan Image ImageProofs ImageDirProofs ImagePayload.
From MDW Require Maps ThreadList ThreadListProofs EffPath Modules ThreadNames.
Import ListNotations.
Local Open Scope nat_scope.

(* b' keeps everything b has at or beyond lo *)
Definition keeps (lo : nat) (b b' : bytes) : Prop :=
  length b <= length b' /\ forall off n, lo <= off -> off + n <= length b -> slice b' off n = slice b off n.

Lemma keeps_refl lo b : keeps lo b b. Proof. split; [lia|reflexivity]. Qed.
Lemma keeps_trans lo a b c : keeps lo a b -> keeps lo b c -> keeps lo a c.
Proof. intros (L1 & H1) (L2 & H2). split; [lia|]. intros off n Ho Hn. rewrite H2 by lia. now apply H1. Qed.
Lemma keeps_app lo b more : keeps lo b (b ++ more).
Proof.
  split; [rewrite app_length; lia|]. intros off n _ Hn. unfold slice.
  rewrite skipn_app. replace (off - length b) with 0 by lia. cbn [skipn].
  rewrite firstn_app, skipn_length. replace (n - (length b - off)) with 0 by lia. cbn [firstn]. apply app_nil_r.
Qed.
Lemma keeps_update lo b off v : off + length v <= lo -> off + length v <= length b -> keeps lo b (update b off v).
Proof. intros Hlo Hin. split; [rewrite update_length by exact Hin; lia|]. intros o n Ho Hn. apply slice_update_after; lia. Qed.

(* location l designates exactly the bytes v, which lie at or beyond lo *)
Definition designates (lo : nat) (b : bytes) (l : loc) (v : bytes) : Prop :=
  l_size l = N.of_nat (length v) /\ lo <= N.to_nat (l_rva l) /\ N.to_nat (l_rva l) + length v <= length b /\
  slice b (N.to_nat (l_rva l)) (length v) = v.

Lemma designates_keeps lo b b' l v : designates lo b l v -> keeps lo b b' -> designates lo b' l v.
Proof. intros (H1 & H2 & H3 & H4) (L & K). split; [exact H1|]. split; [exact H2|]. split; [lia|]. rewrite K by lia. exact H4. Qed.

Lemma slice_app_at (b v : bytes) : slice (b ++ v) (length b) (length v) = v.
Proof. unfold slice. rewrite skipn_app, skipn_all, Nat.sub_diag. cbn [skipn app]. apply firstn_all. Qed.

Lemma blob_appends k v s l s' : w_blob k v s = Ok (l, s') -> w_buf s' = w_buf s ++ v.
Proof. unfold w_blob, bind, w_alloc, w_ref, ret. intro E. injection E as _ <-. reflexivity. Qed.

Lemma blob_rva k v s l s' : w_blob k v s = Ok (l, s') -> l_rva l = u32 (blen s).
Proof. unfold w_blob, bind, w_alloc, w_ref, ret. intro E. injection E as <- _. reflexivity. Qed.

Lemma blob_designates k v s l s' : w_blob k v s = Ok (l, s') -> small (blen s') -> designates (blen s) (w_buf s') l v.
Proof.
  unfold w_blob, bind, w_alloc, w_ref, ret. intros E Hs. injection E as <- <-. unfold blen in *. cbn [w_buf l_rva l_size] in *.
  rewrite app_length in Hs.
  assert (Hu : N.to_nat (u32 (length (w_buf s))) = length (w_buf s)) by (apply small_u32; eapply small_le; [|exact Hs]; lia).
  unfold designates. cbn [l_rva l_size]. rewrite Hu. split; [reflexivity|]. split; [lia|]. split; [rewrite app_length; lia|apply slice_app_at].
Qed.

Section FillPayload.
  Context {X R St : Type}.
  Variable size : nat.
  Variable enc : R -> bytes.
  Variable body : X -> St -> W (R * St).
  Variable lo : nat.
  Variable P : X -> St -> R -> St -> bytes -> Prop.
  Hypothesis enc_size : forall r, length (enc r) = size.
  Hypothesis P_keeps : forall x st r st' b b', P x st r st' b -> keeps lo b b' -> P x st r st' b'.
  Hypothesis body_app : forall x st s r st' s1, body x st s = Ok ((r, st'), s1) -> exists more, w_buf s1 = w_buf s ++ more.
  Hypothesis body_ok : forall x st s r st' s1, body x st s = Ok ((r, st'), s1) -> lo <= blen s -> small (blen s1) -> P x st r st' (w_buf s1).

  (* the items, the records made of them and the state threaded through, related one by one *)
  Inductive run_rel (b : bytes) : list X -> St -> list R -> St -> Prop :=
  | rr_nil st : run_rel b [] st [] st
  | rr_cons x xs st r st1 rs stF : P x st r st1 b -> run_rel b xs st1 rs stF -> run_rel b (x :: xs) st (r :: rs) stF.

  Lemma run_rel_keeps b b' xs st rs stF : run_rel b xs st rs stF -> keeps lo b b' -> run_rel b' xs st rs stF.
  Proof. intros H K. induction H as [st|x xs st r st1 rs stF HP _ IH]; [constructor|]. econstructor; [eapply P_keeps; eauto|exact IH]. Qed.

  Lemma run_rel_length b xs st rs stF : run_rel b xs st rs stF -> length rs = length xs.
  Proof. intro H. induction H; cbn [length]; [reflexivity|now f_equal]. Qed.

  Lemma fill_payload base : forall xs idx st s stF s',
    fill_from size enc body base idx xs st s = Ok (stF, s') -> small (blen s') ->
    base + size * (idx + length xs) <= lo -> lo <= blen s ->
    exists rs, run_rel (w_buf s') xs st rs stF /\
      slice (w_buf s') (base + size * idx) (size * length xs) = concat (map enc rs) /\
      firstn (base + size * idx) (w_buf s') = firstn (base + size * idx) (w_buf s) /\
      keeps lo (w_buf s) (w_buf s').
  Proof.
    induction xs as [|x r IH]; intros idx st s stF s' E Hs Hb Hlo; cbn [fill_from] in E.
    - injection E as <- <-. exists []. split; [constructor|]. cbn [length]. rewrite Nat.mul_0_r. unfold slice. cbn [firstn concat map].
      split; [reflexivity|]. split; [reflexivity|apply keeps_refl].
    - unfold bind at 1 in E. destruct (body x st s) as [[[rx st1] s1]| |] eqn:Eb; try discriminate. cbn [fst snd] in E.
      destruct (body_app _ _ _ _ _ _ Eb) as (more & Hmore).
      assert (L1 : blen s <= blen s1) by (unfold blen; rewrite Hmore, app_length; lia).
      cbn [length] in Hb.
      assert (Hin : base + size * idx + length (enc rx) <= length (w_buf s1)) by (rewrite enc_size; unfold blen in *; nia).
      unfold bind at 1 in E. unfold w_patch in E. rewrite write_at_inside in E by exact Hin.
      set (s2 := {| w_buf := update (w_buf s1) (base + size * idx) (enc rx); w_objs := w_objs s1; w_refs := w_refs s1 |}) in E.
      assert (L2 : blen s2 = blen s1) by (unfold blen, s2; cbn [w_buf]; now rewrite update_length).
      assert (Hb2 : base + size * (S idx + length r) <= lo) by (replace (S idx + length r) with (idx + S (length r)) by lia; exact Hb).
      destruct (IH (S idx) st1 s2 stF s' E Hs Hb2 ltac:(lia)) as (rs & Hrel & Hsl & Hfi & Hk).
      assert (Hs1 : small (blen s1)) by (eapply small_le; [|exact Hs]; destruct Hk as (Lk & _); unfold blen in *; unfold s2 in Lk; cbn [w_buf] in Lk; rewrite update_length in Lk by exact Hin; exact Lk).
      assert (K12 : keeps lo (w_buf s1) (w_buf s2)) by (unfold s2; cbn [w_buf]; apply keeps_update; [rewrite enc_size; nia|exact Hin]).
      exists (rx :: rs). split; [|split; [|split]].
      + econstructor; [|exact Hrel]. eapply P_keeps; [eapply body_ok; [exact Eb|exact Hlo|exact Hs1]|]. eapply keeps_trans; [exact K12|exact Hk].
      + cbn [length map concat]. replace (size * S (length r)) with (size + size * length r) by lia.
        rewrite slice_split. f_equal.
        * transitivity (slice (w_buf s2) (base + size * idx) size).
          -- apply slice_firstn_eq. replace (base + size * idx + size) with (base + size * S idx) by lia. exact Hfi.
          -- unfold s2. cbn [w_buf]. pose proof (slice_update_same (w_buf s1) (base + size * idx) (enc rx) Hin) as Hx. rewrite enc_size in Hx. exact Hx.
        * replace (base + size * idx + size) with (base + size * S idx) by lia. exact Hsl.
      + transitivity (firstn (base + size * idx) (w_buf s2)).
        * eapply firstn_le_eq with (off := base + size * S idx); [lia|exact Hfi].
        * unfold s2. cbn [w_buf]. unfold update. rewrite firstn_app, firstn_firstn, Nat.min_id, firstn_length, Nat.min_l by lia.
          rewrite Nat.sub_diag. cbn [firstn]. rewrite app_nil_r. rewrite Hmore. rewrite firstn_app.
          replace (base + size * idx - length (w_buf s)) with 0 by (unfold blen in *; nia). cbn [firstn]. apply app_nil_r.
      + eapply keeps_trans; [|exact Hk]. eapply keeps_trans; [|exact K12]. rewrite Hmore. apply keeps_app.
  Qed.
End FillPayload.
Arguments run_rel {X R St} P b _ _ _ _.

(* a stream made of a header and an array whose slots are filled one by one (positions as stored: alloc_array + set_value_at) *)
Section SpanPayload.
  Context {X R St : Type}.
  Variable size : nat.
  Variable enc : R -> bytes.
  Variable body : X -> St -> W (R * St).
  Variable P : nat -> X -> St -> R -> St -> bytes -> Prop.       (* first argument: everything designated lies at or beyond it *)
  Hypothesis enc_size : forall r, length (enc r) = size.
  Hypothesis P_keeps : forall lo x st r st' b b', P lo x st r st' b -> keeps lo b b' -> P lo x st r st' b'.
  Hypothesis body_app : forall x st s r st' s1, body x st s = Ok ((r, st'), s1) -> exists more, w_buf s1 = w_buf s ++ more.
  Hypothesis body_ok : forall lo x st s r st' s1, body x st s = Ok ((r, st'), s1) -> lo <= blen s -> small (blen s1) -> P lo x st r st' (w_buf s1).
  Hypothesis body_frame : forall F x st, frame F (body x st).

  Lemma span_payload ty hdr xs st s d stF s' :
    w_span_array size enc body false ty hdr xs st s = Ok ((d, stF), s') -> small (blen s') ->
    let lo := blen s + length hdr + size * length xs in
    exists rs, run_rel (P lo) (w_buf s') xs st rs stF /\
      firstn (blen s) (w_buf s') = w_buf s /\
      slice (w_buf s') (blen s) (length hdr + size * length xs) = hdr ++ concat (map enc rs) /\
      d = (ty, {| l_rva := u32 (blen s); l_size := (N.of_nat (length hdr) + N.of_nat (size * length xs))%N |}) /\
      lo <= blen s'.
  Proof.
    intros E Hs lo.
    destruct (frame_span_array size enc body body_frame 0 false ty hdr xs st s _ _ E (Nat.le_0_l _)) as (Lall & _).
    unfold w_span_array in E.
    unfold bind at 1 in E. unfold w_alloc at 1 in E. cbv beta iota in E.
    set (s1 := {| w_buf := w_buf s ++ hdr; w_objs := _; w_refs := w_refs s |}) in E.
    unfold bind at 1 in E.
    destruct (w_array size enc body false (KArray ty) xs st s1) as [[ra s3]| |] eqn:Ea; try discriminate.
    unfold ret in E. injection E. intros Es' EstF Ed. subst s' stF d. clear E. cbn [fst snd l_rva l_size].
    unfold w_array in Ea.
    unfold bind at 1 in Ea. unfold w_pos at 1 in Ea. cbv beta iota in Ea.
    unfold bind at 1 in Ea. unfold w_alloc at 1 in Ea. cbv beta iota in Ea.
    set (s2 := {| w_buf := w_buf s1 ++ repeat 0%N (size * length xs); w_objs := _; w_refs := w_refs s1 |}) in Ea.
    cbn [l_rva] in Ea.
    unfold bind at 1 in Ea.
    destruct (fill_from size enc body (N.to_nat (u32 (length (w_buf s1)))) 0 xs st s2) as [[stf s4]| |] eqn:Ef; try discriminate.
    unfold ret in Ea. injection Ea. intros Es3 Era. subst s3 ra. clear Ea. cbn [fst snd l_size].
    assert (Hl1 : length (w_buf s1) = blen s + length hdr) by (unfold s1, blen; cbn [w_buf]; now rewrite app_length).
    assert (Hl2 : blen s2 = lo) by (unfold blen, s2, lo; cbn [w_buf]; rewrite app_length, repeat_length, Hl1; reflexivity).
    assert (Hbase : N.to_nat (u32 (length (w_buf s1))) = blen s + length hdr).
    { rewrite small_u32; [exact Hl1|]. eapply small_le; [|exact Hs]. rewrite Hl1. unfold blen in *. unfold s1 in Lall.
      (* the final image is at least as long as the header + array *)
      destruct (frame_fill_from size enc body body_frame 0 (N.to_nat (u32 (length (w_buf s1)))) (Nat.le_0_l _) xs 0 st s2 _ _ Ef (Nat.le_0_l _)) as (L4 & _).
      unfold blen in L4. unfold s2 in L4 at 1. cbn [w_buf] in L4. rewrite app_length, Hl1 in L4. lia. }
    rewrite Hbase in Ef.
    destruct (fill_payload size enc body lo (P lo) enc_size (P_keeps lo) body_app (body_ok lo) (blen s + length hdr) xs 0 st s2 stf s4 Ef Hs)
      as (rs & Hrel & Hsl & Hfi & Hk).
    { unfold lo. lia. } { lia. }
    rewrite Nat.mul_0_r, Nat.add_0_r in Hsl, Hfi.
    exists rs. split; [exact Hrel|].
    assert (Hfi2 : firstn (blen s + length hdr) (w_buf s4) = w_buf s ++ hdr).
    { rewrite Hfi. unfold s2. cbn [w_buf]. rewrite firstn_app. rewrite <- Hl1, Nat.sub_diag, firstn_all. cbn [firstn]. apply app_nil_r. }
    split; [|split; [|split]].
    - replace (blen s) with (Nat.min (blen s) (blen s + length hdr)) by lia. rewrite <- firstn_firstn, Hfi2.
      rewrite firstn_app. unfold blen. rewrite Nat.sub_diag, firstn_all. cbn [firstn]. apply app_nil_r.
    - rewrite slice_split. f_equal; [|exact Hsl].
      transitivity (slice (w_buf s ++ hdr) (blen s) (length hdr)).
      + apply slice_firstn_eq. rewrite Hfi2. rewrite firstn_all2; [reflexivity|]. rewrite app_length. unfold blen. lia.
      + unfold blen. apply slice_app_at.
    - unfold s1. cbn [l_rva l_size w_buf]. rewrite repeat_length. reflexivity.
    - destruct Hk as (Lk & _). unfold blen in *. lia.
  Qed.
End SpanPayload.

(* ---------- the thread list ---------- *)
Definition t_blamed (c : content) (t : ithread) : bool := N.eqb (it_tid t) (ic_blamed c).
Definition t_crash (c : content) (t : ithread) : bool := match ic_crash c with Some _ => t_blamed c t | None => false end.

(* what the record of one thread, and the state it hands on, say *)
Definition thread_says (c : content) (lo : nat) (t : ithread) (st : dstate) (r : N * memdesc * loc) (st' : dstate) (b : bytes) : Prop :=
  let '(tid, md, cl) := r in
  tid = it_tid t /\
  designates lo b cl (it_ctx t) /\
  (* the stack: its start address and exactly its bytes; or the stack pointer and no bytes *)
  match it_stack t with
  | Some (v, bs) => md_start md = v /\ designates lo b (md_loc md) bs
  | None => md_start md = it_sp t /\ l_size (md_loc md) = 0%N
  end /\
  (* memory blocks handed on: this thread's stack, then - crash thread only - the window around its instruction pointer *)
  (exists win, fst st' = fst st ++ match it_stack t with Some _ => [md] | None => [] end ++ win /\
     match it_ipwin t with
     | Some (a, bs) => if t_crash c t then exists l, win = [{| md_start := a; md_loc := l |}] /\ designates lo b l bs else win = []
     | None => win = []
     end) /\
  (* the context the exception record will share *)
  snd st' = (if t_crash c t then CCtx cl else if t_blamed c t then CCtxAddr cl (unle (slice (it_ctx t) 248 8)) else snd st).

Lemma thread_says_keeps c lo t st r st' b b' : thread_says c lo t st r st' b -> keeps lo b b' -> thread_says c lo t st r st' b'.
Proof.
  destruct r as [[tid md] cl]. unfold thread_says. intros (H1 & H2 & H3 & (win & H4 & H5) & H6) K.
  split; [exact H1|]. split; [eapply designates_keeps; eauto|]. split; [|split; [|exact H6]].
  - destruct (it_stack t) as [[v bs]|]; [|exact H3]. destruct H3 as (Ha & Hb). split; [exact Ha|eapply designates_keeps; eauto].
  - exists win. split; [exact H4|]. destruct (it_ipwin t) as [[a bs]|]; [|exact H5]. destruct (t_crash c t); [|exact H5].
    destruct H5 as (l & Hw & Hd). exists l. split; [exact Hw|eapply designates_keeps; eauto].
Qed.

Lemma thread_body_app c t st s r st' s1 : thread_body c t st s = Ok ((r, st'), s1) -> exists more, w_buf s1 = w_buf s ++ more.
Proof.
  unfold thread_body. intro E. unfold bind at 1 in E. unfold w_pos at 1 in E. cbv beta iota in E.
  unfold bind at 1 in E.
  destruct (it_stack t) as [[v bs]|].
  - unfold bind at 1 in E. destruct (w_blob KStack bs s) as [[l1 sa]| |] eqn:E1; try discriminate. unfold ret at 1 in E. cbv beta iota in E.
    pose proof (blob_appends _ _ _ _ _ E1) as A1. cbn [fst snd] in E.
    unfold bind at 1 in E.
    destruct (it_ipwin t) as [[a ws]|]; [destruct (match ic_crash c with Some _ => (it_tid t =? ic_blamed c)%N | None => false end)|].
    + unfold bind at 1 in E. destruct (w_blob KIpMem ws sa) as [[l2 sb]| |] eqn:E2; try discriminate. unfold ret at 1 in E. cbv beta iota in E.
      pose proof (blob_appends _ _ _ _ _ E2) as A2.
      unfold bind at 1 in E. destruct (w_blob KContext (it_ctx t) sb) as [[l3 sc]| |] eqn:E3; try discriminate. unfold ret in E. injection E as _ _ <-.
      pose proof (blob_appends _ _ _ _ _ E3) as A3. exists (bs ++ ws ++ it_ctx t). rewrite A3, A2, A1. now rewrite <- !app_assoc.
    + unfold ret at 1 in E. cbv beta iota in E.
      unfold bind at 1 in E. destruct (w_blob KContext (it_ctx t) sa) as [[l3 sc]| |] eqn:E3; try discriminate. unfold ret in E. injection E as _ _ <-.
      pose proof (blob_appends _ _ _ _ _ E3) as A3. exists (bs ++ it_ctx t). rewrite A3, A1. now rewrite <- !app_assoc.
    + unfold ret at 1 in E. cbv beta iota in E.
      unfold bind at 1 in E. destruct (w_blob KContext (it_ctx t) sa) as [[l3 sc]| |] eqn:E3; try discriminate. unfold ret in E. injection E as _ _ <-.
      pose proof (blob_appends _ _ _ _ _ E3) as A3. exists (bs ++ it_ctx t). rewrite A3, A1. now rewrite <- !app_assoc.
  - unfold ret at 1 in E. cbv beta iota in E. cbn [fst snd] in E.
    unfold bind at 1 in E.
    destruct (it_ipwin t) as [[a ws]|]; [destruct (match ic_crash c with Some _ => (it_tid t =? ic_blamed c)%N | None => false end)|].
    + unfold bind at 1 in E. destruct (w_blob KIpMem ws s) as [[l2 sb]| |] eqn:E2; try discriminate. unfold ret at 1 in E. cbv beta iota in E.
      pose proof (blob_appends _ _ _ _ _ E2) as A2.
      unfold bind at 1 in E. destruct (w_blob KContext (it_ctx t) sb) as [[l3 sc]| |] eqn:E3; try discriminate. unfold ret in E. injection E as _ _ <-.
      pose proof (blob_appends _ _ _ _ _ E3) as A3. exists (ws ++ it_ctx t). rewrite A3, A2. now rewrite <- !app_assoc.
    + unfold ret at 1 in E. cbv beta iota in E.
      unfold bind at 1 in E. destruct (w_blob KContext (it_ctx t) s) as [[l3 sc]| |] eqn:E3; try discriminate. unfold ret in E. injection E as _ _ <-.
      pose proof (blob_appends _ _ _ _ _ E3) as A3. exists (it_ctx t). exact A3.
    + unfold ret at 1 in E. cbv beta iota in E.
      unfold bind at 1 in E. destruct (w_blob KContext (it_ctx t) s) as [[l3 sc]| |] eqn:E3; try discriminate. unfold ret in E. injection E as _ _ <-.
      pose proof (blob_appends _ _ _ _ _ E3) as A3. exists (it_ctx t). exact A3.
Qed.

Lemma designates_weaken lo lo' b l v : designates lo b l v -> lo' <= lo -> designates lo' b l v.
Proof. intros (H1 & H2 & H3 & H4) L. split; [exact H1|]. split; [lia|]. split; [exact H3|exact H4]. Qed.

Lemma blob_step lo k v s l s' sF more :
  w_blob k v s = Ok (l, s') -> lo <= blen s -> w_buf sF = w_buf s' ++ more -> small (blen sF) -> designates lo (w_buf sF) l v.
Proof.
  intros E Hlo Hm Hs.
  assert (Hs' : small (blen s')) by (eapply small_le; [|exact Hs]; unfold blen; rewrite Hm, app_length; lia).
  eapply designates_keeps; [eapply designates_weaken; [eapply blob_designates; [exact E|exact Hs']|exact Hlo]|].
  rewrite Hm. apply keeps_app.
Qed.

Lemma thread_body_ok c lo t st s r st' s1 :
  thread_body c t st s = Ok ((r, st'), s1) -> lo <= blen s -> small (blen s1) -> thread_says c lo t st r st' (w_buf s1).
Proof.
  unfold thread_body. intros E Hlo Hs. unfold bind at 1 in E. unfold w_pos at 1 in E. cbv beta iota in E.
  unfold bind at 1 in E. unfold thread_says, t_crash, t_blamed.
  destruct (it_stack t) as [[v bs]|].
  - unfold bind at 1 in E. destruct (w_blob KStack bs s) as [[l1 sa]| |] eqn:E1; try discriminate. unfold ret at 1 in E. cbv beta iota in E.
    pose proof (blob_appends _ _ _ _ _ E1) as A1. cbn [fst snd] in E.
    assert (La : blen s <= blen sa) by (unfold blen; rewrite A1, app_length; lia).
    unfold bind at 1 in E.
    destruct (it_ipwin t) as [[a ws]|]; [destruct (match ic_crash c with Some _ => (it_tid t =? ic_blamed c)%N | None => false end)|].
    + unfold bind at 1 in E. destruct (w_blob KIpMem ws sa) as [[l2 sb]| |] eqn:E2; try discriminate. unfold ret at 1 in E. cbv beta iota in E.
      pose proof (blob_appends _ _ _ _ _ E2) as A2.
      assert (Lb : blen sa <= blen sb) by (unfold blen; rewrite A2, app_length; lia).
      unfold bind at 1 in E. destruct (w_blob KContext (it_ctx t) sb) as [[l3 sc]| |] eqn:E3; try discriminate. unfold ret in E.
      injection E. intros Esc Est Er. subst s1 st' r. clear E.
      pose proof (blob_appends _ _ _ _ _ E3) as A3.
      split; [reflexivity|]. split; [eapply (blob_step lo _ _ _ _ _ sc []); [exact E3|lia|now rewrite app_nil_r|exact Hs]|].
      split; [split; [reflexivity|eapply (blob_step lo _ _ _ _ _ sc (ws ++ it_ctx t)); [exact E1|lia|rewrite A3, A2; now rewrite <- app_assoc|exact Hs]]|].
      split; [|reflexivity].
      exists [{| md_start := a; md_loc := l2 |}]. cbn [fst]. split; [now rewrite <- app_assoc|].
      exists l2. split; [reflexivity|]. eapply (blob_step lo _ _ _ _ _ sc (it_ctx t)); [exact E2|lia|exact A3|exact Hs].
    + unfold ret at 1 in E. cbv beta iota in E.
      unfold bind at 1 in E. destruct (w_blob KContext (it_ctx t) sa) as [[l3 sc]| |] eqn:E3; try discriminate. unfold ret in E.
      injection E. intros Esc Est Er. subst s1 st' r. clear E.
      pose proof (blob_appends _ _ _ _ _ E3) as A3.
      split; [reflexivity|]. split; [eapply (blob_step lo _ _ _ _ _ sc []); [exact E3|lia|now rewrite app_nil_r|exact Hs]|].
      split; [split; [reflexivity|eapply (blob_step lo _ _ _ _ _ sc (it_ctx t)); [exact E1|lia|exact A3|exact Hs]]|].
      split; [|reflexivity].
      exists []. cbn [fst]. split; [now rewrite app_nil_r|reflexivity].
    + unfold ret at 1 in E. cbv beta iota in E.
      unfold bind at 1 in E. destruct (w_blob KContext (it_ctx t) sa) as [[l3 sc]| |] eqn:E3; try discriminate. unfold ret in E.
      injection E. intros Esc Est Er. subst s1 st' r. clear E.
      pose proof (blob_appends _ _ _ _ _ E3) as A3.
      split; [reflexivity|]. split; [eapply (blob_step lo _ _ _ _ _ sc []); [exact E3|lia|now rewrite app_nil_r|exact Hs]|].
      split; [split; [reflexivity|eapply (blob_step lo _ _ _ _ _ sc (it_ctx t)); [exact E1|lia|exact A3|exact Hs]]|].
      split; [|reflexivity].
      exists []. cbn [fst]. split; [now rewrite app_nil_r|reflexivity].
  - unfold ret at 1 in E. cbv beta iota in E. cbn [fst snd] in E.
    unfold bind at 1 in E.
    destruct (it_ipwin t) as [[a ws]|]; [destruct (match ic_crash c with Some _ => (it_tid t =? ic_blamed c)%N | None => false end)|].
    + unfold bind at 1 in E. destruct (w_blob KIpMem ws s) as [[l2 sb]| |] eqn:E2; try discriminate. unfold ret at 1 in E. cbv beta iota in E.
      pose proof (blob_appends _ _ _ _ _ E2) as A2.
      assert (Lb : blen s <= blen sb) by (unfold blen; rewrite A2, app_length; lia).
      unfold bind at 1 in E. destruct (w_blob KContext (it_ctx t) sb) as [[l3 sc]| |] eqn:E3; try discriminate. unfold ret in E.
      injection E. intros Esc Est Er. subst s1 st' r. clear E.
      pose proof (blob_appends _ _ _ _ _ E3) as A3.
      split; [reflexivity|]. split; [eapply (blob_step lo _ _ _ _ _ sc []); [exact E3|lia|now rewrite app_nil_r|exact Hs]|].
      split; [split; reflexivity|]. split; [|reflexivity].
      exists [{| md_start := a; md_loc := l2 |}]. cbn [fst app]. split; [reflexivity|].
      exists l2. split; [reflexivity|]. eapply (blob_step lo _ _ _ _ _ sc (it_ctx t)); [exact E2|lia|exact A3|exact Hs].
    + unfold ret at 1 in E. cbv beta iota in E.
      unfold bind at 1 in E. destruct (w_blob KContext (it_ctx t) s) as [[l3 sc]| |] eqn:E3; try discriminate. unfold ret in E.
      injection E. intros Esc Est Er. subst s1 st' r. clear E.
      split; [reflexivity|]. split; [eapply (blob_step lo _ _ _ _ _ sc []); [exact E3|lia|now rewrite app_nil_r|exact Hs]|].
      split; [split; reflexivity|]. split; [|reflexivity].
      exists []. cbn [fst app]. split; [now rewrite app_nil_r|reflexivity].
    + unfold ret at 1 in E. cbv beta iota in E.
      unfold bind at 1 in E. destruct (w_blob KContext (it_ctx t) s) as [[l3 sc]| |] eqn:E3; try discriminate. unfold ret in E.
      injection E. intros Esc Est Er. subst s1 st' r. clear E.
      split; [reflexivity|]. split; [eapply (blob_step lo _ _ _ _ _ sc []); [exact E3|lia|now rewrite app_nil_r|exact Hs]|].
      split; [split; reflexivity|]. split; [|reflexivity].
      exists []. cbn [fst app]. split; [now rewrite app_nil_r|reflexivity].
Qed.

Lemma enc_thread3_len r : length (enc_thread3 r) = THREAD_SZ.
Proof. destruct r as [[tid d] cl]. apply enc_thread_len. Qed.

(* the thread-list section: what it appends and what it says, for every content and every state it is started in *)
Theorem thread_list_payload c st s d st' s' :
  sec_thread_list c st s = Ok ((d, st'), s') -> small (blen s') ->
  let n := length (ic_threads c) in
  exists rs, run_rel (thread_says c (blen s + 4 + THREAD_SZ * n)) (w_buf s') (ic_threads c) st rs st' /\
    firstn (blen s) (w_buf s') = w_buf s /\
    slice (w_buf s') (blen s) (4 + THREAD_SZ * n) = le 4 (N.of_nat n) ++ concat (map enc_thread3 rs) /\
    d = (T_THREADS, {| l_rva := u32 (blen s); l_size := (4 + N.of_nat (THREAD_SZ * n))%N |}) /\
    blen s + 4 + THREAD_SZ * n <= blen s'.
Proof.
  intros E Hs n. unfold sec_thread_list in E.
  destruct (span_payload THREAD_SZ enc_thread3 (thread_body c) (thread_says c) enc_thread3_len
              (thread_says_keeps c) (thread_body_app c) (thread_body_ok c) (thread_body_frame c)
              T_THREADS (le 4 (N.of_nat (length (ic_threads c)))) (ic_threads c) st s d st' s' E Hs) as (rs & H1 & H2 & H3 & H4 & H5).
  rewrite le_length in H1, H3, H4, H5. exists rs. split; [exact H1|]. split; [exact H2|]. split; [exact H3|]. split; [exact H4|exact H5].
Qed.
Print Assumptions thread_list_payload.

(* ---------- ... and in the final image ---------- *)
Lemma keeps_of_stable lo s s' : stable_from lo s s' -> blen s <= blen s' -> keeps lo (w_buf s) (w_buf s').
Proof. intros H L. split; [exact L|]. intros off n Ho Hn. now apply H. Qed.

Lemma run_plan_dirs_prefix c base : forall plan idx ds acc log s dirs lg s',
  run_plan c base plan idx ds acc log s = Ok ((dirs, lg), s') -> exists more, dirs = rev acc ++ more.
Proof.
  induction plan as [|st rest IH]; intros idx ds acc log s dirs lg s' E; cbn [run_plan] in E.
  - injection E as <- _ _. exists []. now rewrite app_nil_r.
  - unfold bind at 1 in E. destruct (run_step c st ds s) as [[r s1]| |] eqn:E1; try discriminate.
    unfold bind at 1 in E. cbn [w_get] in E.
    destruct (fst r) as [d|].
    + unfold bind at 1 in E. destruct (w_patch (base + DIRENT_SZ * idx) (enc_dirent d) s1) as [[u s2]| |] eqn:E2; try discriminate.
      unfold bind at 1 in E. cbn [w_get] in E.
      destruct (IH _ _ _ _ _ _ _ _ E) as (more & Hm). exists (d :: more). rewrite Hm. cbn [rev]. now rewrite <- app_assoc.
    + exact (IH _ _ _ _ _ _ _ _ E).
Qed.

Lemma run_plan_thread_list_first c base rest st0 acc log s res s' :
  run_plan c base (St_thread_list_stream :: rest) 0 st0 acc log s = Ok (res, s') ->
  exists d st1 s1 s2,
    sec_thread_list c st0 s = Ok ((d, st1), s1) /\
    w_patch (base + DIRENT_SZ * 0) (enc_dirent d) s1 = Ok (tt, s2) /\
    run_plan c base rest 1 st1 (d :: acc) ((s2, d :: acc) :: (s1, acc) :: log) s2 = Ok (res, s').
Proof.
  intro E. cbn [run_plan] in E. unfold bind at 1 in E. cbn [run_step] in E. unfold bind at 1 in E.
  destruct (sec_thread_list c st0 s) as [[[d st1] s1]| |] eqn:E1; try discriminate.
  unfold ret at 1 in E. cbv beta iota in E. unfold bind at 1 in E. unfold w_get at 1 in E. cbv beta iota in E. cbn [fst snd] in E.
  unfold bind at 1 in E. destruct (w_patch (base + DIRENT_SZ * 0) (enc_dirent d) s1) as [[[] s2]| |] eqn:E2; try discriminate.
  unfold bind at 1 in E. unfold w_get at 1 in E. cbv beta iota in E.
  exists d, st1, s1, s2. split; [reflexivity|]. split; [exact E2|exact E].
Qed.

Definition HEAD_LEN : nat := HEADER_SZ + DIRENT_SZ * NUM_DIRS.

Lemma plan_starts_with_thread_list : map fst stream_plan = St_thread_list_stream :: tl (map fst stream_plan).
Proof. reflexivity. Qed.
Lemma plan_rest_types : length (types_of (tl (map fst stream_plan))) = NUM_DIRS - 1.
Proof. vm_compute. reflexivity. Qed.

(* In the image of every dump: the first stream is the thread list, it lies right behind the directory, holds one record per
   thread of the content in order, and each record's stack descriptor and context location designate exactly that thread's stack
   bytes (at the stack's start address) and its context - in the FINAL image, whatever the later sections appended. *)
Theorem image_thread_list c dirs lg s' :
  image c empty_wst = Ok ((dirs, lg), s') -> small (blen s') ->
  let n := length (ic_threads c) in
  exists rs blocks cc,
    run_rel (thread_says c (HEAD_LEN + 4 + THREAD_SZ * n)) (w_buf s') (ic_threads c) ([], CNone) rs (blocks, cc) /\
    slice (w_buf s') HEAD_LEN (4 + THREAD_SZ * n) = le 4 (N.of_nat n) ++ concat (map enc_thread3 rs) /\
    hd_error dirs = Some (T_THREADS, {| l_rva := N.of_nat HEAD_LEN; l_size := (4 + N.of_nat (THREAD_SZ * n))%N |}).
Proof.
  intros E Hs n. rewrite image_eq in E. rewrite plan_starts_with_thread_list in E.
  set (rest := tl (map fst stream_plan)) in E.
  destruct (run_plan_thread_list_first c HEADER_SZ rest ([], CNone) [] [(head_state c, [])] (head_state c) (dirs, lg) s' E)
    as (d & [blocks cc] & s1 & s2 & E1 & E2 & E3).
  pose proof (head_state_len c) as HL.
  pose proof (run_plan_mono _ _ _ _ _ _ _ _ _ _ E3) as L3.
  assert (Hin : HEADER_SZ + DIRENT_SZ * 0 + length (enc_dirent d) <= length (w_buf s1)).
  { destruct (frame_span_array THREAD_SZ enc_thread3 (thread_body c) (thread_body_frame c) 0 false T_THREADS _ _ _ _ _ _ E1 (Nat.le_0_l _)) as (L1 & _).
    rewrite enc_dirent_len. unfold blen in *. rewrite HL in L1. unfold HEADER_SZ, DIRENT_SZ. lia. }
  unfold w_patch in E2. rewrite write_at_inside in E2 by exact Hin. injection E2 as Hs2.
  assert (Hb2 : w_buf s2 = update (w_buf s1) (HEADER_SZ + DIRENT_SZ * 0) (enc_dirent d)) by (rewrite <- Hs2; reflexivity).
  assert (L2 : blen s2 = blen s1) by (unfold blen; rewrite Hb2; now apply update_length).
  assert (Hs1 : small (blen s1)) by (eapply small_le; [|exact Hs]; lia).
  destruct (thread_list_payload c _ _ _ _ _ E1 Hs1) as (rs & Hrel & Hfi & Hsl & Hd & Hlen1). fold n in Hrel, Hsl, Hd, Hlen1.
  rewrite HL in Hrel, Hsl, Hd, Hlen1.
  (* from s1 (after the section) to the final image: the directory patch, then the rest of the plan *)
  assert (K12 : keeps 248 (w_buf s1) (w_buf s2)).
  { rewrite Hb2. apply keeps_update; [rewrite enc_dirent_len; unfold HEADER_SZ, DIRENT_SZ; vm_compute; lia|exact Hin]. }
  destruct (run_plan_stable c HEADER_SZ 248 rest 1 (blocks, cc) [d] _ s2 (dirs, lg) s' E3 Hs) as (St & _ & _).
  { unfold rest. rewrite plan_rest_types. vm_compute. lia. } { lia. }
  assert (K2 : keeps 248 (w_buf s2) (w_buf s')) by (apply keeps_of_stable; [exact St|exact L3]).
  assert (K : keeps (248 + 4 + THREAD_SZ * n) (w_buf s1) (w_buf s')).
  { destruct (keeps_trans _ _ _ _ K12 K2) as (La & Ka). split; [exact La|]. intros off m Ho Hm. apply Ka; lia. }
  exists rs, blocks, cc. change HEAD_LEN with 248. split; [|split].
  - eapply run_rel_keeps; [apply thread_says_keeps|exact Hrel|exact K].
  - rewrite <- Hsl. destruct (keeps_trans _ _ _ _ K12 K2) as (_ & Ka). apply Ka; [lia|unfold blen in Hlen1; lia].
  - destruct (run_plan_dirs_prefix _ _ _ _ _ _ _ _ _ _ _ E3) as (more & Hm). rewrite Hm. cbn [rev app hd_error]. rewrite Hd. reflexivity.
Qed.
Print Assumptions image_thread_list.

(* ---------- ids; the memory list in the final image (C04, C07) ---------- *)
Lemma run_rel_tids c lo b : forall ts st rs st', run_rel (thread_says c lo) b ts st rs st' ->
  map (fun r : N * memdesc * loc => fst (fst r)) rs = map it_tid ts.
Proof.
  intros ts st rs st' H. induction H as [st|t ts st r st1 rs stF HP _ IH]; [reflexivity|].
  cbn [map]. f_equal; [|exact IH]. destruct r as [[tid md] cl]. destruct HP as (H1 & _). exact H1.
Qed.

Lemma run_rel_weaken c lo lo' b : forall ts st rs st', run_rel (thread_says c lo) b ts st rs st' -> lo' <= lo ->
  run_rel (thread_says c lo') b ts st rs st'.
Proof.
  intros ts st rs st' Hrel Hlo. induction Hrel as [st|t ts st r st1 rs stF HP _ IH]; [constructor|]. econstructor; [|exact IH].
  destruct r as [[tid md] cl]. destruct HP as (H1 & H2 & H3 & (win & H4 & H5) & H6).
  split; [exact H1|]. split; [eapply designates_weaken; eauto|]. split; [|split; [|exact H6]].
  - destruct (it_stack t) as [[v bs]|]; [|exact H3]. destruct H3 as (Ha & Hb). split; [exact Ha|eapply designates_weaken; eauto].
  - exists win. split; [exact H4|]. destruct (it_ipwin t) as [[a bs]|]; [|exact H5]. destruct (t_crash c t); [|exact H5].
    destruct H5 as (l & Hw & Hd). exists l. split; [exact Hw|eapply designates_weaken; eauto].
Qed.

(* one step of the plan, whatever follows it *)
Lemma run_plan_cons c base st rest idx ds acc log s res s' :
  run_plan c base (st :: rest) idx ds acc log s = Ok (res, s') ->
  exists r s1, run_step c st ds s = Ok (r, s1) /\
    match fst r with
    | Some d => exists s2, w_patch (base + DIRENT_SZ * idx) (enc_dirent d) s1 = Ok (tt, s2) /\
                 run_plan c base rest (S idx) (snd r) (d :: acc) ((s2, d :: acc) :: (s1, acc) :: log) s2 = Ok (res, s')
    | None => run_plan c base rest idx (snd r) acc ((s1, acc) :: log) s1 = Ok (res, s')
    end.
Proof.
  intro E. cbn [run_plan] in E. unfold bind at 1 in E. destruct (run_step c st ds s) as [[r s1]| |] eqn:E1; try discriminate.
  exists r, s1. split; [reflexivity|]. unfold bind at 1 in E. unfold w_get at 1 in E. cbv beta iota in E.
  destruct (fst r) as [d|]; [|exact E].
  unfold bind at 1 in E. destruct (w_patch (base + DIRENT_SZ * idx) (enc_dirent d) s1) as [[[] s2]| |] eqn:E2; try discriminate.
  unfold bind at 1 in E. unfold w_get at 1 in E. cbv beta iota in E. exists s2. split; [reflexivity|exact E].
Qed.

Lemma run_plan_keeps c : forall plan idx ds acc log s res s',
  run_plan c HEADER_SZ plan idx ds acc log s = Ok (res, s') -> small (blen s') ->
  idx + length (types_of plan) <= NUM_DIRS -> 248 <= blen s -> keeps 248 (w_buf s) (w_buf s').
Proof.
  intros plan idx ds acc log s res s' E Hs Hn Hl.
  destruct (run_plan_stable c HEADER_SZ 248 plan idx ds acc log s res s' E Hs) as (St & L & _).
  - change NUM_DIRS with 18 in Hn. unfold HEADER_SZ, DIRENT_SZ. lia.
  - exact Hl.
  - apply keeps_of_stable; assumption.
Qed.

(* a section, its directory entry, then the rest of the plan: what the section built is still there at the end *)
Lemma step_then_rest_keeps c rest idx d ds acc log s1 s2 res s' :
  w_patch (HEADER_SZ + DIRENT_SZ * idx) (enc_dirent d) s1 = Ok (tt, s2) ->
  run_plan c HEADER_SZ rest (S idx) ds acc log s2 = Ok (res, s') -> small (blen s') ->
  S idx + length (types_of rest) <= NUM_DIRS -> 248 <= blen s1 -> keeps 248 (w_buf s1) (w_buf s').
Proof.
  intros E2 E3 Hs Hn Hl.
  assert (Hin : HEADER_SZ + DIRENT_SZ * idx + length (enc_dirent d) <= length (w_buf s1)).
  { rewrite enc_dirent_len. change NUM_DIRS with 18 in Hn. unfold blen, HEADER_SZ, DIRENT_SZ in *. lia. }
  unfold w_patch in E2. rewrite write_at_inside in E2 by exact Hin. injection E2 as Hs2.
  assert (Hb2 : w_buf s2 = update (w_buf s1) (HEADER_SZ + DIRENT_SZ * idx) (enc_dirent d)) by (rewrite <- Hs2; reflexivity).
  assert (L2 : blen s2 = blen s1) by (unfold blen; rewrite Hb2; now apply update_length).
  eapply keeps_trans; [|eapply run_plan_keeps; [exact E3|exact Hs|exact Hn|lia]].
  rewrite Hb2. apply keeps_update; [|exact Hin]. rewrite enc_dirent_len. change NUM_DIRS with 18 in Hn. unfold HEADER_SZ, DIRENT_SZ. lia.
Qed.

(* application memory: one descriptor per region, in order, behind the blocks already there *)
Definition region_says (lo : nat) (b : bytes) (pr : N * bytes) (d : memdesc) : Prop :=
  md_start d = fst pr /\ designates lo b (md_loc d) (snd pr).

Lemma app_memory_payload lo : forall regions blocks s b' s',
  sec_app_memory regions blocks s = Ok (b', s') -> lo <= blen s -> small (blen s') ->
  exists ds, b' = blocks ++ ds /\ Forall2 (region_says lo (w_buf s')) regions ds /\ keeps lo (w_buf s) (w_buf s').
Proof.
  induction regions as [|[p bs] r IH]; intros blocks s b' s' E Hlo Hs; cbn [sec_app_memory] in E.
  - injection E as <- <-. exists []. split; [now rewrite app_nil_r|]. split; [constructor|apply keeps_refl].
  - unfold bind at 1 in E. destruct (w_blob KAppMem bs s) as [[l s1]| |] eqn:E1; try discriminate.
    pose proof (blob_appends _ _ _ _ _ E1) as A1.
    assert (L1 : blen s <= blen s1) by (unfold blen; rewrite A1, app_length; lia).
    destruct (IH _ _ _ _ E ltac:(lia) Hs) as (ds & Hb & Hf & Hk).
    assert (Hs1 : small (blen s1)) by (eapply small_le; [|exact Hs]; destruct Hk as (Lk & _); exact Lk).
    exists ({| md_start := p; md_loc := l |} :: ds). split; [rewrite Hb; now rewrite <- app_assoc|]. split.
    + constructor; [|exact Hf]. split; [reflexivity|]. cbn [md_loc snd].
      eapply designates_keeps; [eapply designates_weaken; [eapply blob_designates; [exact E1|exact Hs1]|exact Hlo]|exact Hk].
    + eapply keeps_trans; [|exact Hk]. rewrite A1. apply keeps_app.
Qed.

Lemma concat_len_memdesc (l : list memdesc) : length (concat (map enc_memdesc l)) = MEMDESC_SZ * length l.
Proof. induction l as [|d t IH]; [reflexivity|]. cbn [map concat length]. rewrite app_length, enc_memdesc_len, IH. lia. Qed.
Lemma small_u32_of n : small n -> u32 n = N.of_nat n.
Proof. unfold small, u32. intro H. now rewrite N.mod_small by exact H. Qed.

Lemma plan_first_four : map fst stream_plan =
  St_thread_list_stream :: St_mappings :: St_app_memory :: St_memory_list_stream :: skipn 4 (map fst stream_plan).
Proof. reflexivity. Qed.
Lemma plan_rest1_types : length (types_of (St_mappings :: St_app_memory :: St_memory_list_stream :: skipn 4 (map fst stream_plan))) = 17.
Proof. vm_compute. reflexivity. Qed.
Lemma plan_rest4_types : length (types_of (skipn 4 (map fst stream_plan))) = 15.
Proof. vm_compute. reflexivity. Qed.

Lemma Forall2_keeps lo b b' regions ds : Forall2 (region_says lo b) regions ds -> keeps lo b b' -> Forall2 (region_says lo b') regions ds.
Proof. intros H K. induction H as [|pr d rg ds' (H1 & H2) _ IH]; constructor; [|exact IH]. split; [exact H1|eapply designates_keeps; eauto]. Qed.

(* In the image of every dump: the memory list holds, in this order, what the thread list handed on (per thread: its stack,
   then - crash thread only - the window around the crash instruction pointer) followed by one descriptor per application
   region; each descriptor designates exactly the bytes given for it, at its own address; nothing else is listed. *)
Theorem image_memory_list c dirs lg s' :
  image c empty_wst = Ok ((dirs, lg), s') -> small (blen s') ->
  exists rs blocks cc appd off,
    run_rel (thread_says c 248) (w_buf s') (ic_threads c) ([], CNone) rs (blocks, cc) /\
    Forall2 (region_says 248 (w_buf s')) (ic_app c) appd /\
    slice (w_buf s') off (4 + MEMDESC_SZ * length (blocks ++ appd)) =
      le 4 (N.of_nat (length (blocks ++ appd))) ++ concat (map enc_memdesc (blocks ++ appd)) /\
    nth_error dirs 2 = Some (T_MEMLIST, {| l_rva := N.of_nat off; l_size := (4 + N.of_nat (MEMDESC_SZ * length (blocks ++ appd)))%N |}).
Proof.
  intros E Hs. rewrite image_eq in E. rewrite plan_first_four in E.
  pose proof plan_rest1_types as HT1. pose proof plan_rest4_types as HT4. set (rest4 := skipn 4 (map fst stream_plan)) in *.
  pose proof (head_state_len c) as HL.
  (* thread list *)
  destruct (run_plan_cons _ _ _ _ _ _ _ _ _ _ _ E) as (r1 & s1 & R1 & M1). cbn [run_step] in R1.
  unfold bind in R1. destruct (sec_thread_list c ([], CNone) (head_state c)) as [[[d1 [blocks cc]] s1']| |] eqn:T1; try discriminate.
  unfold ret in R1. injection R1. intros Es1 Er1. subst s1' r1. cbn [fst snd] in M1. destruct M1 as (s1p & P1 & E1).
  (* modules *)
  destruct (run_plan_cons _ _ _ _ _ _ _ _ _ _ _ E1) as (r2 & s2 & R2 & M2). cbn [run_step] in R2.
  unfold bind in R2. destruct (sec_modules c s1p) as [[d2 s2']| |] eqn:T2; try discriminate.
  unfold ret in R2. injection R2. intros Es2 Er2. subst s2' r2. cbn [fst snd] in M2. destruct M2 as (s2p & P2 & E2).
  (* application memory *)
  destruct (run_plan_cons _ _ _ _ _ _ _ _ _ _ _ E2) as (r3 & s3 & R3 & M3). cbn [run_step] in R3.
  unfold bind in R3. cbn [fst snd] in R3. destruct (sec_app_memory (ic_app c) blocks s2p) as [[blocks3 s3']| |] eqn:T3; try discriminate.
  unfold ret in R3. injection R3. intros Es3 Er3. subst s3' r3. cbn [fst snd] in M3.
  (* memory list *)
  destruct (run_plan_cons _ _ _ _ _ _ _ _ _ _ _ M3) as (r4 & s4 & R4 & M4). cbn [run_step] in R4.
  unfold bind in R4. cbn [fst snd] in R4. destruct (sec_memory_list blocks3 s3) as [[d4 s4']| |] eqn:T4; try discriminate.
  unfold ret in R4. injection R4. intros Es4 Er4. subst s4' r4. cbn [fst snd] in M4. destruct M4 as (s4p & P4 & E4).
  (* lengths: every state has the head *)
  destruct (frame_span_array THREAD_SZ enc_thread3 (thread_body c) (thread_body_frame c) 0 false T_THREADS _ _ _ _ _ _ T1 (Nat.le_0_l _)) as (La1 & _).
  destruct (frame_patch 0 _ _ (Nat.le_0_l _) _ _ _ P1 (Nat.le_0_l _)) as (La1p & _).
  destruct (run_step_frame 0 c St_mappings (blocks, cc) s1p (Some d2, (blocks, cc)) s2 ltac:(cbn [run_step]; unfold bind; rewrite T2; reflexivity) (Nat.le_0_l _)) as (La2 & _).
  destruct (frame_patch 0 _ _ (Nat.le_0_l _) _ _ _ P2 (Nat.le_0_l _)) as (La2p & _).
  destruct (sec_app_memory_frame 0 (ic_app c) blocks _ _ _ T3 (Nat.le_0_l _)) as (La3 & _).
  pose proof (run_plan_mono _ _ _ _ _ _ _ _ _ _ E4) as L4f.
  destruct (frame_patch 0 _ _ (Nat.le_0_l _) _ _ _ P4 (Nat.le_0_l _)) as (La4p & _).
  destruct (memory_list_payload _ _ _ _ T4) as (Hb4 & Hd4).
  assert (La4 : blen s3 <= blen s4) by (unfold blen; rewrite Hb4, app_length; lia).
  (* what each section built is kept to the end *)
  assert (K1 : keeps 248 (w_buf s1) (w_buf s')).
  { eapply (step_then_rest_keeps c _ 0 d1 _ _ _ s1 s1p); [exact P1|exact E1|exact Hs| |lia].
    rewrite HT1. change NUM_DIRS with 18. lia. }
  assert (K3 : keeps 248 (w_buf s3) (w_buf s')).
  { eapply keeps_trans; [|eapply (step_then_rest_keeps c _ 2 d4 _ _ _ s4 s4p); [exact P4|exact E4|exact Hs|rewrite HT4; change NUM_DIRS with 18; lia|lia]].
    rewrite Hb4. apply keeps_app. }
  assert (K4 : keeps 248 (w_buf s4) (w_buf s')) by (eapply (step_then_rest_keeps c _ 2 d4 _ _ _ s4 s4p); [exact P4|exact E4|exact Hs|rewrite HT4; change NUM_DIRS with 18; lia|lia]).
  assert (Hs1 : small (blen s1)) by (eapply small_le; [|exact Hs]; destruct K1 as (Lk & _); exact Lk).
  assert (Hs3 : small (blen s3)) by (eapply small_le; [|exact Hs]; destruct K3 as (Lk & _); exact Lk).
  destruct (thread_list_payload c _ _ _ _ _ T1 Hs1) as (rs & Hrel & _ & _ & _ & _).
  destruct (app_memory_payload 248 _ _ _ _ _ T3 ltac:(lia) Hs3) as (appd & Hb3 & Hf3 & _).
  exists rs, blocks, cc, appd, (blen s3). subst blocks3. split; [|split; [|split]].
  - eapply run_rel_keeps; [apply thread_says_keeps| |exact K1].
    eapply run_rel_weaken; [exact Hrel|rewrite HL; lia].
  - eapply Forall2_keeps; [exact Hf3|exact K3].
  - destruct K4 as (_ & K4). rewrite K4; [|lia|].
    + rewrite Hb4. unfold slice, blen. rewrite skipn_app, skipn_all, Nat.sub_diag. cbn [skipn app].
      rewrite firstn_all2; [reflexivity|]. rewrite app_length, le_length. rewrite (concat_len_memdesc (blocks ++ appd)). rewrite ?app_length. unfold MEMDESC_SZ. lia.
    + unfold blen. rewrite Hb4. rewrite (app_length (w_buf s3)), (app_length (le 4 _)), le_length, (concat_len_memdesc (blocks ++ appd)). rewrite ?app_length. unfold MEMDESC_SZ. lia.
  - destruct (run_plan_dirs_prefix _ _ _ _ _ _ _ _ _ _ _ E4) as (more & Hm). rewrite Hm. cbn [rev app nth_error]. rewrite Hd4.
    rewrite small_u32_of by exact Hs3. reflexivity.
Qed.
Print Assumptions image_memory_list.

(* ---------- the exception record in the final image (C05) ---------- *)
Lemma not_blamed_not_crash c t : t_blamed c t = false -> t_crash c t = false.
Proof. unfold t_crash. intro H. destruct (ic_crash c); [exact H|reflexivity]. Qed.

(* which context the exception record will share: the one of the (last listed) thread with the blamed id, if any *)
Lemma cc_says c lo b : forall ts st rs st', run_rel (thread_says c lo) b ts st rs st' ->
  (snd st' = snd st /\ Forall (fun t => t_blamed c t = false) ts) \/
  (exists t r, In (t, r) (combine ts rs) /\ t_blamed c t = true /\ designates lo b (snd r) (it_ctx t) /\
     snd st' = if t_crash c t then CCtx (snd r) else CCtxAddr (snd r) (unle (slice (it_ctx t) 248 8))).
Proof.
  intros ts st rs st' H. induction H as [st|t ts st r st1 rs stF HP _ IH]; [left; split; [reflexivity|constructor]|].
  destruct IH as [(He & Hf)|(t' & r' & Hin & Hb & Hd & He)].
  - destruct r as [[tid md] cl]. destruct HP as (_ & H2 & _ & _ & H6).
    destruct (t_blamed c t) eqn:Eb.
    + right. exists t, (tid, md, cl). split; [left; reflexivity|]. split; [exact Eb|]. split; [exact H2|]. rewrite He, H6. reflexivity.
    + left. rewrite (not_blamed_not_crash _ _ Eb) in H6. split; [rewrite He; exact H6|constructor; assumption].
  - right. exists t', r'. split; [right; exact Hin|]. split; [exact Hb|]. split; [exact Hd|exact He].
Qed.

Lemma enc_exception_len tid code flags addr ctx : length (enc_exception tid code flags addr ctx) = 168.
Proof. unfold enc_exception. rewrite !app_length, !le_length, repeat_length, enc_loc_len. reflexivity. Qed.

Lemma plan_first_five : map fst stream_plan =
  St_thread_list_stream :: St_mappings :: St_app_memory :: St_memory_list_stream :: St_exception_stream :: skipn 5 (map fst stream_plan).
Proof. reflexivity. Qed.
Lemma plan_rest1_types5 : length (types_of (St_mappings :: St_app_memory :: St_memory_list_stream :: St_exception_stream :: skipn 5 (map fst stream_plan))) = 17.
Proof. vm_compute. reflexivity. Qed.
Lemma plan_rest5_types : length (types_of (skipn 5 (map fst stream_plan))) = 14.
Proof. vm_compute. reflexivity. Qed.

Definition exception_fields (c : content) (cc : crashctx) : N * N * N * loc :=
  let ctxloc := match cc with CNone => zero_loc | CCtx l => l | CCtxAddr l _ => l end in
  match ic_crash c with
  | Some (signo, code, addr) => (signo, code, addr, ctxloc)
  | None => (0xFFFFFFFF%N, 0%N, match cc with CCtxAddr _ a => a | _ => 0%N end, ctxloc)
  end.

(* In the image of every dump: the fourth directory entry is the exception stream; its record names the blamed thread, carries
   signal number / code / fault address of the supplied crash context (or the "dump requested" code and the blamed thread's
   instruction pointer), and its context location is the one the thread list recorded for the blamed thread ([cc_says]) - the
   two records share one context object. *)
Theorem image_exception c dirs lg s' :
  image c empty_wst = Ok ((dirs, lg), s') -> small (blen s') ->
  exists rs blocks cc off,
    run_rel (thread_says c 248) (w_buf s') (ic_threads c) ([], CNone) rs (blocks, cc) /\
    (let '(code, flags, addr, ctxloc) := exception_fields c cc in
     slice (w_buf s') off 168 = enc_exception (ic_blamed c) code flags addr ctxloc) /\
    nth_error dirs 3 = Some (T_EXC, {| l_rva := N.of_nat off; l_size := 168 |}).
Proof.
  intros E Hs. rewrite image_eq in E. rewrite plan_first_five in E.
  pose proof plan_rest1_types5 as HT1. pose proof plan_rest5_types as HT5. set (rest5 := skipn 5 (map fst stream_plan)) in *.
  pose proof (head_state_len c) as HL.
  destruct (run_plan_cons _ _ _ _ _ _ _ _ _ _ _ E) as (r1 & s1 & R1 & M1). cbn [run_step] in R1.
  unfold bind in R1. destruct (sec_thread_list c ([], CNone) (head_state c)) as [[[d1 [blocks cc]] s1']| |] eqn:T1; try discriminate.
  unfold ret in R1. injection R1. intros Es1 Er1. subst s1' r1. cbn [fst snd] in M1. destruct M1 as (s1p & P1 & E1).
  destruct (run_plan_cons _ _ _ _ _ _ _ _ _ _ _ E1) as (r2 & s2 & R2 & M2). cbn [run_step] in R2.
  unfold bind in R2. destruct (sec_modules c s1p) as [[d2 s2']| |] eqn:T2; try discriminate.
  unfold ret in R2. injection R2. intros Es2 Er2. subst s2' r2. cbn [fst snd] in M2. destruct M2 as (s2p & P2 & E2).
  destruct (run_plan_cons _ _ _ _ _ _ _ _ _ _ _ E2) as (r3 & s3 & R3 & M3). cbn [run_step] in R3.
  unfold bind in R3. cbn [fst snd] in R3. destruct (sec_app_memory (ic_app c) blocks s2p) as [[blocks3 s3']| |] eqn:T3; try discriminate.
  unfold ret in R3. injection R3. intros Es3 Er3. subst s3' r3. cbn [fst snd] in M3.
  destruct (run_plan_cons _ _ _ _ _ _ _ _ _ _ _ M3) as (r4 & s4 & R4 & M4). cbn [run_step] in R4.
  unfold bind in R4. cbn [fst snd] in R4. destruct (sec_memory_list blocks3 s3) as [[d4 s4']| |] eqn:T4; try discriminate.
  unfold ret in R4. injection R4. intros Es4 Er4. subst s4' r4. cbn [fst snd] in M4. destruct M4 as (s4p & P4 & E4).
  destruct (run_plan_cons _ _ _ _ _ _ _ _ _ _ _ E4) as (r5 & s5 & R5 & M5). cbn [run_step] in R5.
  unfold bind in R5. cbn [fst snd] in R5. destruct (sec_exception c cc s4p) as [[d5 s5']| |] eqn:T5; try discriminate.
  unfold ret in R5. injection R5. intros Es5 Er5. subst s5' r5. cbn [fst snd] in M5. destruct M5 as (s5p & P5 & E5).
  (* lengths *)
  destruct (frame_span_array THREAD_SZ enc_thread3 (thread_body c) (thread_body_frame c) 0 false T_THREADS _ _ _ _ _ _ T1 (Nat.le_0_l _)) as (La1 & _).
  destruct (frame_patch 0 _ _ (Nat.le_0_l _) _ _ _ P1 (Nat.le_0_l _)) as (La1p & _).
  destruct (run_step_frame 0 c St_mappings (blocks, cc) s1p (Some d2, (blocks, cc)) s2 ltac:(cbn [run_step]; unfold bind; rewrite T2; reflexivity) (Nat.le_0_l _)) as (La2 & _).
  destruct (frame_patch 0 _ _ (Nat.le_0_l _) _ _ _ P2 (Nat.le_0_l _)) as (La2p & _).
  destruct (sec_app_memory_frame 0 (ic_app c) blocks _ _ _ T3 (Nat.le_0_l _)) as (La3 & _).
  destruct (memory_list_payload _ _ _ _ T4) as (Hb4 & _).
  assert (La4 : blen s3 <= blen s4) by (unfold blen; rewrite Hb4, app_length; lia).
  destruct (frame_patch 0 _ _ (Nat.le_0_l _) _ _ _ P4 (Nat.le_0_l _)) as (La4p & _).
  (* the exception section appends exactly its record *)
  unfold sec_exception in T5. fold (exception_fields c cc) in T5.
  destruct (exception_fields c cc) as [[[code flags] addr] ctxloc] eqn:EF.
  assert (T5' : w_buf s5 = w_buf s4p ++ enc_exception (ic_blamed c) code flags addr ctxloc /\
                d5 = (T_EXC, {| l_rva := u32 (blen s4p); l_size := 168 |})).
  { revert T5. unfold exception_fields in EF. destruct (ic_crash c) as [[[sg cd] ad]|]; injection EF; intros; subst;
      unfold bind, w_alloc, ret in T5; injection T5; intros Ea Eb; subst; cbn [w_buf]; split; reflexivity. }
  destruct T5' as (Hb5 & Hd5).
  assert (La5 : blen s4p <= blen s5) by (unfold blen; rewrite Hb5, app_length; lia).
  assert (K1 : keeps 248 (w_buf s1) (w_buf s')).
  { eapply (step_then_rest_keeps c _ 0 d1 _ _ _ s1 s1p); [exact P1|exact E1|exact Hs| |lia]. rewrite HT1. change NUM_DIRS with 18. lia. }
  assert (K5 : keeps 248 (w_buf s5) (w_buf s')) by (eapply (step_then_rest_keeps c _ 3 d5 _ _ _ s5 s5p); [exact P5|exact E5|exact Hs|rewrite HT5; change NUM_DIRS with 18; lia|lia]).
  assert (Hs1 : small (blen s1)) by (eapply small_le; [|exact Hs]; destruct K1 as (Lk & _); exact Lk).
  assert (Hs4 : small (blen s4p)) by (eapply small_le; [|exact Hs]; destruct K5 as (Lk & _); unfold blen in *; lia).
  destruct (thread_list_payload c _ _ _ _ _ T1 Hs1) as (rs & Hrel & _ & _ & _ & _).
  exists rs, blocks, cc, (blen s4p). rewrite EF. split; [|split].
  - eapply run_rel_keeps; [apply thread_says_keeps| |exact K1]. eapply run_rel_weaken; [exact Hrel|rewrite HL; lia].
  - destruct K5 as (_ & K5). rewrite K5; [|lia|].
    + rewrite Hb5. rewrite <- (enc_exception_len (ic_blamed c) code flags addr ctxloc) at 1. unfold blen. apply slice_app_at.
    + unfold blen. rewrite Hb5, app_length, enc_exception_len. lia.
  - destruct (run_plan_dirs_prefix _ _ _ _ _ _ _ _ _ _ _ E5) as (more & Hm). rewrite Hm. cbn [rev app nth_error]. rewrite Hd5.
    rewrite small_u32_of by exact Hs4. reflexivity.
Qed.
Print Assumptions image_exception.

(* ---------- any position of the plan; the thread names in the final image (C15) ---------- *)
Lemma run_plan_at c base : forall pre st rest idx ds acc log s res s',
  run_plan c base (pre ++ st :: rest) idx ds acc log s = Ok (res, s') ->
  exists ds0 acc0 log0 s0, blen s <= blen s0 /\
    run_plan c base (st :: rest) (idx + length (types_of pre)) ds0 acc0 log0 s0 = Ok (res, s').
Proof.
  induction pre as [|p pre IH]; intros st rest idx ds acc log s res s' E.
  - exists ds, acc, log, s. split; [lia|]. cbn [types_of flat_map length]. rewrite Nat.add_0_r. exact E.
  - cbn [app] in E. destruct (run_plan_cons _ _ _ _ _ _ _ _ _ _ _ E) as (r & s1 & R & M).
    pose proof (run_step_shape _ _ _ _ _ _ R) as Hshape.
    destruct (run_step_frame 0 c p ds s r s1 R (Nat.le_0_l _)) as (L1 & _).
    cbn [types_of flat_map]. fold (types_of pre).
    destruct (fst r) as [d|]; destruct (stream_type p) as [ty|]; try contradiction.
    + destruct M as (s2 & P2 & E2). destruct (frame_patch 0 _ _ (Nat.le_0_l _) _ _ _ P2 (Nat.le_0_l _)) as (L2 & _).
      destruct (IH _ _ _ _ _ _ _ _ _ E2) as (ds0 & acc0 & log0 & s0 & L & E0).
      exists ds0, acc0, log0, s0. split; [lia|]. cbn [app length]. replace (idx + S (length (types_of pre))) with (S idx + length (types_of pre)) by lia. exact E0.
    + destruct (IH _ _ _ _ _ _ _ _ _ M) as (ds0 & acc0 & log0 & s0 & L & E0).
      exists ds0, acc0, log0, s0. split; [lia|]. cbn [app]. exact E0.
Qed.

Definition name_says (lo : nat) (t : N * list N) (u : unit) (r : N * loc) (u' : unit) (b : bytes) : Prop :=
  fst r = fst t /\ designates lo b (snd r) (md_string (snd t)).

Lemma name_says_keeps lo t u r u' b b' : name_says lo t u r u' b -> keeps lo b b' -> name_says lo t u r u' b'.
Proof. intros (H1 & H2) K. split; [exact H1|eapply designates_keeps; eauto]. Qed.
Lemma name_body_app t u s r u' s1 : name_body t u s = Ok ((r, u'), s1) -> exists more, w_buf s1 = w_buf s ++ more.
Proof.
  unfold name_body, w_string. intro E. unfold bind in E. destruct (w_blob KString (md_string (snd t)) s) as [[l sa]| |] eqn:E1; try discriminate.
  unfold ret in E. injection E as _ _ <-. exists (md_string (snd t)). exact (blob_appends _ _ _ _ _ E1).
Qed.
Lemma name_body_ok lo t u s r u' s1 : name_body t u s = Ok ((r, u'), s1) -> lo <= blen s -> small (blen s1) -> name_says lo t u r u' (w_buf s1).
Proof.
  unfold name_body, w_string. intros E Hlo Hs. unfold bind in E. destruct (w_blob KString (md_string (snd t)) s) as [[l sa]| |] eqn:E1; try discriminate.
  unfold ret in E. injection E. intros Es Eu Er. subst s1 u' r. split; [reflexivity|]. cbn [snd].
  eapply designates_weaken; [eapply blob_designates; [exact E1|exact Hs]|exact Hlo].
Qed.
Lemma enc_name_len r : length (enc_name r) = NAME_SZ.
Proof. unfold enc_name. now rewrite app_length, !le_length. Qed.

Theorem thread_names_payload c s d s' :
  sec_names c s = Ok (d, s') -> small (blen s') ->
  let n := length (ic_names c) in
  exists rs, run_rel (name_says (blen s + 4 + NAME_SZ * n)) (w_buf s') (ic_names c) tt rs tt /\
    slice (w_buf s') (blen s) (4 + NAME_SZ * n) = le 4 (N.of_nat n) ++ concat (map enc_name rs) /\
    d = (T_NAMES, {| l_rva := u32 (blen s); l_size := (4 + N.of_nat (NAME_SZ * n))%N |}) /\
    blen s + 4 + NAME_SZ * n <= blen s'.
Proof.
  intros E Hs n. unfold sec_names in E. unfold bind in E.
  destruct (w_span_array NAME_SZ enc_name name_body false T_NAMES (le 4 (N.of_nat (length (ic_names c)))) (ic_names c) tt s) as [[[d0 []] s0]| |] eqn:E0; try discriminate.
  unfold ret in E. injection E. intros Es Ed. subst s0 d0.
  destruct (span_payload NAME_SZ enc_name name_body name_says enc_name_len name_says_keeps name_body_app name_body_ok name_body_frame
              T_NAMES _ _ _ _ _ _ _ E0 Hs) as (rs & H1 & H2 & H3 & H4 & H5).
  rewrite le_length in H1, H3, H4, H5. exists rs. split; [exact H1|]. split; [exact H3|]. split; [exact H4|exact H5].
Qed.

Definition NAMES_AT : nat := 16.
Lemma plan_names_at : map fst stream_plan = firstn NAMES_AT (map fst stream_plan) ++ St_thread_names_stream :: skipn (S NAMES_AT) (map fst stream_plan).
Proof. reflexivity. Qed.
Lemma plan_names_types : length (types_of (firstn NAMES_AT (map fst stream_plan))) = 15 /\ length (types_of (skipn (S NAMES_AT) (map fst stream_plan))) = 2.
Proof. vm_compute. split; reflexivity. Qed.

(* In the image of every dump: the thread-names stream holds one record per name of the content, in order, each with the id it
   was given for and the location of exactly the MINIDUMP_STRING of that name. *)
Theorem image_thread_names c dirs lg s' :
  image c empty_wst = Ok ((dirs, lg), s') -> small (blen s') ->
  let n := length (ic_names c) in
  exists rs off,
    run_rel (name_says 248) (w_buf s') (ic_names c) tt rs tt /\
    slice (w_buf s') off (4 + NAME_SZ * n) = le 4 (N.of_nat n) ++ concat (map enc_name rs) /\
    In (T_NAMES, {| l_rva := N.of_nat off; l_size := (4 + N.of_nat (NAME_SZ * n))%N |}) dirs.
Proof.
  intros E Hs n. rewrite image_eq in E. rewrite plan_names_at in E.
  destruct plan_names_types as (HTp & HTr).
  set (pre := firstn NAMES_AT (map fst stream_plan)) in *. set (rest := skipn (S NAMES_AT) (map fst stream_plan)) in *.
  pose proof (head_state_len c) as HL.
  destruct (run_plan_at _ _ _ _ _ _ _ _ _ _ _ _ E) as (ds0 & acc0 & log0 & s0 & L0 & E0). rewrite HTp in E0. cbn [plus] in E0.
  destruct (run_plan_cons _ _ _ _ _ _ _ _ _ _ _ E0) as (r & s1 & R & M).
  destruct (run_step_frame 0 c _ _ _ _ _ R (Nat.le_0_l _)) as (La & _). cbn [run_step] in R.
  unfold bind in R. destruct (sec_names c s0) as [[d s1']| |] eqn:T; try discriminate.
  unfold ret in R. injection R. intros Es1 Er. subst s1' r. cbn [fst snd] in M. destruct M as (s1p & P1 & E1).
  assert (K1 : keeps 248 (w_buf s1) (w_buf s')).
  { eapply (step_then_rest_keeps c rest 15 d _ _ _ s1 s1p); [exact P1|exact E1|exact Hs|rewrite HTr; change NUM_DIRS with 18; lia|lia]. }
  assert (Hs1 : small (blen s1)) by (eapply small_le; [|exact Hs]; destruct K1 as (Lk & _); exact Lk).
  destruct (thread_names_payload c _ _ _ T Hs1) as (rs & Hrel & Hsl & Hd & Hlen). fold n in Hrel, Hsl, Hd, Hlen.
  exists rs, (blen s0). split; [|split].
  - eapply run_rel_keeps; [apply name_says_keeps| |exact K1].
    clear - Hrel L0 HL. assert (Hlo : 248 <= blen s0 + 4 + NAME_SZ * n) by lia. revert Hlo Hrel. generalize (blen s0 + 4 + NAME_SZ * n). intros lo0 Hlo Hrel.
    induction Hrel as [st|t ts st r st1 rs stF (H1 & H2) _ IH]; [constructor|]. econstructor; [|exact IH]. split; [exact H1|eapply designates_weaken; eauto].
  - rewrite <- Hsl. destruct K1 as (_ & K1). apply K1; unfold blen in *; lia.
  - destruct (run_plan_dirs_prefix _ _ _ _ _ _ _ _ _ _ _ E1) as (more & Hm). rewrite Hm. apply in_or_app. left. cbn [rev]. apply in_or_app. right. left.
    rewrite Hd. rewrite small_u32_of; [reflexivity|]. eapply small_le; [|exact Hs1]. lia.
Qed.
Print Assumptions image_thread_names.

(* ---------- the premises are satisfiable: a concrete dump (crash thread with a window, a thread without stack bytes, an
   application region, a name) is built and is small ---------- *)
Definition demo_content : content := {|
  ic_time := 1;
  ic_threads := [ {| it_tid := 7; it_sp := 0x1000; it_stack := Some (0x1000%N, [1; 2; 3]%N); it_ipwin := Some (0x2000%N, [9; 9]%N); it_ctx := repeat 0%N 1232 |};
                  {| it_tid := 8; it_sp := 0; it_stack := None; it_ipwin := None; it_ctx := repeat 1%N 1232 |} ];
  ic_blamed := 7; ic_crash := Some (11, 1, 16)%N;
  ic_modules := []; ic_app := [(0x5000%N, [4; 5]%N)]; ic_sysinfo := repeat 0%N 56; ic_osver := [65%N]; ic_meminfo := [];
  ic_cpuinfo := None; ic_status := None; ic_lsb := None; ic_cmdline := None; ic_environ := None; ic_auxv := None; ic_maps := None; ic_limits := None;
  ic_dso := IDsoFail []; ic_names := [(7%N, [65; 66]%N)]; ic_handles := []; ic_soft := None |}.
Example premises_hold : exists dirs lg s', image demo_content empty_wst = Ok ((dirs, lg), s') /\ small (blen s') /\ blen s' = 3161.
Proof.
  destruct (image demo_content empty_wst) as [[[dirs lg] s']| |] eqn:E.
  - exists dirs, lg, s'. split; [reflexivity|]. assert (H : blen s' = 3161) by (apply (f_equal (fun o => match o with Ok (_, s) => blen s | _ => 0 end)) in E; vm_compute in E; symmetry; exact E).
    split; [rewrite H; vm_compute; reflexivity|exact H].
  - exfalso. vm_compute in E. discriminate.
  - exfalso. vm_compute in E. discriminate.
Qed.

(* ---------- the module list in the final image (C08) ---------- *)
Section CollectPayload.
  Context {X R St : Type}.
  Variable body : X -> St -> W (R * St).
  Variable lo : nat.
  Variable P : X -> St -> R -> St -> bytes -> Prop.
  Hypothesis P_keeps : forall x st r st' b b', P x st r st' b -> keeps lo b b' -> P x st r st' b'.
  Hypothesis body_app : forall x st s r st' s1, body x st s = Ok ((r, st'), s1) -> exists more, w_buf s1 = w_buf s ++ more.
  Hypothesis body_ok : forall x st s r st' s1, body x st s = Ok ((r, st'), s1) -> lo <= blen s -> small (blen s1) -> P x st r st' (w_buf s1).

  Lemma collect_payload : forall xs st s rs stF s',
    w_collect body xs st s = Ok ((rs, stF), s') -> small (blen s') -> lo <= blen s ->
    run_rel P (w_buf s') xs st rs stF /\ exists more, w_buf s' = w_buf s ++ more.
  Proof.
    induction xs as [|x r IH]; intros st s rs stF s' E Hs Hlo; cbn [w_collect] in E.
    - injection E as <- <- <-. split; [constructor|]. exists []. now rewrite app_nil_r.
    - unfold bind at 1 in E. destruct (body x st s) as [[[rx st1] s1]| |] eqn:Eb; try discriminate. cbn [fst snd] in E.
      unfold bind at 1 in E. destruct (w_collect body r st1 s1) as [[[q stq] s2]| |] eqn:Ec; try discriminate.
      unfold ret in E. cbn [fst snd] in E. injection E. intros Es Est Ers. subst s2 stq rs.
      destruct (body_app _ _ _ _ _ _ Eb) as (more1 & Hm1).
      assert (L1 : blen s <= blen s1) by (unfold blen; rewrite Hm1, app_length; lia).
      destruct (IH _ _ _ _ _ Ec Hs ltac:(lia)) as (Hrel & more2 & Hm2).
      assert (Hs1 : small (blen s1)) by (eapply small_le; [|exact Hs]; unfold blen; rewrite Hm2, app_length; lia).
      split.
      + econstructor; [|exact Hrel]. eapply P_keeps; [eapply body_ok; [exact Eb|exact Hlo|exact Hs1]|]. rewrite Hm2. apply keeps_app.
      + exists (more1 ++ more2). rewrite Hm2, Hm1. now rewrite <- app_assoc.
  Qed.
End CollectPayload.

Definition CV_BYTES (m : imodule) : bytes := le 4 CV_ELF ++ im_id m.
Definition module_says (lo : nat) (m : imodule) (u : unit) (r : imodule * loc * loc) (u' : unit) (b : bytes) : Prop :=
  let '(m', cv, nm) := r in
  m' = m /\ designates lo b nm (md_string (im_name m)) /\
  match im_id m with [] => cv = zero_loc | _ => designates lo b cv (CV_BYTES m) end.

Lemma module_says_keeps lo m u r u' b b' : module_says lo m u r u' b -> keeps lo b b' -> module_says lo m u r u' b'.
Proof.
  destruct r as [[m' cv] nm]. unfold module_says. intros (H1 & H2 & H3) K. split; [exact H1|]. split; [eapply designates_keeps; eauto|].
  destruct (im_id m); [exact H3|eapply designates_keeps; eauto].
Qed.
Lemma module_body_app m u s r u' s1 : module_body m u s = Ok ((r, u'), s1) -> exists more, w_buf s1 = w_buf s ++ more.
Proof.
  unfold module_body, w_string. intro E. unfold bind at 1 in E.
  destruct (im_id m) as [|i0 id].
  - unfold ret at 1 in E. cbv beta iota in E. unfold bind in E.
    destruct (w_blob KString (md_string (im_name m)) s) as [[l sa]| |] eqn:E1; try discriminate. unfold ret in E. injection E as _ _ <-.
    exists (md_string (im_name m)). exact (blob_appends _ _ _ _ _ E1).
  - destruct (w_blob KCv (le 4 CV_ELF ++ i0 :: id) s) as [[l0 s0]| |] eqn:E0; try discriminate. unfold bind in E.
    destruct (w_blob KString (md_string (im_name m)) s0) as [[l sa]| |] eqn:E1; try discriminate. unfold ret in E. injection E as _ _ <-.
    exists ((le 4 CV_ELF ++ i0 :: id) ++ md_string (im_name m)). rewrite (blob_appends _ _ _ _ _ E1), (blob_appends _ _ _ _ _ E0). now rewrite <- app_assoc.
Qed.
Lemma module_body_ok lo m u s r u' s1 : module_body m u s = Ok ((r, u'), s1) -> lo <= blen s -> small (blen s1) -> module_says lo m u r u' (w_buf s1).
Proof.
  unfold module_body, w_string, module_says, CV_BYTES. intros E Hlo Hs. unfold bind at 1 in E.
  destruct (im_id m) as [|i0 id].
  - unfold ret at 1 in E. cbv beta iota in E. unfold bind in E.
    destruct (w_blob KString (md_string (im_name m)) s) as [[l sa]| |] eqn:E1; try discriminate. unfold ret in E.
    injection E. intros Es Eu Er. subst s1 u' r. split; [reflexivity|]. split; [|reflexivity].
    eapply designates_weaken; [eapply blob_designates; [exact E1|exact Hs]|exact Hlo].
  - destruct (w_blob KCv (le 4 CV_ELF ++ i0 :: id) s) as [[l0 s0]| |] eqn:E0; try discriminate. unfold bind in E.
    destruct (w_blob KString (md_string (im_name m)) s0) as [[l sa]| |] eqn:E1; try discriminate. unfold ret in E.
    injection E. intros Es Eu Er. subst s1 u' r.
    pose proof (blob_appends _ _ _ _ _ E0) as A0. pose proof (blob_appends _ _ _ _ _ E1) as A1.
    split; [reflexivity|]. split.
    + eapply (blob_step lo _ _ _ _ _ sa []); [exact E1|unfold blen in *; rewrite A0, app_length; lia|now rewrite app_nil_r|exact Hs].
    + eapply (blob_step lo _ _ _ _ _ sa (md_string (im_name m))); [exact E0|exact Hlo|exact A1|exact Hs].
Qed.

Lemma concat_len_fixed {R} size (enc : R -> bytes) (l : list R) : (forall r, length (enc r) = size) -> length (concat (map enc l)) = size * length l.
Proof. intro H. induction l as [|d t IH]; [cbn; lia|]. cbn [map concat length]. rewrite app_length, H, IH. lia. Qed.

Theorem module_list_payload c s d s' :
  sec_modules c s = Ok (d, s') -> small (blen s') ->
  exists rs off, run_rel (module_says (blen s)) (w_buf s') (ic_modules c) tt rs tt /\
    blen s <= off /\ off + (4 + MODULE_SZ * length rs) = blen s' /\
    slice (w_buf s') off (4 + MODULE_SZ * length rs) = le 4 (N.of_nat (length rs)) ++ concat (map enc_module rs) /\
    d = (T_MODULES, {| l_rva := u32 off; l_size := (4 + N.of_nat (MODULE_SZ * length rs))%N |}).
Proof.
  intros E Hs. unfold sec_modules in E. unfold bind at 1 in E.
  destruct (w_collect module_body (ic_modules c) tt s) as [[[rs []] s1]| |] eqn:Ec; try discriminate. cbn [fst] in E.
  unfold bind in E.
  destruct (w_span_array MODULE_SZ enc_module keep true T_MODULES (le 4 (N.of_nat (length rs))) rs tt s1) as [[r s2]| |] eqn:Ea; try discriminate.
  unfold ret in E. injection E. intros Es Ed. subst s2 d.
  destruct (span_keep_payload _ _ _ _ _ _ _ _ enc_module_len Ea) as (Hb & Hr).
  assert (L12 : blen s1 <= blen s') by (unfold blen; rewrite Hb, app_length; lia).
  assert (Hs1 : small (blen s1)) by (eapply small_le; [|exact Hs]; exact L12).
  destruct (collect_payload module_body (blen s) (module_says (blen s)) (module_says_keeps (blen s)) module_body_app (module_body_ok (blen s))
              _ _ _ _ _ _ Ec Hs1 (le_n _)) as (Hrel & more & Hm).
  exists rs, (blen s1). split; [|split; [|split; [|split]]].
  - eapply run_rel_keeps; [apply module_says_keeps|exact Hrel|]. rewrite Hb. apply keeps_app.
  - unfold blen. rewrite Hm, app_length. lia.
  - unfold blen. rewrite Hb, !app_length, le_length, (concat_len_fixed MODULE_SZ enc_module rs enc_module_len). lia.
  - rewrite Hb. unfold slice, blen. rewrite skipn_app, skipn_all, Nat.sub_diag. cbn [skipn app].
    apply firstn_all2. rewrite app_length, le_length, (concat_len_fixed MODULE_SZ enc_module rs enc_module_len). lia.
  - rewrite Hr, le_length. reflexivity.
Qed.

Lemma plan_modules_at : map fst stream_plan = firstn 1 (map fst stream_plan) ++ St_mappings :: skipn 2 (map fst stream_plan).
Proof. reflexivity. Qed.
Lemma plan_modules_types : length (types_of (firstn 1 (map fst stream_plan))) = 1 /\ length (types_of (skipn 2 (map fst stream_plan))) = 16.
Proof. vm_compute. split; reflexivity. Qed.

(* In the image of every dump: the module list holds one record per module of the content, in order; each record carries the
   module's base, size and version and stores the locations of exactly its name (as a MINIDUMP_STRING) and - when the module
   has an identifier - of exactly its CodeView record (signature + identifier). *)
Theorem image_module_list c dirs lg s' :
  image c empty_wst = Ok ((dirs, lg), s') -> small (blen s') ->
  exists rs off,
    run_rel (module_says 248) (w_buf s') (ic_modules c) tt rs tt /\
    slice (w_buf s') off (4 + MODULE_SZ * length rs) = le 4 (N.of_nat (length rs)) ++ concat (map enc_module rs) /\
    In (T_MODULES, {| l_rva := N.of_nat off; l_size := (4 + N.of_nat (MODULE_SZ * length rs))%N |}) dirs.
Proof.
  intros E Hs. rewrite image_eq in E. rewrite plan_modules_at in E.
  destruct plan_modules_types as (HTp & HTr).
  set (pre := firstn 1 (map fst stream_plan)) in *. set (rest := skipn 2 (map fst stream_plan)) in *.
  pose proof (head_state_len c) as HL.
  destruct (run_plan_at _ _ _ _ _ _ _ _ _ _ _ _ E) as (ds0 & acc0 & log0 & s0 & L0 & E0). rewrite HTp in E0. cbn [plus] in E0.
  destruct (run_plan_cons _ _ _ _ _ _ _ _ _ _ _ E0) as (r & s1 & R & M).
  destruct (run_step_frame 0 c _ _ _ _ _ R (Nat.le_0_l _)) as (La & _). cbn [run_step] in R.
  unfold bind in R. destruct (sec_modules c s0) as [[d s1']| |] eqn:T; try discriminate.
  unfold ret in R. injection R. intros Es1 Er. subst s1' r. cbn [fst snd] in M. destruct M as (s1p & P1 & E1).
  assert (K1 : keeps 248 (w_buf s1) (w_buf s')).
  { eapply (step_then_rest_keeps c rest 1 d _ _ _ s1 s1p); [exact P1|exact E1|exact Hs|rewrite HTr; change NUM_DIRS with 18; lia|lia]. }
  assert (Hs1 : small (blen s1)) by (eapply small_le; [|exact Hs]; destruct K1 as (Lk & _); exact Lk).
  destruct (module_list_payload c _ _ _ T Hs1) as (rs & off & Hrel & Lo & Hend & Hsl & Hd).
  exists rs, off. split; [|split].
  - eapply run_rel_keeps; [apply module_says_keeps| |exact K1].
    clear - Hrel L0 HL. assert (Hlo : 248 <= blen s0) by lia. revert Hlo Hrel. generalize (blen s0). intros lo0 Hlo Hrel.
    induction Hrel as [st|m ms st r st1 rs stF HP _ IH]; [constructor|]. econstructor; [|exact IH].
    destruct r as [[m' cv] nm]. destruct HP as (H1 & H2 & H3). split; [exact H1|]. split; [eapply designates_weaken; eauto|].
    destruct (im_id m); [exact H3|eapply designates_weaken; eauto].
  - rewrite <- Hsl. destruct K1 as (_ & K1). apply K1; unfold blen in *; lia.
  - destruct (run_plan_dirs_prefix _ _ _ _ _ _ _ _ _ _ _ E1) as (more & Hm). rewrite Hm. apply in_or_app. left. cbn [rev]. apply in_or_app. right. left.
    rewrite Hd. rewrite small_u32_of; [reflexivity|]. eapply small_le; [|exact Hs1]. lia.
Qed.
Print Assumptions image_module_list.

(* ---------- any stream of the plan: what its section built is still there in the final image ---------- *)
Lemma types_of_app a b : types_of (a ++ b) = types_of a ++ types_of b.
Proof. unfold types_of. apply flat_map_app. Qed.

Lemma image_step_at c dirs lg s' st :
  image c empty_wst = Ok ((dirs, lg), s') -> small (blen s') ->
  In st (map fst stream_plan) -> stream_type st <> None ->
  exists ds0 s0 d ds1 s1, 248 <= blen s0 /\ run_step c st ds0 s0 = Ok ((Some d, ds1), s1) /\
    keeps 248 (w_buf s1) (w_buf s') /\ small (blen s1) /\ blen s0 <= blen s1 /\ In d dirs.
Proof.
  intros E Hs Hin Hty. rewrite image_eq in E.
  destruct (in_split _ _ Hin) as (pre & rest & Hsplit).
  assert (HT : S (length (types_of pre)) + length (types_of rest) = NUM_DIRS).
  { pose proof plan_types_are as HP. rewrite Hsplit in HP. change (pre ++ st :: rest) with (pre ++ [st] ++ rest) in HP.
    rewrite !types_of_app in HP. apply (f_equal (@length N)) in HP. rewrite !app_length in HP. change (length plan_types) with NUM_DIRS in HP.
    unfold types_of at 2 in HP. cbn [flat_map] in HP. destruct (stream_type st); [|contradiction]. cbn [app length] in HP. lia. }
  rewrite Hsplit in E. pose proof (head_state_len c) as HL.
  destruct (run_plan_at _ _ _ _ _ _ _ _ _ _ _ _ E) as (ds0 & acc0 & log0 & s0 & L0 & E0). cbn [plus] in E0.
  destruct (run_plan_cons _ _ _ _ _ _ _ _ _ _ _ E0) as (r & s1 & R & M).
  pose proof (run_step_shape _ _ _ _ _ _ R) as Hshape.
  destruct (run_step_frame 0 c _ _ _ _ _ R (Nat.le_0_l _)) as (La & _).
  destruct r as [[d|] ds1]; cbn [fst snd] in *; [|destruct (stream_type st); [contradiction|contradiction]].
  destruct M as (s1p & P1 & E1).
  assert (K1 : keeps 248 (w_buf s1) (w_buf s')).
  { eapply (step_then_rest_keeps c rest _ d _ _ _ s1 s1p); [exact P1|exact E1|exact Hs|lia|lia]. }
  exists ds0, s0, d, ds1, s1. split; [lia|]. split; [exact R|]. split; [exact K1|]. split; [|split; [exact La|]].
  - eapply small_le; [|exact Hs]. destruct K1 as (Lk & _). exact Lk.
  - destruct (run_plan_dirs_prefix _ _ _ _ _ _ _ _ _ _ _ E1) as (more & Hm). rewrite Hm. apply in_or_app. left. cbn [rev]. apply in_or_app. right. left. reflexivity.
Qed.

(* the memory-information list (C18) *)
Theorem image_meminfo c dirs lg s' :
  image c empty_wst = Ok ((dirs, lg), s') -> small (blen s') ->
  let n := length (ic_meminfo c) in
  exists off,
    slice (w_buf s') off (16 + MEMINFO_SZ * n) = (le 4 16 ++ le 4 48 ++ le 8 (N.of_nat n)) ++ concat (map enc_meminfo (ic_meminfo c)) /\
    In (T_MEMINFO, {| l_rva := N.of_nat off; l_size := (16 + N.of_nat (MEMINFO_SZ * n))%N |}) dirs.
Proof.
  intros E Hs n.
  destruct (image_step_at c dirs lg s' St_memory_info_list_stream E Hs ltac:(vm_compute; tauto) ltac:(discriminate))
    as (ds0 & s0 & d & ds1 & s1 & L0 & R & K1 & Hs1 & La & Hd).
  cbn [run_step] in R. unfold bind in R. destruct (sec_meminfo c s0) as [[d' s1']| |] eqn:T; try discriminate.
  unfold ret in R. injection R. intros Es1 _ Ed. subst s1' d'.
  destruct (meminfo_payload _ _ _ _ T) as (Hb & Hdd). fold n in Hb, Hdd.
  assert (Hlen : length ((le 4 16 ++ le 4 48 ++ le 8 (N.of_nat n)) ++ concat (map enc_meminfo (ic_meminfo c))) = 16 + MEMINFO_SZ * n).
  { rewrite !app_length, !le_length, (concat_len_fixed MEMINFO_SZ enc_meminfo _ enc_meminfo_len). reflexivity. }
  exists (blen s0). split.
  - destruct K1 as (_ & K1). rewrite K1; [|lia|unfold blen; rewrite Hb, app_length, Hlen; lia].
    rewrite Hb. rewrite <- Hlen. unfold blen. apply slice_app_at.
  - rewrite Hdd in Hd. rewrite small_u32_of in Hd; [exact Hd|]. eapply small_le; [|exact Hs1]. exact La.
Qed.
Print Assumptions image_meminfo.

(* the copied files and the soft-error stream: the stream is exactly the bytes handed over (C18, C11) *)
Definition raw_of (c : content) (st : step) : option (option bytes) :=
  match st with
  | St_file_proc_cpuinfo => Some (ic_cpuinfo c) | St_file_proc_pid_status => Some (ic_status c)
  | St_file_etc_lsb_release => Some (ic_lsb c) | St_file_proc_pid_cmdline => Some (ic_cmdline c)
  | St_file_proc_pid_environ => Some (ic_environ c) | St_file_proc_pid_auxv => Some (ic_auxv c)
  | St_file_proc_pid_maps => Some (ic_maps c) | St_file_proc_pid_limits => Some (ic_limits c)
  | St_soft_errors => Some (ic_soft c)
  | _ => None
  end.

Lemma run_step_raw c st ds s r s1 o : raw_of c st = Some o -> run_step c st ds s = Ok (r, s1) ->
  exists d, sec_raw (raw_type st) o s = Ok (d, s1) /\ r = (Some d, ds).
Proof.
  intros Hr E. destruct st; try discriminate; cbn [raw_of] in Hr; injection Hr as <-; cbn [run_step] in E; unfold bind in E;
    match type of E with match ?m with _ => _ end = _ => destruct m as [[d sx]| |] eqn:Em; try discriminate end;
    unfold ret in E; injection E; intros; subst; exists d; split; reflexivity.
Qed.

Theorem image_raw_stream c dirs lg s' st bs :
  image c empty_wst = Ok ((dirs, lg), s') -> small (blen s') ->
  In st (map fst stream_plan) -> raw_of c st = Some (Some bs) ->
  exists off, slice (w_buf s') off (length bs) = bs /\
    In (raw_type st, {| l_rva := N.of_nat off; l_size := N.of_nat (length bs) |}) dirs.
Proof.
  intros E Hs Hin Hr.
  assert (Hty : stream_type st <> None) by (destruct st; try discriminate; cbn [raw_of] in Hr; discriminate).
  destruct (image_step_at c dirs lg s' st E Hs Hin Hty) as (ds0 & s0 & d & ds1 & s1 & L0 & R & K1 & Hs1 & La & Hd).
  destruct (run_step_raw _ _ _ _ _ _ _ Hr R) as (d' & T & Er). injection Er. intros _ Ed. subst d'.
  cbn [sec_raw] in T. unfold bind, w_alloc, ret in T. injection T. intros Es1 Edd. subst d.
  assert (Hb : w_buf s1 = w_buf s0 ++ bs) by (rewrite <- Es1; reflexivity).
  exists (blen s0). split.
  - destruct K1 as (_ & K1). rewrite K1; [|lia|unfold blen; rewrite Hb, app_length; lia]. rewrite Hb. unfold blen. apply slice_app_at.
  - rewrite small_u32_of in Hd; [exact Hd|]. eapply small_le; [|exact Hs1]. exact La.
Qed.
Print Assumptions image_raw_stream.

(* ---------- the descriptor list in the final image (C18) ---------- *)
Definition handle_says (lo : nat) (h : ihandle) (u : unit) (r : ihandle * loc) (u' : unit) (b : bytes) : Prop :=
  fst r = h /\ designates lo b (snd r) (md_string (ih_name h)).
Lemma handle_says_keeps lo h u r u' b b' : handle_says lo h u r u' b -> keeps lo b b' -> handle_says lo h u r u' b'.
Proof. intros (H1 & H2) K. split; [exact H1|eapply designates_keeps; eauto]. Qed.
Lemma handle_body_app h u s r u' s1 : handle_body h u s = Ok ((r, u'), s1) -> exists more, w_buf s1 = w_buf s ++ more.
Proof.
  unfold handle_body, w_string. intro E. unfold bind in E. destruct (w_blob KString (md_string (ih_name h)) s) as [[l sa]| |] eqn:E1; try discriminate.
  unfold ret in E. injection E as _ _ <-. exists (md_string (ih_name h)). exact (blob_appends _ _ _ _ _ E1).
Qed.
Lemma handle_body_ok lo h u s r u' s1 : handle_body h u s = Ok ((r, u'), s1) -> lo <= blen s -> small (blen s1) -> handle_says lo h u r u' (w_buf s1).
Proof.
  unfold handle_body, w_string. intros E Hlo Hs. unfold bind in E. destruct (w_blob KString (md_string (ih_name h)) s) as [[l sa]| |] eqn:E1; try discriminate.
  unfold ret in E. injection E. intros Es Eu Er. subst s1 u' r. split; [reflexivity|]. cbn [snd].
  eapply designates_weaken; [eapply blob_designates; [exact E1|exact Hs]|exact Hlo].
Qed.

Definition handles_header (n : nat) : bytes := le 4 16 ++ le 4 32 ++ le 4 (N.of_nat n) ++ le 4 0.

(* In the image of every dump: the descriptor list holds one record per descriptor of the content, in order, each with the
   descriptor number, its mode and the location of exactly its name. *)
Theorem image_handles c dirs lg s' :
  image c empty_wst = Ok ((dirs, lg), s') -> small (blen s') ->
  exists rs off,
    run_rel (handle_says 248) (w_buf s') (ic_handles c) tt rs tt /\
    slice (w_buf s') off (16 + HANDLE_SZ * length rs) = handles_header (length rs) ++ concat (map enc_handle rs) /\
    In (T_HANDLES, {| l_rva := N.of_nat off; l_size := (16 + N.of_nat (HANDLE_SZ * length rs))%N |}) dirs.
Proof.
  intros E Hs.
  destruct (image_step_at c dirs lg s' St_handle_data_stream E Hs ltac:(vm_compute; tauto) ltac:(discriminate))
    as (ds0 & s0 & d & ds1 & s2 & L0 & R & K1 & Hs2 & La & Hd).
  cbn [run_step] in R. unfold bind at 1 in R. destruct (sec_handles c s0) as [[d' s2']| |] eqn:T; try discriminate.
  unfold ret in R. injection R. intros Es2 _ Ed. subst s2' d'.
  unfold sec_handles in T. unfold bind at 1 in T.
  destruct (w_collect handle_body (ic_handles c) tt s0) as [[[rs []] s1]| |] eqn:Ec; try discriminate. cbn [fst] in T.
  unfold bind in T. fold (handles_header (length rs)) in T.
  destruct (w_span_array HANDLE_SZ enc_handle keep true T_HANDLES (handles_header (length rs)) rs tt s1) as [[r sx]| |] eqn:Ea; try discriminate.
  unfold ret in T. injection T. intros Es Edd. subst sx d.
  destruct (span_keep_payload _ _ _ _ _ _ _ _ enc_handle_len Ea) as (Hb & Hr).
  assert (Hhl : length (handles_header (length rs)) = 16) by (unfold handles_header; rewrite !app_length, !le_length; reflexivity).
  assert (L12 : blen s1 <= blen s2) by (unfold blen; rewrite Hb, app_length; lia).
  assert (Hs1 : small (blen s1)) by (eapply small_le; [|exact Hs2]; exact L12).
  destruct (collect_payload handle_body 248 (handle_says 248) (handle_says_keeps 248) handle_body_app (handle_body_ok 248)
              _ _ _ _ _ _ Ec Hs1 L0) as (Hrel & more & Hm).
  assert (L01 : blen s0 <= blen s1) by (unfold blen; rewrite Hm, app_length; lia).
  assert (Hlen : length (handles_header (length rs) ++ concat (map enc_handle rs)) = 16 + HANDLE_SZ * length rs)
    by (rewrite app_length, Hhl, (concat_len_fixed HANDLE_SZ enc_handle rs enc_handle_len); reflexivity).
  exists rs, (blen s1). split; [|split].
  - eapply run_rel_keeps; [apply handle_says_keeps| |exact K1]. eapply run_rel_keeps; [apply handle_says_keeps|exact Hrel|]. rewrite Hb. apply keeps_app.
  - destruct K1 as (_ & K1). rewrite K1; [|lia|unfold blen; rewrite Hb, app_length, Hlen; lia].
    rewrite Hb, <- Hlen. unfold blen. apply slice_app_at.
  - rewrite Hr in Hd. cbn [fst] in Hd. rewrite Hhl in Hd. rewrite small_u32_of in Hd by exact Hs1. exact Hd.
Qed.
Print Assumptions image_handles.

(* ---------- the linker data in the final image (C18) ---------- *)
Section ArrayPayload.
  Context {X R St : Type}.
  Variable size : nat.
  Variable enc : R -> bytes.
  Variable body : X -> St -> W (R * St).
  Variable P : nat -> X -> St -> R -> St -> bytes -> Prop.
  Hypothesis enc_size : forall r, length (enc r) = size.
  Hypothesis P_keeps : forall lo x st r st' b b', P lo x st r st' b -> keeps lo b b' -> P lo x st r st' b'.
  Hypothesis body_app : forall x st s r st' s1, body x st s = Ok ((r, st'), s1) -> exists more, w_buf s1 = w_buf s ++ more.
  Hypothesis body_ok : forall lo x st s r st' s1, body x st s = Ok ((r, st'), s1) -> lo <= blen s -> small (blen s1) -> P lo x st r st' (w_buf s1).
  Hypothesis body_frame : forall F x st, frame F (body x st).

  Lemma array_payload k xs st s a stF s' :
    w_array size enc body false k xs st s = Ok ((a, stF), s') -> small (blen s') ->
    let lo := blen s + size * length xs in
    exists rs, run_rel (P lo) (w_buf s') xs st rs stF /\
      slice (w_buf s') (blen s) (size * length xs) = concat (map enc rs) /\
      a = {| l_rva := u32 (blen s); l_size := N.of_nat (size * length xs) |} /\
      firstn (blen s) (w_buf s') = w_buf s /\ lo <= blen s'.
  Proof.
    intros Ea Hs lo.
    destruct (frame_array size enc body body_frame 0 false k xs st s _ _ Ea (Nat.le_0_l _)) as (Lall & _).
    unfold w_array in Ea.
    unfold bind at 1 in Ea. unfold w_pos at 1 in Ea. cbv beta iota in Ea.
    unfold bind at 1 in Ea. unfold w_alloc at 1 in Ea. cbv beta iota in Ea.
    set (s2 := {| w_buf := w_buf s ++ repeat 0%N (size * length xs); w_objs := _; w_refs := w_refs s |}) in Ea.
    cbn [l_rva] in Ea.
    unfold bind at 1 in Ea.
    destruct (fill_from size enc body (N.to_nat (u32 (length (w_buf s)))) 0 xs st s2) as [[stf s4]| |] eqn:Ef; try discriminate.
    unfold ret in Ea. injection Ea. intros Es4 Est Eaa. subst s4 stf a.
    assert (Hl2 : blen s2 = lo) by (unfold blen, s2, lo; cbn [w_buf]; rewrite app_length, repeat_length; reflexivity).
    assert (Hbase : N.to_nat (u32 (length (w_buf s))) = blen s) by (apply small_u32; eapply small_le; [|exact Hs]; exact Lall).
    rewrite Hbase in Ef.
    destruct (fill_payload size enc body lo (P lo) enc_size (P_keeps lo) body_app (body_ok lo) (blen s) xs 0 st s2 stF s' Ef Hs)
      as (rs & Hrel & Hsl & Hfi & Hk).
    { unfold lo. lia. } { lia. }
    rewrite Nat.mul_0_r, Nat.add_0_r in Hsl, Hfi.
    assert (Hfi2 : firstn (blen s) (w_buf s') = w_buf s).
    { rewrite Hfi. unfold s2. cbn [w_buf]. rewrite firstn_app. unfold blen. rewrite Nat.sub_diag, firstn_all. cbn [firstn]. apply app_nil_r. }
    exists rs. split; [exact Hrel|]. split; [exact Hsl|]. split; [rewrite repeat_length; reflexivity|]. split; [exact Hfi2|].
    destruct Hk as (Lk & _). unfold blen in *. lia.
  Qed.
End ArrayPayload.

Definition link_says (lo : nat) (l : ilink) (u : unit) (r : ilink * loc) (u' : unit) (b : bytes) : Prop :=
  fst r = l /\ designates lo b (snd r) (md_string (il_name l)).
Lemma link_says_keeps lo l u r u' b b' : link_says lo l u r u' b -> keeps lo b b' -> link_says lo l u r u' b'.
Proof. intros (H1 & H2) K. split; [exact H1|eapply designates_keeps; eauto]. Qed.
Lemma link_body_app l u s r u' s1 : link_body l u s = Ok ((r, u'), s1) -> exists more, w_buf s1 = w_buf s ++ more.
Proof.
  unfold link_body, w_string. intro E. unfold bind in E. destruct (w_blob KString (md_string (il_name l)) s) as [[l0 sa]| |] eqn:E1; try discriminate.
  unfold ret in E. injection E as _ _ <-. exists (md_string (il_name l)). exact (blob_appends _ _ _ _ _ E1).
Qed.
Lemma link_body_ok lo l u s r u' s1 : link_body l u s = Ok ((r, u'), s1) -> lo <= blen s -> small (blen s1) -> link_says lo l u r u' (w_buf s1).
Proof.
  unfold link_body, w_string. intros E Hlo Hs. unfold bind in E. destruct (w_blob KString (md_string (il_name l)) s) as [[l0 sa]| |] eqn:E1; try discriminate.
  unfold ret in E. injection E. intros Es Eu Er. subst s1 u' r. split; [reflexivity|]. cbn [snd].
  eapply designates_weaken; [eapply blob_designates; [exact E1|exact Hs]|exact Hlo].
Qed.
Lemma enc_debug_len v m n b l d : length (enc_debug v m n b l d) = 36.
Proof. unfold enc_debug. now rewrite !app_length, !le_length. Qed.

Local Arguments N.add : simpl never.
(* In the image of every dump whose linker data could be read: the stream is the 36-byte debug record (version, position of the
   link-map array or 0xFFFFFFFF when there is none, count, r_brk, ld base, dynamic address) immediately followed by a copy of the
   dynamic section; the array - written before it - holds one record per loaded object in order, each with its address, ld
   pointer and the location of exactly its name. *)
Theorem image_dso c dirs lg s' version brk ldbase dynamic links dyn :
  image c empty_wst = Ok ((dirs, lg), s') -> small (blen s') -> ic_dso c = IDsoOk version brk ldbase dynamic links dyn ->
  exists rs offA offH,
    run_rel (link_says 248) (w_buf s') links tt rs tt /\
    slice (w_buf s') offA (LINK_SZ * length links) = concat (map enc_link rs) /\
    slice (w_buf s') offH (36 + length dyn) =
      enc_debug version (match links with [] => 0xFFFFFFFF%N | _ => N.of_nat offA end) (N.of_nat (length links)) brk ldbase dynamic ++ dyn /\
    In (T_DSO, {| l_rva := N.of_nat offH; l_size := (36 + N.of_nat (length dyn))%N |}) dirs.
Proof.
  intros E Hs Hdso.
  destruct (image_step_at c dirs lg s' St_dso_debug E Hs ltac:(vm_compute; tauto) ltac:(discriminate))
    as (ds0 & s0 & d & ds1 & s3 & L0 & R & K1 & Hs3 & La & Hd).
  cbn [run_step] in R. unfold bind at 1 in R. destruct (sec_dso c s0) as [[d' s3']| |] eqn:T; try discriminate.
  unfold ret in R. injection R. intros Es3 _ Ed. subst s3' d'.
  unfold sec_dso in T. rewrite Hdso in T. unfold bind at 1 in T.
  (* the array (if any), then header and dynamic section appended *)
  assert (Hfin : forall s1 map_rva, 
            (h <- w_alloc (KStreamHdr T_DSO) (enc_debug version map_rva (N.of_nat (length links)) brk ldbase dynamic) ;;
             dd <- w_alloc (KArray 0) dyn ;; ret (T_DSO, span h dd)) s1 = Ok (d, s3) ->
            w_buf s3 = w_buf s1 ++ enc_debug version map_rva (N.of_nat (length links)) brk ldbase dynamic ++ dyn /\
            d = (T_DSO, {| l_rva := u32 (blen s1); l_size := (36 + N.of_nat (length dyn))%N |})).
  { intros s1 mr Eh. unfold bind, w_alloc, ret, span in Eh. cbn [l_rva l_size w_buf] in Eh. injection Eh. intros Es Edd. subst s3 d. cbn [w_buf].
    rewrite ?enc_debug_len. split; [now rewrite <- app_assoc|reflexivity]. }
  assert (Hhl : forall mr, length (enc_debug version mr (N.of_nat (length links)) brk ldbase dynamic ++ dyn) = 36 + length dyn)
    by (intro mr; rewrite app_length, enc_debug_len; reflexivity).
  destruct links as [|l0 lr].
  - unfold ret at 1 in T. cbv beta iota in T. destruct (Hfin _ _ T) as (Hb & Hdd).
    exists [], (blen s0), (blen s0). split; [constructor|]. split; [reflexivity|]. split.
    + destruct K1 as (_ & K1). rewrite K1; [|lia|unfold blen; rewrite Hb, app_length, Hhl; lia].
      rewrite Hb, <- (Hhl 0xFFFFFFFF%N). unfold blen. apply slice_app_at.
    + rewrite Hdd in Hd. rewrite small_u32_of in Hd; [exact Hd|]. eapply small_le; [|exact Hs3]. exact La.
  - set (links := l0 :: lr) in *.
    unfold bind at 1 in T. destruct (w_array LINK_SZ enc_link link_body false (KArray T_DSO) links tt s0) as [[[a []] s1]| |] eqn:Ea; try discriminate.
    unfold bind at 1 in T. unfold w_ref at 1 in T. cbv beta iota in T. unfold ret at 1 in T. cbv beta iota in T.
    set (s1r := {| w_buf := w_buf s1; w_objs := w_objs s1; w_refs := _ |}) in T. cbn [fst] in T.
    destruct (Hfin s1r _ T) as (Hb & Hdd). change (w_buf s1r) with (w_buf s1) in Hb. change (blen s1r) with (blen s1) in Hdd.
    assert (L13 : blen s1 <= blen s3) by (unfold blen; rewrite Hb, app_length; lia).
    assert (Hs1 : small (blen s1)) by (eapply small_le; [|exact Hs3]; exact L13).
    destruct (array_payload LINK_SZ enc_link link_body link_says enc_link_len link_says_keeps link_body_app link_body_ok link_body_frame
                _ _ _ _ _ _ _ Ea Hs1) as (rs & Hrel & Hsl & Haa & _ & Hlen).
    assert (K13 : keeps 248 (w_buf s1) (w_buf s3)) by (rewrite Hb; apply keeps_app).
    exists rs, (blen s0), (blen s1). split; [|split; [|split]].
    + eapply run_rel_keeps; [apply link_says_keeps| |exact K1]. eapply run_rel_keeps; [apply link_says_keeps| |exact K13].
      clear - Hrel L0. assert (Hlo : 248 <= blen s0 + LINK_SZ * length links) by lia. revert Hlo Hrel. generalize (blen s0 + LINK_SZ * length links). intros lo0 Hlo Hrel.
      induction Hrel as [st|t ts st r st1 rs stF (H1 & H2) _ IH]; [constructor|]. econstructor; [|exact IH]. split; [exact H1|eapply designates_weaken; eauto].
    + rewrite <- Hsl. destruct (keeps_trans _ _ _ _ K13 K1) as (_ & K). apply K; unfold blen in *; lia.
    + destruct K1 as (_ & K1). rewrite K1; [|lia|unfold blen; rewrite Hb, app_length, Hhl; lia].
      rewrite Hb. rewrite Haa. cbn [l_rva]. rewrite small_u32_of by (eapply small_le; [|exact Hs1]; lia).
      rewrite <- (Hhl (N.of_nat (blen s0))). unfold blen. apply slice_app_at.
    + rewrite Hdd in Hd. rewrite small_u32_of in Hd by exact Hs1. exact Hd.
Qed.
Print Assumptions image_dso.

(* ---------- system information in the final image (C18) ---------- *)
(* In the image of every dump: the system-information stream is the 56-byte record handed over with the position of the OS
   version string stored at offset 24, and that position designates exactly the version string, written right behind it. *)
Theorem image_sysinfo c dirs lg s' :
  image c empty_wst = Ok ((dirs, lg), s') -> small (blen s') ->
  exists off csd,
    slice (w_buf s') off SYSINFO_SZ = enc_sysinfo (ic_sysinfo c) csd /\
    designates 248 (w_buf s') csd (md_string (ic_osver c)) /\ N.to_nat (l_rva csd) = off + SYSINFO_SZ /\
    In (T_SYSINFO, {| l_rva := N.of_nat off; l_size := N.of_nat SYSINFO_SZ |}) dirs.
Proof.
  intros E Hs.
  destruct (image_step_at c dirs lg s' St_systeminfo_stream E Hs ltac:(vm_compute; tauto) ltac:(discriminate))
    as (ds0 & s0 & d & ds1 & s3 & L0 & R & K1 & Hs3 & La & Hd).
  cbn [run_step] in R. unfold bind at 1 in R. destruct (sec_sysinfo c s0) as [[d' s3']| |] eqn:T; try discriminate.
  unfold ret in R. injection R. intros Es3 _ Ed. subst s3' d'.
  unfold sec_sysinfo in T. unfold bind at 1 in T.
  destruct (w_slot SYSINFO_SZ (enc_sysinfo (ic_sysinfo c)) (KRecord T_SYSINFO) (w_string (ic_osver c)) s0) as [[l sx]| |] eqn:Esl; try discriminate.
  unfold ret in T. injection T. intros Es Edd. subst sx d.
  unfold w_slot in Esl. unfold bind at 1 in Esl. unfold w_alloc at 1 in Esl. cbv beta iota in Esl.
  set (s1 := {| w_buf := w_buf s0 ++ repeat 0%N SYSINFO_SZ; w_objs := _; w_refs := w_refs s0 |}) in Esl. cbn [l_rva] in Esl.
  unfold bind at 1 in Esl. unfold w_string in Esl.
  destruct (w_blob KString (md_string (ic_osver c)) s1) as [[csd s2]| |] eqn:Eb; try discriminate.
  pose proof (blob_appends _ _ _ _ _ Eb) as A2.
  assert (Hl1 : blen s1 = blen s0 + SYSINFO_SZ) by (unfold blen, s1; cbn [w_buf]; now rewrite app_length, repeat_length).
  assert (L03 : blen s0 + SYSINFO_SZ <= blen s2) by (unfold blen in *; rewrite A2, app_length; lia).
  unfold bind at 1 in Esl.
  assert (Hu : N.to_nat (u32 (length (w_buf s0))) = blen s0) by (apply small_u32; eapply small_le; [|exact Hs3]; exact La).
  rewrite Hu in Esl.
  assert (Hin : blen s0 + length (enc_sysinfo (ic_sysinfo c) csd) <= length (w_buf s2)) by (rewrite enc_sysinfo_len; unfold blen in *; lia).
  unfold w_patch in Esl. rewrite write_at_inside in Esl by exact Hin. unfold ret in Esl. injection Esl. intros Es3 El. subst l.
  assert (Hb3 : w_buf s3 = update (w_buf s2) (blen s0) (enc_sysinfo (ic_sysinfo c) csd)) by (rewrite <- Es3; reflexivity).
  assert (L23 : blen s3 = blen s2) by (unfold blen; rewrite Hb3; now apply update_length).
  assert (Hs2 : small (blen s2)) by (rewrite <- L23; exact Hs3).
  pose proof (blob_designates _ _ _ _ _ Eb Hs2) as Hdes.
  assert (K23 : keeps (blen s1) (w_buf s2) (w_buf s3)) by (rewrite Hb3; apply keeps_update; [rewrite enc_sysinfo_len; lia|exact Hin]).
  exists (blen s0), csd. split; [|split; [|split]].
  - destruct K1 as (_ & K1). rewrite K1; [|lia|unfold blen in *; lia]. rewrite Hb3.
    rewrite <- (enc_sysinfo_len (ic_sysinfo c) csd) at 1. apply slice_update_same. exact Hin.
  - eapply designates_keeps; [|exact K1]. eapply designates_weaken; [eapply designates_keeps; [exact Hdes|exact K23]|lia].
  - rewrite (blob_rva _ _ _ _ _ Eb). rewrite small_u32; [exact Hl1|]. eapply small_le; [|exact Hs2]. lia.
  - cbn [l_size] in Hd. rewrite ?repeat_length in Hd. rewrite small_u32_of in Hd; [exact Hd|]. eapply small_le; [|exact Hs3]. exact La.
Qed.
Print Assumptions image_sysinfo.

(* ---------- the memory list, explicitly: which extents, in which order ---------- *)
Definition desc_extent (d : memdesc) : N * N := (md_start d, l_size (md_loc d)).
Definition thread_extents (c : content) (t : ithread) : list (N * N) :=
  match it_stack t with Some (v, bs) => [(v, N.of_nat (length bs))] | None => [] end ++
  match it_ipwin t with Some (a, bs) => if t_crash c t then [(a, N.of_nat (length bs))] else [] | None => [] end.
Definition region_extent (pr : N * bytes) : N * N := (fst pr, N.of_nat (length (snd pr))).

Lemma run_rel_extents c lo b : forall ts st rs st', run_rel (thread_says c lo) b ts st rs st' ->
  map desc_extent (fst st') = map desc_extent (fst st) ++ flat_map (thread_extents c) ts.
Proof.
  intros ts st rs st' H. induction H as [st|t ts st r st1 rs stF HP _ IH]; [cbn [flat_map]; now rewrite app_nil_r|].
  rewrite IH. cbn [flat_map]. rewrite app_assoc. f_equal.
  destruct r as [[tid md] cl]. destruct HP as (_ & _ & H3 & (win & H4 & H5) & _). rewrite H4. rewrite !map_app. f_equal.
  unfold thread_extents. f_equal.
  - destruct (it_stack t) as [[v bs]|]; [|reflexivity]. destruct H3 as (Ha & (Hb & _)). cbn [map]. unfold desc_extent. now rewrite Ha, Hb.
  - destruct (it_ipwin t) as [[a bs]|]; [|now rewrite H5]. destruct (t_crash c t); [|now rewrite H5].
    destruct H5 as (l & -> & (Hl & _)). cbn [map]. unfold desc_extent. cbn [md_start md_loc]. now rewrite Hl.
Qed.

Lemma regions_extents lo b : forall regions ds, Forall2 (region_says lo b) regions ds -> map desc_extent ds = map region_extent regions.
Proof.
  intros regions ds H. induction H as [|pr d rg ds' (H1 & (H2 & _)) _ IH]; [reflexivity|]. cbn [map]. f_equal; [|exact IH].
  unfold desc_extent, region_extent. now rewrite H1, H2.
Qed.

(* In the image of every dump the memory list names, in this order and nothing else: for each thread of the content its stack
   extent (if stack bytes were stored) and - crash thread only - the extent of the window around the crash instruction pointer;
   then the extent of every application region. *)
Theorem image_memory_list_extents c dirs lg s' :
  image c empty_wst = Ok ((dirs, lg), s') -> small (blen s') ->
  exists descs off,
    map desc_extent descs = flat_map (thread_extents c) (ic_threads c) ++ map region_extent (ic_app c) /\
    slice (w_buf s') off (4 + MEMDESC_SZ * length descs) = le 4 (N.of_nat (length descs)) ++ concat (map enc_memdesc descs) /\
    nth_error dirs 2 = Some (T_MEMLIST, {| l_rva := N.of_nat off; l_size := (4 + N.of_nat (MEMDESC_SZ * length descs))%N |}).
Proof.
  intros E Hs. destruct (image_memory_list c dirs lg s' E Hs) as (rs & blocks & cc & appd & off & Hrel & Hf & Hsl & Hd).
  exists (blocks ++ appd), off. split; [|split; [exact Hsl|exact Hd]].
  rewrite map_app. f_equal.
  - pose proof (run_rel_extents _ _ _ _ _ _ _ Hrel) as He. cbn [fst map app] in He. exact He.
  - eapply regions_extents; exact Hf.
Qed.
Print Assumptions image_memory_list_extents.

(* ---------- world -> content -> image, for the memory list (C07 end to end) ---------- *)
(* The content of a dump [c] REALISES what the structural model ThreadList says about a world (mappings [ms], per listed thread its
   stack block and - for the thread a crash context describes - the crash instruction pointer, application regions [app]) when,
   thread by thread, the stored stack bytes have the block's address and length and the stored window is the model's window. *)
Definition realises_thread (c : content) (ms : list Maps.minfo) (t : ithread) (tb : ThreadList.tblocks) : Prop :=
  match it_stack t, ThreadList.tb_stack tb with
  | Some (v, bs), Some (v', n) => v = v' /\ N.of_nat (length bs) = n
  | None, None => True
  | _, _ => False
  end /\
  match ThreadList.tb_crash_ip tb with
  | Some ip => t_crash c t = true /\
               match it_ipwin t, ThreadList.ip_window ms ip with
               | Some (a, bs), Some (a', n) => a = a' /\ N.of_nat (length bs) = n
               | None, None => True
               | _, _ => False
               end
  | None => t_crash c t = false \/ it_ipwin t = None
  end.

Lemma realised_extents c ms : forall ts tbs, Forall2 (realises_thread c ms) ts tbs ->
  flat_map (thread_extents c) ts = flat_map (ThreadList.thread_blocks ms) tbs.
Proof.
  intros ts tbs H. induction H as [|t tb ts tbs (H1 & H2) _ IH]; [reflexivity|]. cbn [flat_map]. rewrite IH. f_equal.
  unfold thread_extents, ThreadList.thread_blocks. f_equal.
  - destruct (it_stack t) as [[v bs]|]; destruct (ThreadList.tb_stack tb) as [[v' n]|]; try contradiction; [|reflexivity].
    destruct H1 as (-> & ->). reflexivity.
  - destruct (ThreadList.tb_crash_ip tb) as [ip|].
    + destruct H2 as (Hc & H2). rewrite Hc. destruct (it_ipwin t) as [[a bs]|]; destruct (ThreadList.ip_window ms ip) as [[a' n]|]; try contradiction; [|reflexivity].
      destruct H2 as (-> & ->). reflexivity.
    + destruct H2 as [Hc|Hn]; [rewrite Hc; destruct (it_ipwin t) as [[a bs]|]; reflexivity|rewrite Hn; reflexivity].
Qed.

(* End to end: whenever the content realises the world, the memory list of the final image names exactly the regions the
   structural model ThreadList.memory_list prescribes for that world - the stacks of the listed threads in list order, the window
   around the crash instruction pointer right after the crash thread's stack, the application regions last - and nothing else. *)
Theorem image_memory_list_of_world c ms tbs app dirs lg s' :
  image c empty_wst = Ok ((dirs, lg), s') -> small (blen s') ->
  Forall2 (realises_thread c ms) (ic_threads c) tbs -> map region_extent (ic_app c) = app ->
  exists descs off,
    map desc_extent descs = ThreadList.memory_list ms tbs app /\
    slice (w_buf s') off (4 + MEMDESC_SZ * length descs) = le 4 (N.of_nat (length descs)) ++ concat (map enc_memdesc descs) /\
    nth_error dirs 2 = Some (T_MEMLIST, {| l_rva := N.of_nat off; l_size := (4 + N.of_nat (MEMDESC_SZ * length descs))%N |}).
Proof.
  intros E Hs Hr Ha. destruct (image_memory_list_extents c dirs lg s' E Hs) as (descs & off & He & Hsl & Hd).
  exists descs, off. split; [|split; [exact Hsl|exact Hd]].
  rewrite He. unfold ThreadList.memory_list. rewrite (realised_extents _ _ _ _ Hr), Ha. reflexivity.
Qed.
Print Assumptions image_memory_list_of_world.

(* ---------- world -> content -> image, for the thread list (C04 end to end) ---------- *)
(* Whenever the content lists the threads the structural model retains for a world (those that could be attached and whose
   stack pointer is not null, in enumeration order), the thread list of the final image carries exactly their ids, in that order:
   a thread id is in the list iff such a thread exists, and no id appears twice when the kernel's ids are distinct. *)
Theorem image_thread_ids_of_world c obs dirs lg s' :
  image c empty_wst = Ok ((dirs, lg), s') -> small (blen s') ->
  map it_tid (ic_threads c) = ThreadList.listed obs ->
  let n := length (ic_threads c) in
  exists rs : list (N * memdesc * loc),
    slice (w_buf s') HEAD_LEN (4 + THREAD_SZ * n) = le 4 (N.of_nat n) ++ concat (map enc_thread3 rs) /\
    map (fun r : N * memdesc * loc => fst (fst r)) rs = ThreadList.listed obs /\
    (forall tid, In tid (map (fun r : N * memdesc * loc => fst (fst r)) rs) <->
                 exists t, In t obs /\ ThreadList.t_tid t = tid /\ ThreadList.t_attached t = true /\ ThreadList.t_rsp t <> 0%N) /\
    (NoDup (map ThreadList.t_tid obs) -> NoDup (map (fun r : N * memdesc * loc => fst (fst r)) rs)).
Proof.
  intros E Hs Hl n. destruct (image_thread_list c dirs lg s' E Hs) as (rs & blocks & cc & Hrel & Hsl & _). fold n in Hrel, Hsl.
  pose proof (run_rel_tids _ _ _ _ _ _ _ Hrel) as Hids. rewrite Hl in Hids.
  exists rs. split; [exact Hsl|]. split; [exact Hids|]. rewrite Hids. split.
  - intro tid. apply ThreadListProofs.listed_iff.
  - apply ThreadListProofs.listed_nodup.
Qed.
Print Assumptions image_thread_ids_of_world.

(* ---------- world -> content -> image, for the exception record (C05 end to end) ---------- *)
Lemma le_mod_w v : forall w, le w (v mod 256 ^ N.of_nat w) = le w v.
Proof.
  intro w. revert v. induction w as [|w IH]; intro v; [reflexivity|]. cbn [le].
  rewrite Nat2N.inj_succ, N.pow_succ_r'. rewrite N.mod_mul_r by (try lia; apply N.pow_nonzero; lia).
  assert (Hlt : (v mod 256 < 256)%N) by (apply N.mod_lt; lia).
  set (q := ((v / 256) mod 256 ^ N.of_nat w)%N).
  f_equal.
  - rewrite (N.mul_comm 256 q), N.mod_add by lia. apply N.mod_small. exact Hlt.
  - rewrite <- (IH (v / 256)%N). fold q. f_equal. rewrite (N.mul_comm 256 q), N.div_add by lia. rewrite (N.div_small (v mod 256) 256) by exact Hlt. reflexivity.
Qed.
Lemma le4_mod v : le 4 (v mod 2 ^ 32) = le 4 v.
Proof. exact (le_mod_w v 4). Qed.

Definition req_ip_of (cc : crashctx) : option N := match cc with CCtxAddr _ a => Some a | _ => None end.
Definition ctx_of (cc : crashctx) : loc := match cc with CNone => zero_loc | CCtx l => l | CCtxAddr l _ => l end.

(* the record's fields are the structural model's fields (signal number and code as 32-bit values), its context location is the
   one carried over from the thread list *)
Theorem image_exception_of_world c dirs lg s' :
  image c empty_wst = Ok ((dirs, lg), s') -> small (blen s') ->
  exists rs blocks cc off,
    run_rel (thread_says c 248) (w_buf s') (ic_threads c) ([], CNone) rs (blocks, cc) /\
    (let '(code, flags, addr) := ThreadList.exception_fields (ic_crash c) (req_ip_of cc) in
     slice (w_buf s') off 168 = enc_exception (ic_blamed c) code flags addr (ctx_of cc)) /\
    nth_error dirs 3 = Some (T_EXC, {| l_rva := N.of_nat off; l_size := 168 |}) /\
    (* which context: none of the listed threads has the blamed id and none is recorded; or the context of the last listed thread
       with the blamed id - and without a crash context the address is that thread's instruction pointer *)
    ((cc = CNone /\ Forall (fun t => t_blamed c t = false) (ic_threads c)) \/
     (exists t r, In (t, r) (combine (ic_threads c) rs) /\ t_blamed c t = true /\ designates 248 (w_buf s') (snd r) (it_ctx t) /\
        ctx_of cc = snd r /\ (ic_crash c = None -> req_ip_of cc = Some (unle (slice (it_ctx t) 248 8))))).
Proof.
  intros E Hs. destruct (image_exception c dirs lg s' E Hs) as (rs & blocks & cc & off & Hrel & Hsl & Hd).
  exists rs, blocks, cc, off. split; [exact Hrel|]. split; [|split; [exact Hd|]].
  - unfold exception_fields in Hsl. unfold ThreadList.exception_fields, ThreadList.DUMP_REQUESTED, req_ip_of, ctx_of.
    destruct (ic_crash c) as [[[sg cd] ad]|].
    + (* the 32-bit fields: le 4 stores the value modulo 2^32 *)
      rewrite Hsl. unfold enc_exception. rewrite (le4_mod sg), (le4_mod cd). reflexivity.
    + rewrite Hsl. destruct cc; reflexivity.
  - destruct (cc_says _ _ _ _ _ _ _ Hrel) as [(He & Hf)|(t & r & Hin & Hb & Hdes & He)]; cbn [snd] in He.
    + left. split; [exact He|exact Hf].
    + right. exists t, r. split; [exact Hin|]. split; [exact Hb|]. split; [exact Hdes|]. rewrite He.
      unfold t_crash. destruct (ic_crash c); [split; [destruct (t_blamed c t); reflexivity|discriminate]|]. split; reflexivity.
Qed.
Print Assumptions image_exception_of_world.

(* ---------- world -> content -> image, for the module list (C08 end to end) ---------- *)
(* a module of the content realises a module of the structural model: same base, same 32-bit size, same identifier, and the
   model's effective name *)
Definition realises_module (m : imodule) (md : Modules.module) : Prop :=
  im_base m = Modules.md_base md /\ im_size m = Modules.md_size md /\ im_id m = Modules.md_id md /\
  Modules.md_name md = EffPath.Ok (im_name m).

(* what one record of the final image says about the model's module *)
Definition record_says_module (b : bytes) (r : imodule * loc * loc) (md : Modules.module) : Prop :=
  let '(m, cv, nm) := r in
  im_base m = Modules.md_base md /\ im_size m = Modules.md_size md /\
  (exists name, Modules.md_name md = EffPath.Ok name /\ designates 248 b nm (md_string name)) /\
  match Modules.md_id md with [] => cv = zero_loc | id => designates 248 b cv (le 4 CV_ELF ++ id) end.

Lemma run_rel_modules b : forall ms u rs u' mds, run_rel (module_says 248) b ms u rs u' -> Forall2 realises_module ms mds ->
  Forall2 (record_says_module b) rs mds.
Proof.
  intros ms u rs u' mds H. revert mds. induction H as [st|m ms st r st1 rs stF HP _ IH]; intros mds HF; inversion HF; subst; constructor.
  - destruct r as [[m' cv] nm]. destruct HP as (Em & Hnm & Hcv). subst m'.
    match goal with Hr : realises_module m ?y |- _ => destruct Hr as (Ra & Rb & Rc & Rd) end.
    split; [exact Ra|]. split; [exact Rb|]. split; [exists (im_name m); split; [exact Rd|exact Hnm]|].
    rewrite <- Rc. unfold CV_BYTES in Hcv. destruct (im_id m); exact Hcv.
  - apply IH. assumption.
Qed.

(* End to end: whenever the modules of the content realise the structural model's module list for a world (the mappings that
   qualify, then the caller's mappings verbatim), the module list of the final image has one record per model module, in the
   model's order, with its base, its size, the location of exactly its effective name and - if it has an identifier - of exactly
   its CodeView record. *)
Theorem image_module_list_of_world c maps tbl users dirs lg s' :
  image c empty_wst = Ok ((dirs, lg), s') -> small (blen s') ->
  Forall2 realises_module (ic_modules c) (Modules.module_list maps tbl users) ->
  exists rs off,
    Forall2 (record_says_module (w_buf s')) rs (Modules.module_list maps tbl users) /\
    slice (w_buf s') off (4 + MODULE_SZ * length rs) = le 4 (N.of_nat (length rs)) ++ concat (map enc_module rs) /\
    In (T_MODULES, {| l_rva := N.of_nat off; l_size := (4 + N.of_nat (MODULE_SZ * length rs))%N |}) dirs.
Proof.
  intros E Hs HF. destruct (image_module_list c dirs lg s' E Hs) as (rs & off & Hrel & Hsl & Hd).
  exists rs, off. split; [eapply run_rel_modules; eauto|]. split; [exact Hsl|exact Hd].
Qed.
Print Assumptions image_module_list_of_world.

(* ---------- world -> content -> image, for the thread names (C15 end to end) ---------- *)
Lemma run_rel_Forall2 {X R} (P : X -> unit -> R -> unit -> bytes -> Prop) b : forall xs u rs u',
  run_rel P b xs u rs u' -> Forall2 (fun x r => P x tt r tt b) xs rs.
Proof. intros xs u rs u' H. induction H as [st|x xs st r st1 rs stF HP _ IH]; constructor; [destruct st, st1; exact HP|exact IH]. Qed.

(* Whenever the names of the content are the structural model's named threads (every listed thread whose name could be read,
   in list order - threads without a readable name contribute nothing), the thread-names stream of the final image has exactly one
   record per such thread, in that order, with that thread's id and the location of exactly its name. *)
Theorem image_thread_names_of_world c (ths : list ThreadNames.thread) dirs lg s' :
  image c empty_wst = Ok ((dirs, lg), s') -> small (blen s') -> ic_names c = ThreadNames.named ths ->
  let n := length (ThreadNames.named ths) in
  exists rs off,
    Forall2 (fun x r => fst r = fst x /\ designates 248 (w_buf s') (snd r) (md_string (snd x))) (ThreadNames.named ths) rs /\
    slice (w_buf s') off (4 + NAME_SZ * n) = le 4 (N.of_nat n) ++ concat (map enc_name rs) /\
    In (T_NAMES, {| l_rva := N.of_nat off; l_size := (4 + N.of_nat (NAME_SZ * n))%N |}) dirs.
Proof.
  intros E Hs Hn n. destruct (image_thread_names c dirs lg s' E Hs) as (rs & off & Hrel & Hsl & Hd).
  rewrite Hn in Hrel, Hsl, Hd. exists rs, off. split; [|split; [exact Hsl|exact Hd]].
  exact (run_rel_Forall2 _ _ _ _ _ _ Hrel).
Qed.
Print Assumptions image_thread_names_of_world.

(* ---------- world -> content -> image, for the memory-information list (C18 end to end) ---------- *)
(* Whenever the records of the content are the structural model's records for the lines of the target's memory map (one per line:
   extent, protection from the regenerated table, private / mapped), the stream of the final image is its header followed by
   exactly their encodings, one per line, in line order. *)
Theorem image_meminfo_of_world c (ls : list (N * N * N)) dirs lg s' :
  image c empty_wst = Ok ((dirs, lg), s') -> small (blen s') -> ic_meminfo c = MemInfo.meminfo_list ls ->
  let n := length ls in
  exists off,
    slice (w_buf s') off (16 + MEMINFO_SZ * n) =
      (le 4 16 ++ le 4 48 ++ le 8 (N.of_nat n)) ++ concat (map enc_meminfo (MemInfo.meminfo_list ls)) /\
    In (T_MEMINFO, {| l_rva := N.of_nat off; l_size := (16 + N.of_nat (MEMINFO_SZ * n))%N |}) dirs.
Proof.
  intros E Hs Hm n. destruct (image_meminfo c dirs lg s' E Hs) as (off & Hsl & Hd).
  rewrite Hm in Hsl, Hd. unfold MemInfo.meminfo_list in Hsl, Hd at 1. rewrite map_length in Hsl, Hd. exists off. split; [exact Hsl|exact Hd].
Qed.
Print Assumptions image_meminfo_of_world.
