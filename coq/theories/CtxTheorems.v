(* C04 / C05: the generic read-back theorem instantiated with the tables regenerated from the source. *)
From Coq Require Import List NArith Arith Lia.
From MDW Require Import Bytes CpuCtx GenTypes Generated CtxModel CtxProofs.
Import ListNotations.
Local Open Scope nat_scope.

Section PerRegfile.
  Variable r : regfile.
  Hypothesis Hst : length (rf_st r) = 128.
  Hypothesis Hxmm : length (rf_xmm r) = 256.

  Definition ptrace_ctx : bytes := ctx_bytes ptrace_table ptrace_xtable ptrace_copies r.
  Definition ucontext_ctx : bytes := ctx_bytes ucontext_table ucontext_xtable ucontext_copies r.

  Theorem ptrace_register f s : In (f, s) ptrace_table ->
    read ptrace_ctx (fst (cfield_layout f)) (snd (cfield_layout f)) = (eval s r mod 256 ^ N.of_nat (snd (cfield_layout f)))%N.
  Proof. destruct (ptrace_shape r) as (H1 & H2). exact (cfield_read ptrace_table ptrace_xtable r H1 Hst Hxmm H2 f s). Qed.
  Theorem ptrace_float f s : In (f, s) ptrace_xtable ->
    read ptrace_ctx (FLOAT_SAVE + fst (xfield_layout f)) (snd (xfield_layout f)) = (eval s r mod 256 ^ N.of_nat (snd (xfield_layout f)))%N.
  Proof. destruct (ptrace_shape r) as (H1 & H2). exact (xfield_read ptrace_table ptrace_xtable r H1 Hst Hxmm H2 f s). Qed.
  Theorem ptrace_st_xmm : slice ptrace_ctx 288 128 = rf_st r /\ slice ptrace_ctx 416 256 = rf_xmm r /\ length ptrace_ctx = 1232.
  Proof.
    destruct (ptrace_shape r) as (H1 & H2). split; [|split].
    - exact (st_read ptrace_table ptrace_xtable r H1 Hst Hxmm).
    - exact (xmm_read ptrace_table ptrace_xtable r H1 Hst Hxmm).
    - exact (img_len ptrace_table ptrace_xtable r H1 Hst Hxmm).
  Qed.

  Theorem ucontext_register f s : In (f, s) ucontext_table ->
    read ucontext_ctx (fst (cfield_layout f)) (snd (cfield_layout f)) = (eval s r mod 256 ^ N.of_nat (snd (cfield_layout f)))%N.
  Proof. destruct (ucontext_shape r) as (H1 & H2). exact (cfield_read ucontext_table ucontext_xtable r H1 Hst Hxmm H2 f s). Qed.
  Theorem ucontext_float f s : In (f, s) ucontext_xtable ->
    read ucontext_ctx (FLOAT_SAVE + fst (xfield_layout f)) (snd (xfield_layout f)) = (eval s r mod 256 ^ N.of_nat (snd (xfield_layout f)))%N.
  Proof. destruct (ucontext_shape r) as (H1 & H2). exact (xfield_read ucontext_table ucontext_xtable r H1 Hst Hxmm H2 f s). Qed.
  Theorem ucontext_st_xmm : slice ucontext_ctx 288 128 = rf_st r /\ slice ucontext_ctx 416 256 = rf_xmm r /\ length ucontext_ctx = 1232.
  Proof.
    destruct (ucontext_shape r) as (H1 & H2). split; [|split].
    - exact (st_read ucontext_table ucontext_xtable r H1 Hst Hxmm).
    - exact (xmm_read ucontext_table ucontext_xtable r H1 Hst Hxmm).
    - exact (img_len ucontext_table ucontext_xtable r H1 Hst Hxmm).
  Qed.
End PerRegfile.
