(* The memory-writer operations of every stream-building function, regenerated from the source (Generated.section_ops),
   against the way Image.v models each function. *)
From Coq Require Import List NArith Arith Bool String.
From MDW Require Import GenTypes Generated PlanProofs.
Import ListNotations.

(* ---------- the memory-writer operations of every stream-building function, regenerated from the source ----------
   Image.v models each function by the combinator named on the right; an operation added to, removed from or reordered in
   any of these functions breaks this obligation before any test runs (the byte-exact image stage then says where the real
   image departs from the model's). *)
Local Open Scope string_scope.
Definition expected_section_ops : list (string * list memop) := [
  (* sec_thread_list = w_span_array (count header, zeroed array; per thread: stack / window / context blobs, then the slot) *)
  ("thread_list_stream::write", [Op_alloc_with_val; Op_alloc_array; Op_alloc_from_array; Op_alloc_with_val; Op_alloc_with_val; Op_set_value_at]);
  ("thread_list_stream::fill_thread_stack", [Op_write_all]);
  (* sec_modules = w_collect module_body (signature record, name string) ; count header ; array filled at once *)
  ("mappings::write", [Op_alloc_with_val; Op_alloc_from_iter]);
  ("mappings::fill_raw_module", [Op_alloc_array; Op_set_value_at; Op_write_string]);
  (* sec_app_memory = one blob per region *)
  ("app_memory::write", [Op_write_bytes]);
  (* sec_memory_list, sec_meminfo = w_span_array with an array filled at once *)
  ("memory_list_stream::write", [Op_alloc_with_val; Op_alloc_from_array]);
  (* sec_exception = one record *)
  ("exception_stream::write", [Op_alloc_with_val]);
  (* sec_sysinfo = w_slot (reserved record, version string, record value) *)
  ("systeminfo_stream::write", [Op_alloc; Op_write_string; Op_set_value]);
  ("memory_info_list_stream::write", [Op_alloc_with_val; Op_alloc_from_iter]);
  (* sec_names = w_span_array (count header, zeroed array; per name: string, then the slot) *)
  ("thread_names_stream::write", [Op_alloc_with_val; Op_alloc_array; Op_write_string; Op_set_value_at]);
  (* sec_handles = w_collect handle_body (name string) ; header ; array filled at once *)
  ("handle_data_stream::direntry_to_descriptor", [Op_write_string]);
  ("handle_data_stream::write", [Op_alloc_with_val; Op_alloc_from_iter]);
  (* sec_dso = w_array (zeroed link-map array; per object: name string, then the slot) ; debug record ; dynamic bytes *)
  ("dso_debug::write_dso_debug_stream", [Op_alloc_array; Op_write_string; Op_set_value_at; Op_alloc_with_val; Op_write_bytes]);
  (* image_head (header slot, header value) then one flush per step of the plan that writes (run_plan) *)
  ("minidump_writer::generate_dump", Op_alloc :: Op_set_value :: repeat Op_dir_flush 20);
  (* sec_raw *)
  ("minidump_writer::write_file", [Op_write_bytes]);
  ("minidump_writer::write_soft_errors", [Op_write_bytes]);
  (* w_string = md_string as one blob (WriteString.write_string_closed) *)
  ("mem_writer::write_string_to_location", [Op_alloc_with_val; Op_alloc_array; Op_set_value_at]);
  (* the directory array of image_head ; the patch of run_plan *)
  ("dir_section::new", [Op_alloc_array]);
  ("dir_section::dump_dir_entry", [Op_set_value_at])].
Theorem section_ops_as_modelled : section_ops = expected_section_ops.
Proof. reflexivity. Qed.
(* one flush for the header, one per step of the plan except the thread resume *)
Theorem flushes_match_plan : List.length (filter (fun o => match o with Op_dir_flush => true | _ => false end)
                                       (match find (fun p => String.eqb (fst p) "minidump_writer::generate_dump") section_ops with Some p => snd p | None => [] end))
                             = S (List.length (filter (fun p => match fst p with St_resume_threads => false | _ => true end) stream_plan)).
Proof. reflexivity. Qed.

(* ---------- the stream type each step of the plan gives its directory entry, by the NAME used in the source ----------
   (numbers: the MINIDUMP_STREAM_TYPE values of the format, as minidump-common declares them) *)
Definition stream_numbers : list (string * N) := [
  ("ThreadListStream", 3%N); ("ModuleListStream", 4%N); ("MemoryListStream", 5%N); ("ExceptionStream", 6%N); ("SystemInfoStream", 7%N);
  ("HandleDataStream", 12%N); ("MemoryInfoListStream", 16%N); ("ThreadNamesStream", 24%N);
  ("LinuxCpuInfo", 0x47670003%N); ("LinuxProcStatus", 0x47670004%N); ("LinuxLsbRelease", 0x47670005%N); ("LinuxCmdLine", 0x47670006%N);
  ("LinuxEnviron", 0x47670007%N); ("LinuxAuxv", 0x47670008%N); ("LinuxMaps", 0x47670009%N); ("LinuxDsoDebug", 0x4767000A%N);
  ("MozLinuxLimits", 0x4d7a0003%N); ("MozSoftErrors", 0x4d7a0004%N)].
Definition stream_number (nm : string) : option N := option_map snd (find (fun p => String.eqb (fst p) nm) stream_numbers).
(* every step of the plan that writes a directory entry names, in the source, the stream type the model gives it
   (Plan.stream_type, which Image.v uses), in plan order *)
Theorem step_types_as_modelled :
  map (fun p => (fst p, stream_number (snd p))) step_stream_names
  = flat_map (fun p => match Plan.stream_type (fst p) with Some t => [(fst p, Some t)] | None => [] end) stream_plan.
Proof. reflexivity. Qed.
