(* C12: the executed sanitiser equals the proved one, and what the specification says. *)
From Coq Require Import List NArith ZArith Arith Lia Bool ZifyNat ZifyN ZifyBool.
From MDW Require Import Bytes Sanitize SanitizeProofs SanitizeFast.
Import ListNotations.
Local Open Scope N_scope.
Ltac Zify.zify_post_hook ::= Z.to_euclidean_division_equations.

Lemma run_words_fast ms stack_map : forall ws last,
  run_words small_fixed (bitmap_fast ms) ms stack_map last ws
  = run_words small_fixed (bitmap_loop ms) ms stack_map last ws.
Proof.
  induction ws as [|w ws IH]; intro last; [reflexivity|].
  cbn [run_words]. unfold classify_step. rewrite bitmap_fast_loop.
  destruct (small_fixed w); [now rewrite IH|].
  destruct (match stack_map with Some s => contains s w | None => false end); [now rewrite IH|].
  destruct (match last with Some h => contains h w | None => false end); [now rewrite IH|].
  destruct (bitmap_loop ms (bit_of w)); [|now rewrite IH].
  destruct (find_no_bias ms w) as [h|]; [|now rewrite IH].
  destruct (mp_exec h); now rewrite IH.
Qed.

Theorem sanitize_exec_fixed ms stack sp off : sanitize_exec ms stack sp off = sanitize_fixed ms stack sp off.
Proof.
  unfold sanitize_exec, sanitize_fixed, sanitize_gen. rewrite andb_false_r.
  destruct (words _ _) as (ws, tl). now rewrite run_words_fast.
Qed.

(* ---- bytes <-> words ---- *)
Definition byte (x : N) : Prop := x < 256.

Lemma le_unle (b : bytes) : Forall byte b -> le (length b) (unle b) = b.
Proof.
  induction 1 as [|x t Hx Ht IH]; [reflexivity|].
  cbn [length le unle]. unfold byte in Hx.
  replace ((x + 256 * unle t) mod 256) with x by lia.
  replace ((x + 256 * unle t) / 256) with (unle t) by lia.
  now rewrite IH.
Qed.

Lemma words_decomp : forall fuel b ws tl,
  Forall byte b -> (length b <= fuel)%nat -> words fuel b = (ws, tl) ->
  b = flat_map (le 8) ws ++ tl /\ (length tl < 8)%nat /\ (length b = 8 * length ws + length tl)%nat.
Proof.
  induction fuel as [|f IH]; intros b ws tl Hb Hl E.
  - destruct b; [|cbn in Hl; lia]. cbn in E. injection E as <- <-. cbn. repeat split; lia.
  - destruct b as [|b0 [|b1 [|b2 [|b3 [|b4 [|b5 [|b6 [|b7 t]]]]]]]].
    1-8: (cbn [words] in E; injection E as <- <-; cbn [flat_map app length]; repeat split; lia).
    change (words (S f) (b0 :: b1 :: b2 :: b3 :: b4 :: b5 :: b6 :: b7 :: t))
      with (let '(ws0, tl0) := words f t in (unle [b0;b1;b2;b3;b4;b5;b6;b7] :: ws0, tl0)) in E.
    destruct (words f t) as (ws', tl') eqn:Ew.
    pose proof (f_equal fst E) as E1. pose proof (f_equal snd E) as E2.
    change (unle [b0;b1;b2;b3;b4;b5;b6;b7] :: ws' = ws) in E1. change (tl' = tl) in E2. subst ws tl. clear E.
    assert (Hbt : Forall byte t) by (do 8 (apply Forall_inv_tail in Hb); exact Hb).
    assert (H8 : Forall byte [b0;b1;b2;b3;b4;b5;b6;b7]).
    { repeat (apply Forall_cons; [eapply Forall_inv; eauto|apply Forall_inv_tail in Hb]). apply Forall_nil. }
    destruct (IH t ws' tl' Hbt) as (Hd & Ht & Hn); [cbn in Hl; lia|exact Ew|].
    assert (Hfc : forall (x : N) l, flat_map (le 8) (x :: l) = le 8 x ++ flat_map (le 8) l) by reflexivity.
    rewrite Hfc. pose proof (le_unle _ H8) as L. change (length [b0; b1; b2; b3; b4; b5; b6; b7]) with 8%nat in L. rewrite L.
    repeat split; [rewrite <- app_assoc, <- Hd; reflexivity| exact Ht | cbn [length] in *; lia].
Qed.

(* ---- what the specification says (C12, statement half) ---- *)
Theorem sanitize_spec_shape ms stack sp sp_off :
  Forall byte stack ->
  let off := Nat.min (roundup8 sp_off) (length stack) in
  exists ws tl,
    skipn off stack = flat_map (le 8) ws ++ tl /\ (length tl < 8)%nat /\
    sanitize_spec ms stack sp sp_off
    = repeat 0 off ++ flat_map (le 8) (map (classify_spec ms (find_no_bias ms sp)) ws) ++ repeat 0 (length tl) /\
    length (sanitize_spec ms stack sp sp_off) = length stack.
Proof.
  intros Hb off. unfold sanitize_spec. fold off.
  destruct (words (length (skipn off stack)) (skipn off stack)) as (ws, tl) eqn:E.
  assert (Hbs : Forall byte (skipn off stack)).
  { apply Forall_forall. intros x Hx. rewrite Forall_forall in Hb. apply Hb.
    rewrite <- (firstn_skipn off stack). apply in_or_app. now right. }
  destruct (words_decomp _ _ _ _ Hbs (Nat.le_refl _) E) as (Hd & Ht & Hn).
  exists ws, tl. repeat split; try assumption.
  rewrite !app_length, !repeat_length.
  assert (Hfm : forall l : list N, length (flat_map (le 8) l) = (8 * length l)%nat).
  { induction l as [|x l IHl]; [reflexivity|]. cbn [flat_map]. rewrite app_length, le_length, IHl. cbn [length]. lia. }
  rewrite Hfm, map_length. rewrite skipn_length in Hn. unfold off in *. lia.
Qed.

(* every whole word is either unchanged - and then it qualifies - or the sentinel *)
Theorem classify_spec_cases ms stack_map w :
  (keep_spec ms stack_map w = true /\ classify_spec ms stack_map w = w) \/
  (keep_spec ms stack_map w = false /\ classify_spec ms stack_map w = DEFACED).
Proof. unfold classify_spec. destruct (keep_spec ms stack_map w); [left|right]; split; reflexivity. Qed.

(* reading of keep_spec: small signed magnitude, the thread's own stack mapping, or an executable mapping *)
Theorem keep_spec_iff ms stack_map w :
  keep_spec ms stack_map w = true <->
  (w <= 4096 \/ 2 ^ 64 - 4096 <= w)
  \/ (exists s, stack_map = Some s /\ mp_sys_start s <= w < mp_sys_end s)
  \/ (exists m, In m ms /\ mp_exec m = true /\ mp_sys_start m <= w < mp_sys_end m).
Proof.
  assert (Hsmall : small_fixed w = true <-> (w <= 4096 \/ 2 ^ 64 - 4096 <= w)).
  { unfold small_fixed, SMALL, W. rewrite orb_true_iff, !N.leb_le. reflexivity. }
  assert (Hcont : forall m, contains m w = true <-> mp_sys_start m <= w < mp_sys_end m).
  { intro m. unfold contains. rewrite andb_true_iff, N.leb_le, N.ltb_lt. reflexivity. }
  unfold keep_spec. rewrite !orb_true_iff, existsb_exists, Hsmall. split.
  - intros [[H|H]|H].
    + left. exact H.
    + right; left. destruct stack_map as [s|]; [|discriminate]. exists s. split; [reflexivity|]. now apply Hcont.
    + right; right. destruct H as (m & Hin & Hm). apply andb_prop in Hm. destruct Hm as (Hx & Hc).
      exists m. split; [exact Hin|]. split; [exact Hx|]. now apply Hcont.
  - intros [H|[(s & -> & H)|(m & Hin & Hx & H)]].
    + left; left. exact H.
    + left; right. now apply Hcont.
    + right. exists m. split; [exact Hin|]. rewrite Hx. cbn [andb]. now apply Hcont.
Qed.
