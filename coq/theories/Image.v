(* Whole-image model: every section writer of generate_dump (src/linux/minidump_writer.rs and src/linux/sections/*.rs,
   dso_debug.rs) as a program on the writer monad, in the order of the stream plan REGENERATED from the source
   (Generated.stream_plan), with the directory section patched after every stream as DirSection does.

   Input is the CONTENT of the dump (what each stream has to say: thread ids, stack bytes, contexts, module names and
   identifiers, region bytes, file contents, ...); output is the complete image, byte for byte, together with the
   ghost object map.  What decides the content is the business of the per-stream models (ThreadList, Modules, MemInfo,
   DsoStream, ThreadNames, CtxModel ...); what this file decides is the LAYOUT: which bytes go where, which offsets
   are stored where, what the directory says.  Definitions only (proofs: ImageProofs.v, ImageDirProofs.v). *)
From Coq Require Import List NArith Arith Bool.
From MDW Require Import Bytes MemWriter Writer Text MiniDump WComb MemInfo GenTypes Generated Plan.
Import ListNotations.
Local Open Scope nat_scope.

(* ---------- content ---------- *)
Record ithread := {
  it_tid : N;
  it_sp : N;                          (* recorded as the start of the (empty) stack when no stack bytes are stored *)
  it_stack : option (N * bytes);      (* start address and bytes as stored (after limit / filter / sanitise) *)
  it_ipwin : option (N * bytes);      (* crash thread only: the window around the crash instruction pointer *)
  it_ctx : bytes;                     (* the serialised CONTEXT_AMD64 *)
}.
Record imodule := { im_base : N; im_size : N; im_id : bytes; im_name : list N; im_ver : option (N * N * N * N) }.
Record ihandle := { ih_fd : N; ih_name : list N; ih_mode : N }.
Record ilink := { il_addr : N; il_name : list N; il_ld : N }.
Inductive idso :=
| IDsoOk (version brk ldbase dynamic : N) (links : list ilink) (dyn : bytes)
| IDsoFail (orphan : bytes).           (* the step failed after having written [orphan] (nothing refers to it) *)

Record content := {
  ic_time : N;
  ic_threads : list ithread;
  ic_blamed : N;
  ic_crash : option (N * N * N);      (* signal number, code, fault address of the supplied crash context *)
  ic_modules : list imodule;
  ic_app : list (N * bytes);
  ic_sysinfo : bytes;                 (* the 56-byte record with the version-string slot unset *)
  ic_osver : list N;
  ic_meminfo : list mi;
  ic_cpuinfo : option bytes; ic_status : option bytes; ic_lsb : option bytes; ic_cmdline : option bytes;
  ic_environ : option bytes; ic_auxv : option bytes; ic_maps : option bytes; ic_limits : option bytes;
  ic_dso : idso;
  ic_names : list (N * list N);
  ic_handles : list ihandle;
  ic_soft : option bytes;
}.

(* ---------- record encodings (scroll derive layouts: fields in declaration order, no padding) ---------- *)
Definition NUM_DIRS : nat := N.to_nat NUM_WRITERS.
Definition HEADER_SZ : nat := 32.
Definition DIRENT_SZ : nat := 12.
Definition MODULE_SZ : nat := 108.
Definition MEMDESC_SZ : nat := 16.
Definition MEMINFO_SZ : nat := 48.
Definition NAME_SZ : nat := 12.
Definition HANDLE_SZ : nat := 32.
Definition LINK_SZ : nat := 20.
Definition SYSINFO_SZ : nat := 56.

Definition dirent := (N * loc)%type.
Definition zero_loc : loc := {| l_rva := 0; l_size := 0 |}.
Definition zero_dirent : dirent := (0%N, zero_loc).
Definition enc_dirent (d : dirent) : bytes := le 4 (fst d) ++ enc_loc (snd d).
Definition enc_header (time : N) (dir_rva : N) : bytes :=
  le 4 0x504d444d ++ le 4 0xa793 ++ le 4 NUM_WRITERS ++ le 4 dir_rva ++ le 4 0 ++ le 4 time ++ le 8 0.

Definition enc_thread3 (r : N * memdesc * loc) : bytes := let '(tid, d, c) := r in enc_thread tid d c.

Definition enc_version (v : option (N * N * N * N)) : bytes :=
  match v with
  | Some (a, b, c, d) => le 4 0xfeef04bd ++ le 4 0x10000 ++ le 4 a ++ le 4 b ++ le 4 c ++ le 4 d ++ repeat 0%N 28
  | None => repeat 0%N 52
  end.
Definition enc_module (r : imodule * loc * loc) : bytes :=
  let '(m, cv, name) := r in
  le 8 (im_base m) ++ le 4 (im_size m) ++ le 4 0 ++ le 4 0 ++ le 4 (l_rva name) ++ enc_version (im_ver m)
    ++ enc_loc cv ++ enc_loc zero_loc ++ le 8 0 ++ le 8 0.
Definition enc_meminfo (m : mi) : bytes :=
  le 8 (mi_base m) ++ le 8 (mi_alloc_base m) ++ le 4 (mi_alloc_prot m) ++ le 4 0 ++ le 8 (mi_size m)
    ++ le 4 (mi_state m) ++ le 4 (mi_prot m) ++ le 4 (mi_type m) ++ le 4 0.
Definition enc_name (r : N * loc) : bytes := le 4 (fst r) ++ le 8 (l_rva (snd r)).
Definition enc_handle (r : ihandle * loc) : bytes :=
  le 8 (ih_fd (fst r)) ++ le 4 0 ++ le 4 (l_rva (snd r)) ++ le 4 (ih_mode (fst r)) ++ le 4 0 ++ le 4 0 ++ le 4 0.
Definition enc_link (r : ilink * loc) : bytes := le 8 (il_addr (fst r)) ++ le 4 (l_rva (snd r)) ++ le 8 (il_ld (fst r)).
Definition enc_exception (tid code flags addr : N) (ctx : loc) : bytes :=
  le 4 tid ++ le 4 0 ++ le 4 code ++ le 4 flags ++ le 8 0 ++ le 8 addr ++ le 4 0 ++ le 4 0 ++ repeat 0%N 120 ++ enc_loc ctx.
Definition CV_ELF : N := 0x4270454c.

Definition T_MODULES : N := 4.  Definition T_SYSINFO : N := 7.  Definition T_MEMINFO : N := 16.
Definition T_NAMES : N := 24.   Definition T_HANDLES : N := 12. Definition T_DSO : N := 0x4767000A.
Definition T_SOFT : N := 0x4d7a0004.

(* per-dump state the sections hand to each other (MinidumpWriter::memory_blocks, crashing_thread_context) *)
Definition dstate := (list memdesc * crashctx)%type.

(* write_string_to_location: one MINIDUMP_STRING appended (C16, WriteString.write_string_closed) *)
Definition w_string (s : list N) : W loc := w_blob KString (md_string s).

(* ---------- thread list ---------- *)
Definition thread_body (c : content) (t : ithread) (st : dstate) : W ((N * memdesc * loc) * dstate) :=
  pos <- w_pos ;;
  r1 <- match it_stack t with
        | Some (v, bs) => l <- w_blob KStack bs ;;
                          ret ({| md_start := v; md_loc := l |}, fst st ++ [{| md_start := v; md_loc := l |}])
        | None => ret ({| md_start := it_sp t; md_loc := {| l_rva := u32 pos; l_size := 0 |} |}, fst st)
        end ;;
  let blamed := N.eqb (it_tid t) (ic_blamed c) in
  let crash := match ic_crash c with Some _ => blamed | None => false end in
  blocks2 <- match it_ipwin t with
             | Some (a, bs) => if crash then l <- w_blob KIpMem bs ;; ret (snd r1 ++ [{| md_start := a; md_loc := l |}])
                               else ret (snd r1)
             | None => ret (snd r1)
             end ;;
  cl <- w_blob KContext (it_ctx t) ;;
  let cc' := if crash then CCtx cl
             else if blamed then CCtxAddr cl (unle (slice (it_ctx t) 248 8))
             else snd st in
  ret ((it_tid t, fst r1, cl), (blocks2, cc')).

Definition sec_thread_list (c : content) (st : dstate) : W (dirent * dstate) :=
  w_span_array THREAD_SZ enc_thread3 (thread_body c) false T_THREADS (le 4 (N.of_nat (length (ic_threads c)))) (ic_threads c) st.

(* ---------- module list ---------- *)
Definition module_body (m : imodule) (u : unit) : W ((imodule * loc * loc) * unit) :=
  cv <- match im_id m with
        | [] => ret zero_loc
        | _ => w_blob KCv (le 4 CV_ELF ++ im_id m)
        end ;;
  nm <- w_string (im_name m) ;;
  ret ((m, cv, nm), u).
Definition keep {R : Type} (r : R) (u : unit) : W (R * unit) := ret (r, u).

Definition sec_modules (c : content) : W dirent :=
  rs <- w_collect module_body (ic_modules c) tt ;;
  r <- w_span_array MODULE_SZ enc_module keep true T_MODULES (le 4 (N.of_nat (length (fst rs)))) (fst rs) tt ;;
  ret (fst r).

(* ---------- application memory, memory list, exception ---------- *)
Fixpoint sec_app_memory (regions : list (N * bytes)) (blocks : list memdesc) : W (list memdesc) :=
  match regions with
  | [] => ret blocks
  | (p, bs) :: r => l <- w_blob KAppMem bs ;; sec_app_memory r (blocks ++ [{| md_start := p; md_loc := l |}])
  end.

Definition sec_memory_list (blocks : list memdesc) : W dirent :=
  r <- w_span_array MEMDESC_SZ enc_memdesc keep true T_MEMLIST (le 4 (N.of_nat (length blocks))) blocks tt ;;
  ret (fst r).

Definition sec_exception (c : content) (cc : crashctx) : W dirent :=
  let ctxloc := match cc with CNone => zero_loc | CCtx l => l | CCtxAddr l _ => l end in
  let '(code, flags, addr) :=
    match ic_crash c with
    | Some (signo, code, addr) => (signo, code, addr)
    | None => (0xFFFFFFFF%N, 0%N, match cc with CCtxAddr _ a => a | _ => 0%N end)
    end in
  l <- w_alloc (KRecord T_EXC) (enc_exception (ic_blamed c) code flags addr ctxloc) ;;
  ret (T_EXC, l).

(* ---------- system information: reserved slot, version string, then the record ---------- *)
Definition enc_sysinfo (raw : bytes) (csd : loc) : bytes :=
  firstn 24 (raw ++ repeat 0%N SYSINFO_SZ) ++ le 4 (l_rva csd) ++ firstn 28 (skipn 28 (raw ++ repeat 0%N SYSINFO_SZ)).
Definition sec_sysinfo (c : content) : W dirent :=
  l <- w_slot SYSINFO_SZ (enc_sysinfo (ic_sysinfo c)) (KRecord T_SYSINFO) (w_string (ic_osver c)) ;;
  ret (T_SYSINFO, l).

(* ---------- memory-info list ---------- *)
Definition sec_meminfo (c : content) : W dirent :=
  r <- w_span_array MEMINFO_SZ enc_meminfo keep true T_MEMINFO
         (le 4 16 ++ le 4 48 ++ le 8 (N.of_nat (length (ic_meminfo c)))) (ic_meminfo c) tt ;;
  ret (fst r).

(* ---------- copied files, soft-error stream: one raw object, or an unused entry when the step failed ---------- *)
Definition sec_raw (ty : N) (content : option bytes) : W dirent :=
  match content with
  | Some bs => l <- w_alloc (KRaw ty) bs ;; ret (ty, l)
  | None => ret zero_dirent
  end.

(* ---------- linker debug data ---------- *)
Definition link_body (l : ilink) (u : unit) : W ((ilink * loc) * unit) :=
  nm <- w_string (il_name l) ;; ret ((l, nm), u).
Definition enc_debug (version map count brk ldbase dynamic : N) : bytes :=
  le 4 version ++ le 4 map ++ le 4 count ++ le 8 brk ++ le 8 ldbase ++ le 8 dynamic.
Definition sec_dso (c : content) : W dirent :=
  match ic_dso c with
  | IDsoFail orphan => w_alloc (KRaw 0) orphan ;;; ret zero_dirent
  | IDsoOk version brk ldbase dynamic links dyn =>
      map_rva <- match links with
                 | [] => ret 0xFFFFFFFF%N
                 | _ => a <- w_array LINK_SZ enc_link link_body false (KArray T_DSO) links tt ;;
                        w_ref (KArray T_DSO) (fst a) ;;; ret (l_rva (fst a))
                 end ;;
      h <- w_alloc (KStreamHdr T_DSO) (enc_debug version map_rva (N.of_nat (length links)) brk ldbase dynamic) ;;
      d <- w_alloc (KArray 0) dyn ;;
      ret (T_DSO, span h d)
  end.

(* ---------- thread names ---------- *)
Definition name_body (t : N * list N) (u : unit) : W ((N * loc) * unit) :=
  nm <- w_string (snd t) ;; ret ((fst t, nm), u).
Definition sec_names (c : content) : W dirent :=
  r <- w_span_array NAME_SZ enc_name name_body false T_NAMES (le 4 (N.of_nat (length (ic_names c)))) (ic_names c) tt ;;
  ret (fst r).

(* ---------- open descriptors ---------- *)
Definition handle_body (h : ihandle) (u : unit) : W ((ihandle * loc) * unit) :=
  nm <- w_string (ih_name h) ;; ret ((h, nm), u).
Definition sec_handles (c : content) : W dirent :=
  rs <- w_collect handle_body (ic_handles c) tt ;;
  r <- w_span_array HANDLE_SZ enc_handle keep true T_HANDLES
         (le 4 16 ++ le 4 32 ++ le 4 (N.of_nat (length (fst rs))) ++ le 4 0) (fst rs) tt ;;
  ret (fst r).

(* ---------- one step of the regenerated plan: the entry it hands to the directory (None: no entry) ---------- *)
Definition raw_type (s : step) : N := match stream_type s with Some t => t | None => 0%N end.
Definition run_step (c : content) (s : step) (st : dstate) : W (option dirent * dstate) :=
  match s with
  | St_thread_list_stream => r <- sec_thread_list c st ;; ret (Some (fst r), snd r)
  | St_mappings => d <- sec_modules c ;; ret (Some d, st)
  | St_app_memory => b <- sec_app_memory (ic_app c) (fst st) ;; ret (None, (b, snd st))
  | St_memory_list_stream => d <- sec_memory_list (fst st) ;; ret (Some d, st)
  | St_exception_stream => d <- sec_exception c (snd st) ;; ret (Some d, st)
  | St_systeminfo_stream => d <- sec_sysinfo c ;; ret (Some d, st)
  | St_memory_info_list_stream => d <- sec_meminfo c ;; ret (Some d, st)
  | St_file_proc_cpuinfo => d <- sec_raw (raw_type s) (ic_cpuinfo c) ;; ret (Some d, st)
  | St_file_proc_pid_status => d <- sec_raw (raw_type s) (ic_status c) ;; ret (Some d, st)
  | St_file_etc_lsb_release => d <- sec_raw (raw_type s) (ic_lsb c) ;; ret (Some d, st)
  | St_file_proc_pid_cmdline => d <- sec_raw (raw_type s) (ic_cmdline c) ;; ret (Some d, st)
  | St_file_proc_pid_environ => d <- sec_raw (raw_type s) (ic_environ c) ;; ret (Some d, st)
  | St_file_proc_pid_auxv => d <- sec_raw (raw_type s) (ic_auxv c) ;; ret (Some d, st)
  | St_file_proc_pid_maps => d <- sec_raw (raw_type s) (ic_maps c) ;; ret (Some d, st)
  | St_dso_debug => d <- sec_dso c ;; ret (Some d, st)
  | St_file_proc_pid_limits => d <- sec_raw (raw_type s) (ic_limits c) ;; ret (Some d, st)
  | St_thread_names_stream => d <- sec_names c ;; ret (Some d, st)
  | St_handle_data_stream => d <- sec_handles c ;; ret (Some d, st)
  | St_resume_threads => ret (None, st)
  | St_soft_errors => d <- sec_raw (raw_type s) (ic_soft c) ;; ret (Some d, st)
  end.

(* ghost: the state at a boundary between two destination calls, with the directory entries handed over so far *)
Definition w_get : W wst := fun s => Ok (s, s).
Definition snap := (wst * list dirent)%type.

(* DirSection::write_to_file(Some(dirent)): the new bytes are flushed (snapshot: what the destination then holds), then
   set_value_at(slot curr_idx), curr_idx += 1, and the entry is written (second snapshot) *)
Fixpoint run_plan (c : content) (dir_base : nat) (plan : list step) (idx : nat) (st : dstate) (acc : list dirent) (log : list snap)
  : W (list dirent * list snap) :=
  match plan with
  | [] => ret (rev acc, rev log)
  | s :: rest =>
      r <- run_step c s st ;;
      s1 <- w_get ;;
      match fst r with
      | Some d => w_patch (dir_base + DIRENT_SZ * idx) (enc_dirent d) ;;;
                  s2 <- w_get ;;
                  run_plan c dir_base rest (S idx) (snd r) (d :: acc) ((s2, d :: acc) :: (s1, acc) :: log)
      | None => run_plan c dir_base rest idx (snd r) acc ((s1, acc) :: log)
      end
  end.

(* generate_dump: header slot, directory array, header value ... *)
Definition image_head (c : content) : W nat :=
  hd <- w_alloc KHeader (repeat 0%N HEADER_SZ) ;;
  dir <- w_alloc KDirectory (repeat 0%N (DIRENT_SZ * NUM_DIRS)) ;;
  w_patch (N.to_nat (l_rva hd)) (enc_header (ic_time c) (l_rva dir)) ;;;
  ret (N.to_nat (l_rva dir)).
(* ... then the plan (per-dump state reset first) *)
Definition image (c : content) : W (list dirent * list snap) :=
  base <- image_head c ;;
  s0 <- w_get ;;
  run_plan c base (map fst stream_plan) 0 ([], CNone) [] [(s0, [])].

Definition image_bytes (c : content) : option bytes :=
  match image c empty_wst with Ok (_, s) => Some (w_buf s) | _ => None end.
