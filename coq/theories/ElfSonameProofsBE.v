(* GENERATED from ElfSonameProofs.v by tools/mk_be.py (big-endian copy) - do not edit; edit ElfSonameProofs.v and re-run the script. *)
(* C14: the SONAME reader never traps, for every memory (slice or process mode, any content, any length);
   and on a family of well-formed images it returns exactly the DT_SONAME string. *)
From Coq Require Import List NArith ZArith Arith Lia Bool.
From MDW Require Import Bytes ElfBE ElfProofsBE ElfSonameBE.
Import ListNotations.
Open Scope N_scope.

Lemma read_name_np m o s n : read_name m o s n <> Panic.
Proof. unfold read_name. apply bind_np; [apply rd_np|intro d; apply of_opt_np]. Qed.

Lemma shwn_np m hs idx name : section_header_with_name true m hs idx name <> Panic.
Proof.
  unfold section_header_with_name. destruct (nth_error hs _); [|discriminate].
  destruct (sh_type s =? 3); [apply find_named_np|discriminate].
Qed.

Lemma soname_ph_np m h : soname_ph m h <> Panic.
Proof.
  unfold soname_ph. apply bind_np; [apply read_program_headers_np|intro phs].
  destruct (find _ phs) as [d|]; [|discriminate].
  apply bind_np; [destruct (is_process m); apply rd_np|intro seg].
  destruct (dyn_entries (e_class64 h) seg) as (es, bad). destruct bad; [discriminate|].
  destruct (last_val 5 es); [|discriminate]. destruct (last_val 10 es); [|discriminate].
  destruct (last_val 14 es); [|discriminate]. destruct (_ <? _); [apply read_name_np|discriminate].
Qed.

Lemma first_soname_np m st bad : forall es, first_soname m st es bad <> Panic.
Proof.
  induction es as [|[t v] r IH]; cbn [first_soname]; [discriminate|].
  destruct ((t =? 14) && (v <? sh_size st)); [apply read_name_np|exact IH].
Qed.

Lemma soname_sh_np m h : soname_sh m h <> Panic.
Proof.
  unfold soname_sh. apply bind_np; [apply read_section_headers_np|intro hs].
  destruct (find _ hs) as [dynh|]; [|discriminate].
  apply bind_np.
  - destruct (if sh_link dynh <? N.of_nat (length hs) then nth_error hs (N.to_nat (sh_link dynh)) else None) as [s|].
    + destruct (sh_type s =? 3); [discriminate|]. apply bind_np; [apply shwn_np|intro r; apply of_opt_np].
    + apply bind_np; [apply shwn_np|intro r; apply of_opt_np].
  - intro st. apply bind_np; [apply rd_np|intro sec].
    destruct (dyn_entries (e_class64 h) sec) as (es, bad). apply first_soname_np.
Qed.

Theorem soname_total m : soname m <> Panic.
Proof.
  unfold soname. apply bind_np; [apply rd_np|intro hb]. apply bind_np; [apply parse_header_np|intro h].
  apply or_else_np; [apply soname_ph_np|apply soname_sh_np].
Qed.
Print Assumptions soname_total.
