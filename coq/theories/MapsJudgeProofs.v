(* C13: soundness of the executable judge that the check applies to the IMPLEMENTATION's mapping list.
   Whenever [c13_holds_b gate ls ms] answers true - for any [ms], in particular one the model never
   produces - the lines [ls] split into consecutive runs, one per mapping of [ms], each mapping being the
   hull of its non-empty contiguous run, and [ms] is ascending without overlap.  So an accepted output
   has the partition property of C13 by a theorem, not by comparison with the model. *)
From Coq Require Import List NArith Arith Lia Bool.
From MDW Require Import Maps MapsProofs MapsJudge.
Import ListNotations.
Local Open Scope N_scope.

Lemma take_run_split e : forall ls r rest, take_run e ls = (r, rest) -> ls = r ++ rest.
Proof.
  induction ls as [|l t IH]; intros r rest H; cbn [take_run] in H.
  - injection H as <- <-. reflexivity.
  - destruct (l_end l <=? e).
    + destruct (take_run e t) as (r0, rest0) eqn:E. injection H as <- <-.
      cbn [app]. f_equal. now apply IH.
    + injection H as <- <-. reflexivity.
Qed.

Lemma contiguous_chain : forall run s e, contiguous s run e = true -> chain s run e.
Proof.
  induction run as [|l t IH]; intros s e H; cbn [contiguous] in H; cbn [chain].
  - now apply N.eqb_eq.
  - apply andb_prop in H. destruct H as (H12 & H3). apply andb_prop in H12. destruct H12 as (H1 & H2).
    apply N.eqb_eq in H1. apply N.ltb_lt in H2. repeat split; auto.
Qed.

Definition HullOf (m : minfo) (run : list line) : Prop := run <> [] /\ chain (m_start m) run (m_end m).

Lemma run_ok_hull gate m run : run_ok gate m run = true -> HullOf m run.
Proof.
  unfold run_ok, HullOf. destruct run as [|f rest]; [discriminate|].
  intro H. apply andb_prop in H. destruct H as (H123 & _). apply andb_prop in H123. destruct H123 as (H12 & _).
  apply andb_prop in H12. destruct H12 as (H1 & _).
  split; [discriminate|]. now apply contiguous_chain.
Qed.

Theorem judge_sound gate : forall ms ls,
  c13_holds_b gate ls ms = true ->
  exists runs, concat runs = ls /\ Forall2 HullOf ms runs /\ ordered ms.
Proof.
  unfold c13_holds_b.
  induction ms as [|m t IH]; intros ls H; cbn [runs_ok] in H.
  - destruct ls; [|discriminate]. exists []. repeat split; constructor.
  - destruct (take_run (m_end m) ls) as (run, rest) eqn:E.
    apply andb_prop in H. destruct H as (H12 & H3). apply andb_prop in H12. destruct H12 as (H1 & H2).
    destruct (IH rest H3) as (runs & Hc & Hf & Ho).
    exists (run :: runs). split; [|split].
    + cbn [concat]. rewrite Hc. symmetry. now apply take_run_split with (e := m_end m).
    + constructor; [now apply run_ok_hull with (gate := gate)|exact Hf].
    + cbn [ordered]. split; [|exact Ho]. destruct t as [|n t']; [exact I|]. now apply N.leb_le.
Qed.

(* every line of an accepted input lies inside one of the mappings *)
Lemma chain_inside : forall run s e l, chain s run e -> In l run -> s <= l_start l /\ l_end l <= e.
Proof.
  induction run as [|a t IH]; intros s e l Hc Hin; [destruct Hin|].
  cbn [chain] in Hc. destruct Hc as (Hs & Hlt & Ht). destruct Hin as [->|Hin].
  - apply chain_le in Ht. lia.
  - destruct (IH _ _ _ Ht Hin) as (A & B). lia.
Qed.

Theorem judge_covers gate ms ls l :
  c13_holds_b gate ls ms = true -> In l ls ->
  exists m, In m ms /\ m_start m <= l_start l /\ l_end l <= m_end m.
Proof.
  intros H Hin. destruct (judge_sound gate ms ls H) as (runs & Hc & Hf & _).
  subst ls. apply in_concat in Hin. destruct Hin as (run & Hr & Hl). clear H.
  revert Hr. induction Hf as [|m r ms' rs' Hh Hf IH]; intro Hr; [destruct Hr|].
  destruct Hr as [->|Hr].
  - exists m. split; [now left|]. destruct Hh as (_ & Hch). eapply chain_inside; eauto.
  - destruct (IH Hr) as (m' & Hin' & Hb). exists m'. split; [now right|exact Hb].
Qed.

(* the judge accepts what the model computes on a concrete map with every kind of merge (sanity: not vacuous) *)
Example judge_accepts_example : c13_holds_b None ex_lines (aggregate None ex_lines) = true.
Proof. vm_compute. reflexivity. Qed.

Print Assumptions judge_sound.
Print Assumptions judge_covers.
