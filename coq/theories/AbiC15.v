(* ABI entry for C15 *)
From Coq Require Import List NArith Arith Bool.
From MDW Require Import Bytes MemWriter ThreadNames AbiBase.
Import ListNotations.
Local Open Scope N_scope.

Fixpoint dec_threads (n : nat) (l : list N) : list thread :=
  match n with
  | O => []
  | S k =>
      match l with
      | tid :: has :: rest =>
          let '(nm, rest') := take_vec rest in
          (tid, if n2b has then Some nm else None) :: dec_threads k rest'
      | _ => []
      end
  end.

(* [n; (tid, has_name, name vec)...] -> [0; stream size (directory entry); bytes of the stream and its strings, rvas relative to the stream start] *)
Definition entry_c15 (args : list N) : list N :=
  match args with
  | n :: rest =>
      match names_write true (dec_threads (cnt n rest) rest) [] with
      | Ok (b, (_, sz)) => 0 :: sz :: b
      | Err => [1] | Panic => [2]
      end
  | _ => []
  end.
