(* ABI entries for the structural thread-list / memory-list / exception model *)
From Coq Require Import List NArith Arith Bool.
From MDW Require Import Bytes Maps StackInfo Shorten GenTypes Generated ThreadList AbiBase AbiC13.
Import ListNotations.
Local Open Scope N_scope.

Definition opt (has v : N) : option N := if n2b has then Some v else None.

(* [has_gate; gate; has_entry; entry; nlines; lines...] -> dumper mappings, rest *)
Definition dec_dumper_maps (l : list N) : list minfo * list N :=
  match l with
  | hg :: g :: he :: e :: n :: rest =>
      let '(ls, rest') := dec_lines (cnt n rest) rest in
      (dumper_mappings (opt hg g) (opt he e) ls, rest')
  | _ => ([], l)
  end.

Fixpoint dec_tobs (n : nat) (l : list N) : list tobs :=
  match n, l with
  | S k, tid :: att :: rsp :: rest => {| t_tid := tid; t_attached := n2b att; t_rsp := rsp |} :: dec_tobs k rest
  | _, _ => []
  end.
(* [n; (tid, attached, rsp)...] -> [count; tids...] *)
Definition entry_tl_listed (args : list N) : list N :=
  match args with
  | n :: rest => enc_vec (listed (dec_tobs (cnt n rest) rest))
  | _ => []
  end.

(* [sp; has_limit; limit; nthreads; idx; is_crash; maps...] -> [0] | [1; start; len] *)
Definition entry_tl_region (args : list N) : list N :=
  match args with
  | sp :: hl :: lim :: nth :: idx :: crash :: rest =>
      let '(ms, _) := dec_dumper_maps rest in
      let pos := 32 + 12 * NUM_WRITERS + 4 + 48 * nth in
      match thread_region (map to_smap ms) (shortened (opt hl lim) nth pos idx (n2b crash)) sp with
      | Some (s, l) => [1; s; l]
      | None => [0]
      end
  | _ => []
  end.

Fixpoint dec_tblocks (n : nat) (l : list N) : list tblocks * list N :=
  match n, l with
  | S k, hs :: s :: len :: hc :: ip :: rest =>
      let '(ts, r) := dec_tblocks k rest in
      ({| tb_stack := if n2b hs then Some (s, len) else None; tb_crash_ip := opt hc ip |} :: ts, r)
  | _, _ => ([], l)
  end.
Fixpoint dec_pairs (n : nat) (l : list N) : list (N * N) :=
  match n, l with
  | S k, a :: b :: rest => (a, b) :: dec_pairs k rest
  | _, _ => []
  end.
(* [maps...; nthreads; (has_stack; start; len; has_crash_ip; ip)...; napp; (ptr; len)...] -> [count; (addr; len)...] *)
Definition entry_tl_memlist (args : list N) : list N :=
  let '(ms, rest) := dec_dumper_maps args in
  match rest with
  | n :: rest1 =>
      let '(ths, rest2) := dec_tblocks (cnt n rest1) rest1 in
      match rest2 with
      | na :: rest3 =>
          let ml := memory_list ms ths (dec_pairs (cnt na rest3) rest3) in
          N.of_nat (length ml) :: flat_map (fun '(a, b) => [a; b]) ml
      | [] => []
      end
  | [] => []
  end.

(* [has_crash; signo; code; addr; has_ip; ip] -> [code; flags; address] *)
Definition entry_tl_exception (args : list N) : list N :=
  match args with
  | hc :: signo :: code :: addr :: hip :: ip :: _ =>
      let '(c, f, a) := exception_fields (if n2b hc then Some (signo, code, addr) else None) (opt hip ip) in [c; f; a]
  | _ => []
  end.
