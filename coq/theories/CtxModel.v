(* C04 / C05 model: conversion of a register file into CONTEXT_AMD64 bytes, driven by the assignment
   tables regenerated from the source (Generated.v).  The byte layout (offsets, widths) below is written
   independently from the AMD64 CONTEXT / FXSAVE definition.  Definitions only. *)
From Coq Require Import List NArith Arith Bool.
From MDW Require Import Bytes CpuCtx GenTypes.
Import ListNotations.
Local Open Scope nat_scope.

Record regfile := {
  rf_reg : reg -> N;            (* user_regs_struct member *)
  rf_dreg : N -> N;             (* debug register i *)
  rf_greg : greg -> N;          (* ucontext gregs[REG_x] *)
  rf_fp : fpf -> N;             (* scalar member of the FP state *)
  rf_st : bytes;                (* st_space, 128 bytes *)
  rf_xmm : bytes                (* xmm_space, 256 bytes *)
}.

Definition width_of_fpf (f : fpf) : nat :=
  match f with FP_cwd | FP_swd | FP_ftw | FP_fop => 2 | FP_rip | FP_rdp => 8 | FP_mxcsr | FP_mxcr_mask => 4 end.

Definition eval (s : src) (r : regfile) : N :=
  match s with
  | SReg x => rf_reg r x
  | SDreg i => rf_dreg r i
  | SGreg g => rf_greg r g
  | SGregShiftMask g sh mask => N.land (N.shiftr (rf_greg r g) sh) mask
  | SFp f cast => if (cast =? 0)%N then rf_fp r f else (rf_fp r f mod 256 ^ cast)%N
  | SConst n => n
  end.

(* ---- independent layout: CONTEXT_AMD64 (winnt.h) ---- *)
Definition CONTEXT_SIZE : nat := 1232.
Definition FLOAT_SAVE : nat := 256.
Definition cfield_layout (f : cfield) : nat * nat :=   (* offset, width *)
  match f with
  | C_context_flags => (48, 4) | C_mx_csr => (52, 4)
  | C_cs => (56, 2) | C_ds => (58, 2) | C_es => (60, 2) | C_fs => (62, 2) | C_gs => (64, 2) | C_ss => (66, 2)
  | C_eflags => (68, 4)
  | C_dr0 => (72, 8) | C_dr1 => (80, 8) | C_dr2 => (88, 8) | C_dr3 => (96, 8) | C_dr6 => (104, 8) | C_dr7 => (112, 8)
  | C_rax => (120, 8) | C_rcx => (128, 8) | C_rdx => (136, 8) | C_rbx => (144, 8) | C_rsp => (152, 8) | C_rbp => (160, 8)
  | C_rsi => (168, 8) | C_rdi => (176, 8)
  | C_r8 => (184, 8) | C_r9 => (192, 8) | C_r10 => (200, 8) | C_r11 => (208, 8) | C_r12 => (216, 8) | C_r13 => (224, 8)
  | C_r14 => (232, 8) | C_r15 => (240, 8) | C_rip => (248, 8)
  end.
(* FXSAVE / XMM_SAVE_AREA32, relative to float_save *)
Definition xfield_layout (f : xfield) : nat * nat :=
  match f with
  | X_control_word => (0, 2) | X_status_word => (2, 2) | X_tag_word => (4, 1) | X_reserved1 => (5, 1)
  | X_error_opcode => (6, 2) | X_error_offset => (8, 4) | X_error_selector => (12, 2) | X_reserved2 => (14, 2)
  | X_data_offset => (16, 4) | X_data_selector => (20, 2) | X_reserved3 => (22, 2)
  | X_mx_csr => (24, 4) | X_mx_csr_mask => (28, 4)
  end.
Definition xarray_layout (a : xarray) : nat * nat :=
  match a with XA_float_registers => (32, 128) | XA_xmm_registers => (160, 256) end.
Definition fparray_bytes (r : regfile) (a : fparray) : bytes :=
  match a with FA_st_space => rf_st r | FA_xmm_space => rf_xmm r end.

Definition scalar_assigns (tbl : list (cfield * src)) (xtbl : list (xfield * src)) (r : regfile) : list assign :=
  map (fun '(f, s) => let '(o, w) := cfield_layout f in (o, w, eval s r)) tbl
  ++ map (fun '(f, s) => let '(o, w) := xfield_layout f in (FLOAT_SAVE + o, w, eval s r)) xtbl.

(* copy_u32_registers copies min(|dst|, |src|) bytes *)
Definition apply_copy (r : regfile) (b : bytes) (c : xarray * fparray) : bytes :=
  let '(a, s) := c in
  let '(o, n) := xarray_layout a in
  update b (FLOAT_SAVE + o) (firstn n (fparray_bytes r s)).

Definition ctx_bytes (tbl : list (cfield * src)) (xtbl : list (xfield * src)) (copies : list (xarray * fparray))
           (r : regfile) : bytes :=
  fold_left (apply_copy r) copies (build CONTEXT_SIZE (scalar_assigns tbl xtbl r)).
