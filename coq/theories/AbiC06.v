(* ABI entries for C06 *)
From Coq Require Import List NArith Arith Bool.
From MDW Require Import StackInfo Shorten AbiBase.
Import ListNotations.
Local Open Scope N_scope.

Fixpoint dec_smaps (n : nat) (l : list N) : list smap * list N :=
  match n with
  | O => ([], l)
  | S k =>
      match l with
      | s :: sz :: ss :: se :: rw :: rest =>
          let '(ms, r) := dec_smaps k rest in
          ({| s_start := s; s_size := sz; s_sys_start := ss; s_sys_end := se; s_rw := n2b rw |} :: ms, r)
      | _ => ([], l)
      end
  end.

(* [sp0; nmaps; maps...] -> [0; v; len] | [1] | [2] | [3] *)
Definition entry_c06 (args : list N) : list N :=
  match args with
  | sp0 :: n :: rest =>
      let '(ms, _) := dec_smaps (cnt n rest) rest in
      match get_stack_info Strict FUEL ms sp0 with
      | Ok (v, len) => [0; v; len]
      | Err => [1] | Panic => [2] | Hang => [3]
      end
  | _ => []
  end.

(* [v; len; cap; sp] -> [start; len'] : the size-limit rule of fill_thread_stack *)
Definition entry_c06_shorten (args : list N) : list N :=
  match args with
  | v :: len :: cap :: sp :: _ => let '(s, l) := shorten_fixed v len cap sp in [s; l]
  | _ => []
  end.
