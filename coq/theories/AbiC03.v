(* ABI entry for C03 *)
From Coq Require Import List NArith Arith Bool.
From MDW Require Import Ptrace AbiBase.
Import ListNotations.
Local Open Scope N_scope.

Fixpoint dec_thrs (n : nat) (id : nat) (l : list N) : list thr :=
  match n, l with
  | S k, kind :: nsig :: rest =>
      {| t_id := id;
         t_kind := if kind =? 1 then AFail else if kind =? 2 then AWaitErr else if kind =? 3 then ASkip else AOk;
         t_sigs := repeat 34%nat (N.to_nat (N.min nsig 64)) |} :: dec_thrs k (S id) rest
  | _, _ => []
  end.

(* [n; (kind, signals seen while attaching)...; stop kind (0 init fails, 1 error after suspend, 2 completes); reads]
   -> [threads still traced; process still group-stopped; signals re-injected] in the final kernel state *)
Definition entry_c03_final (args : list N) : list N :=
  match args with
  | n :: rest =>
      let k := cnt n rest in
      let ts := dec_thrs k 0 rest in
      let '(_, tail) := take (2 * k) rest in
      match tail with
      | st :: reads :: _ =>
          let r := N.to_nat (N.min reads 1000) in
          let s := if st =? 0 then InitFails else if st =? 1 then AfterSuspend r else Completes r in
          let f := final (run ts s) in
          [N.of_nat (length (filter (fun t => traced f (t_id t)) ts)); b2n (gstop f); N.of_nat (length (delivered f))]
      | _ => []
      end
  | _ => []
  end.
