(* C01, directory half, for the whole-image model: in the final image (below 4 GiB) the header bytes are the header
   record (signature, version, declared stream count, directory position) and the directory bytes are exactly the
   encodings of the entries the sections handed over, in plan order - no later write disturbs them. *)
From Coq Require Import List NArith ZArith Arith Lia Bool ZifyNat ZifyN ZifyBool.
From MDW Require Import Bytes MemWriter Writer Hoare Text MiniDump MiniDumpProofs WComb WCombProofs WFrame MemInfo GenTypes Generated PlanProofs Image ImageProofs.
Import ListNotations.
Local Open Scope nat_scope.

(* ---------- frames of the bodies and sections ---------- *)
Ltac fr :=
  repeat first
    [ apply frame_ret | apply frame_blob | apply frame_alloc | apply frame_pos | apply frame_ref
    | apply frame_bind; [|intros ?]
    | match goal with
      | |- frame _ (match ?x with _ => _ end) => destruct x
      | |- frame _ (if ?x then _ else _) => destruct x
      end ].

Lemma thread_body_frame c F t st : frame F (thread_body c t st).
Proof. unfold thread_body. fr. Qed.
Lemma module_body_frame F m u : frame F (module_body m u).
Proof. unfold module_body, w_string. fr. Qed.
Lemma keep_frame {R} F (r : R) u : frame F (keep r u).
Proof. apply frame_ret. Qed.
Lemma link_body_frame F l u : frame F (link_body l u).
Proof. unfold link_body, w_string. fr. Qed.
Lemma name_body_frame F t u : frame F (name_body t u).
Proof. unfold name_body, w_string. fr. Qed.
Lemma handle_body_frame F h u : frame F (handle_body h u).
Proof. unfold handle_body, w_string. fr. Qed.

Lemma sec_app_memory_frame F regions : forall blocks, frame F (sec_app_memory regions blocks).
Proof. induction regions as [|(p, bs) r IH]; intro blocks; cbn [sec_app_memory]; [apply frame_ret|]. apply frame_bind; [apply frame_blob|]. intro l. apply IH. Qed.

Lemma run_step_frame F c st ds : frame F (run_step c st ds).
Proof.
  destruct st; cbn [run_step]; unfold sec_thread_list, sec_modules, sec_memory_list, sec_exception, sec_sysinfo, sec_meminfo, sec_raw, sec_dso, sec_names, sec_handles, w_string;
    repeat first
      [ apply frame_ret | apply frame_blob | apply frame_alloc | apply frame_pos | apply frame_ref | apply sec_app_memory_frame
      | apply frame_span_array; intros | apply frame_array; intros | apply frame_collect; intros | apply frame_slot; intros
      | apply frame_bind; [|intros ?]
      | apply thread_body_frame | apply module_body_frame | apply keep_frame | apply link_body_frame | apply name_body_frame | apply handle_body_frame
      | match goal with
        | |- frame _ (match ?x with _ => _ end) => destruct x
        | |- frame _ (if ?x then _ else _) => destruct x
        | |- frame _ (let '(_, _) := ?x in _) => destruct x
        end ].
Qed.

(* ---------- which steps hand an entry to the directory ---------- *)
Lemma run_step_shape c st ds s r s1 : run_step c st ds s = Ok (r, s1) ->
  match fst r, stream_type st with Some _, Some _ => True | None, None => True | _, _ => False end.
Proof.
  destruct st; cbn [run_step stream_type]; intro E; unfold bind in E;
    repeat match type of E with
           | match ?m with Ok _ => _ | Err => Err | Panic => Panic end = _ => destruct m as [[? ?]| |]; try discriminate
           end;
    try (injection E as <- <-); try exact I.
Qed.

(* ---------- list facts ---------- *)
Lemma firstn_add {A} n m (l : list A) : firstn (n + m) l = firstn n l ++ firstn m (skipn n l).
Proof. revert l. induction n as [|n IH]; intro l; [reflexivity|]. destruct l as [|x t]; [cbn; now rewrite firstn_nil|]. cbn. now rewrite IH. Qed.
Lemma slice_split b o n m : slice b o (n + m) = slice b o n ++ slice b (o + n) m.
Proof. unfold slice. rewrite firstn_add. f_equal. now rewrite skipn_add. Qed.
Lemma slice_firstn_eq a b o n : firstn (o + n) a = firstn (o + n) b -> slice a o n = slice b o n.
Proof. intro H. unfold slice. rewrite !firstn_skipn_comm. now rewrite H. Qed.

(* ---------- the plan keeps the header and fills the directory slots in order ---------- *)
Lemma run_plan_mono c dir_base : forall plan idx ds acc log s res s',
  run_plan c dir_base plan idx ds acc log s = Ok (res, s') -> blen s <= blen s'.
Proof.
  induction plan as [|st rest IH]; intros idx ds acc log s res s' E; cbn [run_plan] in E.
  - injection E as <- <-. lia.
  - unfold bind at 1 in E. destruct (run_step c st ds s) as [[r s1]| |] eqn:E1; try discriminate.
    destruct (run_step_frame 0 c st ds s r s1 E1 ltac:(lia)) as (L1 & _).
    unfold bind at 1 in E. cbn [w_get] in E.
    destruct (fst r) as [d|].
    + unfold bind at 1 in E. destruct (w_patch (dir_base + DIRENT_SZ * idx) (enc_dirent d) s1) as [[u s2]| |] eqn:E2; try discriminate.
      unfold bind at 1 in E. cbn [w_get] in E.
      destruct (frame_patch 0 _ _ ltac:(lia) _ _ _ E2 ltac:(lia)) as (L2 & _). specialize (IH _ _ _ _ _ _ _ E). lia.
    + specialize (IH _ _ _ _ _ _ _ E). lia.
Qed.

Lemma run_plan_dir c dir_base : forall plan idx ds acc log s dirs lg s',
  run_plan c dir_base plan idx ds acc log s = Ok ((dirs, lg), s') ->
  dir_base + DIRENT_SZ * (idx + length (types_of plan)) <= blen s ->
  length acc = idx -> small (blen s') ->
  slice (w_buf s) dir_base (DIRENT_SZ * idx) = concat (map enc_dirent (rev acc)) ->
  slice (w_buf s') dir_base (DIRENT_SZ * (idx + length (types_of plan))) = concat (map enc_dirent dirs) /\
  firstn dir_base (w_buf s') = firstn dir_base (w_buf s) /\ blen s <= blen s' /\
  length dirs = idx + length (types_of plan).
Proof.
  induction plan as [|st rest IH]; intros idx ds acc log s dirs lg s' E Hb Hacc Hs Hsl; cbn [run_plan] in E.
  - injection E as <- _ <-. cbn [types_of flat_map length]. rewrite Nat.add_0_r. split; [exact Hsl|]. split; [reflexivity|]. split; [lia|].
    now rewrite rev_length.
  - unfold bind at 1 in E. destruct (run_step c st ds s) as [[r s1]| |] eqn:E1; try discriminate.
    pose proof (run_step_shape _ _ _ _ _ _ E1) as Hshape.
    unfold bind at 1 in E. cbn [w_get] in E.
    cbn [types_of flat_map] in Hb |- *. fold (types_of rest) in Hb |- *.
    set (F := dir_base + DIRENT_SZ * idx) in *.
    destruct (run_step_frame F c st ds s r s1 E1 ltac:(unfold F, DIRENT_SZ in *; rewrite app_length in Hb; lia)) as (L1 & K1).
    destruct (fst r) as [d|] eqn:Ed; destruct (stream_type st) as [ty|] eqn:Et; try contradiction.
    + cbn [app length] in Hb |- *.
      unfold bind at 1 in E. destruct (w_patch F (enc_dirent d) s1) as [[u s2']| |] eqn:E2; try discriminate.
      assert (Hin : F + length (enc_dirent d) <= length (w_buf s1)) by (rewrite enc_dirent_len; unfold F, DIRENT_SZ, blen in *; lia).
      unfold w_patch in E2. rewrite write_at_inside in E2 by exact Hin. injection E2 as Hs2. subst s2'.
      unfold bind at 1 in E. cbn [w_get] in E.
      set (s2 := {| w_buf := update (w_buf s1) F (enc_dirent d); w_objs := w_objs s1; w_refs := w_refs s1 |}) in *.
      assert (L2 : blen s2 = blen s1) by (unfold blen, s2; cbn [w_buf]; now rewrite update_length).
      destruct (IH (S idx) (snd r) (d :: acc) _ s2 dirs lg s' E ltac:(unfold DIRENT_SZ in *; lia) ltac:(cbn [length]; lia) Hs) as (R1 & R2 & R3 & R4).
      * (* the slots filled so far, in the state after the patch *)
        replace (DIRENT_SZ * S idx) with (DIRENT_SZ * idx + DIRENT_SZ) by lia. rewrite slice_split. fold F.
        cbn [rev]. rewrite map_app, concat_app. cbn [map concat]. rewrite app_nil_r. f_equal.
        -- rewrite <- Hsl. unfold s2. cbn [w_buf].
           rewrite (slice_update_before (w_buf s1) F (enc_dirent d) dir_base (DIRENT_SZ * idx)); [|unfold F; lia|unfold F, blen in *; lia].
           apply slice_firstn_eq. fold F. apply K1. eapply small_le; [|exact Hs]. pose proof (run_plan_mono _ _ _ _ _ _ _ _ _ _ E). lia.
        -- unfold s2. cbn [w_buf]. rewrite <- (enc_dirent_len d). now apply slice_update_same.
      * replace (idx + S (length (types_of rest))) with (S idx + length (types_of rest)) by lia.
        split; [exact R1|]. split; [|split; [lia|lia]].
        rewrite R2. unfold s2. cbn [w_buf].
        transitivity (firstn dir_base (w_buf s1)).
        -- unfold update. rewrite firstn_app, firstn_firstn, firstn_length. replace (Nat.min dir_base F) with dir_base by (unfold F; lia).
           replace (dir_base - Nat.min F (length (w_buf s1))) with 0 by (unfold F in *; lia). cbn [firstn]. now rewrite app_nil_r.
        -- eapply firstn_le_eq; [|apply K1; eapply small_le; [|exact Hs]; lia]. unfold F; lia.
    + cbn [app] in Hb |- *.
      destruct (IH idx (snd r) acc _ s1 dirs lg s' E ltac:(lia) Hacc Hs) as (R1 & R2 & R3 & R4).
      * rewrite <- Hsl. apply slice_firstn_eq. fold F. apply K1. eapply small_le; [|exact Hs]. pose proof (run_plan_mono _ _ _ _ _ _ _ _ _ _ E). lia.
      * split; [exact R1|]. split; [|split; [lia|exact R4]].
        rewrite R2. eapply firstn_le_eq; [|apply K1; eapply small_le; [|exact Hs]; lia]. unfold F; lia.
Qed.

Lemma image_eq c : image c empty_wst = run_plan c HEADER_SZ (map fst stream_plan) 0 ([], CNone) [] [(head_state c, [])] (head_state c).
Proof. unfold image. unfold bind at 1. rewrite image_head_eq. reflexivity. Qed.

Lemma side1 c : HEADER_SZ + DIRENT_SZ * (0 + length (types_of (map fst stream_plan))) <= blen (head_state c).
Proof. rewrite head_state_len, plan_types_are. vm_compute. lia. Qed.

Theorem image_directory c dirs lg s' :
  image c empty_wst = Ok ((dirs, lg), s') -> small (blen s') ->
  slice (w_buf s') 0 HEADER_SZ = enc_header (ic_time c) (N.of_nat HEADER_SZ) /\
  slice (w_buf s') HEADER_SZ (DIRENT_SZ * NUM_DIRS) = concat (map enc_dirent dirs) /\
  length dirs = NUM_DIRS.
Proof.
  intros E Hs. rewrite image_eq in E.
  destruct (run_plan_dir c HEADER_SZ (map fst stream_plan) 0 ([], CNone) [] _ (head_state c) dirs lg s' E (side1 c) eq_refl Hs eq_refl) as (R1 & R2 & R3 & R4).
  rewrite plan_types_are in R1, R4. change (length plan_types) with NUM_DIRS in R1, R4. cbn [plus] in R1, R4.
  split; [|split; [exact R1|exact R4]].
  transitivity (slice (w_buf (head_state c)) 0 HEADER_SZ).
  + apply slice_firstn_eq. exact R2.
  + unfold head_state. cbn [w_buf]. change (N.of_nat HEADER_SZ) with 32%N.
    rewrite <- (enc_header_len (ic_time c) 32%N). apply slice_update_same.
    rewrite enc_header_len, app_length, !repeat_length. unfold HEADER_SZ. cbn. lia.
Qed.
Print Assumptions image_directory.
