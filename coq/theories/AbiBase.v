(* Flat ABI helpers: every model entry point exposed to the harness has type list N -> list N;
   the structured input is decoded here, in Gallina, so the OCaml driver needs no per-property glue. *)
From Coq Require Import List NArith Arith Bool.
From MDW Require Import Bytes.
Import ListNotations.
Local Open Scope N_scope.

Fixpoint take (n : nat) (l : list N) : list N * list N :=
  match n, l with
  | O, _ => ([], l)
  | S k, x :: t => let '(a, b) := take k t in (x :: a, b)
  | S _, [] => ([], [])
  end.

(* bounded conversion: a count can never exceed what is left of the argument list *)
Definition cnt (n : N) (rest : list N) : nat :=
  if n <=? N.of_nat (length rest) then N.to_nat n else length rest.

(* [len; x1 .. xlen] *)
Definition take_vec (l : list N) : list N * list N :=
  match l with
  | n :: rest => take (cnt n rest) rest
  | [] => ([], [])
  end.

(* fields: [nf; w1; v1; ...] -> concatenated little-endian serialisation *)
Fixpoint ser_fields (nf : nat) (l : list N) : bytes * list N :=
  match nf, l with
  | S k, w :: v :: rest =>
      let '(b, rest') := ser_fields k rest in (le (N.to_nat (N.min w 64)) v ++ b, rest')
  | _, _ => ([], l)
  end.
Definition take_fields (l : list N) : bytes * list N :=
  match l with
  | nf :: rest => ser_fields (cnt nf rest) rest
  | [] => ([], [])
  end.

Fixpoint take_many {A} (f : list N -> A * list N) (n : nat) (l : list N) : list A * list N :=
  match n with
  | O => ([], l)
  | S k => let '(a, rest) := f l in let '(r, rest') := take_many f k rest in (a :: r, rest')
  end.

Definition enc_vec (l : list N) : list N := N.of_nat (length l) :: l.
Definition b2n (b : bool) : N := if b then 1 else 0.
Definition n2b (n : N) : bool := negb (n =? 0).
