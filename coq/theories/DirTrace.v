(* C09 / C10 model: the destination-call trace of the directory-section writer (src/dir_section.rs).
   Definitions only.  [ef] = true is the entry-before-data order of the unrepaired code. *)
From Coq Require Import List NArith Arith Bool.
From MDW Require Import Bytes DirSection.
Import ListNotations.
Local Open Scope nat_scope.

(* a call on the destination (Write + Seek); stream_position() is a seek that moves nothing *)
Inductive call := CWrite (v : bytes) | CSeek (p : nat).
Definition apply_call (d : dest) (c : call) : dest :=
  match c with CWrite v => dwrite d v | CSeek p => dseek d p end.

(* destination states after each call *)
Fixpoint snapshots (d : dest) (cs : list call) : list dest :=
  match cs with
  | [] => []
  | c :: t => let d' := apply_call d c in d' :: snapshots d' t
  end.
Definition run_calls (d : dest) (cs : list call) : dest := fold_left apply_call cs d.

(* calls of dump_dir_entry when the cursor is at [cur] *)
Definition dirent_calls (buf' : bytes) (s : dirsec) (cur : nat) : list call :=
  let off := ds_sec s + 12 * ds_idx s in
  [CSeek cur; CSeek (ds_start s + off); CWrite (slice buf' off 12); CSeek cur].

Definition bump (s : dirsec) : dirsec :=
  {| ds_idx := S (ds_idx s); ds_sec := ds_sec s; ds_n := ds_n s; ds_start := ds_start s; ds_last := ds_last s |}.

(* one write_to_file: new buffer, new section state, calls issued (cursor at [cur] on entry) *)
Definition wtf_calls (ef : bool) (buf : bytes) (s : dirsec) (cur : nat) (e : option bytes)
  : bytes * dirsec * list call :=
  match e with
  | None => (buf, set_last s (length buf), [CWrite (skipn (ds_last s) buf)])
  | Some e =>
      let off := ds_sec s + 12 * ds_idx s in
      let buf' := update buf off e in
      if ef then
        (buf', set_last (bump s) (length buf'),
         dirent_calls buf' s cur ++ [CWrite (skipn (ds_last s) buf')])
      else
        let data := skipn (ds_last s) buf in
        (buf', set_last (bump s) (length buf),
         CWrite data :: dirent_calls buf' s (cur + length data))
  end.

Inductive dop := DGrow (bs : bytes) | DFlush (e : option bytes).

(* state: image buffer, section, destination; every call is applied as it is issued *)
Definition dstep (ef : bool) (st : bytes * dirsec * dest) (o : dop) : (bytes * dirsec * dest) * list dest :=
  let '(buf, s, d) := st in
  match o with
  | DGrow bs => ((buf ++ bs, s, d), [])
  | DFlush e =>
      let '(buf', s', cs) := wtf_calls ef buf s (d_pos d) e in
      ((buf', s', run_calls d cs), snapshots d cs)
  end.

Fixpoint drun (ef : bool) (st : bytes * dirsec * dest) (ops : list dop) : (bytes * dirsec * dest) * list dest :=
  match ops with
  | [] => (st, [])
  | o :: t => let '(st1, sn1) := dstep ef st o in
              let '(st2, sn2) := drun ef st1 t in (st2, sn1 ++ sn2)
  end.

(* the whole protocol as the writers use it: reserve the directory, then operations *)
Definition dstart (buf0 : bytes) (n : nat) (d0 : dest) : bytes * dirsec * dest :=
  let '(b, s) := ds_new buf0 n d0 in (b, s, d0).

(* ---- C10: executable consistency of a prefix ---- *)
Definition ent_zero (e : bytes) : bool := forallb (N.eqb 0) e.
Definition entry_ok_b (e : bytes) (len : nat) : bool :=
  ent_zero e || (unle (slice e 8 4) + unle (slice e 4 4) <=? N.of_nat len)%N.
(* region [r] = destination bytes from the starting position; directory of n entries at [sec] *)
Definition consistent_b (r : bytes) (sec n : nat) : bool :=
  (sec + 12 * n <=? length r)
  && forallb (fun i => entry_ok_b (slice r (sec + 12 * i) 12) (length r)) (seq 0 n).
