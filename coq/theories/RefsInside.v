(* C10 / C01: in every state of the builder that satisfies the invariant - in particular after every step of the
   reduced whole dump, hence at every flush - each location already stored in the image designates bytes that are
   already part of the image built so far (or is the empty location). *)
From Coq Require Import List NArith Arith Lia Bool ZifyNat ZifyN.
From MDW Require Import Bytes MemWriter Writer Hoare MiniDump MiniDumpProofs.
Import ListNotations.
Local Open Scope nat_scope.

Definition ref_inside (len : nat) (r : ref) : Prop :=
  r_len r = 0%N \/ N.to_nat (r_rva r) + N.to_nat (r_len r) <= len.

Theorem inv_refs_inside s : Inv s -> Forall (ref_inside (length (w_buf s))) (w_refs s).
Proof.
  intros [Ht Hr]. eapply Forall_impl; [|exact Hr]. intros r [H0|(o & Hin & _ & Hrva & Hlen)]; [now left|right].
  pose proof (tiled_bounds _ _ o Ht Hin) as Hb. pose proof (u32_le (o_rva o)) as Hu.
  rewrite <- Hrva, <- Hlen, Nat2N.id. lia.
Qed.

(* for the whole reduced dump: when it succeeds, every stored location lies inside the final image *)
Corollary dump_refs_inside reset w cfg ca r s' :
  dump reset w cfg ca empty_wst = Ok (r, s') -> Forall (ref_inside (length (w_buf s'))) (w_refs s').
Proof. intro E. apply inv_refs_inside. eapply dump_ok; eauto. Qed.

Print Assumptions inv_refs_inside.
