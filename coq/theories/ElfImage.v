(* C14, functional half end to end for one family of well-formed files: a minimal ELF64 image whose only
   program header is a PT_NOTE segment holding an encoded note list.  For every note list containing a GNU
   build-id note, the whole reader [build_id] - header, program headers, note search - returns exactly that
   note's descriptor. *)
From Coq Require Import List NArith ZArith Arith Lia Bool ZifyNat ZifyN ZifyBool.
From MDW Require Import Bytes Elf ElfNotes.
Import ListNotations.
Local Open Scope nat_scope.

Definition hdr64 : bytes :=
  ([0x7f; 0x45; 0x4c; 0x46; 2; 1; 1; 0; 0; 0; 0; 0; 0; 0; 0; 0]        (* e_ident: ELF64, little endian *)
   ++ le 2 3 ++ le 2 62 ++ le 4 1 ++ le 8 0                              (* ET_DYN, x86-64, version, entry *)
   ++ le 8 64 ++ le 8 0 ++ le 4 0                                        (* e_phoff = 64, e_shoff = 0, flags *)
   ++ le 2 64 ++ le 2 56 ++ le 2 1 ++ le 2 64 ++ le 2 0 ++ le 2 0)%N.    (* ehsize, phentsize, phnum = 1, shentsize, shnum, shstrndx *)
Definition ph_fixed : bytes := (le 4 4 ++ le 4 4 ++ le 8 120 ++ le 8 0 ++ le 8 0)%N.   (* PT_NOTE, R, offset 120, vaddr, paddr *)
Definition ph_note (a fs : nat) : bytes := ph_fixed ++ le 8 (N.of_nat fs) ++ le 8 (N.of_nat fs) ++ le 8 (N.of_nat a).
Definition image (a : nat) (ns : list note) : bytes :=
  hdr64 ++ ph_note a (length (enc_notes a ns)) ++ enc_notes a ns.

Definition the_header : ehdr :=
  {| e_class64 := true; e_phoff := 64; e_shoff := 0; e_phentsize := 56; e_phnum := 1; e_shentsize := 64; e_shnum := 0; e_shstrndx := 0 |}.
Lemma hdr64_length : length hdr64 = 64. Proof. reflexivity. Qed.
Lemma hdr64_parses : parse_header hdr64 = Ok the_header. Proof. vm_compute. reflexivity. Qed.
Lemma ph_fixed_length : length ph_fixed = 32. Proof. reflexivity. Qed.
Lemma ph_note_length a fs : length (ph_note a fs) = 56.
Proof. unfold ph_note. rewrite !app_length, !le_length, ph_fixed_length. reflexivity. Qed.

(* reads of the slice-mode memory of an image *)
Lemma rd_mid (x y z : bytes) :
  y <> [] -> (N.of_nat (length (x ++ y ++ z)) < 2 ^ 63)%N ->
  rd (mem_of (x ++ y ++ z)) (N.of_nat (length x)) (N.of_nat (length y)) = Ok y.
Proof.
  intros Hy Hs. unfold rd, mem_of. cbn [m_start m_size m_byte]. rewrite !app_length in Hs.
  destruct (W64 <=? N.of_nat (length x) + N.of_nat (length y))%N eqn:C1; [apply N.leb_le in C1; unfold W64 in C1; lia|].
  destruct (N.of_nat (length x) + N.of_nat (length y) <=? N.of_nat (length (x ++ y ++ z)))%N eqn:C2.
  2:{ apply N.leb_gt in C2. rewrite !app_length in C2. lia. }
  rewrite Nat2N.id, prefix_from_nth by (rewrite !app_length; lia).
  change (firstn (length y) (skipn (length x) (x ++ y ++ z))) with (slice (x ++ y ++ z) (length x) (length y)).
  now rewrite slice_mid.
Qed.

Lemma get_in_prefix (x z : bytes) off w : off + w <= length x -> get (x ++ z) off w = get x off w.
Proof.
  intro H. unfold get. rewrite app_length.
  destruct (off + w <=? length x + length z) eqn:A; [|apply Nat.leb_gt in A; lia].
  destruct (off + w <=? length x) eqn:B; [|apply Nat.leb_gt in B; lia].
  unfold slice. rewrite skipn_app, firstn_app, skipn_length.
  replace (w - (length x - off)) with 0 by lia. cbn [firstn]. now rewrite app_nil_r.
Qed.

Lemma parse_ph_note a fs : (N.of_nat fs < 2 ^ 63)%N -> a = 4 \/ a = 8 ->
  parse_phdr true (ph_note a fs) 0 =
    Some {| p_type := 4; p_offset := 120; p_vaddr := 0; p_filesz := N.of_nat fs; p_memsz := N.of_nat fs; p_align := N.of_nat a |}.
Proof.
  intros Hfs Ha. unfold parse_phdr, ph_note.
  rewrite (get_in_prefix ph_fixed _ 0 4), (get_in_prefix ph_fixed _ (0 + 8) 8), (get_in_prefix ph_fixed _ (0 + 16) 8)
    by (rewrite ph_fixed_length; lia).
  change (get ph_fixed 0 4) with (Some 4%N). change (get ph_fixed (0 + 8) 8) with (Some 120%N).
  change (get ph_fixed (0 + 16) 8) with (Some 0%N).
  assert (B : (256 ^ N.of_nat 8 = 2 ^ 64)%N) by reflexivity.
  rewrite (get_mid ph_fixed _ 8 (N.of_nat fs) (0 + 32)) by (rewrite ?ph_fixed_length, ?B; lia).
  rewrite (app_assoc ph_fixed).
  rewrite (get_mid (ph_fixed ++ le 8 (N.of_nat fs)) _ 8 (N.of_nat fs) (0 + 40))
    by (rewrite ?app_length, ?le_length, ?ph_fixed_length, ?B; lia).
  rewrite (app_assoc (ph_fixed ++ le 8 (N.of_nat fs))).
  rewrite <- (app_nil_r (le 8 (N.of_nat a))).
  rewrite (get_mid ((ph_fixed ++ le 8 (N.of_nat fs)) ++ le 8 (N.of_nat fs)) [] 8 (N.of_nat a) (0 + 48))
    by (rewrite ?app_length, ?le_length, ?ph_fixed_length, ?B; lia).
  reflexivity.
Qed.

Theorem build_id_of_image a ns d :
  a = 4 \/ a = 8 -> Forall wf_note ns -> first_build_id ns = Some d ->
  (N.of_nat (length (image a ns)) < 2 ^ 63)%N ->
  build_id true (mem_of (image a ns)) = Ok d.
Proof.
  intros Ha Hwf Hd Hsz.
  set (notes := enc_notes a ns) in *.
  assert (Hne : notes <> []).
  { unfold notes. destruct ns as [|n t]; [discriminate|]. cbn [enc_notes]. intro E.
    apply (f_equal (@length N)) in E. rewrite app_length, enc_note_length in E by exact Ha.
    pose proof (align_up_ge a (12 + length (n_name n) + 1) Ha).
    pose proof (align_up_ge a (rel1 a n + length (n_desc n)) Ha). unfold rel2, rel1 in *. cbn [length] in E. lia. }
  assert (Hlen : length (image a ns) = 120 + length notes).
  { unfold image. fold notes. rewrite !app_length, hdr64_length, ph_note_length. lia. }
  unfold build_id.
  (* the header *)
  assert (R0 : rd (mem_of (image a ns)) 0 64 = Ok hdr64).
  { unfold image. fold notes.
    pose proof (rd_mid [] hdr64 (ph_note a (length notes) ++ notes)) as H. cbn [app length] in H.
    rewrite hdr64_length in H. apply H; [discriminate|]. unfold image in Hsz. fold notes in Hsz. exact Hsz. }
  rewrite R0. cbn [bind]. rewrite hdr64_parses. cbn [bind].
  (* the program header table *)
  assert (R1 : read_program_headers (mem_of (image a ns)) the_header =
               Ok [{| p_type := 4; p_offset := 120; p_vaddr := 0; p_filesz := N.of_nat (length notes);
                      p_memsz := N.of_nat (length notes); p_align := N.of_nat a |}]).
  { unfold read_program_headers, the_header. cbn [e_phoff e_phentsize e_phnum e_class64]. cbn [N.eqb Pos.eqb].
    replace (rd (mem_of (image a ns)) 64 (56 * 1)) with
      (rd (mem_of (image a ns)) (N.of_nat (length hdr64)) (N.of_nat (length (ph_note a (length notes)))))
      by (rewrite hdr64_length, ph_note_length; reflexivity).
    unfold image. fold notes. rewrite rd_mid.
    - cbn [bind phdr_size]. rewrite ph_note_length. cbn [Nat.div Nat.divmod fst Nat.ltb Nat.leb N.to_nat Pos.to_nat Pos.iter_op].
      change (Pos.to_nat 1) with 1. cbn [parse_many]. rewrite parse_ph_note by (try exact Ha; lia). reflexivity.
    - intro E. apply (f_equal (@length N)) in E. rewrite ph_note_length in E. discriminate.
    - unfold image in Hsz. fold notes in Hsz. exact Hsz. }
  rewrite R1. cbn [bind first_note p_type p_offset p_filesz p_align]. cbn [N.eqb Pos.eqb].
  (* the note search *)
  assert (R2 : find_build_id_note (mem_of (image a ns)) 120 (N.of_nat (length notes)) (N.of_nat a) = Ok (Some d)).
  { rewrite <- Hd. unfold image.
    replace (hdr64 ++ ph_note a (length (enc_notes a ns)) ++ enc_notes a ns)
      with ((hdr64 ++ ph_note a (length notes)) ++ enc_notes a ns ++ []) by (rewrite app_nil_r, <- app_assoc; reflexivity).
    replace 120%N with (N.of_nat (length (hdr64 ++ ph_note a (length notes)))) by (rewrite app_length, hdr64_length, ph_note_length; reflexivity).
    apply find_build_id_note_roundtrip; [exact Ha|exact Hwf|exact Hne|].
    rewrite app_nil_r, <- app_assoc. exact Hsz. }
  rewrite R2. reflexivity.
Qed.

(* not vacuous *)
Example image_example :
  let ns := [ {| n_name := GNU; n_desc := [1; 2; 3; 4]%N; n_type := 3%N |} ] in
  build_id true (mem_of (image 4 ns)) = Ok [1; 2; 3; 4]%N.
Proof. vm_compute. reflexivity. Qed.

Print Assumptions build_id_of_image.
