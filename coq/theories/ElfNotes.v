(* C14, functional half for the note search: an encoder of note sections (any number of notes, any name and
   descriptor lengths, 4- or 8-byte alignment) and the round trip: the note iterator of the build-id reader,
   run over an encoded section, returns the descriptor of the first GNU note of type 3 (NT_GNU_BUILD_ID), or
   nothing when there is none - for every list of notes. *)
From Coq Require Import List NArith ZArith Arith Lia Bool ZifyNat ZifyN ZifyBool.
From MDW Require Import Bytes Elf.
Import ListNotations.
Local Open Scope nat_scope.
Ltac Zify.zify_post_hook ::= Z.div_mod_to_equations.

Record note := { n_name : bytes; n_desc : bytes; n_type : N }.

Definition rel1 (a : nat) (n : note) : nat := align_up a (12 + length (n_name n) + 1).
Definition rel2 (a : nat) (n : note) : nat := align_up a (rel1 a n + length (n_desc n)).
Definition enc_note (a : nat) (n : note) : bytes :=
  le 4 (N.of_nat (length (n_name n) + 1)) ++ le 4 (N.of_nat (length (n_desc n))) ++ le 4 (n_type n)
  ++ n_name n ++ repeat 0%N (rel1 a n - (12 + length (n_name n)))
  ++ n_desc n ++ repeat 0%N (rel2 a n - (rel1 a n + length (n_desc n))).
Fixpoint enc_notes (a : nat) (ns : list note) : bytes :=
  match ns with [] => [] | n :: t => enc_note a n ++ enc_notes a t end.

Definition wf_note (n : note) : Prop :=
  ascii_only (n_name n) = true /\ (N.of_nat (length (n_name n)) < 2 ^ 31)%N /\
  (N.of_nat (length (n_desc n)) < 2 ^ 31)%N /\ (n_type n < 2 ^ 32)%N.
Definition is_build_id (n : note) : bool := is_gnu (n_name n) && (n_type n =? 3)%N.
Definition first_build_id (ns : list note) : option bytes := option_map n_desc (find is_build_id ns).

(* ---- arithmetic of the alignment ---- *)
Lemma align_up_ge a x : a = 4 \/ a = 8 -> x <= align_up a x.
Proof. intros [->| ->]; unfold align_up; lia. Qed.
Lemma align_up_shift a k x : a = 4 \/ a = 8 -> align_up a (a * k + x) = a * k + align_up a x.
Proof. intros [->| ->]; unfold align_up; lia. Qed.
Lemma align_up_mult a x : a = 4 \/ a = 8 -> exists k, align_up a x = a * k.
Proof. intros [->| ->]; unfold align_up; [exists ((x + 4 - 1) / 4)|exists ((x + 8 - 1) / 8)]; lia. Qed.

Lemma enc_note_length a n : a = 4 \/ a = 8 -> length (enc_note a n) = rel2 a n.
Proof.
  intro Ha. unfold enc_note. rewrite !app_length, !le_length, !repeat_length.
  pose proof (align_up_ge a (12 + length (n_name n) + 1) Ha).
  pose proof (align_up_ge a (rel1 a n + length (n_desc n)) Ha).
  unfold rel2, rel1 in *. lia.
Qed.

(* ---- reading inside a concatenation ---- *)
Lemma slice_mid (x y z : bytes) off n : off = length x -> n = length y -> slice (x ++ y ++ z) off n = y.
Proof.
  intros -> ->. unfold slice. rewrite skipn_app, skipn_all2, Nat.sub_diag by lia. cbn [skipn app].
  rewrite firstn_app, Nat.sub_diag, firstn_all. cbn [firstn]. now rewrite app_nil_r.
Qed.
Lemma get_mid (x z : bytes) w v off : off = length x -> (v < 256 ^ N.of_nat w)%N ->
  get (x ++ le w v ++ z) off w = Some v.
Proof.
  intros -> Hv. unfold get. rewrite !app_length, le_length.
  destruct (length x + w <=? length x + (w + length z)) eqn:E; [|apply Nat.leb_gt in E; lia].
  rewrite (slice_mid x (le w v) z) by (rewrite ?le_length; reflexivity).
  rewrite unle_le. now rewrite N.mod_small.
Qed.

(* ---- one note ---- *)
Lemma parse_note_enc a pre n rest k :
  a = 4 \/ a = 8 -> length pre = a * k -> wf_note n ->
  parse_note a (pre ++ enc_note a n ++ rest) (length pre) =
    Some (n_name n, n_desc n, n_type n, length pre + length (enc_note a n)).
Proof.
  intros Ha Hk (Hasc & Hn & Hd & Ht).
  set (b := pre ++ enc_note a n ++ rest).
  pose proof (align_up_ge a (12 + length (n_name n) + 1) Ha) as G1.
  pose proof (align_up_ge a (rel1 a n + length (n_desc n)) Ha) as G2.
  fold (rel1 a n) in G1. fold (rel2 a n) in G2.
  set (h1 := le 4 (N.of_nat (length (n_name n) + 1))).
  set (h2 := le 4 (N.of_nat (length (n_desc n)))).
  set (h3 := le 4 (n_type n)).
  set (p1 := repeat 0%N (rel1 a n - (12 + length (n_name n)))).
  set (p2 := repeat 0%N (rel2 a n - (rel1 a n + length (n_desc n)))).
  assert (Eb : b = pre ++ h1 ++ h2 ++ h3 ++ n_name n ++ p1 ++ n_desc n ++ p2 ++ rest).
  { unfold b, enc_note. fold h1 h2 h3 p1 p2. now rewrite <- !app_assoc. }
  assert (L1 : length h1 = 4) by apply le_length.
  assert (L2 : length h2 = 4) by apply le_length.
  assert (L3 : length h3 = 4) by apply le_length.
  assert (Lp1 : length p1 = rel1 a n - (12 + length (n_name n))) by apply repeat_length.
  assert (Lp2 : length p2 = rel2 a n - (rel1 a n + length (n_desc n))) by apply repeat_length.
  assert (Lb : length b = length pre + rel2 a n + length rest).
  { unfold b. rewrite !app_length, enc_note_length by exact Ha. lia. }
  unfold parse_note.
  (* the three header words *)
  assert (Gn : get b (length pre) 4 = Some (N.of_nat (length (n_name n) + 1))).
  { rewrite Eb. apply get_mid; [reflexivity|]. change (256 ^ N.of_nat 4)%N with (2 ^ 32)%N. lia. }
  assert (Gd : get b (length pre + 4) 4 = Some (N.of_nat (length (n_desc n)))).
  { rewrite Eb. rewrite (app_assoc pre h1). apply get_mid; [rewrite app_length; lia|].
    change (256 ^ N.of_nat 4)%N with (2 ^ 32)%N. lia. }
  assert (Gt : get b (length pre + 8) 4 = Some (n_type n)).
  { rewrite Eb. rewrite (app_assoc pre h1), (app_assoc (pre ++ h1) h2).
    apply get_mid; [rewrite !app_length; lia|]. change (256 ^ N.of_nat 4)%N with (2 ^ 32)%N. exact Ht. }
  rewrite Gn, Gd, Gt.
  replace (N.of_nat (length (n_name n) + 1) - 1)%N with (N.of_nat (length (n_name n))) by lia.
  rewrite Nat2N.id.
  destruct (N.of_nat (length b) <? N.of_nat (length (n_name n)))%N eqn:C1; [apply N.ltb_lt in C1; lia|].
  destruct (N.of_nat (length b) <? N.of_nat (length (n_desc n)))%N eqn:C2;
    [apply N.ltb_lt in C2; unfold rel2 in *; lia|].
  destruct (length pre + 12 + length (n_name n) <=? length b) eqn:C3; [|apply Nat.leb_gt in C3; lia].
  destruct (N.of_nat (length (n_name n) + 1) =? 0)%N eqn:C4; [apply N.eqb_eq in C4; lia|].
  rewrite Nat2N.id.
  (* the two aligned offsets, relative to the start of this note *)
  assert (O2 : align_up a (length pre + 12 + length (n_name n) + 1) = length pre + rel1 a n).
  { rewrite Hk. unfold rel1. rewrite <- (align_up_shift a k) by exact Ha. f_equal. lia. }
  rewrite O2.
  assert (O3 : align_up a (length pre + rel1 a n + length (n_desc n)) = length pre + rel2 a n).
  { rewrite Hk. unfold rel2. rewrite <- (align_up_shift a k) by exact Ha. f_equal. lia. }
  rewrite O3.
  destruct ((length pre + rel1 a n <=? length b) && (length (n_desc n) <=? length b - (length pre + rel1 a n))) eqn:C5.
  2:{ apply andb_false_iff in C5. destruct C5 as [C5|C5]; apply Nat.leb_gt in C5; lia. }
  rewrite enc_note_length by exact Ha.
  (* the two slices *)
  assert (Sn : slice b (length pre + 12) (length (n_name n)) = n_name n).
  { rewrite Eb. rewrite (app_assoc pre h1), (app_assoc (pre ++ h1) h2), (app_assoc ((pre ++ h1) ++ h2) h3).
    apply slice_mid; [rewrite !app_length; lia|reflexivity]. }
  assert (Sd : slice b (length pre + rel1 a n) (length (n_desc n)) = n_desc n).
  { rewrite Eb. rewrite (app_assoc pre h1), (app_assoc (pre ++ h1) h2), (app_assoc ((pre ++ h1) ++ h2) h3),
      (app_assoc (((pre ++ h1) ++ h2) ++ h3) (n_name n)), (app_assoc ((((pre ++ h1) ++ h2) ++ h3) ++ n_name n) p1).
    apply slice_mid; [rewrite !app_length; lia|reflexivity]. }
  rewrite Sn, Sd. reflexivity.
Qed.

(* ---- the iterator over an encoded section ---- *)
Lemma note_iter_enc a : a = 4 \/ a = 8 -> forall ns fuel pre k,
  length pre = a * k -> Forall wf_note ns -> length ns < fuel ->
  note_iter fuel a (pre ++ enc_notes a ns) (N.of_nat (length (pre ++ enc_notes a ns))) (length pre)
    = Ok (first_build_id ns).
Proof.
  intro Ha. induction ns as [|n t IH]; intros fuel pre k Hk Hwf Hf.
  - destruct fuel as [|f]; [lia|]. cbn [note_iter enc_notes]. rewrite app_nil_r.
    rewrite N.leb_refl. reflexivity.
  - destruct fuel as [|f]; [cbn in Hf; lia|]. cbn [note_iter enc_notes].
    inversion Hwf as [|n' t' Hn Ht]; subst.
    pose proof (enc_note_length a n Ha) as Ln.
    pose proof (align_up_ge a (12 + length (n_name n) + 1) Ha) as G1.
    pose proof (align_up_ge a (rel1 a n + length (n_desc n)) Ha) as G2.
    fold (rel1 a n) in G1. fold (rel2 a n) in G2.
    destruct (N.of_nat (length (pre ++ enc_note a n ++ enc_notes a t)) <=? N.of_nat (length pre))%N eqn:C.
    { apply N.leb_le in C. rewrite !app_length in C. lia. }
    rewrite (parse_note_enc a pre n (enc_notes a t) k Ha Hk Hn).
    destruct Hn as (Hasc & _). rewrite Hasc. cbn [negb].
    unfold first_build_id. cbn [find]. fold (is_build_id n).
    destruct (is_build_id n) eqn:Eb.
    + reflexivity.
    + destruct (align_up_mult a (rel1 a n + length (n_desc n)) Ha) as (k2 & Hk2). fold (rel2 a n) in Hk2.
      specialize (IH f (pre ++ enc_note a n) (k + k2)).
      rewrite <- app_assoc in IH. rewrite app_length in IH. apply IH.
      * rewrite Ln, Hk, Hk2. lia.
      * exact Ht.
      * cbn [length] in Hf. lia.
Qed.

(* every encoded section is shorter than the fuel the reader starts with *)
Lemma enc_notes_length a ns : a = 4 \/ a = 8 -> 12 * length ns <= length (enc_notes a ns).
Proof.
  intro Ha. induction ns as [|n t IH]; cbn [enc_notes length]; [lia|].
  rewrite app_length, enc_note_length by exact Ha.
  pose proof (align_up_ge a (12 + length (n_name n) + 1) Ha).
  pose proof (align_up_ge a (rel1 a n + length (n_desc n)) Ha). unfold rel2, rel1 in *. lia.
Qed.

Theorem note_search_roundtrip a ns :
  a = 4 \/ a = 8 -> Forall wf_note ns ->
  let b := enc_notes a ns in
  note_iter (S (length b)) a b (N.of_nat (length b)) 0 = Ok (first_build_id ns).
Proof.
  intros Ha Hwf b.
  pose proof (note_iter_enc a Ha ns (S (length b)) [] 0) as H. cbn [app length] in H.
  apply H; [lia|exact Hwf|]. pose proof (enc_notes_length a ns Ha). unfold b. lia.
Qed.

(* through the memory interface, slice mode: the section at [offset] of an image *)
Definition mem_of (img : bytes) : memory :=
  {| m_byte := fun a => nth_error img (N.to_nat a); m_size := N.of_nat (length img); m_start := None |}.

Lemma prefix_from_nth (img : bytes) : forall n a, a + n <= length img ->
  prefix_from (fun x => nth_error img (N.to_nat x)) (N.of_nat a) n = firstn n (skipn a img).
Proof.
  induction n as [|n IH]; intros a H; cbn [prefix_from firstn]; [reflexivity|].
  rewrite Nat2N.id.
  destruct (nth_error img a) as [x|] eqn:E.
  2:{ apply nth_error_None in E. lia. }
  replace (N.of_nat a + 1)%N with (N.of_nat (S a)) by lia. rewrite IH by lia.
  clear IH. revert img H E. induction a as [|a IHa]; intros img H E.
  - destruct img as [|y t]; cbn in *; [discriminate|]. injection E as ->. reflexivity.
  - destruct img as [|y t]; cbn in *; [discriminate|]. apply IHa; [lia|exact E].
Qed.

Theorem find_build_id_note_roundtrip pre a ns post :
  a = 4 \/ a = 8 -> Forall wf_note ns -> enc_notes a ns <> [] ->
  (N.of_nat (length (pre ++ enc_notes a ns ++ post)) < 2 ^ 63)%N ->
  find_build_id_note (mem_of (pre ++ enc_notes a ns ++ post)) (N.of_nat (length pre))
                     (N.of_nat (length (enc_notes a ns))) (N.of_nat a) = Ok (first_build_id ns).
Proof.
  intros Ha Hwf Hne Hsz. unfold find_build_id_note, rd, mem_of. cbn [m_start m_size m_byte].
  set (b := enc_notes a ns) in *.
  rewrite !app_length in Hsz.
  destruct (W64 <=? N.of_nat (length pre) + N.of_nat (length b))%N eqn:C1.
  { apply N.leb_le in C1. unfold W64 in C1. lia. }
  destruct (N.of_nat (length pre) + N.of_nat (length b) <=? N.of_nat (length (pre ++ b ++ post)))%N eqn:C2.
  2:{ apply N.leb_gt in C2. rewrite !app_length in C2. lia. }
  cbn [bind]. rewrite Nat2N.id.
  rewrite prefix_from_nth by (rewrite !app_length; lia).
  change (firstn (length b) (skipn (length pre) (pre ++ b ++ post))) with (slice (pre ++ b ++ post) (length pre) (length b)).
  rewrite slice_mid by reflexivity.
  assert (Ea : (if (N.of_nat a <? 4)%N then 4%N else N.of_nat a) = N.of_nat a) by (destruct Ha as [->| ->]; reflexivity).
  rewrite Ea.
  assert (Eo : ((N.of_nat a =? 4)%N || (N.of_nat a =? 8)%N) = true) by (destruct Ha as [->| ->]; reflexivity).
  rewrite Eo. cbn [negb]. rewrite Nat2N.id.
  apply note_search_roundtrip; assumption.
Qed.

(* not vacuous: a section with a non-GNU note first, 8-byte alignment *)
Example roundtrip_example :
  let ns := [ {| n_name := [88; 89]%N; n_desc := [1; 2; 3]%N; n_type := 1%N |};
              {| n_name := GNU; n_desc := [9; 8; 7; 6; 5]%N; n_type := 3%N |} ] in
  Forall wf_note ns /\ first_build_id ns = Some [9; 8; 7; 6; 5]%N /\ length (enc_notes 8 ns) = 48.
Proof.
  intro ns. split; [|split; [reflexivity|vm_compute; reflexivity]].
  repeat constructor; cbn; lia.
Qed.

Print Assumptions note_search_roundtrip.
Print Assumptions find_build_id_note_roundtrip.
