From Coq Require Import List NArith Arith Lia Bool.
Import ListNotations.
Open Scope N_scope.

(* permissions as procfs-core bit flags: READ=1 WRITE=2 EXECUTE=4 SHARED=8 PRIVATE=16 *)
Definition P_X : N := 4.
Definition P_PRIVATE : N := 16.

Definition name := option (list N).           (* bytes of the (already classified) pathname *)
Definition name_eqb (a b : name) : bool :=
  match a, b with
  | None, None => true
  | Some x, Some y => if list_eq_dec N.eq_dec x y then true else false
  | _, _ => false
  end.
Definition is_path (n : name) : bool :=
  match n with Some s => existsb (N.eqb 47) s | None => false end.

Record line := { l_start : N; l_end : N; l_perms : N; l_off : N; l_name : name }.

Record minfo := {
  m_start : N; m_size : N; m_sys_start : N; m_sys_end : N;
  m_off : N; m_perms : N; m_name : name }.

Definition m_end (m : minfo) : N := m_start m + m_size m.
Definition m_exec (m : minfo) : bool := N.testbit (m_perms m) 2.
Definition m_empty_page (m : minfo) : bool :=
  (m_off m =? 0) && (m_perms m =? P_PRIVATE) && (match m_name m with None => true | _ => false end).

Definition gate_name : name := Some [108;105;110;117;120;45;103;97;116;101;46;115;111]. (* "linux-gate.so" *)

(* one iteration of the loop of MappingInfo::aggregate; [acc] is the output list REVERSED *)
Definition step (gate : option N) (acc : list minfo) (l : line) : list minfo :=
  let start := l_start l in let en := l_end l in
  let renamed := match gate with
                 | Some g => negb (is_path (l_name l)) && (start =? g)
                 | None => false end in
  let nm := if renamed then gate_name else l_name l in
  let off := if renamed then 0 else l_off l in
  let push := {| m_start := start; m_size := en - start; m_sys_start := start; m_sys_end := en;
                 m_off := off; m_perms := l_perms l; m_name := nm |} :: acc in
  let fold_or_push :=
    match acc with
    | prev :: pp :: rest =>
        if is_path (m_name pp) && (m_end pp =? m_start prev) && m_empty_page prev && (m_end prev =? start)
           && name_eqb nm (m_name pp)
        then {| m_start := m_start pp; m_size := en - m_start pp; m_sys_start := m_sys_start pp;
                m_sys_end := en; m_off := m_off pp; m_perms := N.lor (m_perms pp) (l_perms l);
                m_name := m_name pp |} :: rest
        else push
    | _ => push
    end in
  match acc with
  | prev :: rest =>
      if (start =? m_end prev) && (match nm with Some _ => true | None => false end) && name_eqb nm (m_name prev)
      then {| m_start := m_start prev; m_size := en - m_start prev; m_sys_start := m_sys_start prev;
              m_sys_end := en; m_off := m_off prev; m_perms := N.lor (m_perms prev) (l_perms l);
              m_name := m_name prev |} :: rest
      else if (start =? m_end prev) && m_exec prev && is_path (m_name prev)
              && ((off =? 0) || (off =? m_end prev)) && (l_perms l =? P_PRIVATE)
      then {| m_start := m_start prev; m_size := en - m_start prev; m_sys_start := m_sys_start prev;
              m_sys_end := m_sys_end prev; m_off := m_off prev; m_perms := m_perms prev;
              m_name := m_name prev |} :: rest
      else fold_or_push
  | [] => fold_or_push
  end.

Definition aggregate (gate : option N) (ls : list line) : list minfo := rev (fold_left (step gate) ls []).

(* ---------- well-formed input ---------- *)
Fixpoint sorted_from (lo : N) (ls : list line) : Prop :=
  match ls with
  | [] => True
  | l :: t => lo <= l_start l /\ l_start l < l_end l /\ sorted_from (l_end l) t
  end.

(* ---------- invariant: acc (reversed) is related to the processed lines ---------- *)
(* RunOf m run : m is the hull of the non-empty contiguous run *)
Fixpoint chain (s : N) (run : list line) (e : N) : Prop :=   (* run starts at s, is contiguous, ends at e *)
  match run with
  | [] => s = e
  | l :: t => l_start l = s /\ l_start l < l_end l /\ chain (l_end l) t e
  end.

Definition RunOf (m : minfo) (run : list line) : Prop :=
  run <> [] /\ chain (m_start m) run (m_end m) /\
  m_sys_start m = m_start m /\ m_start m < m_sys_end m /\ m_sys_end m <= m_end m.

(* acc_rev = m_k :: ... :: m_1 ; runs_rev = r_k :: ... :: r_1 *)
Inductive Rel : list minfo -> list (list line) -> Prop :=
| Rel_nil : Rel [] []
| Rel_cons m run acc runs :
    RunOf m run -> Rel acc runs ->
    (match acc with [] => True | p :: _ => m_end p <= m_start m end) ->
    Rel (m :: acc) (run :: runs).

Lemma chain_app s r1 mid r2 e : chain s r1 mid -> chain mid r2 e -> chain s (r1 ++ r2) e.
Proof.
  revert s; induction r1 as [|l t IH]; intros s H1 H2; cbn in *.
  - now subst.
  - destruct H1 as (Hs & Hlt & Ht). repeat split; auto.
Qed.

Lemma chain_le s r e : chain s r e -> s <= e.
Proof.
  revert s; induction r as [|l t IH]; intros s H; cbn in H.
  - subst; lia.
  - destruct H as (Hs & Hlt & Ht). apply IH in Ht. lia.
Qed.

Lemma chain_single l : l_start l < l_end l -> chain (l_start l) [l] (l_end l).
Proof. intro H. cbn. auto. Qed.
