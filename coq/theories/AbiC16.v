(* ABI entry for C16: [op stream] -> per-op (tag rva size buflen) ... then final buffer *)
From Coq Require Import List NArith Arith Bool.
From MDW Require Import Bytes MemWriter MemOps AbiBase.
Import ListNotations.
Local Open Scope N_scope.

Fixpoint dec_ops (fuel : nat) (l : list N) : list op :=
  match fuel with
  | O => []
  | S f =>
      match l with
      | 0 :: rest => let '(v, r) := take_fields rest in OAlloc (length v) :: dec_ops f r
      | 1 :: rest => let '(v, r) := take_fields rest in OAllocVal v :: dec_ops f r
      | 2 :: k :: rest => let '(v, r) := take_fields rest in OSet (N.to_nat (N.min k 100000)) v :: dec_ops f r
      | 3 :: n :: esz :: r => OAllocArray (N.to_nat (N.min n 100000)) (N.to_nat (N.min esz 4096)) :: dec_ops f r
      | 4 :: k :: idx :: rest =>
          let '(v, r) := take_fields rest in
          OSetAt (N.to_nat (N.min k 100000)) (N.to_nat (N.min idx 100000)) v :: dec_ops f r
      | 5 :: n :: esz :: rest =>
          let '(vs, r) := take_many take_fields (cnt n rest) rest in
          OFromArray vs (N.to_nat (N.min esz 4096)) :: dec_ops f r
      | 7 :: rest => let '(v, r) := take_vec rest in OBytes v :: dec_ops f r
      | 8 :: rest => let '(v, r) := take_vec rest in OString v :: dec_ops f r
      | _ => []
      end
  end.

Definition entry_c16 (args : list N) : list N :=
  let ops := dec_ops (length args) args in
  let '(outs, s) := run_ops empty_state ops in
  N.of_nat (length outs)
    :: flat_map (fun '(t, rva, sz, bl) => [t; rva; sz; bl]) outs
    ++ enc_vec (buf s).
