From Coq Require Import List NArith Arith Bool Lia.
From MDW Require Import Bytes DsoDebug DsoStream.
Import ListNotations.
Local Open Scope N_scope.

Lemma names_length m : forall lms es, names m lms = Some (Some es) ->
  map (fun '(a, _, ld) => (a, ld)) es = map (fun lm => (l_addr lm, l_ld lm)) lms.
Proof.
  induction lms as [|lm t IH]; intros es H; cbn [names] in H.
  - injection H as <-. reflexivity.
  - destruct (read_name m (l_name lm)) as [nm| |]; destruct (names m t) as [[r|]|]; try discriminate.
    injection H as <-. cbn [map]. f_equal. now apply IH.
Qed.

(* C18 (linker list): a successful stream lists exactly the chain reachable from r_map of the r_debug
   structure the dynamic section points to: one entry per object, in order, with its load address and
   dynamic-section address *)
Theorem dso_stream_lists_chain m phdr phnum o :
  dso_stream m phdr phnum = DOk o ->
  exists rd lms, length rd = 40%nat /\ chain m (unle (slice rd 8 8)) lms /\
                 map (fun '(a, _, ld) => (a, ld)) (d_entries o) = map (fun lm => (l_addr lm, l_ld lm)) lms /\
                 d_version o = unle (slice rd 0 4) /\ d_brk o = unle (slice rd 16 8) /\ d_ldbase o = unle (slice rd 32 8).
Proof.
  unfold dso_stream. intro H.
  destruct ((W64 <=? 56 * phnum) || (MAX_TABLE <? 56 * phnum)); [discriminate|].
  destruct (exact m phdr (N.to_nat (56 * phnum))) as [ph|]; [|discriminate].
  destruct (scan_phdrs phdr (parse_phdrs ph (N.to_nat phnum) 0)) as (base, dyn0).
  destruct (dyn0 =? 0); [discriminate|].
  destruct (scan_dyn m MAX_DYN ((dyn0 + base) mod W64) 0 0) as [[rdebug dynlen]| | |]; try discriminate.
  destruct (exact m rdebug 40) as [rd|] eqn:Erd; [|discriminate].
  destruct (walk_fixed m (unle (slice rd 8 8))) as [lms| | |] eqn:Ew; try discriminate.
  destruct (names m lms) as [[es|]|] eqn:En; try discriminate.
  destruct (exact m ((dyn0 + base) mod W64) (N.to_nat dynlen)); [|discriminate].
  injection H as <-. cbn [d_entries d_version d_brk d_ldbase].
  exists rd, lms. split.
  - unfold exact in Erd. destruct (copy m rdebug 40) as [bb|]; [|discriminate].
    destruct (length bb =? 40)%nat eqn:El; [|discriminate]. injection Erd as <-. now apply Nat.eqb_eq.
  - split; [exact (walk_fixed_spec m _ _ Ew)|]. split; [exact (names_length m _ _ En)|]. auto.
Qed.
