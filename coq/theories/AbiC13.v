(* ABI entries for C13 *)
From Coq Require Import List NArith Arith Bool.
From MDW Require Import Maps MapsJudge AbiBase.
Import ListNotations.
Local Open Scope N_scope.

(* line := start end perms off has_name name_len name_bytes... *)
Fixpoint dec_lines (n : nat) (l : list N) : list line * list N :=
  match n with
  | O => ([], l)
  | S k =>
      match l with
      | s :: e :: p :: o :: hn :: rest =>
          let '(nm, rest') := take_vec rest in
          let '(ls, rest'') := dec_lines k rest' in
          ({| l_start := s; l_end := e; l_perms := p; l_off := o;
              l_name := if hn =? 0 then None else Some nm |} :: ls, rest'')
      | _ => ([], l)
      end
  end.

Fixpoint dec_minfos (n : nat) (l : list N) : list minfo :=
  match n with
  | O => []
  | S k =>
      match l with
      | s :: sz :: ss :: se :: o :: p :: hn :: rest =>
          let '(nm, rest') := take_vec rest in
          {| m_start := s; m_size := sz; m_sys_start := ss; m_sys_end := se; m_off := o; m_perms := p;
             m_name := if hn =? 0 then None else Some nm |} :: dec_minfos k rest'
      | _ => []
      end
  end.

Definition enc_minfo (m : minfo) : list N :=
  [m_start m; m_size m; m_sys_start m; m_sys_end m; m_off m; m_perms m]
  ++ match m_name m with None => [0; 0] | Some nm => 1 :: enc_vec nm end.

(* [has_gate; gate; nlines; lines...] -> [count; minfos...] *)
Definition entry_c13 (args : list N) : list N :=
  match args with
  | hg :: g :: n :: rest =>
      let '(ls, _) := dec_lines (cnt n rest) rest in
      let out := aggregate (if hg =? 0 then None else Some g) ls in
      N.of_nat (length out) :: flat_map enc_minfo out
  | _ => []
  end.

(* [has_gate; gate; nlines; lines...; count; minfos...] -> [1] if the property predicate holds *)
Definition entry_c13_judge (args : list N) : list N :=
  match args with
  | hg :: g :: n :: rest =>
      let '(ls, rest') := dec_lines (cnt n rest) rest in
      match rest' with
      | c :: ms => [b2n (c13_holds_b (if hg =? 0 then None else Some g) ls (dec_minfos (cnt c ms) ms))]
      | [] => [2]
      end
  | _ => [2]
  end.
