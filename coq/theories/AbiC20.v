(* ABI entries for C20 *)
From Coq Require Import List NArith Arith Bool.
From MDW Require Import Bytes StackRef StackIncl AbiBase.
Import ListNotations.
Local Open Scope N_scope.

(* [lo; hi; sp_off; stack vec] -> [0; bool] | [2] *)
Definition entry_c20 (args : list N) : list N :=
  match args with
  | lo :: hi :: off :: rest =>
      let '(stack, _) := take_vec rest in
      match has_pointer true false lo hi stack (N.to_nat (N.min off 100000000)) with
      | StackRef.Ok r => [0; b2n r]
      | StackRef.Panic => [2]
      end
  | _ => []
  end.

(* [has_principal; lo; hi; ip; sp_off; stack vec] -> [0; included] | [2] *)
Definition entry_c20_included (args : list N) : list N :=
  match args with
  | hp :: lo :: hi :: ip :: off :: rest =>
      let '(stack, _) := take_vec rest in
      match stack_included (if n2b hp then Some (lo, hi) else None) ip stack (N.to_nat (N.min off 100000000)) with
      | StackRef.Ok r => [0; b2n r]
      | StackRef.Panic => [2]
      end
  | _ => []
  end.
