(* ABI entry for C08 *)
From Coq Require Import List NArith Arith Bool.
From MDW Require Import Bytes Maps EffPath SoVersion ThreadList Modules Utf8 AbiBase AbiC13 AbiTl.
Import ListNotations.
Local Open Scope N_scope.

Fixpoint dec_tbl (n : nat) (l : list N) : list elfinfo * list N :=
  match n with
  | O => ([], l)
  | S k =>
      let '(nm, r0) := take_vec l in
      match r0 with
      | off :: hid :: r2 =>
          let '(id, r3) := take_vec r2 in
          match r3 with
          | hso :: r4 =>
              let '(so, r5) := take_vec r4 in
              let '(t, r6) := dec_tbl k r5 in
              ({| ei_name := nm; ei_off := off; ei_id := if n2b hid then Some id else None; ei_soname := if n2b hso then Some so else None |} :: t, r6)
          | [] => ([], l)
          end
      | _ => ([], l)
      end
  end.
Fixpoint dec_users (n : nat) (l : list N) : list usermap :=
  match n, l with
  | S k, s :: sz :: rest =>
      let '(nm, r1) := take_vec rest in let '(id, r2) := take_vec r1 in
      {| um_start := s; um_size := sz; um_name := nm; um_id := id |} :: dec_users k r2
  | _, _ => []
  end.

(* the version is parsed from the mapping's file name as text: decode it first; undecodable names are
   outside the model (tag 3) *)
Definition enc_module (m : module) : list N :=
  md_base m :: md_size m :: enc_vec (md_id m)
  ++ (match md_name m with EffPath.Ok n => 0 :: enc_vec n | EffPath.Unspec => [3; 0] end).

(* version of a file name given as bytes *)
Definition version_tokens (name : list N) : list N :=
  match utf8_decode (length name) (file_name_of name) with
  | None => [3; 0; 0; 0; 0]
  | Some s => match SoVersion.parse true s with
              | SoVersion.Panic => [2; 0; 0; 0; 0]
              | SoVersion.Ok None => [0; 0; 0; 0; 0]
              | SoVersion.Ok (Some v) => [1; major v; minor v; patch v; prerelease v]
              end
  end.

(* [maps...; ntbl; tbl...; nusers; users...] -> [count; (base; size; id vec; name tag; name vec; version tag; 4 numbers)...] *)
Definition entry_c08 (args : list N) : list N :=
  let '(ms, rest) := dec_dumper_maps args in
  match rest with
  | nt :: rest1 =>
      let '(tbl, rest2) := dec_tbl (cnt nt rest1) rest1 in
      match rest2 with
      | nu :: rest3 =>
          let users := dec_users (cnt nu rest3) rest3 in
          let ml := module_list ms tbl users in
          N.of_nat (length ml) :: flat_map (fun m =>
             enc_module m ++ version_tokens (md_mapname m)) ml
      | [] => []
      end
  | [] => []
  end.
