(* Proofs about the C18 model (MemInfo.v); kept apart from the definitions so that a change to the
   regenerated protection table breaks a proof here, not the executable model. *)
From Coq Require Import List NArith Arith Bool.
From MDW Require Import GenTypes Generated MemInfo.
Import ListNotations.
Local Open Scope N_scope.

Lemma protection_table_correct : forall r w x, lookup_prot r w x = Some (expected_prot r w x).
Proof. intros [|] [|] [|]; reflexivity. Qed.

Theorem meminfo_one_per_line ls : length (meminfo_list ls) = length ls.
Proof. unfold meminfo_list. apply map_length. Qed.
Theorem meminfo_entry s e perms :
  let m := meminfo_of_line s e perms in
  mi_base m = s /\ mi_size m = e - s /\
  mi_prot m = prot_value (expected_prot (N.testbit perms 0) (N.testbit perms 1) (N.testbit perms 2)) /\
  mi_type m = (if N.testbit perms 4 then MEM_PRIVATE else MEM_MAPPED).
Proof. unfold meminfo_of_line. rewrite protection_table_correct. cbn. auto. Qed.

Theorem meminfo_list_is_spec ls : meminfo_list ls = meminfo_list_spec ls.
Proof.
  unfold meminfo_list, meminfo_list_spec. apply map_ext. intros [[s e] p].
  unfold meminfo_of_line, meminfo_of_line_spec. now rewrite protection_table_correct.
Qed.

Theorem merge_prefers_direct d k : d <> 0 -> merge_auxv d k = Some d.
Proof. intro H. unfold merge_auxv. apply N.eqb_neq in H. now rewrite H. Qed.
Theorem merge_falls_back k : merge_auxv 0 k = k.
Proof. reflexivity. Qed.
