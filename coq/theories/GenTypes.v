(* Vocabulary of the generated file: register names, context fields, sources, steps.  Definitions only. *)
From Coq Require Import List NArith.
Import ListNotations.

(* user_regs_struct (ptrace), in kernel order *)
Inductive reg := R_r15 | R_r14 | R_r13 | R_r12 | R_rbp | R_rbx | R_r11 | R_r10 | R_r9 | R_r8 | R_rax | R_rcx | R_rdx
  | R_rsi | R_rdi | R_orig_rax | R_rip | R_cs | R_eflags | R_rsp | R_ss | R_fs_base | R_gs_base | R_ds | R_es | R_fs | R_gs.
(* ucontext gregs indices REG_* *)
Inductive greg := G_R8 | G_R9 | G_R10 | G_R11 | G_R12 | G_R13 | G_R14 | G_R15 | G_RDI | G_RSI | G_RBP | G_RBX | G_RDX
  | G_RAX | G_RCX | G_RSP | G_RIP | G_EFL | G_CSGSFS | G_ERR | G_TRAPNO | G_OLDMASK | G_CR2.
(* scalar members of user_fpregs_struct / fpregset_t *)
Inductive fpf := FP_cwd | FP_swd | FP_ftw | FP_fop | FP_rip | FP_rdp | FP_mxcsr | FP_mxcr_mask.
Inductive fparray := FA_st_space | FA_xmm_space.
(* named scalar fields of CONTEXT_AMD64 the writers assign *)
Inductive cfield := C_context_flags | C_mx_csr | C_cs | C_ds | C_es | C_fs | C_gs | C_ss | C_eflags
  | C_dr0 | C_dr1 | C_dr2 | C_dr3 | C_dr6 | C_dr7
  | C_rax | C_rcx | C_rdx | C_rbx | C_rsp | C_rbp | C_rsi | C_rdi
  | C_r8 | C_r9 | C_r10 | C_r11 | C_r12 | C_r13 | C_r14 | C_r15 | C_rip.
(* scalar fields of XMM_SAVE_AREA32 *)
Inductive xfield := X_control_word | X_status_word | X_tag_word | X_reserved1 | X_error_opcode | X_error_offset
  | X_error_selector | X_reserved2 | X_data_offset | X_data_selector | X_reserved3 | X_mx_csr | X_mx_csr_mask.
Inductive xarray := XA_float_registers | XA_xmm_registers.

(* right-hand sides of the assignments; [SFp f cast]: cast = width in bytes of an `as uN`, 0 = none *)
Inductive src :=
| SReg (r : reg) | SDreg (i : N) | SGreg (g : greg) | SGregShiftMask (g : greg) (shift mask : N)
| SFp (f : fpf) (cast : N) | SConst (n : N).

Inductive step := St_thread_list_stream | St_mappings | St_app_memory | St_memory_list_stream | St_exception_stream
  | St_systeminfo_stream | St_memory_info_list_stream | St_file_proc_cpuinfo | St_file_proc_pid_status
  | St_file_etc_lsb_release | St_file_proc_pid_cmdline | St_file_proc_pid_environ | St_file_proc_pid_auxv
  | St_file_proc_pid_maps | St_dso_debug | St_file_proc_pid_limits | St_thread_names_stream | St_handle_data_stream
  | St_resume_threads | St_soft_errors.

Inductive prot := P_PAGE_NOACCESS | P_PAGE_READONLY | P_PAGE_READWRITE | P_PAGE_WRITECOPY | P_PAGE_EXECUTE
  | P_PAGE_EXECUTE_READ | P_PAGE_EXECUTE_READWRITE | P_PAGE_EXECUTE_WRITECOPY.
Inductive failpoint := FP_StopProcess | FP_FillMissingAuxvInfo | FP_ThreadName | FP_SuspendThreads | FP_CpuInfoFileOpen.

(* memory-writer operations as they appear in the source of the functions that build streams *)
Inductive memop := Op_alloc_with_val | Op_alloc | Op_alloc_array | Op_alloc_from_array | Op_alloc_from_iter | Op_write_bytes
  | Op_set_value_at | Op_set_value | Op_write_string | Op_write_all | Op_dir_flush.
