(* C13 - Mapping aggregation preserves the address-space picture.   Property theorems only. *)
From Coq Require Import List NArith.
From MDW Require Import Maps MapsProofs MapsProofs2 MapsJudge MapsJudgeProofs MapsComplete.
Import ListNotations.
Local Open Scope N_scope.

(* For every well-formed memory map (lines ascending, non-empty, non-overlapping; any length):
   the derived list is ascending without overlap, and the lines split into consecutive runs, one
   per derived mapping, each mapping being exactly the hull [first.start, last.end) of its
   contiguous run (RunOf: chain from m_start to m_start+m_size; the kernel extent starts at the
   same address and ends inside the hull).  Hence every line lies in exactly one mapping. *)
Theorem C13_partition : forall gate lo ls,
  sorted_from lo ls ->
  exists runs, concat runs = ls /\ Forall2 RunOf (aggregate gate ls) runs /\ ordered (aggregate gate ls).
Proof. exact aggregate_partition. Qed.
Print Assumptions C13_partition.

(* Lines are merged only for one of the three stated reasons (segs_ok / seg_ok): same name; the
   inaccessible private gap directly after an executable file mapping; the inaccessible anonymous
   offset-0 gap between two parts of the same file mapping.  The mapping carries the name of its
   first line (with the gate renaming). *)
Theorem C13_reasons : forall gate ls,
  exists runs, all_lines runs = ls /\
    Forall2 (fun m '(f, segs) => RunOf3 gate m f segs) (aggregate gate ls) (rev runs).
Proof. exact aggregate_reasons. Qed.
Print Assumptions C13_reasons.

(* The mapping that starts at the vDSO address is named as the Linux gate library. *)
Theorem C13_gate_named : forall gate g m f segs,
  gate = Some g -> RunOf3 gate m f segs -> m_start m = g -> is_path (l_name f) = false -> m_name m = gate_name.
Proof. exact gate_named. Qed.
Print Assumptions C13_gate_named.

(* The check applies the executable statement c13_holds_b to the mapping list the IMPLEMENTATION derived.
   Whenever it answers true - for any list, not only one the model computes - the lines split into
   consecutive runs, one per mapping, each mapping the hull of its non-empty contiguous run, the list is
   ascending without overlap, and every line lies inside one of the mappings. *)
Theorem C13_judge_sound : forall gate ms ls,
  c13_holds_b gate ls ms = true ->
  exists runs, concat runs = ls /\ Forall2 HullOf ms runs /\ ordered ms.
Proof. exact judge_sound. Qed.
Print Assumptions C13_judge_sound.

Theorem C13_judge_covers : forall gate ms ls l,
  c13_holds_b gate ls ms = true -> In l ls ->
  exists m, In m ms /\ m_start m <= l_start l /\ l_end l <= m_end m.
Proof. exact judge_covers. Qed.
Print Assumptions C13_judge_covers.

(* Conversely the predicate never rejects a correct aggregation: for every well-formed memory map, of any length,
   it accepts the list the model computes (so on the unchanged code a rejection cannot be a false alarm of the
   predicate itself). *)
Theorem C13_judge_complete : forall gate lo ls,
  sorted_from lo ls -> c13_holds_b gate ls (aggregate gate ls) = true.
Proof. exact judge_complete. Qed.
Print Assumptions C13_judge_complete.

(* hypotheses are satisfiable, and a merge actually happens *)
Example C13_nonvacuous :
  sorted_from 0 ex_lines /\ length (aggregate None ex_lines) = 2%nat.
Proof. split; [exact ex_sorted | vm_compute; reflexivity]. Qed.
