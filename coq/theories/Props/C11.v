(* C11 - Best-effort steps fail softly and every failure is reported.  Property theorems only. *)
From Coq Require Import List NArith Arith.
From MDW Require Import SoftErr SoftErrProofs GenTypes Generated PlanProofs.
Import ListNotations.
Local Open Scope N_scope.

(* the stream is the empty list when nothing failed *)
Theorem C11_empty_when_no_failure : forall f, no_failure f -> expected_tree f = [].
Proof. exact tree_empty_when_no_failure. Qed.
Print Assumptions C11_empty_when_no_failure.

(* each failure that occurred is listed under the step it belongs to, for every combination of the
   fail points and of natural failures, and every thread list *)
Theorem C11_stop_reported : forall f, f_stop f = true -> In [T_InitErrors; T_StopProcessFailed] (forest_paths (expected_tree f)).
Proof. exact stop_reported. Qed.
Print Assumptions C11_stop_reported.
Theorem C11_cpu_reported : forall f, f_cpu f = true ->
  In [T_WriteSystemInfoErrors; T_WriteCpuInformationFailed] (forest_paths (expected_tree f)).
Proof. exact cpu_reported. Qed.
Print Assumptions C11_cpu_reported.
Theorem C11_skipped_thread_reported : forall f, In ASkip (f_threads f) ->
  In [T_SuspendThreadsErrors; T_DetachSkippedThread] (forest_paths (expected_tree f)).
Proof. exact skipped_thread_reported. Qed.
Print Assumptions C11_skipped_thread_reported.
Theorem C11_vanished_thread_reported : forall f, In AGone (f_threads f) ->
  In [T_SuspendThreadsErrors; T_PtraceAttachError] (forest_paths (expected_tree f)).
Proof. exact vanished_thread_reported. Qed.
Print Assumptions C11_vanished_thread_reported.
Theorem C11_principal_reported : forall f, f_principal f = true -> In [T_PrincipalMappingNotReferenced] (forest_paths (expected_tree f)).
Proof. exact principal_reported. Qed.
Print Assumptions C11_principal_reported.
Theorem C11_dso_reported : forall f, f_dso f = true -> In [T_WriteDSODebugStreamFailed] (forest_paths (expected_tree f)).
Proof. exact dso_reported. Qed.
Print Assumptions C11_dso_reported.

(* The plan regenerated from the CURRENT source: exactly the /proc and release file copies, the linker debug
   data and the open-file list are wrapped as best-effort steps (a failure pushes a soft error and leaves an
   unused directory entry), everything else is a hard step; nothing but the soft-error stream is written after
   the threads have been resumed. *)
Theorem C11_plan_soft_steps :
  forallb (fun '(s, soft) => Bool.eqb soft (existsb (step_eqb s) expected_soft)) stream_plan = true.
Proof. exact plan_soft_steps. Qed.
Print Assumptions C11_plan_soft_steps.
Theorem C11_plan_after_resume :
  map fst (after (fun '(s, _) => step_eqb s St_resume_threads) stream_plan) = [St_soft_errors].
Proof. exact plan_only_soft_errors_after_resume. Qed.
Print Assumptions C11_plan_after_resume.
