(* C05 - Crash attribution matches what the caller supplied.  Property theorems only. *)
From Coq Require Import List NArith Arith.
From MDW Require Import Bytes CpuCtx GenTypes Generated CtxModel CtxProofs CtxTheorems ThreadList.
From MDW Require MemWriter Writer Hoare MiniDump Image ImageThreads.
Import ListNotations.
Local Open Scope nat_scope.

Theorem C05_tables_from_source :
  ucontext_table = expected_ucontext_table /\ ucontext_xtable = expected_xtable /\ ucontext_copies = expected_copies.
Proof. destruct generated_tables as (_ & _ & _ & A & B & C). auto. Qed.
Print Assumptions C05_tables_from_source.

(* For EVERY ucontext / floating-point state: the 16 general-purpose registers, rip, eflags, cs/fs/gs
   (unpacked from REG_CSGSFS), the x87/SSE control, status, tag words, opcode, offsets, mxcsr and mask,
   ST0-7 and XMM0-15 can be read back from the context bytes the exception record points at, at the
   offsets of the AMD64 CONTEXT layout. *)
Theorem C05_registers : forall r, length (rf_st r) = 128 -> length (rf_xmm r) = 256 ->
  forall f s, In (f, s) expected_ucontext_table ->
  read (ucontext_ctx r) (fst (cfield_layout f)) (snd (cfield_layout f)) = (eval s r mod 256 ^ N.of_nat (snd (cfield_layout f)))%N.
Proof. intros r H1 H2 f s Hin. apply ucontext_register; assumption. Qed.
Print Assumptions C05_registers.
Theorem C05_float_scalars : forall r, length (rf_st r) = 128 -> length (rf_xmm r) = 256 ->
  forall f s, In (f, s) expected_xtable ->
  read (ucontext_ctx r) (FLOAT_SAVE + fst (xfield_layout f)) (snd (xfield_layout f)) = (eval s r mod 256 ^ N.of_nat (snd (xfield_layout f)))%N.
Proof. intros r H1 H2 f s Hin. apply ucontext_float; assumption. Qed.
Print Assumptions C05_float_scalars.
Theorem C05_st_xmm : forall r, length (rf_st r) = 128 -> length (rf_xmm r) = 256 ->
  slice (ucontext_ctx r) 288 128 = rf_st r /\ slice (ucontext_ctx r) 416 256 = rf_xmm r /\ length (ucontext_ctx r) = 1232.
Proof. exact ucontext_st_xmm. Qed.
Print Assumptions C05_st_xmm.

(* The exception record: with a crash context, code / flags / address are the signal number, signal
   code and fault address; without one, 'dump requested' with the blamed thread's instruction pointer. *)
Theorem C05_with_context : forall signo code addr ip,
  exception_fields (Some (signo, code, addr)) ip = ((signo mod 2 ^ 32)%N, (code mod 2 ^ 32)%N, addr).
Proof. reflexivity. Qed.
Print Assumptions C05_with_context.
Theorem C05_without_context : forall ip, exception_fields None (Some ip) = (0xFFFFFFFF%N, 0%N, ip).
Proof. reflexivity. Qed.
Print Assumptions C05_without_context.

(* The exception record in the FINAL image of every dump: the fourth directory entry; it names the blamed thread, carries the
   supplied signal number / code / fault address (or the "dump requested" code and the blamed thread's instruction pointer), and
   its context location is the one the thread list recorded for the blamed thread. *)
Theorem C05_whole_image_exception : forall c dirs lg s',
  Image.image c MiniDump.empty_wst = MemWriter.Ok ((dirs, lg), s') -> Hoare.small (Hoare.blen s') ->
  exists rs blocks cc off,
    ImageThreads.run_rel (ImageThreads.thread_says c 248) (Writer.w_buf s') (Image.ic_threads c) ([], MiniDump.CNone) rs (blocks, cc) /\
    (let '(code, flags, addr, ctxloc) := ImageThreads.exception_fields c cc in
     slice (Writer.w_buf s') off 168 = Image.enc_exception (Image.ic_blamed c) code flags addr ctxloc) /\
    nth_error dirs 3 = Some (MiniDump.T_EXC, {| MemWriter.l_rva := N.of_nat off; MemWriter.l_size := 168 |}).
Proof. exact ImageThreads.image_exception. Qed.
Print Assumptions C05_whole_image_exception.

(* which context that is: none of the listed threads has the blamed id and nothing was recorded, or the record of the (last)
   listed thread with the blamed id - the crash context's registers if one was supplied, else that thread's own, with its
   instruction pointer as the address *)
Theorem C05_exception_shares_the_blamed_context : forall c lo b ts st rs st',
  ImageThreads.run_rel (ImageThreads.thread_says c lo) b ts st rs st' ->
  (snd st' = snd st /\ Forall (fun t => ImageThreads.t_blamed c t = false) ts) \/
  (exists t r, In (t, r) (combine ts rs) /\ ImageThreads.t_blamed c t = true /\ ImageThreads.designates lo b (snd r) (Image.it_ctx t) /\
     snd st' = if ImageThreads.t_crash c t then MiniDump.CCtx (snd r) else MiniDump.CCtxAddr (snd r) (unle (slice (Image.it_ctx t) 248 8))).
Proof. exact ImageThreads.cc_says. Qed.
Print Assumptions C05_exception_shares_the_blamed_context.

(* End to end (structural model -> image): the record in the FINAL image carries exactly the fields the structural model
   [exception_fields] prescribes (signal number and code as 32-bit values, the fault address; or the dump-requested code with the
   blamed thread's instruction pointer, 0 when that thread is not listed), names the blamed thread, and its context location is
   the one the thread list recorded for the (last) listed thread with the blamed id - no context when there is no such thread. *)
Theorem C05_whole_image_exception_of_world : forall c dirs lg s',
  Image.image c MiniDump.empty_wst = MemWriter.Ok ((dirs, lg), s') -> Hoare.small (Hoare.blen s') ->
  exists rs blocks cc off,
    ImageThreads.run_rel (ImageThreads.thread_says c 248) (Writer.w_buf s') (Image.ic_threads c) ([], MiniDump.CNone) rs (blocks, cc) /\
    (let '(code, flags, addr) := exception_fields (Image.ic_crash c) (ImageThreads.req_ip_of cc) in
     slice (Writer.w_buf s') off 168 = Image.enc_exception (Image.ic_blamed c) code flags addr (ImageThreads.ctx_of cc)) /\
    nth_error dirs 3 = Some (MiniDump.T_EXC, {| MemWriter.l_rva := N.of_nat off; MemWriter.l_size := 168 |}) /\
    ((cc = MiniDump.CNone /\ Forall (fun t => ImageThreads.t_blamed c t = false) (Image.ic_threads c)) \/
     (exists t r, In (t, r) (combine (Image.ic_threads c) rs) /\ ImageThreads.t_blamed c t = true /\
        ImageThreads.designates 248 (Writer.w_buf s') (snd r) (Image.it_ctx t) /\
        ImageThreads.ctx_of cc = snd r /\ (Image.ic_crash c = None -> ImageThreads.req_ip_of cc = Some (unle (slice (Image.it_ctx t) 248 8))))).
Proof. exact ImageThreads.image_exception_of_world. Qed.
Print Assumptions C05_whole_image_exception_of_world.
