(* C05 - Crash attribution matches what the caller supplied.  Property theorems only. *)
From Coq Require Import List NArith Arith.
From MDW Require Import Bytes CpuCtx GenTypes Generated CtxModel CtxProofs CtxTheorems ThreadList.
Import ListNotations.
Local Open Scope nat_scope.

Theorem C05_tables_from_source :
  ucontext_table = expected_ucontext_table /\ ucontext_xtable = expected_xtable /\ ucontext_copies = expected_copies.
Proof. destruct generated_tables as (_ & _ & _ & A & B & C). auto. Qed.
Print Assumptions C05_tables_from_source.

(* For EVERY ucontext / floating-point state: the 16 general-purpose registers, rip, eflags, cs/fs/gs
   (unpacked from REG_CSGSFS), the x87/SSE control, status, tag words, opcode, offsets, mxcsr and mask,
   ST0-7 and XMM0-15 can be read back from the context bytes the exception record points at, at the
   offsets of the AMD64 CONTEXT layout. *)
Theorem C05_registers : forall r, length (rf_st r) = 128 -> length (rf_xmm r) = 256 ->
  forall f s, In (f, s) expected_ucontext_table ->
  read (ucontext_ctx r) (fst (cfield_layout f)) (snd (cfield_layout f)) = (eval s r mod 256 ^ N.of_nat (snd (cfield_layout f)))%N.
Proof. intros r H1 H2 f s Hin. apply ucontext_register; assumption. Qed.
Print Assumptions C05_registers.
Theorem C05_float_scalars : forall r, length (rf_st r) = 128 -> length (rf_xmm r) = 256 ->
  forall f s, In (f, s) expected_xtable ->
  read (ucontext_ctx r) (FLOAT_SAVE + fst (xfield_layout f)) (snd (xfield_layout f)) = (eval s r mod 256 ^ N.of_nat (snd (xfield_layout f)))%N.
Proof. intros r H1 H2 f s Hin. apply ucontext_float; assumption. Qed.
Print Assumptions C05_float_scalars.
Theorem C05_st_xmm : forall r, length (rf_st r) = 128 -> length (rf_xmm r) = 256 ->
  slice (ucontext_ctx r) 288 128 = rf_st r /\ slice (ucontext_ctx r) 416 256 = rf_xmm r /\ length (ucontext_ctx r) = 1232.
Proof. exact ucontext_st_xmm. Qed.
Print Assumptions C05_st_xmm.

(* The exception record: with a crash context, code / flags / address are the signal number, signal
   code and fault address; without one, 'dump requested' with the blamed thread's instruction pointer. *)
Theorem C05_with_context : forall signo code addr ip,
  exception_fields (Some (signo, code, addr)) ip = ((signo mod 2 ^ 32)%N, (code mod 2 ^ 32)%N, addr).
Proof. reflexivity. Qed.
Print Assumptions C05_with_context.
Theorem C05_without_context : forall ip, exception_fields None (Some ip) = (0xFFFFFFFF%N, 0%N, ip).
Proof. reflexivity. Qed.
Print Assumptions C05_without_context.
