(* C18 - OS and process information streams mirror the target.  Property theorems only (derivation logic). *)
From Coq Require Import List NArith Arith.
From MDW Require Import Bytes GenTypes Generated MemInfo MemInfoProofs DsoDebug DsoStream DsoStreamProofs Auxv AuxvProofs.
From MDW Require MemWriter Writer Hoare Image ImagePayload.
From MDW Require MemWriter Writer Hoare MiniDump Text Image ImageThreads.
Import ListNotations.
Local Open Scope N_scope.

(* memory-info list: one entry per memory-map line, same range, protection per the independent table,
   private / shared type; the protection table regenerated from the source is that table *)
Theorem C18_protection_table : forall r w x, lookup_prot r w x = Some (expected_prot r w x).
Proof. exact protection_table_correct. Qed.
Print Assumptions C18_protection_table.
Theorem C18_meminfo_count : forall ls, length (meminfo_list ls) = length ls.
Proof. exact meminfo_one_per_line. Qed.
Print Assumptions C18_meminfo_count.
Theorem C18_meminfo_entry : forall s e perms,
  let m := meminfo_of_line s e perms in
  mi_base m = s /\ mi_size m = e - s /\
  mi_prot m = prot_value (expected_prot (N.testbit perms 0) (N.testbit perms 1) (N.testbit perms 2)) /\
  mi_type m = (if N.testbit perms 4 then MEM_PRIVATE else MEM_MAPPED).
Proof. exact meminfo_entry. Qed.
Print Assumptions C18_meminfo_entry.

(* auxiliary-vector information: caller-supplied non-zero values first, the kernel's otherwise *)
Theorem C18_auxv_direct_first : forall d k, d <> 0 -> merge_auxv d k = Some d.
Proof. exact merge_prefers_direct. Qed.
Print Assumptions C18_auxv_direct_first.
Theorem C18_auxv_kernel_otherwise : forall k, merge_auxv 0 k = k.
Proof. exact merge_falls_back. Qed.
Print Assumptions C18_auxv_kernel_otherwise.

(* linker debug stream: a successful stream lists exactly the objects of the linker list reachable from
   the r_debug the dynamic section points to (load address, dynamic-section address), in order *)
Theorem C18_dso_lists_chain : forall m phdr phnum o,
  dso_stream m phdr phnum = DOk o ->
  exists rd lms, length rd = 40%nat /\ chain m (unle (slice rd 8 8)) lms /\
                 map (fun '(a, _, ld) => (a, ld)) (d_entries o) = map (fun lm => (l_addr lm, l_ld lm)) lms /\
                 d_version o = unle (slice rd 0 4) /\ d_brk o = unle (slice rd 16 8) /\ d_ldbase o = unle (slice rd 32 8).
Proof. exact dso_stream_lists_chain. Qed.
Print Assumptions C18_dso_lists_chain.

(* the link_map walk of the repaired code never traps or hangs, for any memory (cyclic lists included);
   the walk before the repair provably never returns on a 2-cycle *)
Theorem C18_walk_total : forall m fuel cur acc,
  walk true (Some MAX_DSOS) m fuel cur acc <> Panic /\ walk true (Some MAX_DSOS) m fuel cur acc <> Hang.
Proof. exact walk_fixed_total. Qed.
Print Assumptions C18_walk_total.
Theorem C18_refuted_cycle : forall fuel acc, walk false None cyc fuel 0x1000 acc = Hang.
Proof. exact walk_orig_hangs_on_cycle. Qed.
Print Assumptions C18_refuted_cycle.

(* What the memory-information stream SAYS, byte for byte: header (16, 48, count) followed by the encodings of the entries, in
   map order; its directory entry names exactly those bytes. *)
Theorem C18_meminfo_payload : forall c s d s',
  Image.sec_meminfo c s = MemWriter.Ok (d, s') ->
  Writer.w_buf s' = Writer.w_buf s ++ (le 4 16 ++ le 4 48 ++ le 8 (N.of_nat (length (Image.ic_meminfo c)))) ++ concat (map Image.enc_meminfo (Image.ic_meminfo c)) /\
  d = (Image.T_MEMINFO, {| MemWriter.l_rva := MemWriter.u32 (Hoare.blen s); MemWriter.l_size := (16 + N.of_nat (Image.MEMINFO_SZ * length (Image.ic_meminfo c)))%N |}).
Proof. exact ImagePayload.meminfo_payload. Qed.
Print Assumptions C18_meminfo_payload.

(* The auxiliary values as the writer resolves them (Auxv.v): what the caller supplied (non-zero) always wins, whatever
   /proc/<pid>/auxv says; a key the caller did not supply takes the value of its FIRST occurrence in the file; nothing behind
   AT_NULL is read. *)
Theorem C18_supplied_auxv_wins : forall dn dp dg de file,
  (dn <> 0 -> r_phnum (resolve dn dp dg de file) = Some dn) /\ (dp <> 0 -> r_phdr (resolve dn dp dg de file) = Some dp) /\
  (dg <> 0 -> r_gate (resolve dn dp dg de file) = Some dg) /\ (de <> 0 -> r_entry (resolve dn dp dg de file) = Some de).
Proof. exact supplied_wins. Qed.
Print Assumptions C18_supplied_auxv_wins.
Theorem C18_auxv_first_occurrence : forall key v ps ps', (forall p, In p ps -> fst p <> key) -> first_of key (ps ++ (key, v) :: ps') = Some v.
Proof. exact first_occurrence. Qed.
Print Assumptions C18_auxv_first_occurrence.
Theorem C18_auxv_null_ends_the_vector : forall fuel (a rest rest' : bytes),
  length a = 16%nat -> unle (firstn 8 a) = AT_NULL ->
  parse_pairs fuel (a ++ rest) = ([], match fuel with O => true | S _ => false end) /\
  parse_pairs fuel (a ++ rest) = parse_pairs fuel (a ++ rest').
Proof. exact null_ends_the_vector. Qed.
Print Assumptions C18_auxv_null_ends_the_vector.

(* In the FINAL image of every dump: the memory-information list is its 16-byte header and exactly the encodings of the records
   of the content, in order, under a directory entry of its type that names exactly those bytes. *)
Theorem C18_whole_image_meminfo : forall c dirs lg s',
  Image.image c MiniDump.empty_wst = MemWriter.Ok ((dirs, lg), s') -> Hoare.small (Hoare.blen s') ->
  let n := length (Image.ic_meminfo c) in
  exists off,
    Bytes.slice (Writer.w_buf s') off (16 + Image.MEMINFO_SZ * n) =
      (Bytes.le 4 16 ++ Bytes.le 4 48 ++ Bytes.le 8 (N.of_nat n)) ++ concat (map Image.enc_meminfo (Image.ic_meminfo c)) /\
    In (Image.T_MEMINFO, {| MemWriter.l_rva := N.of_nat off; MemWriter.l_size := (16 + N.of_nat (Image.MEMINFO_SZ * n))%N |}) dirs.
Proof. exact ImageThreads.image_meminfo. Qed.
Print Assumptions C18_whole_image_meminfo.

(* ... and every copied file (cpuinfo, status, lsb-release, cmdline, environ, auxv, maps, limits) that could be read is a stream
   of its own type holding exactly the bytes read - wherever the step stands in the plan regenerated from the source. *)
Theorem C18_whole_image_copied_files : forall c dirs lg s' st bs,
  Image.image c MiniDump.empty_wst = MemWriter.Ok ((dirs, lg), s') -> Hoare.small (Hoare.blen s') ->
  In st (map fst Generated.stream_plan) -> ImageThreads.raw_of c st = Some (Some bs) ->
  exists off, Bytes.slice (Writer.w_buf s') off (length bs) = bs /\
    In (Image.raw_type st, {| MemWriter.l_rva := N.of_nat off; MemWriter.l_size := N.of_nat (length bs) |}) dirs.
Proof. exact ImageThreads.image_raw_stream. Qed.
Print Assumptions C18_whole_image_copied_files.

(* ... the open descriptors: one record per descriptor of the content, in order, with its number, mode and exactly its name ... *)
Theorem C18_whole_image_descriptors : forall c dirs lg s',
  Image.image c MiniDump.empty_wst = MemWriter.Ok ((dirs, lg), s') -> Hoare.small (Hoare.blen s') ->
  exists rs off,
    ImageThreads.run_rel (ImageThreads.handle_says 248) (Writer.w_buf s') (Image.ic_handles c) tt rs tt /\
    Bytes.slice (Writer.w_buf s') off (16 + Image.HANDLE_SZ * length rs) = ImageThreads.handles_header (length rs) ++ concat (map Image.enc_handle rs) /\
    In (Image.T_HANDLES, {| MemWriter.l_rva := N.of_nat off; MemWriter.l_size := (16 + N.of_nat (Image.HANDLE_SZ * length rs))%N |}) dirs.
Proof. exact ImageThreads.image_handles. Qed.
Print Assumptions C18_whole_image_descriptors.

(* ... and the linker data: the debug record (version, position of the link-map array or 0xFFFFFFFF, count, r_brk, ld base,
   dynamic address) immediately followed by the copy of the dynamic section; the array holds one record per loaded object, in
   order, with its address, ld pointer and exactly its name. *)
Theorem C18_whole_image_linker_data : forall c dirs lg s' version brk ldbase dynamic links dyn,
  Image.image c MiniDump.empty_wst = MemWriter.Ok ((dirs, lg), s') -> Hoare.small (Hoare.blen s') ->
  Image.ic_dso c = Image.IDsoOk version brk ldbase dynamic links dyn ->
  exists rs offA offH,
    ImageThreads.run_rel (ImageThreads.link_says 248) (Writer.w_buf s') links tt rs tt /\
    Bytes.slice (Writer.w_buf s') offA (Image.LINK_SZ * length links) = concat (map Image.enc_link rs) /\
    Bytes.slice (Writer.w_buf s') offH (36 + length dyn) =
      Image.enc_debug version (match links with [] => 0xFFFFFFFF%N | _ => N.of_nat offA end) (N.of_nat (length links)) brk ldbase dynamic ++ dyn /\
    In (Image.T_DSO, {| MemWriter.l_rva := N.of_nat offH; MemWriter.l_size := (36 + N.of_nat (length dyn))%N |}) dirs.
Proof. exact ImageThreads.image_dso. Qed.
Print Assumptions C18_whole_image_linker_data.

(* ... and the system information: the 56-byte record with the position of the OS version string stored at offset 24, that
   position designating exactly the version string written right behind the record. *)
Theorem C18_whole_image_system_information : forall c dirs lg s',
  Image.image c MiniDump.empty_wst = MemWriter.Ok ((dirs, lg), s') -> Hoare.small (Hoare.blen s') ->
  exists off csd,
    Bytes.slice (Writer.w_buf s') off Image.SYSINFO_SZ = Image.enc_sysinfo (Image.ic_sysinfo c) csd /\
    ImageThreads.designates 248 (Writer.w_buf s') csd (Text.md_string (Image.ic_osver c)) /\ N.to_nat (MemWriter.l_rva csd) = (off + Image.SYSINFO_SZ)%nat /\
    In (Image.T_SYSINFO, {| MemWriter.l_rva := N.of_nat off; MemWriter.l_size := N.of_nat Image.SYSINFO_SZ |}) dirs.
Proof. exact ImageThreads.image_sysinfo. Qed.
Print Assumptions C18_whole_image_system_information.

(* End to end (structural model -> image): whenever the records of the content are [meminfo_list] of the lines of the target's
   memory map, the stream of the FINAL image is its 16-byte header followed by exactly the encodings of the model's records, one
   per line, in line order. *)
Theorem C18_whole_image_meminfo_of_world : forall c (ls : list (N * N * N)) dirs lg s',
  Image.image c MiniDump.empty_wst = MemWriter.Ok ((dirs, lg), s') -> Hoare.small (Hoare.blen s') -> Image.ic_meminfo c = meminfo_list ls ->
  let n := length ls in
  exists off,
    Bytes.slice (Writer.w_buf s') off (16 + Image.MEMINFO_SZ * n) =
      (Bytes.le 4 16 ++ Bytes.le 4 48 ++ Bytes.le 8 (N.of_nat n)) ++ concat (map Image.enc_meminfo (meminfo_list ls)) /\
    In (Image.T_MEMINFO, {| MemWriter.l_rva := N.of_nat off; MemWriter.l_size := (16 + N.of_nat (Image.MEMINFO_SZ * n))%N |}) dirs.
Proof. exact ImageThreads.image_meminfo_of_world. Qed.
Print Assumptions C18_whole_image_meminfo_of_world.
