(* C09 - The destination receives exactly the image that was built.   Property theorems only. *)
From Coq Require Import List NArith Arith.
From MDW Require Import Bytes DirSection DirSectionProofs DirSeqProofs DirTrace TraceProofs.
From MDW Require MemWriter Writer Hoare MiniDump Image ImageProtocol.
Import ListNotations.
Local Open Scope nat_scope.

(* For every initial destination content pre ++ post with the cursor after pre (any offset, any
   pre-existing bytes), every directory length n and every sequence - of any length - of image growth,
   flush and flush-with-entry operations (at most n entries, the writers' grammar), in either write
   order: the destination is  pre ++ (image up to the last flush) ++ (post beyond it), the cursor sits
   after the flushed part, and nothing before the starting position is modified (Inv). *)
Theorem C09_protocol : forall ef pre post buf0 n ops,
  fits n ops ->
  let d0 := {| d_bytes := pre ++ post; d_pos := length pre |} in
  let '(b1, s1) := ds_new buf0 n d0 in
  let '(buf', s', d') := fold_left (run_op ef) (Flush None :: ops) (b1, s1, d0) in
  Inv pre post buf' s' d' /\ dir_flushed s'.
Proof. exact protocol_inv. Qed.
Print Assumptions C09_protocol.

(* ... and the same from any reachable state *)
Theorem C09_sequence : forall ef pre post ops buf s d,
  Inv pre post buf s d -> dir_flushed s -> fits (ds_n s - ds_idx s) ops ->
  let '(buf', s', d') := fold_left (run_op ef) ops (buf, s, d) in
  Inv pre post buf' s' d' /\ dir_flushed s'.
Proof. exact run_ops_inv. Qed.
Print Assumptions C09_sequence.

(* After each flush the destination holds exactly the image at the starting position; the bytes
   beyond the image are the destination's original ones. *)
Theorem C09_flush_exact : forall ef pre post buf s d e,
  Inv pre post buf s d -> dir_flushed s ->
  (forall x, e = Some x -> length x = 12 /\ ds_idx s < ds_n s) ->
  let '(buf', s', d') := write_to_file ef buf s d e in
  d_bytes d' = pre ++ buf' ++ skipn (length buf') post.
Proof. exact flush_exact. Qed.
Print Assumptions C09_flush_exact.

(* The call-trace model used for the correspondence (and for C10) has write_to_file as its net effect. *)
Theorem C09_trace_sound : forall ef buf s d e,
  let '(buf', s', cs) := wtf_calls ef buf s (d_pos d) e in
  write_to_file ef buf s d e = (buf', s', run_calls d cs).
Proof. exact wtf_calls_sound. Qed.
Print Assumptions C09_trace_sound.

(* The WHOLE dump is an instance of that protocol.  Between two flushes the whole-image model (all section writers, in the order
   of the stream plan regenerated from the source) only appends to the image - the frame law: a section never changes a byte
   that was present when it started - and each directory entry is patched into its slot.  So there is ONE sequence of growth /
   flush / flush-with-entry operations, with at most the declared number of entries, on which the directory-section model ends
   with exactly the image the whole-image model builds - for every content - and then, for every pre-existing destination content
   pre ++ post, every starting position and either write order, the destination holds  pre ++ (image up to the last flush) ++
   (post beyond it)  and nothing before the starting position is modified (Inv). *)
Theorem C09_whole_dump_destination : forall c dirs lg s',
  Image.image c MiniDump.empty_wst = MemWriter.Ok ((dirs, lg), s') -> Hoare.small (Hoare.blen s') ->
  exists ops, fits Image.NUM_DIRS ops /\
    forall ef pre post,
      let d0 := {| d_bytes := pre ++ post; d_pos := length pre |} in
      let '(b1, s1) := ds_new (Image.enc_header (Image.ic_time c) 32%N) Image.NUM_DIRS d0 in
      let '(buf', sd', d') := fold_left (run_op ef) (Flush None :: ops) (b1, s1, d0) in
      buf' = Writer.w_buf s' /\ Inv pre post buf' sd' d' /\ dir_flushed sd'.
Proof. exact ImageProtocol.image_destination. Qed.
Print Assumptions C09_whole_dump_destination.

Example C09_nonvacuous :
  let d0 := {| d_bytes := [9;9;9;8;8;8;8;8;8;8;8;8;8;8;8;8;8;8;8;8;8]%N; d_pos := 3 |} in
  let '(b1, s1) := ds_new [1;2]%N 1 d0 in
  let '(buf', s', d') := fold_left (run_op false) [Flush None; Grow [7;7]%N; Flush (Some (le 4 3 ++ le 4 2 ++ le 4 14))] (b1, s1, d0) in
  d_bytes d' = [9;9;9; 1;2; 3;0;0;0; 2;0;0;0; 14;0;0;0; 7;7; 8;8]%N.
Proof. vm_compute. reflexivity. Qed.
