(* C04 - The thread list is a complete, register-accurate, consistent snapshot.  Property theorems only. *)
From Coq Require Import List NArith Arith.
From MDW Require Import Bytes CpuCtx GenTypes Generated CtxModel CtxProofs CtxTheorems ThreadList ThreadListProofs Ptrace PtraceProofs PtraceMore.
From MDW Require MemWriter Writer Hoare MiniDump Image ImageThreads.
Import ListNotations.
Local Open Scope nat_scope.

(* Completeness: a thread id is listed iff it was enumerated, could be attached and does not run with a
   null stack pointer; no duplicates when the enumeration has none; order = enumeration order.
   (Vanished and skipped threads are not retained, hence never entries.) *)
Theorem C04_listed_iff : forall ts tid,
  In tid (listed ts) <-> exists t, In t ts /\ t_tid t = tid /\ t_attached t = true /\ t_rsp t <> 0%N.
Proof. exact listed_iff. Qed.
Print Assumptions C04_listed_iff.
Theorem C04_listed_nodup : forall ts, NoDup (map t_tid ts) -> NoDup (listed ts).
Proof. exact listed_nodup. Qed.
Print Assumptions C04_listed_nodup.
Theorem C04_listed_order : forall ts1 ts2, listed (ts1 ++ ts2) = listed ts1 ++ listed ts2.
Proof. exact listed_app. Qed.
Print Assumptions C04_listed_order.

(* The assignment tables regenerated from the CURRENT source are the expected ones (a swapped register
   in the source breaks this obligation). *)
Theorem C04_tables_from_source :
  ptrace_table = expected_ptrace_table /\ ptrace_xtable = expected_xtable /\ ptrace_copies = expected_copies.
Proof. destruct generated_tables as (A & B & C & _). auto. Qed.
Print Assumptions C04_tables_from_source.

(* Register accuracy: for EVERY register file, every general-purpose register, rip, rsp, eflags, the six
   segment registers and dr0-3/6/7 can be read back from the 1232 context bytes at the offset and width
   the AMD64 CONTEXT layout gives them (truncated exactly where the format is narrower); likewise the
   x87/SSE control words, and ST0-7 / XMM0-15 as whole blocks. *)
Theorem C04_registers : forall r, length (rf_st r) = 128 -> length (rf_xmm r) = 256 ->
  forall f s, In (f, s) expected_ptrace_table ->
  read (ptrace_ctx r) (fst (cfield_layout f)) (snd (cfield_layout f)) = (eval s r mod 256 ^ N.of_nat (snd (cfield_layout f)))%N.
Proof. intros r H1 H2 f s Hin. apply ptrace_register; assumption. Qed.
Print Assumptions C04_registers.
Theorem C04_float_scalars : forall r, length (rf_st r) = 128 -> length (rf_xmm r) = 256 ->
  forall f s, In (f, s) expected_xtable ->
  read (ptrace_ctx r) (FLOAT_SAVE + fst (xfield_layout f)) (snd (xfield_layout f)) = (eval s r mod 256 ^ N.of_nat (snd (xfield_layout f)))%N.
Proof. intros r H1 H2 f s Hin. apply ptrace_float; assumption. Qed.
Print Assumptions C04_float_scalars.
Theorem C04_st_xmm : forall r, length (rf_st r) = 128 -> length (rf_xmm r) = 256 ->
  slice (ptrace_ctx r) 288 128 = rf_st r /\ slice (ptrace_ctx r) 416 256 = rf_xmm r /\ length (ptrace_ctx r) = 1232.
Proof. exact ptrace_st_xmm. Qed.
Print Assumptions C04_st_xmm.

(* Single instant: in the dumper's event sequence all register and memory reads form one block that comes
   after the attach phase and before the detaches; every retained thread has been attached in the attach phase
   and is not detached in it (distinct thread ids), so no retained thread can run between the capture of its
   registers and the capture of any stack or memory region. *)
Theorem C04_run_shape : forall ts reads,
  let '(e, kept) := suspend_threads ts in
  run ts (Completes reads) = [SigStop] ++ e ++ work kept reads ++ map (fun t => Detach (t_id t)) kept ++ [SigCont]
  /\ forallb neutral (work kept reads) = true.
Proof. exact run_shape. Qed.
Print Assumptions C04_run_shape.
Theorem C04_kept_attached_not_detached : forall ts, NoDup (map t_id ts) ->
  forall t, In t (snd (suspend_threads ts)) ->
  In (Attach (t_id t)) (fst (suspend_threads ts)) /\ ~ In (Detach (t_id t)) (fst (suspend_threads ts)).
Proof. exact kept_attached_not_detached. Qed.
Print Assumptions C04_kept_attached_not_detached.

(* The thread list in the FINAL image of every dump (whole-image model, every content): the first stream, right behind the
   directory; one record per thread of the content, in order, carrying that thread's id ([thread_says]: tid = it_tid); the stack
   descriptor designates exactly the thread's stack bytes at the stack's start address and the context location designates
   exactly its serialised context - whatever the later sections appended. *)
Theorem C04_whole_image_thread_list : forall c dirs lg s',
  Image.image c MiniDump.empty_wst = MemWriter.Ok ((dirs, lg), s') -> Hoare.small (Hoare.blen s') ->
  let n := length (Image.ic_threads c) in
  exists rs blocks cc,
    ImageThreads.run_rel (ImageThreads.thread_says c (ImageThreads.HEAD_LEN + 4 + MiniDump.THREAD_SZ * n)) (Writer.w_buf s')
      (Image.ic_threads c) ([], MiniDump.CNone) rs (blocks, cc) /\
    slice (Writer.w_buf s') ImageThreads.HEAD_LEN (4 + MiniDump.THREAD_SZ * n) = le 4 (N.of_nat n) ++ concat (map Image.enc_thread3 rs) /\
    hd_error dirs = Some (MiniDump.T_THREADS, {| MemWriter.l_rva := N.of_nat ImageThreads.HEAD_LEN; MemWriter.l_size := (4 + N.of_nat (MiniDump.THREAD_SZ * n))%N |}).
Proof. exact ImageThreads.image_thread_list. Qed.
Print Assumptions C04_whole_image_thread_list.

(* ... hence the ids of the records are the ids of the threads, in order: every thread exactly once *)
Theorem C04_whole_image_thread_ids : forall c lo b ts st rs st',
  ImageThreads.run_rel (ImageThreads.thread_says c lo) b ts st rs st' ->
  map (fun r : N * MiniDump.memdesc * MemWriter.loc => fst (fst r)) rs = map Image.it_tid ts.
Proof. exact ImageThreads.run_rel_tids. Qed.
Print Assumptions C04_whole_image_thread_ids.

(* End to end (world -> content -> image): whenever the content lists the threads the structural model retains for a world, the
   thread list of the FINAL image carries exactly their ids in enumeration order: an id is listed iff a thread with that id could
   be attached and has a non-null stack pointer, and no id appears twice when the kernel's ids are distinct. *)
Theorem C04_whole_image_thread_ids_of_world : forall c obs dirs lg s',
  Image.image c MiniDump.empty_wst = MemWriter.Ok ((dirs, lg), s') -> Hoare.small (Hoare.blen s') ->
  map Image.it_tid (Image.ic_threads c) = listed obs ->
  let n := length (Image.ic_threads c) in
  exists rs : list (N * MiniDump.memdesc * MemWriter.loc),
    slice (Writer.w_buf s') ImageThreads.HEAD_LEN (4 + MiniDump.THREAD_SZ * n) = le 4 (N.of_nat n) ++ concat (map Image.enc_thread3 rs) /\
    map (fun r : N * MiniDump.memdesc * MemWriter.loc => fst (fst r)) rs = listed obs /\
    (forall tid, In tid (map (fun r : N * MiniDump.memdesc * MemWriter.loc => fst (fst r)) rs) <->
                 exists t, In t obs /\ t_tid t = tid /\ t_attached t = true /\ t_rsp t <> 0%N) /\
    (NoDup (map t_tid obs) -> NoDup (map (fun r : N * MiniDump.memdesc * MemWriter.loc => fst (fst r)) rs)).
Proof. exact ImageThreads.image_thread_ids_of_world. Qed.
Print Assumptions C04_whole_image_thread_ids_of_world.
