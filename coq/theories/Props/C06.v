(* C06 - Captured stacks contain the live stack.  Property theorems only (region selection). *)
From Coq Require Import List NArith Arith.
From MDW Require Import StackInfo StackInfoProofs StackInfoStrict Shorten GenTypes Generated ThreadList ThreadListProofs.
Import ListNotations.
Local Open Scope N_scope.

(* Stack pointer in readable memory: when the page of the stack pointer lies in a readable or writable
   mapping (and inside its kernel extent), the region starts on that page, contains the stack pointer
   and extends to the end of the mapping - for every in-page offset, mapping list and search profile. *)
Theorem C06_region_in_mapping : forall p fuel ms sp0 m,
  let sp := sp0 - sp0 mod PAGE in
  find_mapping ms sp = Some m -> s_rw m = true -> contains_sys m sp = true ->
  s_start m <= sp -> sp0 < s_start m + s_size m -> s_sys_end m <= s_start m + s_size m ->
  exists v len, get_stack_info p fuel ms sp0 = Ok (v, len) /\
                v = sp /\ v <= sp0 /\ sp0 < v + len /\ v + len = s_start m + s_size m.
Proof. exact get_stack_info_in_mapping. Qed.
Print Assumptions C06_region_in_mapping.

(* Guard page / unmapped: any region returned starts in the first readable-or-writable mapping met
   when stepping pages upward, every earlier page being unmapped or permissionless and no further
   than the guard distance (1 MiB) above the stack pointer's page; otherwise there is no region. *)
Theorem C06_guard : forall ms sp0 v len,
  get_stack_info Strict FUEL ms sp0 = Ok (v, len) ->
  let sp := sp0 - sp0 mod PAGE in
  exists m k,
    find_mapping ms (sp + PAGE * N.of_nat k) = Some m /\ s_rw m = true /\
    (forall j, (j < k)%nat -> may_be_stack (find_mapping ms (sp + PAGE * N.of_nat j)) = false
                              /\ sp + PAGE * N.of_nat j <= sp + 1024 * 1024) /\
    v = (if contains_sys m (sp + PAGE * N.of_nat k) then sp + PAGE * N.of_nat k else s_start m) /\
    len = s_size m - (v - s_start m).
Proof. exact get_stack_info_strict_guard. Qed.
Print Assumptions C06_guard.

(* The search is total: no overflow trap, at most 258 iterations, for every 64-bit stack pointer. *)
Theorem C06_total : forall ms sp0,
  sp0 < 2 ^ 64 -> get_stack_info Strict FUEL ms sp0 <> Panic /\ get_stack_info Strict FUEL ms sp0 <> Hang.
Proof. exact get_stack_info_strict_total. Qed.
Print Assumptions C06_total.

(* Size limit: a region [v, v+len) containing the stack pointer, shortened to a cap, still contains
   the stack pointer, starts no higher than it, is at most the cap long and stays inside the region. *)
Theorem C06_shorten : forall v len cap sp,
  0 < cap -> v <= sp -> sp < v + len ->
  let '(s, l) := shorten_fixed v len cap sp in
  s <= sp /\ sp < s + l /\ l <= N.max cap 0 /\ (cap < len -> l <= cap) /\ v <= s /\ s + l <= v + len.
Proof. exact shorten_fixed_contains. Qed.
Print Assumptions C06_shorten.

(* The code before the repairs: the 2 KiB cut from the page start loses the stack pointer (D2);
   a stack pointer in the last page of the address space traps or never returns (D7). *)
Theorem C06_refuted_limit :
  let '(s, l) := shorten_orig 0x7000 0x2000 2048 (0x7000 + 0xea0) in negb (0x7000 + 0xea0 <? s + l) = true.
Proof. exact shorten_orig_misses. Qed.
Print Assumptions C06_refuted_limit.
Theorem C06_refuted_top : get_stack_info Debug FUEL [] (2 ^ 64 - 8) = Panic /\ get_stack_info Release FUEL [] (2 ^ 64 - 8) = Hang.
Proof. split; [exact top_of_space_debug | exact top_of_space_release]. Qed.
Print Assumptions C06_refuted_top.

(* With a size limit only threads at list position 20 or later, and never the thread described by a
   crash context, are shortened (constants 20 / 2048 / 8 KiB / 64 KiB come from Generated.v, i.e. from
   the current source) ... *)
Theorem C06_not_shortened : forall limit n pos idx crash,
  limit = None \/ idx < 20 \/ crash = true -> shortened limit n pos idx crash = false.
Proof. exact not_shortened. Qed.
Print Assumptions C06_not_shortened.
(* ... and a shortened stack still contains the stack pointer, starts no higher, is at most 2 KiB. *)
Theorem C06_thread_region_shortened : forall maps sp v len,
  get_stack_info Strict FUEL maps sp = Ok (v, len) -> v <= sp -> sp < v + len ->
  exists s l, thread_region maps true sp = Some (s, l) /\ s <= sp /\ sp < s + l /\ (2048 < len -> l <= 2048) /\ v <= s /\ s + l <= v + len.
Proof. exact thread_region_shortened. Qed.
Print Assumptions C06_thread_region_shortened.
