(* C10 - Every prefix of the output is a consistent truncated minidump.   Property theorems only. *)
From Coq Require Import List NArith Arith.
From MDW Require Import Bytes DirSection DirSectionProofs Prefix DirTrace TraceProofs TraceSeqProofs.
From MDW Require MemWriter Writer Hoare MiniDump RefsInside Image ImageProofs ImagePayload.
Import ListNotations.
Local Open Scope nat_scope.

(* One flush-with-entry in the data-first order, from any state in which what has reached the
   destination is consistent (header and whole directory present; every entry zero or inside the
   region): after EVERY destination call it issues (write of the new bytes, position query, seek to
   the slot, write of the entry, seek back) the region is again consistent - so a crash or an I/O
   error between any two calls leaves a readable truncated minidump.
   Hypothesis [entry_ok e (length buf)]: the stream an entry names lies inside the image built so
   far (C01 supplies it for dumps). *)
Theorem C10_entry_prefixes : forall pre buf s d e,
  Inv pre [] buf s d -> length e = 12 -> ds_idx s < ds_n s ->
  consistent (firstn (ds_last s) buf) (ds_sec s) (ds_n s) ->
  (forall i, i < ds_n s -> entry_ok (slice buf (ds_sec s + 12 * i) 12) (length buf)) ->
  ds_sec s + 12 * ds_n s <= ds_last s ->
  entry_ok e (length buf) ->
  let '(_, _, cs) := wtf_calls false buf s (d_pos d) (Some e) in
  Forall (fun d' => consistent (region pre d') (ds_sec s) (ds_n s)) (snapshots d cs).
Proof. exact data_first_all_prefixes. Qed.
Print Assumptions C10_entry_prefixes.

(* A flush without entry (header flush, application-memory flush): one call, after which the
   destination region is the whole image. *)
Theorem C10_flush_prefix : forall pre buf s d,
  Inv pre [] buf s d ->
  (forall i, i < ds_n s -> entry_ok (slice buf (ds_sec s + 12 * i) 12) (length buf)) ->
  ds_sec s + 12 * ds_n s <= length buf ->
  let '(_, _, cs) := wtf_calls false buf s (d_pos d) None in
  Forall (fun d' => region pre d' = buf /\ consistent (region pre d') (ds_sec s) (ds_n s)) (snapshots d cs).
Proof. exact flush_prefix. Qed.
Print Assumptions C10_flush_prefix.

(* Consistency survives growth of the region (a partially completed write of stream bytes) and the
   patching of one entry that names data already present. *)
Theorem C10_grow : forall r sec n tail, consistent r sec n -> consistent (r ++ tail) sec n.
Proof. exact consistent_grow. Qed.
Print Assumptions C10_grow.

Theorem C10_entry : forall r sec n idx e,
  consistent r sec n -> idx < n -> length e = 12 -> entry_ok e (length r) ->
  consistent (update r (sec + 12 * idx) e) sec n.
Proof. exact consistent_entry. Qed.
Print Assumptions C10_entry.

(* Lifted to operation sequences of ANY length from any state satisfying the invariant: after every
   destination call of the whole sequence the region is a consistent truncated minidump.  [valid] is the
   writers' grammar: entries are 12 bytes, at most index_length of them, each naming data inside the image
   built so far. *)
Theorem C10_sequence_prefixes : forall pre ops buf s d,
  Good pre (buf, s, d) -> valid (length buf) (ds_n s - ds_idx s) ops ->
  Good pre (fst (drun false (buf, s, d) ops)) /\
  Forall (fun d' => consistent (region pre d') (ds_sec s) (ds_n s)) (snd (drun false (buf, s, d) ops)).
Proof. exact sequence_prefixes. Qed.
Print Assumptions C10_sequence_prefixes.

(* ... and from the very beginning of the protocol (header bytes, zeroed directory of n entries, first flush),
   into a destination that is empty beyond its starting position: every prefix of the output - from the first
   completed write on - has the header and the whole directory, and every entry is unused or complete. *)
Theorem C10_protocol_prefixes : forall pre buf0 n ops,
  valid (length buf0 + 12 * n) n ops ->
  let d0 := {| d_bytes := pre; d_pos := length pre |} in
  let r := drun false (dstart buf0 n d0) (DFlush None :: ops) in
  Forall (fun d' => consistent (region pre d') (length buf0) n) (snd r).
Proof. exact protocol_prefixes. Qed.
Print Assumptions C10_protocol_prefixes.

(* The entry-before-data order (the code before the repair) is refuted: after the entry is written
   the destination is 44 bytes long and names a stream that ends at byte 144. *)
Theorem C10_refuted_entry_first :
  let buf := repeat 0%N (32 + 12) ++ repeat 7%N 100 in
  let s := {| ds_idx := 0; ds_sec := 32; ds_n := 1; ds_start := 0; ds_last := 44 |} in
  let d := {| d_bytes := repeat 0%N 44; d_pos := 44 |} in
  let e := le 4 3 ++ le 4 100 ++ le 4 44 in
  let '(_, _, d1) := dump_dir_entry buf s d e in
  length (d_bytes d1) = 44 /\ N.to_nat (e_rva (slice (d_bytes d1) 32 12)) + N.to_nat (e_size (slice (d_bytes d1) 32 12)) = 144.
Proof. exact entry_first_dangling. Qed.
Print Assumptions C10_refuted_entry_first.

(* "... and the bytes of everything that stream references": in every state of the image builder that satisfies its
   invariant - after every step of the reduced whole dump, hence whenever a section is flushed - each location already
   stored in the image designates bytes that are already part of the image built so far (or is the empty location). *)
Theorem C10_references_already_present : forall s,
  Writer.Inv s -> Forall (RefsInside.ref_inside (length (Writer.w_buf s))) (Writer.w_refs s).
Proof. exact RefsInside.inv_refs_inside. Qed.
Print Assumptions C10_references_already_present.

(* The WHOLE dump: the model of generate_dump with all section writers (Image.v, in the order of the stream plan
   regenerated from the source) records the builder state at every boundary between two destination calls - after the
   header flush, after the flush of each stream's bytes, and again after its directory entry has been written.  For
   every content, at every such boundary: each location stored so far designates bytes already built, and each
   directory entry handed over so far is unused or names bytes already built.  (The destination then holds exactly
   those bytes: C09.) *)
Theorem C10_whole_dump_prefixes : forall c r s', Image.image c MiniDump.empty_wst = MemWriter.Ok (r, s') ->
  Forall (fun sn => Forall (ImageProofs.ref_inside (Hoare.blen (fst sn))) (Writer.w_refs (fst sn)) /\
                    Forall (ImageProofs.dirent_inside (Hoare.blen (fst sn))) (snd sn)) (snd r).
Proof. exact ImageProofs.image_prefixes. Qed.
Print Assumptions C10_whole_dump_prefixes.

(* ... and every byte outside header and directory is FINAL once it is part of the image: at every recorded boundary, whatever
   lies beyond the directory (byte 248) is already what the finished image has at that place - nothing that has been flushed is
   ever rewritten, so what reached the destination never has to be sent again (the directory entries are the only bytes written
   twice, and the directory section writes them to the destination itself). *)
Theorem C10_flushed_bytes_are_final : forall c dirs lg s',
  Image.image c MiniDump.empty_wst = MemWriter.Ok ((dirs, lg), s') -> Hoare.small (Hoare.blen s') ->
  forall sn, In sn lg ->
    ImagePayload.stable_from (Image.HEADER_SZ + Image.DIRENT_SZ * Image.NUM_DIRS) (fst sn) s' /\ Hoare.blen (fst sn) <= Hoare.blen s'.
Proof. exact ImagePayload.image_flushed_bytes_final. Qed.
Print Assumptions C10_flushed_bytes_are_final.
