(* C20 - Unreferenced-stack filtering keeps exactly the relevant stacks.  Property theorems only. *)
From Coq Require Import List NArith Arith.
From MDW Require Import Bytes StackRef StackIncl.
Import ListNotations.
Local Open Scope nat_scope.

(* the stack scan: true iff some pointer-aligned whole word at or above the (rounded-up) stack-pointer
   offset holds an address inside the principal mapping [lo, hi) - for every copy of at least one word *)
Theorem C20_scan_iff : forall lo hi b sp_off,
  8 <= length b ->
  has_pointer true false lo hi b sp_off = Ok true <->
  exists o, roundup8 sp_off <= o /\ (o - roundup8 sp_off) mod 8 = 0 /\ o + 8 <= length b /\
            (lo <= word_at b o < hi)%N.
Proof. exact has_pointer_iff. Qed.
Print Assumptions C20_scan_iff.

(* the inclusion decision: stack memory is kept iff the instruction pointer lies inside the principal
   mapping or such a word exists *)
Theorem C20_included_iff : forall lo hi ip b sp_off,
  8 <= length b ->
  stack_included (Some (lo, hi)) ip b sp_off = Ok true <->
  (lo <= ip < hi)%N \/
  exists o, roundup8 sp_off <= o /\ (o - roundup8 sp_off) mod 8 = 0 /\ o + 8 <= length b /\
            (lo <= word_at b o < hi)%N.
Proof. exact stack_included_iff. Qed.
Print Assumptions C20_included_iff.

(* never traps, for copies of any length (including shorter than a word) *)
Theorem C20_total : forall principal ip b sp_off, stack_included principal ip b sp_off <> Panic.
Proof. exact stack_included_total. Qed.
Print Assumptions C20_total.

(* the code before the repair: one-past-the-end counted as inside; a 4-byte copy trapped *)
Theorem C20_refuted_end : has_pointer false true 0x1000 0x2000 (le 8 0x2000) 0 = Ok true.
Proof. exact end_counts_as_inside. Qed.
Print Assumptions C20_refuted_end.
Theorem C20_refuted_short : has_pointer false true 0x1000 0x2000 [0;0;0;0]%N 0 = Panic.
Proof. exact short_copy_traps. Qed.
Print Assumptions C20_refuted_short.
