(* C07 - The memory list is faithful and complete.  Property theorems only (completeness / shape). *)
From Coq Require Import List NArith Arith.
From MDW Require Import Bytes Maps GenTypes Generated ThreadList ThreadListProofs.
From MDW Require MemWriter Writer Hoare MiniDump Image ImagePayload.
From MDW Require MemWriter Writer Hoare MiniDump Image ImageThreads.
Import ListNotations.
Local Open Scope N_scope.

(* every non-empty thread stack appears as a region *)
Theorem C07_stacks : forall ms ths app t b,
  In t ths -> tb_stack t = Some b -> In b (memory_list ms ths app).
Proof. exact memory_list_stacks. Qed.
Print Assumptions C07_stacks.
(* every application-requested region appears with exactly the requested address and length, in order, last *)
Theorem C07_app_regions : forall ms ths app, exists pre, memory_list ms ths app = pre ++ app.
Proof. exact memory_list_app. Qed.
Print Assumptions C07_app_regions.
(* with a crash context whose instruction pointer lies in a mapping, the window is included ... *)
Theorem C07_window_included : forall ms ths app t ip w,
  In t ths -> tb_crash_ip t = Some ip -> ip_window ms ip = Some w -> In w (memory_list ms ths app).
Proof. exact memory_list_window. Qed.
Print Assumptions C07_window_included.
(* ... and it is [max(start, ip-128), min(end, ip+128)) of that mapping, containing the instruction pointer *)
Theorem C07_window_spec : forall ms ip s len,
  ip_window ms ip = Some (s, len) ->
  exists m, In m ms /\ m_start m <= ip < m_start m + m_size m /\
            s = N.max (m_start m) (ip - 128) /\ s + len = N.min (m_start m + m_size m) (ip + 128) /\ s <= ip < s + len.
Proof. exact ip_window_spec. Qed.
Print Assumptions C07_window_spec.
Theorem C07_window_none : forall ms ip, ip_window ms ip = None <-> forall m, In m ms -> covers m ip = false.
Proof. exact ip_window_none. Qed.
Print Assumptions C07_window_none.

(* The window arithmetic before the repair (instruction pointer minus 128, unchecked) agrees with the model wherever it does
   not trap, and traps - a panic of the whole dump in the debug profile - on a target whose zero page is mapped when the crash
   instruction pointer lies below 128 (D18); the model's window there is [0, 144). *)
Theorem C07_unchecked_window_agrees : forall ms ip w, ip_window_unchecked ms ip = WOk w -> ip_window ms ip = w.
Proof. exact ip_window_unchecked_agrees. Qed.
Print Assumptions C07_unchecked_window_agrees.
Theorem C07_refuted_unchecked_window :
  let zero_page := {| m_start := 0; m_size := 4096; m_sys_start := 0; m_sys_end := 4096; m_off := 0; m_perms := 7; m_name := None |} in
  ip_window_unchecked [zero_page] 16 = WPanic /\ ip_window [zero_page] 16 = Some (0, 144).
Proof. exact ip_window_unchecked_refuted. Qed.
Print Assumptions C07_refuted_unchecked_window.

(* What the memory-list stream SAYS, byte for byte: the section of the whole-image model that writes it appends exactly the
   32-bit count and the encodings (start address, size, position) of the blocks collected while the thread list and the
   application regions were written, in that order; its directory entry names exactly those bytes. *)
Theorem C07_memory_list_payload : forall blocks s d s',
  Image.sec_memory_list blocks s = MemWriter.Ok (d, s') ->
  Writer.w_buf s' = Writer.w_buf s ++ le 4 (N.of_nat (length blocks)) ++ concat (map MiniDump.enc_memdesc blocks) /\
  d = (MiniDump.T_MEMLIST, {| MemWriter.l_rva := MemWriter.u32 (Hoare.blen s); MemWriter.l_size := (4 + N.of_nat (Image.MEMDESC_SZ * length blocks))%N |}).
Proof. exact ImagePayload.memory_list_payload. Qed.
Print Assumptions C07_memory_list_payload.

(* The memory list in the FINAL image of every dump: the third directory entry; it holds, in this order, what the thread list
   handed on (per thread its stack, then - crash thread only - the window around the crash instruction pointer: [thread_says])
   followed by one descriptor per application region; each descriptor designates exactly the bytes given for it at its own
   address; nothing else is listed. *)
Theorem C07_whole_image_memory_list : forall c dirs lg s',
  Image.image c MiniDump.empty_wst = MemWriter.Ok ((dirs, lg), s') -> Hoare.small (Hoare.blen s') ->
  exists rs blocks cc appd off,
    ImageThreads.run_rel (ImageThreads.thread_says c 248) (Writer.w_buf s') (Image.ic_threads c) ([], MiniDump.CNone) rs (blocks, cc) /\
    Forall2 (ImageThreads.region_says 248 (Writer.w_buf s')) (Image.ic_app c) appd /\
    slice (Writer.w_buf s') off (4 + Image.MEMDESC_SZ * length (blocks ++ appd)) =
      le 4 (N.of_nat (length (blocks ++ appd))) ++ concat (map MiniDump.enc_memdesc (blocks ++ appd)) /\
    nth_error dirs 2 = Some (MiniDump.T_MEMLIST, {| MemWriter.l_rva := N.of_nat off; MemWriter.l_size := (4 + N.of_nat (Image.MEMDESC_SZ * length (blocks ++ appd)))%N |}).
Proof. exact ImageThreads.image_memory_list. Qed.
Print Assumptions C07_whole_image_memory_list.

(* End to end (world -> content -> image): whenever the content of the dump realises what the structural model says about a world
   - thread by thread the stored stack has the model's block address and length, the stored window is the model's window around
   the crash instruction pointer - the memory list of the FINAL image names exactly the regions [memory_list] prescribes for that
   world, in its order, and nothing else. *)
Theorem C07_whole_image_memory_list_of_world : forall c ms tbs app dirs lg s',
  Image.image c MiniDump.empty_wst = MemWriter.Ok ((dirs, lg), s') -> Hoare.small (Hoare.blen s') ->
  Forall2 (ImageThreads.realises_thread c ms) (Image.ic_threads c) tbs -> map ImageThreads.region_extent (Image.ic_app c) = app ->
  exists descs off,
    map ImageThreads.desc_extent descs = memory_list ms tbs app /\
    slice (Writer.w_buf s') off (4 + Image.MEMDESC_SZ * length descs) = le 4 (N.of_nat (length descs)) ++ concat (map MiniDump.enc_memdesc descs) /\
    nth_error dirs 2 = Some (MiniDump.T_MEMLIST, {| MemWriter.l_rva := N.of_nat off; MemWriter.l_size := (4 + N.of_nat (Image.MEMDESC_SZ * length descs))%N |}).
Proof. exact ImageThreads.image_memory_list_of_world. Qed.
Print Assumptions C07_whole_image_memory_list_of_world.
