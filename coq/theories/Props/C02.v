(* C02 - Dumping is total: it always returns and never panics or hangs.  Property theorems only:
   totality of each component that consumes target-controlled data, for ALL inputs. *)
From Coq Require Import List NArith Arith.
From MDW Require Import Bytes StackInfo StackInfoStrict StackRef StackIncl Sanitize Elf ElfProofs SoVersion
                        DsoDebug DsoStream TotalityProofs Ptrace PtraceProofs
                        MemWriter Writer MiniDump MiniDumpTotal Image ImageProofs.
Import ListNotations.
Local Open Scope N_scope.

(* The composed builder: the reduced whole dump (thread list with stacks, contexts and patched records, application
   memory, memory list, exception record) on the writer monad with the real write_at semantics - a write whose offset
   lies beyond the end of the buffer traps - never takes the Panic outcome, for every world, configuration, carried
   state, thread count and image size. *)
Theorem C02_composed_dump_never_panics : forall reset w cfg ca, dump reset w cfg ca empty_wst <> MemWriter.Panic.
Proof. exact dump_never_panics. Qed.
Print Assumptions C02_composed_dump_never_panics.

(* stack pointer anywhere in the 64-bit space (unmapped, top of the address space, misaligned): the
   guard-page search returns within 258 iterations without overflow *)
Theorem C02_stack_search_total : forall ms sp0,
  sp0 < 2 ^ 64 -> get_stack_info Strict FUEL ms sp0 <> StackInfo.Panic /\ get_stack_info Strict FUEL ms sp0 <> StackInfo.Hang.
Proof. exact get_stack_info_strict_total. Qed.
Print Assumptions C02_stack_search_total.
(* stack scanning / inclusion for copies of any length *)
Theorem C02_stack_filter_total : forall principal ip b sp_off, stack_included principal ip b sp_off <> StackRef.Panic.
Proof. exact stack_included_total. Qed.
Print Assumptions C02_stack_filter_total.
(* sanitising for any copy, offset (also beyond the copy) and mapping list *)
Theorem C02_sanitize_total : forall ms stack sp off, sanitize_exec ms stack sp off <> Sanitize.Panic.
Proof. exact sanitize_exec_total. Qed.
Print Assumptions C02_sanitize_total.
(* any bytes where ELF headers, program headers, notes or sections are expected *)
Theorem C02_elf_total : forall m, build_id true m <> Elf.Panic.
Proof. exact build_id_total. Qed.
Print Assumptions C02_elf_total.
(* any mapped-file name *)
Theorem C02_version_total : forall s, SoVersion.parse true s <> SoVersion.Panic.
Proof. exact parse_fixed_total. Qed.
Print Assumptions C02_version_total.
(* any bytes where the linker's module list is expected, any AT_PHDR / AT_PHNUM *)
Theorem C02_link_map_walk_total : forall m fuel cur acc,
  walk true (Some MAX_DSOS) m fuel cur acc <> DsoDebug.Panic /\ walk true (Some MAX_DSOS) m fuel cur acc <> DsoDebug.Hang.
Proof. exact walk_fixed_total. Qed.
Print Assumptions C02_link_map_walk_total.
Theorem C02_linker_stream_total : forall m phdr phnum,
  (exists o, dso_stream m phdr phnum = DOk o) \/ dso_stream m phdr phnum = DErr \/ dso_stream m phdr phnum = DUnspec.
Proof. exact dso_stream_total. Qed.
Print Assumptions C02_linker_stream_total.

(* The composed layout of ALL section writers (Image.v, in the order of the regenerated stream plan, with the real
   write_at semantics): whatever the content - any number of threads, modules, regions, names, descriptors, any
   failed soft step - building the image never errs and never takes the Panic outcome. *)
Theorem C02_whole_image_total : forall c, exists r s', image c empty_wst = MemWriter.Ok (r, s').
Proof. exact image_total. Qed.
Print Assumptions C02_whole_image_total.
