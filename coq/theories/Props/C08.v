(* C08 - The module list reflects the loaded ELF images.  Property theorems only (list structure). *)
From Coq Require Import List NArith Arith.
From MDW Require Import Bytes Maps EffPath SoVersion ThreadList Modules ModulesProofs.
From MDW Require MemWriter Writer Hoare MiniDump Text Image ImageThreads.
Import ListNotations.
Local Open Scope N_scope.

(* every file-backed mapping group that is interesting (named; offset 0 or executable; >= 4096 bytes), not
   wholly contained in a caller-supplied mapping, and for which identification finds a non-zero build id,
   is listed with base / size = its merged extent and exactly that identifier ... *)
Theorem C08_qualifying_listed : forall ms tbl users m nm e id,
  In m ms -> m_name m = Some nm -> interesting m = true -> contained m (map (fun u => (um_start u, um_size u)) users) = false ->
  lookup tbl nm (m_off m) = Some e -> ei_id e = Some id -> usable_id id = true ->
  In (module_of m id (ei_soname e)) (module_list ms tbl users).
Proof. exact qualifying_listed. Qed.
Print Assumptions C08_qualifying_listed.
(* ... and nothing else derived from the target is *)
Theorem C08_listed_qualifies : forall ms tbl users md,
  In md (target_modules ms tbl users) ->
  exists m nm e id, In m ms /\ m_name m = Some nm /\ interesting m = true /\ contained m users = false /\
                    lookup tbl nm (m_off m) = Some e /\ ei_id e = Some id /\ usable_id id = true /\ md = module_of m id (ei_soname e).
Proof. exact listed_qualifies. Qed.
Print Assumptions C08_listed_qualifies.
Theorem C08_extent : forall m id so,
  md_base (module_of m id so) = m_start m /\ md_size (module_of m id so) = m_size m mod 2 ^ 32 /\ md_id (module_of m id so) = id.
Proof. exact module_extent. Qed.
Print Assumptions C08_extent.
(* order = the dumper's mapping order (entry-point mapping first: ThreadList.dumper_mappings) *)
Theorem C08_order : forall ms1 ms2 tbl users,
  target_modules (ms1 ++ ms2) tbl users = target_modules ms1 tbl users ++ target_modules ms2 tbl users.
Proof. exact target_modules_app. Qed.
Print Assumptions C08_order.
(* caller-supplied mappings are listed verbatim after the target's modules and suppress what they contain *)
Theorem C08_users_verbatim : forall ms tbl users, exists pre, module_list ms tbl users = pre ++ map user_module users.
Proof. exact users_verbatim. Qed.
Print Assumptions C08_users_verbatim.
(* version numbers: the repaired .so-suffix parser is total for every string (the unrepaired one panics
   on 'lib.so.1.2.3<non-ASCII>4') *)
Theorem C08_version_parser_total : forall s, SoVersion.parse true s <> SoVersion.Panic.
Proof. exact parse_fixed_total. Qed.
Print Assumptions C08_version_parser_total.

(* The module list in the FINAL image of every dump: one record per module of the content, in order; each record carries the
   module itself (base, size, version) and stores the locations of exactly its name (as a MINIDUMP_STRING) and - when the module
   has an identifier - of exactly its CodeView record (signature + identifier); with no identifier the location is empty. *)
Theorem C08_whole_image_module_list : forall c dirs lg s',
  Image.image c MiniDump.empty_wst = MemWriter.Ok ((dirs, lg), s') -> Hoare.small (Hoare.blen s') ->
  exists rs off,
    ImageThreads.run_rel (ImageThreads.module_says 248) (Writer.w_buf s') (Image.ic_modules c) tt rs tt /\
    Bytes.slice (Writer.w_buf s') off (4 + Image.MODULE_SZ * length rs) = Bytes.le 4 (N.of_nat (length rs)) ++ concat (map Image.enc_module rs) /\
    In (Image.T_MODULES, {| MemWriter.l_rva := N.of_nat off; MemWriter.l_size := (4 + N.of_nat (Image.MODULE_SZ * length rs))%N |}) dirs.
Proof. exact ImageThreads.image_module_list. Qed.
Print Assumptions C08_whole_image_module_list.

(* End to end (structural model -> image): whenever the modules of the content realise [module_list] of a world (same base,
   32-bit size, identifier, effective name), the module list of the FINAL image has one record per model module, in the model's
   order, each with that base and size, the location of exactly the effective name and - if there is an identifier - of exactly the
   CodeView record holding it. *)
Theorem C08_whole_image_module_list_of_world : forall c maps tbl users dirs lg s',
  Image.image c MiniDump.empty_wst = MemWriter.Ok ((dirs, lg), s') -> Hoare.small (Hoare.blen s') ->
  Forall2 ImageThreads.realises_module (Image.ic_modules c) (module_list maps tbl users) ->
  exists rs off,
    Forall2 (ImageThreads.record_says_module (Writer.w_buf s')) rs (module_list maps tbl users) /\
    Bytes.slice (Writer.w_buf s') off (4 + Image.MODULE_SZ * length rs) = Bytes.le 4 (N.of_nat (length rs)) ++ concat (map Image.enc_module rs) /\
    In (Image.T_MODULES, {| MemWriter.l_rva := N.of_nat off; MemWriter.l_size := (4 + N.of_nat (Image.MODULE_SZ * length rs))%N |}) dirs.
Proof. exact ImageThreads.image_module_list_of_world. Qed.
Print Assumptions C08_whole_image_module_list_of_world.
