(* C16 - The image builder obeys its layout laws.   Property theorems only. *)
From Coq Require Import List NArith Arith.
From MDW Require Import Bytes MemWriter Text MemOps MemOpsProofs MemSeqProofs.
Import ListNotations.
Local Open Scope nat_scope.

(* Reserving or writing a value / array / byte blob / string appends exactly its serialised
   size at the current end and returns (offset, size) (as the u32 the format stores);
   earlier bytes are a prefix of the new buffer. *)
Theorem C16_alloc_appends : forall s o c,
  appended o = Some c -> well_typed o ->
  exists s', step s o = Ok (s', (u32 (length (buf s)), u32 (length c))) /\ buf s' = buf s ++ c.
Proof. exact alloc_appends. Qed.
Print Assumptions C16_alloc_appends.

(* Filling a reserved slot later changes only that slot. *)
Theorem C16_set_changes_only_slot : forall s k v pos size s' out,
  nth_error (singles s) k = Some (pos, size) -> length v = size ->
  N.to_nat pos + size <= length (buf s) ->
  step s (OSet k v) = Ok (s', out) ->
  length (buf s') = length (buf s) /\
  slice (buf s') (N.to_nat pos) size = v /\
  (forall o n, o + n <= N.to_nat pos -> slice (buf s') o n = slice (buf s) o n) /\
  (forall o n, N.to_nat pos + size <= o -> slice (buf s') o n = slice (buf s) o n).
Proof. exact set_changes_only_slot. Qed.
Print Assumptions C16_set_changes_only_slot.

(* Element i of an array lives at base + i * element size; nothing else changes. *)
Theorem C16_set_at_element : forall s k idx v pos esz n s' out,
  nth_error (arrays s) k = Some (pos, esz, n) -> length v = esz -> idx < n ->
  N.to_nat pos + n * esz <= length (buf s) ->
  step s (OSetAt k idx v) = Ok (s', out) ->
  length (buf s') = length (buf s) /\
  slice (buf s') (N.to_nat pos + idx * esz) esz = v /\
  (forall j, j < n -> j <> idx ->
     slice (buf s') (N.to_nat pos + j * esz) esz = slice (buf s) (N.to_nat pos + j * esz) esz) /\
  (forall o m, o + m <= N.to_nat pos -> slice (buf s') o m = slice (buf s) o m) /\
  (forall o m, N.to_nat pos + n * esz <= o -> slice (buf s') o m = slice (buf s) o m).
Proof. exact set_at_element. Qed.
Print Assumptions C16_set_at_element.

(* A string is a byte length followed by exactly that many bytes of UTF-16LE code units
   which decode back to the original text, for every string of Unicode scalar values. *)
Theorem C16_string_stored : forall str,
  Forall scalar str ->
  exists units, md_string str = le 4 (2 * N.of_nat (length units)) ++ flat_map (le 2) units
                /\ length (flat_map (le 2) units) = 2 * length units
                /\ utf16_decode units = Some str.
Proof. exact string_stored. Qed.
Print Assumptions C16_string_stored.

(* Sequences.  Every state reachable from the empty image by operations used as the writers use them (fills go to
   slots handed out earlier with a value of the slot's size, array elements by an index below the count), of any
   length, as long as the image stays below 4 GiB, keeps every handed-out slot inside the buffer ... *)
Theorem C16_reachable_slots_inside : forall s, reach s -> slots_in s.
Proof. exact reach_slots_in. Qed.
Print Assumptions C16_reachable_slots_inside.

(* ... so in every reachable state filling a reserved slot succeeds and changes only that slot, *)
Theorem C16_reachable_fill_slot : forall s k v pos size,
  reach s -> nth_error (singles s) k = Some (pos, size) -> length v = size ->
  exists s' out, step s (OSet k v) = Ok (s', out) /\
    length (buf s') = length (buf s) /\ slice (buf s') (N.to_nat pos) size = v /\
    (forall o n, o + n <= N.to_nat pos -> slice (buf s') o n = slice (buf s) o n) /\
    (forall o n, N.to_nat pos + size <= o -> slice (buf s') o n = slice (buf s) o n).
Proof. exact reach_fill_slot. Qed.
Print Assumptions C16_reachable_fill_slot.

(* and storing element idx of a reserved array succeeds, lands at base + idx * element size and changes nothing else. *)
Theorem C16_reachable_fill_element : forall s k idx v pos esz n,
  reach s -> nth_error (arrays s) k = Some (pos, esz, n) -> length v = esz -> idx < n ->
  exists s' out, step s (OSetAt k idx v) = Ok (s', out) /\
    length (buf s') = length (buf s) /\ slice (buf s') (N.to_nat pos + idx * esz) esz = v /\
    (forall j, j < n -> j <> idx -> slice (buf s') (N.to_nat pos + j * esz) esz = slice (buf s) (N.to_nat pos + j * esz) esz) /\
    (forall o m, o + m <= N.to_nat pos -> slice (buf s') o m = slice (buf s) o m) /\
    (forall o m, N.to_nat pos + n * esz <= o -> slice (buf s') o m = slice (buf s) o m).
Proof. exact reach_fill_element. Qed.
Print Assumptions C16_reachable_fill_element.

(* the hypotheses are satisfiable: a concrete non-trivial run *)
Example C16_nonvacuous :
  let ops := [OAllocVal [1;2;3;4]%N; OAllocArray 3 2; OSetAt 0 1 [9;9]%N; OString [0x1F600]%N; OSet 0 [5;6;7;8]%N] in
  buf (snd (run_ops empty_state ops)) = [5;6;7;8; 0;0;9;9;0;0; 4;0;0;0; 0x3D;0xD8;0x00;0xDE]%N.
Proof. vm_compute. reflexivity. Qed.
