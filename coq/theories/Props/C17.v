(* C17 - All remote-memory read strategies return the target's bytes.  Property theorems only. *)
From Coq Require Import List NArith Arith.
From MDW Require Import Bytes MemReader MemReaderFix.
Import ListNotations.
Local Open Scope nat_scope.

(* A range that is entirely readable is returned exactly - whatever its start, alignment and length -
   by the vectored read, the /proc memory file, and the (repaired) word-by-word ptrace strategy. *)
Theorem C17_readable_vmem_file : forall m src len b,
  read_range m src len = Some b -> vmem m src len = ROk b /\ file m src len = ROk b.
Proof. exact vmem_file_exact. Qed.
Print Assumptions C17_readable_vmem_file.
Theorem C17_readable_ptrace : forall m src len b, read_range m src len = Some b -> ptrace_fixed m src len = ROk b.
Proof. exact ptrace_fixed_exact. Qed.
Print Assumptions C17_readable_ptrace.

(* What the vectored strategy returns is always a prefix of the true bytes (never fabricated data). *)
Theorem C17_prefix : forall m n a, exists k, k <= n /\ read_range m a k = Some (read_prefix m a n).
Proof. exact read_prefix_is_prefix. Qed.
Print Assumptions C17_prefix.

(* The ptrace strategy before the repair over-reads: 4 readable bytes directly below an unreadable page fail. *)
Theorem C17_refuted_tail : read_range m_ex 4092 4 = Some [252;253;254;255]%N /\ ptrace_orig m_ex 4092 4 = RErr.
Proof. exact ptrace_orig_overreads. Qed.
Print Assumptions C17_refuted_tail.
