(* C15 - Thread names are attached to the right threads.  Property theorems only. *)
From Coq Require Import List NArith Arith.
From MDW Require Import Bytes MemWriter Text ThreadNames.
From MDW Require MemWriter Writer Hoare MiniDump Image ImageThreads.
Import ListNotations.
Local Open Scope nat_scope.

(* Closed form of the thread-name stream for every thread list (any length, any mix of readable and
   unreadable names) appended to any image [buf]: the count of named threads, then one 12-byte entry
   per NAMED thread in list order - its id and the position of its own string -, then the strings;
   earlier bytes untouched; directory entry = (|buf|, 4 + 12n).  Threads without a name contribute
   nothing and shift nothing. *)
Theorem C15_names_closed_form : forall ths buf,
  let nms := named ths in
  let n := length nms in
  let str0 := length buf + 4 + 12 * n in
  names_write true ths buf =
    Ok (buf ++ le 4 (N.of_nat n)
            ++ concat (map (fun '(x, p) => name_entry (fst x) p) (combine nms (name_rvas str0 nms)))
            ++ concat (map (fun x => md_string (snd x)) nms),
        (u32 (length buf), N.of_nat (4 + 12 * n))).
Proof. exact names_write_fixed. Qed.
Print Assumptions C15_names_closed_form.

(* the stored strings decode back to the names, for every string of Unicode scalar values *)
Theorem C15_string_roundtrip : forall s, Forall scalar s -> utf16_decode (utf16 s) = Some s.
Proof. exact utf16_roundtrip. Qed.
Print Assumptions C15_string_roundtrip.

(* The loop before the repair (slot = index among ALL threads) is refuted: with an unnamed thread
   first, slot 0 stays empty and the entry lands past its one-slot array (28 bytes instead of 22). *)
Theorem C15_refuted_mixed : out_len (names_write false ths2 []) = 28 /\ out_len (names_write true ths2 []) = 22.
Proof. split; [exact names_orig_overruns | exact names_fixed_len]. Qed.
Print Assumptions C15_refuted_mixed.

(* The thread-names stream in the FINAL image of every dump: one record per name of the content, in order, each with the id
   it was given for and the location of exactly the MINIDUMP_STRING of that name. *)
Theorem C15_whole_image_thread_names : forall c dirs lg s',
  Image.image c MiniDump.empty_wst = MemWriter.Ok ((dirs, lg), s') -> Hoare.small (Hoare.blen s') ->
  let n := length (Image.ic_names c) in
  exists rs off,
    ImageThreads.run_rel (ImageThreads.name_says 248) (Writer.w_buf s') (Image.ic_names c) tt rs tt /\
    slice (Writer.w_buf s') off (4 + Image.NAME_SZ * n) = le 4 (N.of_nat n) ++ concat (map Image.enc_name rs) /\
    In (Image.T_NAMES, {| MemWriter.l_rva := N.of_nat off; MemWriter.l_size := (4 + N.of_nat (Image.NAME_SZ * n))%N |}) dirs.
Proof. exact ImageThreads.image_thread_names. Qed.
Print Assumptions C15_whole_image_thread_names.

(* End to end (structural model -> image): whenever the names of the content are the model's named threads (every listed thread
   whose name could be read, in list order; a thread without a readable name contributes nothing and shifts nothing), the stream
   of the FINAL image has exactly one record per such thread, in that order, with that thread's id and the location of exactly
   its own name. *)
Theorem C15_whole_image_thread_names_of_world : forall c (ths : list thread) dirs lg s',
  Image.image c MiniDump.empty_wst = MemWriter.Ok ((dirs, lg), s') -> Hoare.small (Hoare.blen s') -> Image.ic_names c = named ths ->
  let n := length (named ths) in
  exists rs off,
    Forall2 (fun x r => fst r = fst x /\ ImageThreads.designates 248 (Writer.w_buf s') (snd r) (md_string (snd x))) (named ths) rs /\
    slice (Writer.w_buf s') off (4 + Image.NAME_SZ * n) = le 4 (N.of_nat n) ++ concat (map Image.enc_name rs) /\
    In (Image.T_NAMES, {| MemWriter.l_rva := N.of_nat off; MemWriter.l_size := (4 + N.of_nat (Image.NAME_SZ * n))%N |}) dirs.
Proof. exact ImageThreads.image_thread_names_of_world. Qed.
Print Assumptions C15_whole_image_thread_names_of_world.
