(* C19 - A writer can be reused: successive dumps are independent.  Property theorems only. *)
From Coq Require Import List NArith Arith.
From MDW Require Import Maps ThreadList Reuse GenTypes Generated ReuseGen.
Import ListNotations.
Local Open Scope N_scope.

(* One request on a writer in ANY carried state (whatever earlier requests left in the memory-block list,
   the crashing-thread context and the resolved principal mapping) gives what a fresh writer gives. *)
Theorem C19_independent : forall ws rq, fst (dump_once true ws rq) = fst (dump_once true fresh rq).
Proof. exact dump_once_independent. Qed.
Print Assumptions C19_independent.

(* ... hence every request of a history of any length, against the same or a changed target. *)
Theorem C19_history : forall rqs ws,
  dump_seq true ws rqs = map (fun rq => fst (dump_once true fresh rq)) rqs.
Proof. exact dump_seq_independent. Qed.
Print Assumptions C19_history.

(* Tied to the CURRENT source by the translator: every field of the writer that any code running during a dump request
   assigns, pushes to, clears, takes or borrows mutably is among the fields that dump() resets before anything else -
   a request never modifies the caller's configuration, and what it records is cleared before the next one starts. *)
Theorem C19_only_reset_state_is_mutated : forall f, In f dump_mutated_fields -> In f dump_reset_fields.
Proof. exact dump_mutates_only_reset_state. Qed.
Print Assumptions C19_only_reset_state_is_mutated.

(* The writer before the repair leaks: the second of two identical requests lists two blocks. *)
Theorem C19_refuted_memlist :
  let rq := {| rq_maps := []; rq_threads := [{| tb_stack := Some (0x7000, 0x1000); tb_crash_ip := None |}]; rq_app := [];
               rq_blamed_ctx := Some 100; rq_skip := false; rq_principal_addr := None |} in
  map (fun r => length (fst (fst r))) (dump_seq false fresh [rq; rq]) = [1%nat; 2%nat]
  /\ map (fun r => length (fst (fst r))) (dump_seq true fresh [rq; rq]) = [1%nat; 1%nat].
Proof. exact reuse_leaks. Qed.
Print Assumptions C19_refuted_memlist.
