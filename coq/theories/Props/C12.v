(* C12 - Stack sanitization lets only pointers and small integers survive.  Property theorems only. *)
From Coq Require Import List NArith Arith.
From MDW Require Import Bytes Sanitize SanitizeProofs SanitizeFast SanitizeSpec.
Import ListNotations.
Local Open Scope N_scope.

(* The sanitiser as coded (2^11-bit pre-filter filled by the per-mapping range loop, last-hit cache,
   zeroed prefix clamped to the copy, word loop, zeroed partial tail) equals the plain specification,
   for every stack content, stack pointer, offset (also beyond the copy) and every mapping list whose
   kernel extents lie inside their mapping extents (true of every aggregated list: C13's RunOf) and
   in which mappings containing a common address agree on executability (true when kernel extents
   are disjoint; insensitive to the entry-point swap). *)
Theorem C12_refines : forall ms stack sp sp_off,
  Forall wf_map ms -> agree_exec ms ->
  sanitize_fixed ms stack sp sp_off = Ok (sanitize_spec ms stack sp sp_off).
Proof. exact sanitize_refines. Qed.
Print Assumptions C12_refines.

(* the variant that is extracted and run against the implementation (closed-form bitmap) is that function *)
Theorem C12_exec_is_fixed : forall ms stack sp off, sanitize_exec ms stack sp off = sanitize_fixed ms stack sp off.
Proof. exact sanitize_exec_fixed. Qed.
Print Assumptions C12_exec_is_fixed.

(* What the specification says: the region keeps its length; the first roundup8(offset) bytes (clamped)
   are zero; the rest splits into whole 8-byte words followed by fewer than 8 trailing bytes, which are
   zeroed; every whole word is replaced by its classification. *)
Theorem C12_shape : forall ms stack sp sp_off,
  Forall byte stack ->
  let off := Nat.min (roundup8 sp_off) (length stack) in
  exists ws tl,
    skipn off stack = flat_map (le 8) ws ++ tl /\ (length tl < 8)%nat /\
    sanitize_spec ms stack sp sp_off
    = repeat 0 off ++ flat_map (le 8) (map (classify_spec ms (find_no_bias ms sp)) ws) ++ repeat 0 (length tl) /\
    length (sanitize_spec ms stack sp sp_off) = length stack.
Proof. exact sanitize_spec_shape. Qed.
Print Assumptions C12_shape.

(* A word is unchanged exactly when it qualifies, otherwise it is the sentinel ... *)
Theorem C12_word : forall ms stack_map w,
  (keep_spec ms stack_map w = true /\ classify_spec ms stack_map w = w) \/
  (keep_spec ms stack_map w = false /\ classify_spec ms stack_map w = 0x0defaced0defaced).
Proof. exact classify_spec_cases. Qed.
Print Assumptions C12_word.

(* ... and it qualifies iff it is an integer of signed magnitude <= 4096, an address in the thread's
   own stack mapping (the mapping whose kernel extent holds the stack pointer), or an address in an
   executable mapping. *)
Theorem C12_qualifies : forall ms stack_map w,
  keep_spec ms stack_map w = true <->
  (w <= 4096 \/ 2 ^ 64 - 4096 <= w)
  \/ (exists s, stack_map = Some s /\ mp_sys_start s <= w < mp_sys_end s)
  \/ (exists m, In m ms /\ mp_exec m = true /\ mp_sys_start m <= w < mp_sys_end m).
Proof. exact keep_spec_iff. Qed.
Print Assumptions C12_qualifies.

(* The code before the repairs is refuted on both counts (D4, D3). *)
Theorem C12_refuted_negative :
  sanitize_orig [] (le 8 (2 ^ 64 - 1)) 16 0 = Ok (le 8 DEFACED) /\ sanitize_spec [] (le 8 (2 ^ 64 - 1)) 16 0 = le 8 (2 ^ 64 - 1).
Proof. exact sanitize_orig_defaces_minus_one. Qed.
Theorem C12_refuted_short : sanitize_orig [] [0;0;0;0;0;0;0;0] 16 9 = Panic.
Proof. exact sanitize_orig_panics_short. Qed.
Print Assumptions C12_refuted_negative.
Print Assumptions C12_refuted_short.
