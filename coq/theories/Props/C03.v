(* C03 - The target is left running and undisturbed.  Property theorems only (dumper bookkeeping). *)
From Coq Require Import List NArith Arith.
From MDW Require Import Ptrace PtraceProofs.
Import ListNotations.
Local Open Scope nat_scope.

(* For every thread list (any length), every per-thread attach outcome (attached; attach fails because the
   thread vanished or is traced by someone else; wait error; null-SP helper skipped), any signals seen
   while attaching, and every way the request can end - an error during initialisation, a hard error /
   I/O failure / panic after any number of reads (the dumper's Drop runs), or normal completion -:
   in the final kernel state no thread is traced and the last stop/continue signal sent is SIGCONT. *)
Theorem C03_released : forall ts s x,
  traced (final (run ts s)) x = false /\ gstop (final (run ts s)) = false.
Proof. intros ts s x. exact (run_releases ts s x). Qed.
Print Assumptions C03_released.
