(* C03 - The target is left running and undisturbed.  Property theorems only (dumper bookkeeping). *)
From Coq Require Import List NArith Arith.
From MDW Require Import Ptrace PtraceProofs PtraceMore PtraceWait.
Import ListNotations.
Local Open Scope nat_scope.

(* For every thread list (any length), every per-thread attach outcome (attached; attach fails because the
   thread vanished or is traced by someone else; wait error; null-SP helper skipped), any signals seen
   while attaching, and every way the request can end - an error during initialisation, a hard error /
   I/O failure / panic after any number of reads (the dumper's Drop runs), or normal completion -:
   in the final kernel state no thread is traced and the last stop/continue signal sent is SIGCONT. *)
Theorem C03_released : forall ts s x,
  traced (final (run ts s)) x = false /\ gstop (final (run ts s)) = false.
Proof. intros ts s x. exact (run_releases ts s x). Qed.
Print Assumptions C03_released.

(* Signals: every signal seen while attaching to a thread (any thread whose attach did not fail outright) is
   re-injected exactly once, in order, and nothing else is injected - whether the request completes or fails
   after suspension; when initialisation fails nothing was consumed.  (Signals arriving while a thread is
   traced stay queued in the kernel: the dumper never dequeues them.) *)
Theorem C03_signals_reinjected_once : forall ts reads,
  delivered (final (run ts (Completes reads))) = rev (flat_map seen ts) /\
  delivered (final (run ts (AfterSuspend reads))) = rev (flat_map seen ts) /\
  delivered (final (run ts InitFails)) = [].
Proof. exact signals_reinjected_once. Qed.
Print Assumptions C03_signals_reinjected_once.

(* The wait loop after PTRACE_ATTACH, call by call: interrupted waits (EINTR) never change its outcome, and when the
   calls - interruptions aside - report the signals [sigs] and then the SIGSTOP stop, exactly those signals are handed
   back, once each and in order, and the thread counts as attached. *)
Theorem C03_interrupted_wait_is_retried : forall t ws,
  wait_loop t ws = wait_loop t (filter (fun w => negb (is_eintr w)) ws).
Proof. exact eintr_irrelevant. Qed.
Print Assumptions C03_interrupted_wait_is_retried.

Theorem C03_interrupted_attach : forall t ws sigs rest,
  filter (fun w => negb (is_eintr w)) ws = map WSig sigs ++ WStop :: rest ->
  wait_loop t ws = (map (Reinject t) sigs, Some true) /\
  fst (suspend_thread {| t_id := t; t_kind := AOk; t_sigs := sigs |}) = map (Reinject t) sigs ++ [Attach t].
Proof. exact interrupted_attach. Qed.
Print Assumptions C03_interrupted_attach.
