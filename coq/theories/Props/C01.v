(* C01 - A successful dump is a structurally sound minidump.  Property theorems only. *)
From Coq Require Import List NArith Arith.
From MDW Require Import Bytes MemWriter Writer Hoare MiniDump MiniDumpProofs SoundAbs SoundBridge GenTypes Generated PlanProofs Image ImageProofs ImageDirProofs.
From MDW Require SectionOps.
Import ListNotations.

(* (1) The builder model: the reduced whole dump (header slot, thread list with stacks, contexts and
   patched records, application memory, memory list, exception record) run on the writer monad with the
   real write_at semantics, from the empty image, for EVERY world, option set and carried state:
   the ghost object map tiles the image (objects are appended, none overlaps) and every stored
   location designates an object of the expected kind with exactly its length (or is empty). *)
Theorem C01_builder_invariant : forall reset w cfg ca r s',
  dump reset w cfg ca empty_wst = Ok (r, s') -> Inv s'.
Proof. exact dump_ok. Qed.
Print Assumptions C01_builder_invariant.

Theorem C01_tiled_disjoint : forall objs e, tiled objs e ->
  forall i j oi oj, i < j -> nth_error objs i = Some oi -> nth_error objs j = Some oj ->
  o_rva oj + o_len oj <= o_rva oi.
Proof. exact tiled_disjoint. Qed.
Print Assumptions C01_tiled_disjoint.

(* (1b) The bridge between the two: the object map of any state satisfying the builder invariant, read as the object
   list of an abstract image of the buffer's length (whatever kinds are assigned), passes the object half of the
   executable predicate - every object inside the image, no two overlapping. *)
Theorem C01_invariant_implies_predicate : forall kind_of s,
  Inv s ->
  forallb (inside (N.of_nat (length (w_buf s)))) (map (to_sobj kind_of) (w_objs s)) = true /\
  pairwise (map (to_sobj kind_of) (w_objs s)) = true.
Proof. exact inv_objects_sound. Qed.
Print Assumptions C01_invariant_implies_predicate.

(* (2) What the executable predicate applied to every real image means: every object any stored offset
   designates lies wholly inside the image, and two objects never overlap except the two intended
   sharings (a thread's stack and its memory-list entry; a thread's context and the exception context) ... *)
Theorem C01_predicate_objects : forall a, sound_b a = true ->
  (forall o, In o (ai_objs a) -> (so_rva o + so_size o <= ai_len a)%N) /\
  (forall i j x y, (i < j)%nat -> nth_error (ai_objs a) i = Some x -> nth_error (ai_objs a) j = Some y ->
     (so_rva x + so_size x <= so_rva y)%N \/ (so_rva y + so_size y <= so_rva x)%N \/
     (so_rva x = so_rva y /\ so_size x = so_size y /\
      ((so_kind x = 4%N /\ so_kind y = 10%N) \/ (so_kind x = 10%N /\ so_kind y = 4%N) \/
       (so_kind x = 5%N /\ so_kind y = 11%N) \/ (so_kind x = 11%N /\ so_kind y = 5%N)))).
Proof. exact sound_b_objects. Qed.
Print Assumptions C01_predicate_objects.
(* ... the header signature is valid, the directory has exactly the declared number of entries and lies
   inside the image, and each entry is unused or lies inside the image with the size its record count implies *)
Theorem C01_predicate_directory : forall a, sound_b a = true ->
  ai_signature a = 0x504d444d%N /\ N.of_nat (length (ai_dir a)) = ai_count a /\ (ai_dir_rva a + 12 * ai_count a <= ai_len a)%N /\
  (forall d, In d (ai_dir a) -> dir_zero d = true \/ ((de_rva d + de_size d <= ai_len a)%N /\ de_size d = de_implied d)).
Proof. exact sound_b_directory. Qed.
Print Assumptions C01_predicate_directory.

(* (3) The stream plan of generate_dump, regenerated from the CURRENT source: it writes exactly the declared
   number of directory entries (18), all of distinct stream types. *)
Theorem C01_plan_entry_count : N.of_nat (length plan_types) = NUM_WRITERS /\ NUM_WRITERS = 18%N.
Proof. exact plan_entry_count. Qed.
Print Assumptions C01_plan_entry_count.
Theorem C01_plan_types_unique : nodup_b plan_types = true.
Proof. exact plan_types_unique. Qed.
Print Assumptions C01_plan_types_unique.

(* (4) The WHOLE image: all section writers (thread list, module list, application memory, memory list, exception,
   system information, memory-information list, the copied files, linker data, thread names, open descriptors,
   soft-error stream) as programs on the writer monad, run in the order of the stream plan regenerated from the
   source, with the directory patched after each stream.  For EVERY content the build succeeds; the ghost object map
   tiles the image and every stored location designates an object of its kind and exact length (Inv); every directory
   entry is unused or carries the planned stream type and spans exactly the stream's header/array objects; the header
   and directory objects sit at 0 and 32.  (The check compares this model's image byte for byte with real images.) *)
Theorem C01_whole_image_sound : forall c,
  exists r s', image c empty_wst = Ok (r, s') /\ Inv s' /\
    Forall2 (fun d ty => stream_ok ty (w_objs s') d) (fst r) plan_types /\
    In {| o_kind := KHeader; o_rva := 0; o_len := HEADER_SZ |} (w_objs s') /\
    In {| o_kind := KDirectory; o_rva := HEADER_SZ; o_len := DIRENT_SZ * NUM_DIRS |} (w_objs s') /\
    Forall snap_ok (snd r).
Proof. exact image_sound. Qed.
Print Assumptions C01_whole_image_sound.

(* (5) ... and in the final image (below 4 GiB, the reach of the format's 32-bit offsets) the first 32 bytes are the header
   record (signature, version, the declared stream count, directory position 32) and the next 12 * 18 bytes are exactly
   the encodings of those entries, in order: nothing written later disturbs header or directory. *)
Theorem C01_whole_image_directory : forall c dirs log s',
  image c empty_wst = Ok ((dirs, log), s') -> small (blen s') ->
  slice (w_buf s') 0 HEADER_SZ = enc_header (ic_time c) (N.of_nat HEADER_SZ) /\
  slice (w_buf s') HEADER_SZ (DIRENT_SZ * NUM_DIRS) = concat (map enc_dirent dirs) /\
  length dirs = NUM_DIRS.
Proof. exact image_directory. Qed.
Print Assumptions C01_whole_image_directory.

(* (6) The memory-writer operations of every function that builds a stream (thread list, stack filling, module list and its
   records, application memory, memory list, exception, system information, memory-information list, thread names, descriptors,
   linker data, generate_dump itself with its flushes, the file and soft-error copies, the string writer, the directory section),
   regenerated from the CURRENT source in textual order, are exactly the operations the whole-image model gives each function
   (SectionOps.v names the combinator that models each); and generate_dump flushes once for the header and once per step of the
   plan that writes. *)
Theorem C01_section_operations_as_modelled : section_ops = SectionOps.expected_section_ops.
Proof. exact SectionOps.section_ops_as_modelled. Qed.
Print Assumptions C01_section_operations_as_modelled.

(* (7) Every step of the plan that writes a directory entry names, in the CURRENT source, the stream type the model gives it
   (the MINIDUMP_STREAM_TYPE numbers of the format), in plan order. *)
Theorem C01_step_types_as_modelled :
  map (fun p => (fst p, SectionOps.stream_number (snd p))) step_stream_names
  = flat_map (fun p => match stream_type (fst p) with Some t => [(fst p, Some t)] | None => [] end) stream_plan.
Proof. exact SectionOps.step_types_as_modelled. Qed.
Print Assumptions C01_step_types_as_modelled.
