(* C20: the inclusion decision of fill_thread_stack when stack skipping is enabled. *)
From Coq Require Import List NArith ZArith Arith Lia Bool ZifyNat ZifyN ZifyBool.
From MDW Require Import Bytes StackRef.
Import ListNotations.
Local Open Scope nat_scope.

(* principal = None: skipping enabled but no principal mapping resolved -> every stack is dropped *)
Definition stack_included (principal : option (N * N)) (ip : N) (b : bytes) (sp_off : nat) : outcome bool :=
  match principal with
  | None => Ok false
  | Some (lo, hi) =>
      if in_range false lo hi ip then Ok true
      else has_pointer true false lo hi b sp_off
  end.

Theorem stack_included_iff lo hi ip b sp_off :
  8 <= length b ->
  stack_included (Some (lo, hi)) ip b sp_off = Ok true <->
  (lo <= ip < hi)%N \/
  exists o, roundup8 sp_off <= o /\ (o - roundup8 sp_off) mod 8 = 0 /\ o + 8 <= length b /\
            (lo <= word_at b o < hi)%N.
Proof.
  intro Hl. unfold stack_included.
  destruct (in_range false lo hi ip) eqn:E.
  - split; [intros _|reflexivity]. left. unfold in_range in E. apply andb_prop in E. destruct E as (E1 & E2).
    apply N.leb_le in E1. apply N.ltb_lt in E2. lia.
  - rewrite has_pointer_iff by exact Hl. split; [intro H; right; exact H|].
    intros [H|H]; [|exact H]. exfalso. unfold in_range in E. apply andb_false_iff in E.
    destruct E as [E|E]; [apply N.leb_gt in E|apply N.ltb_ge in E]; lia.
Qed.

Theorem stack_included_total principal ip b sp_off : stack_included principal ip b sp_off <> Panic.
Proof.
  unfold stack_included, has_pointer. destruct principal as [[lo hi]|]; [|discriminate].
  destruct (in_range false lo hi ip); [discriminate|]. destruct (length b <? 8); discriminate.
Qed.
