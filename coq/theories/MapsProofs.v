From Coq Require Import List NArith Arith Lia Bool.
From MDW Require Import Maps.
Import ListNotations.
Open Scope N_scope.

Ltac split_andb :=
  repeat match goal with
  | H : _ && _ = true |- _ => apply andb_prop in H; destruct H
  | H : (_ =? _) = true |- _ => apply N.eqb_eq in H
  end.

Definition head_end (acc : list minfo) (e : N) : Prop :=
  match acc with [] => True | p :: _ => m_end p = e end.
Definition head_le (acc : list minfo) (s : N) : Prop :=
  match acc with [] => True | p :: _ => m_end p <= s end.

Lemma concat_rev_cons {A} (r : list A) rs : concat (rev (r :: rs)) = concat (rev rs) ++ r.
Proof. cbn [rev]. rewrite concat_app. cbn. now rewrite app_nil_r. Qed.

Lemma RunOf_extend m run l (sys_end' : N) :
  RunOf m run -> l_start l = m_end m -> l_start l < l_end l ->
  forall m', m_start m' = m_start m -> m_size m' = l_end l - m_start m ->
    m_sys_start m' = m_sys_start m -> m_sys_end m' = sys_end' ->
    (sys_end' = m_sys_end m \/ sys_end' = l_end l) ->
    RunOf m' (run ++ [l]) /\ m_end m' = l_end l.
Proof.
  intros (Hne & Hch & Hss & Hlt & Hle) Hs Hl m' E1 E2 E3 E4 Hsys.
  assert (Hse : m_start m <= m_end m) by (eapply chain_le; eauto).
  assert (Hend : m_end m' = l_end l) by (unfold m_end in *; rewrite E1, E2; lia).
  split; [|exact Hend]. repeat split.
  - destruct run; discriminate.
  - rewrite E1, Hend. eapply chain_app; eauto. rewrite <- Hs. now apply chain_single.
  - congruence.
  - rewrite E1, E4. destruct Hsys; subst; lia.
  - rewrite E4, Hend. destruct Hsys; subst; lia.
Qed.

Lemma extend_prev prev run l sys' off' perms' nm' :
  RunOf prev run -> l_start l = m_end prev -> l_start l < l_end l ->
  (sys' = m_sys_end prev \/ sys' = l_end l) ->
  let m' := {| m_start := m_start prev; m_size := l_end l - m_start prev; m_sys_start := m_sys_start prev;
               m_sys_end := sys'; m_off := off'; m_perms := perms'; m_name := nm' |} in
  RunOf m' (run ++ [l]) /\ m_end m' = l_end l.
Proof.
  intros HRun Hs Hl Hsys m'.
  apply (RunOf_extend prev run l sys' HRun Hs Hl m'); try reflexivity. exact Hsys.
Qed.

Lemma step_inv gate acc runs l :
  Rel acc runs -> head_le acc (l_start l) -> l_start l < l_end l ->
  exists runs', Rel (step gate acc l) runs' /\
                concat (rev runs') = concat (rev runs) ++ [l] /\
                head_end (step gate acc l) (l_end l) /\ step gate acc l <> [].
Proof.
  intros HR Hle Hl.
  assert (Push : forall nm off,
     exists runs', Rel ({| m_start := l_start l; m_size := l_end l - l_start l; m_sys_start := l_start l;
                          m_sys_end := l_end l; m_off := off; m_perms := l_perms l; m_name := nm |} :: acc) runs' /\
                   concat (rev runs') = concat (rev runs) ++ [l] /\
                   head_end ({| m_start := l_start l; m_size := l_end l - l_start l; m_sys_start := l_start l;
                          m_sys_end := l_end l; m_off := off; m_perms := l_perms l; m_name := nm |} :: acc) (l_end l) /\
                   {| m_start := l_start l; m_size := l_end l - l_start l; m_sys_start := l_start l;
                          m_sys_end := l_end l; m_off := off; m_perms := l_perms l; m_name := nm |} :: acc <> []).
  { intros nm off. exists ([l] :: runs). repeat split.
    - constructor; [|exact HR|].
      + unfold RunOf, m_end; cbn. repeat split; try discriminate; try lia.
      + destruct acc; [exact I|]. cbn in Hle |- *. exact Hle.
    - apply concat_rev_cons.
    - cbn. unfold m_end; cbn. lia.
    - discriminate. }
  unfold step.
  set (renamed := match gate with Some g => negb (is_path (l_name l)) && (l_start l =? g) | None => false end).
  set (nm := if renamed then gate_name else l_name l).
  set (off := if renamed then 0 else l_off l).
  destruct acc as [|prev rest].
  - apply Push.
  - inversion HR as [|m run acc' runs0 HRun HRest Hord]; subst.
    (* rule 1: same name *)
    destruct ((l_start l =? m_end prev) && match nm with Some _ => true | None => false end
              && name_eqb nm (m_name prev)) eqn:E1.
    { split_andb.
      match goal with H : l_start l = m_end prev |- _ =>
        destruct (extend_prev prev run l (l_end l) (m_off prev) (N.lor (m_perms prev) (l_perms l)) (m_name prev)
                    HRun H Hl (or_intror eq_refl)) as (HR' & Hend') end.
      exists ((run ++ [l]) :: runs0). repeat split.
      - constructor; [exact HR'|exact HRest|]. destruct rest; [exact I|]. cbn in Hord |- *. exact Hord.
      - rewrite !concat_rev_cons. now rewrite app_assoc.
      - exact Hend'.
      - discriminate. }
    (* rule 2: reserved gap after executable mapping *)
    destruct ((l_start l =? m_end prev) && m_exec prev && is_path (m_name prev)
              && ((off =? 0) || (off =? m_end prev)) && (l_perms l =? P_PRIVATE)) eqn:E2.
    { split_andb.
      match goal with H : l_start l = m_end prev |- _ =>
        destruct (extend_prev prev run l (m_sys_end prev) (m_off prev) (m_perms prev) (m_name prev)
                    HRun H Hl (or_introl eq_refl)) as (HR' & Hend') end.
      exists ((run ++ [l]) :: runs0). repeat split.
      - constructor; [exact HR'|exact HRest|]. destruct rest; [exact I|]. cbn in Hord |- *. exact Hord.
      - rewrite !concat_rev_cons. now rewrite app_assoc.
      - exact Hend'.
      - discriminate. }
    (* rule 3: fold, or push *)
    destruct rest as [|pp rest'].
    { apply Push. }
    destruct (is_path (m_name pp) && (m_end pp =? m_start prev) && m_empty_page prev
              && (m_end prev =? l_start l) && name_eqb nm (m_name pp)) eqn:E3.
    2:{ apply Push. }
    split_andb.
    inversion HRest as [|m2 run2 acc2 runs2 HRun2 HRest2 Hord2]; subst.
    destruct HRun as (Hne1 & Hch1 & Hss1 & Hlt1 & Hle1).
    destruct HRun2 as (Hne2 & Hch2 & Hss2 & Hlt2 & Hle2).
    assert (Hse2 : m_start pp <= m_end pp) by (eapply chain_le; eauto).
    assert (Hse1 : m_start prev <= m_end prev) by (eapply chain_le; eauto).
    exists ((run2 ++ run ++ [l]) :: runs2). repeat split.
    + constructor; [|exact HRest2|].
      * unfold RunOf, m_end; cbn. repeat split.
        -- destruct run2; [congruence|discriminate].
        -- replace (m_start pp + (l_end l - m_start pp)) with (l_end l) by lia.
           eapply chain_app; [exact Hch2|].
           match goal with H : m_end pp = m_start prev |- _ => rewrite H end.
           eapply chain_app; [exact Hch1|].
           match goal with H : m_end prev = l_start l |- _ => rewrite H end.
           now apply chain_single.
        -- exact Hss2.
        -- lia.
        -- lia.
      * destruct rest'; [exact I|]. cbn in Hord2 |- *. exact Hord2.
    + rewrite !concat_rev_cons. now rewrite <- !app_assoc.
    + cbn. unfold m_end; cbn. lia.
    + discriminate.
Qed.

Lemma fold_inv gate ls : forall acc runs e,
  Rel acc runs -> head_end acc e -> sorted_from e ls ->
  exists runs', Rel (fold_left (step gate) ls acc) runs' /\
                concat (rev runs') = concat (rev runs) ++ ls.
Proof.
  induction ls as [|l t IH]; intros acc runs e HR He Hs; cbn [fold_left].
  - exists runs. split; [exact HR|now rewrite app_nil_r].
  - cbn in Hs. destruct Hs as (Hlo & Hlt & Ht).
    assert (Hle : head_le acc (l_start l)).
    { destruct acc; [exact I|]. cbn in He |- *. lia. }
    destruct (step_inv gate acc runs l HR Hle Hlt) as (runs1 & HR1 & Hc1 & He1 & _).
    destruct (IH _ _ _ HR1 He1 Ht) as (runs2 & HR2 & Hc2).
    exists runs2. split; [exact HR2|]. rewrite Hc2, Hc1, <- app_assoc. reflexivity.
Qed.

(* output order: each mapping ends before the next begins *)
Fixpoint ordered (ms : list minfo) : Prop :=
  match ms with
  | [] => True
  | m :: t => (match t with [] => True | n :: _ => m_end m <= m_start n end) /\ ordered t
  end.

Lemma Rel_forall2 acc runs : Rel acc runs -> Forall2 RunOf (rev acc) (rev runs).
Proof.
  induction 1 as [|m run acc runs HRun HRel IH Hord]; cbn [rev]; [constructor|].
  apply Forall2_app; [exact IH|]. constructor; [exact HRun|constructor].
Qed.

Lemma ordered_snoc ms m :
  ordered ms -> (match rev ms with [] => True | p :: _ => m_end p <= m_start m end) -> ordered (ms ++ [m]).
Proof.
  induction ms as [|a t IH]; intros Ho Hl; cbn [app ordered].
  - auto.
  - cbn [ordered] in Ho. destruct Ho as (Hh & Ht). split.
    + destruct t as [|b t']; cbn [app]; [|exact Hh]. cbn in Hl. exact Hl.
    + apply IH; [exact Ht|]. cbn [rev] in Hl. destruct (rev t) eqn:E; [exact I|]. cbn in Hl. exact Hl.
Qed.

Lemma Rel_ordered acc runs : Rel acc runs -> ordered (rev acc).
Proof.
  induction 1 as [|m run acc runs HRun HRel IH Hord]; cbn [rev]; [exact I|].
  apply ordered_snoc; [exact IH|]. rewrite rev_involutive. exact Hord.
Qed.

(* C13, structural part: the derived mappings are the hulls of a partition of the lines into
   consecutive contiguous runs, in ascending order without overlap. *)
Theorem aggregate_partition gate lo ls :
  sorted_from lo ls ->
  exists runs, concat runs = ls /\ Forall2 RunOf (aggregate gate ls) runs /\ ordered (aggregate gate ls).
Proof.
  intro Hs. unfold aggregate.
  destruct (fold_inv gate ls [] [] lo Rel_nil I Hs) as (runs' & HR & Hc).
  exists (rev runs'). repeat split.
  - exact Hc.
  - now apply Rel_forall2.
  - eapply Rel_ordered; eauto.
Qed.

Print Assumptions aggregate_partition.

(* non-vacuity: the libc excerpt of the unit test, reduced *)
Example ex_lines : list line :=
  [ {| l_start := 0x1000; l_end := 0x2000; l_perms := 17; l_off := 0; l_name := Some [47;97] |};
    {| l_start := 0x2000; l_end := 0x3000; l_perms := 21; l_off := 0x1000; l_name := Some [47;97] |};
    {| l_start := 0x3000; l_end := 0x4000; l_perms := 16; l_off := 0; l_name := None |};
    {| l_start := 0x5000; l_end := 0x6000; l_perms := 19; l_off := 0; l_name := None |} ].
Example ex_sorted : sorted_from 0 ex_lines. Proof. cbn; lia. Qed.
Eval vm_compute in map (fun m => (m_start m, m_size m, m_sys_end m)) (aggregate None ex_lines).
