From Coq Require Import List NArith ZArith Arith Lia Bool.
From MDW Require Import Bytes Maps StackInfo StackInfoProofs StackInfoStrict Shorten GenTypes Generated ThreadList.
Import ListNotations.
Local Open Scope N_scope.

(* ---- C04 ---- *)
Lemma listed_iff ts tid : In tid (listed ts) <-> exists t, In t ts /\ t_tid t = tid /\ t_attached t = true /\ t_rsp t <> 0.
Proof.
  unfold listed. rewrite in_map_iff. split.
  - intros (t & <- & Hin). apply filter_In in Hin. destruct Hin as (Hin & Hr). exists t. split; [exact Hin|]. split; [reflexivity|].
    unfold retained in Hr. apply andb_prop in Hr. destruct Hr as (Ha & Hn). split; [exact Ha|].
    apply negb_true_iff, N.eqb_neq in Hn. exact Hn.
  - intros (t & Hin & <- & Ha & Hn). exists t. split; [reflexivity|]. apply filter_In. split; [exact Hin|].
    unfold retained. rewrite Ha. apply N.eqb_neq in Hn. now rewrite Hn.
Qed.

Lemma NoDup_map_filter {A B} (f : A -> B) (p : A -> bool) l : NoDup (map f l) -> NoDup (map f (filter p l)).
Proof.
  induction l as [|x l IH]; cbn [map filter]; intro H; [constructor|].
  inversion H as [|? ? Hn Ht]; subst. destruct (p x); cbn [map]; [|now apply IH].
  constructor; [|now apply IH]. intro Hin. apply Hn. apply in_map_iff in Hin. destruct Hin as (y & Hy & Hin).
  apply filter_In in Hin. apply in_map_iff. exists y. tauto.
Qed.

Theorem listed_nodup ts : NoDup (map t_tid ts) -> NoDup (listed ts).
Proof. apply NoDup_map_filter. Qed.

(* order is the enumeration order *)
Theorem listed_app ts1 ts2 : listed (ts1 ++ ts2) = listed ts1 ++ listed ts2.
Proof. unfold listed. now rewrite filter_app, map_app. Qed.

(* ---- C06 (live part): size-limit rule ---- *)
Theorem not_shortened limit n pos idx crash :
  limit = None \/ idx < LIMIT_BASE_THREAD_COUNT \/ crash = true -> shortened limit n pos idx crash = false.
Proof.
  unfold shortened. intros [H|[H|H]].
  - subst limit. reflexivity.
  - replace (LIMIT_BASE_THREAD_COUNT <=? idx) with false by (symmetry; apply N.leb_gt; exact H). now rewrite andb_false_r.
  - subst crash. now rewrite andb_false_r.
Qed.

Theorem thread_region_unshortened maps sp : thread_region maps false sp =
  match get_stack_info Strict FUEL maps sp with Ok r => Some r | _ => None end.
Proof. unfold thread_region. destruct (get_stack_info Strict FUEL maps sp) as [[v l]| | |]; reflexivity. Qed.

(* a shortened region still contains the stack pointer, starts no higher, is at most 2 KiB and lies
   inside the unshortened one *)
Theorem thread_region_shortened maps sp v len :
  get_stack_info Strict FUEL maps sp = Ok (v, len) -> v <= sp -> sp < v + len ->
  exists s l, thread_region maps true sp = Some (s, l) /\
              s <= sp /\ sp < s + l /\ (LIMIT_MAX_EXTRA_THREAD_STACK_LEN < len -> l <= 2048) /\ v <= s /\ s + l <= v + len.
Proof.
  intros E H1 H2. unfold thread_region. rewrite E.
  assert (Hcap : 0 < LIMIT_MAX_EXTRA_THREAD_STACK_LEN) by (unfold LIMIT_MAX_EXTRA_THREAD_STACK_LEN; lia).
  pose proof (shorten_fixed_contains v len LIMIT_MAX_EXTRA_THREAD_STACK_LEN sp Hcap H1 H2) as H.
  destruct (shorten_fixed v len LIMIT_MAX_EXTRA_THREAD_STACK_LEN sp) as (s, l).
  destruct H as (A & B & C & D & E1 & F).
  exists s, l. split; [reflexivity|]. repeat split; assumption.
Qed.

(* ---- C07 ---- *)
Theorem memory_list_stacks ms ths app t b :
  In t ths -> tb_stack t = Some b -> In b (memory_list ms ths app).
Proof.
  intros Hin Hs. unfold memory_list. apply in_or_app. left. apply in_flat_map. exists t. split; [exact Hin|].
  unfold thread_blocks. rewrite Hs. now left.
Qed.

Theorem memory_list_app ms ths app : exists pre, memory_list ms ths app = pre ++ app.
Proof. unfold memory_list. eexists; reflexivity. Qed.

Theorem memory_list_window ms ths app t ip w :
  In t ths -> tb_crash_ip t = Some ip -> ip_window ms ip = Some w -> In w (memory_list ms ths app).
Proof.
  intros Hin Hc Hw. unfold memory_list. apply in_or_app. left. apply in_flat_map. exists t. split; [exact Hin|].
  unfold thread_blocks. rewrite Hc, Hw. apply in_or_app. right. now left.
Qed.

(* the window: up to 128 bytes on either side of the instruction pointer, clipped to the mapping *)
Theorem ip_window_spec ms ip s len :
  ip_window ms ip = Some (s, len) ->
  exists m, In m ms /\ m_start m <= ip < m_start m + m_size m /\
            s = N.max (m_start m) (ip - 128) /\ s + len = N.min (m_start m + m_size m) (ip + 128) /\ s <= ip < s + len.
Proof.
  unfold ip_window. destruct (find (fun m => covers m ip) ms) as [m|] eqn:E; [|discriminate].
  intro H. injection H as <- <-. apply find_some in E. destruct E as (Hin & Hc).
  unfold covers in Hc. apply andb_prop in Hc. destruct Hc as (H1 & H2). apply N.leb_le in H1. apply N.ltb_lt in H2.
  exists m. split; [exact Hin|]. split; [lia|].
  change (IP_MEMORY_SIZE / 2) with 128. repeat split; lia.
Qed.

Theorem ip_window_none ms ip : ip_window ms ip = None <-> forall m, In m ms -> covers m ip = false.
Proof.
  unfold ip_window. destruct (find (fun m => covers m ip) ms) as [m|] eqn:E.
  - split; [discriminate|]. intro H. apply find_some in E. destruct E as (Hin & Hc). rewrite (H m Hin) in Hc. discriminate.
  - split; [|reflexivity]. intros _ m Hin. exact (find_none _ _ E m Hin).
Qed.

(* ---- D18: the window arithmetic before the repair (instruction_ptr - 128, unchecked) ---- *)
Inductive wres := WOk (w : option (N * N)) | WPanic.
Definition ip_window_unchecked (ms : list minfo) (ip : N) : wres :=
  match find (fun m => covers m ip) ms with
  | Some m =>
      let half := IP_MEMORY_SIZE / 2 in
      if ip <? half then WPanic                                  (* usize subtraction traps (debug profile) *)
      else WOk (Some (N.max (m_start m) (ip - half), N.min (m_start m + m_size m) (ip + half) - N.max (m_start m) (ip - half)))
  | None => WOk None
  end.
(* wherever the unchecked arithmetic does not trap it is the window of the model ... *)
Theorem ip_window_unchecked_agrees ms ip w : ip_window_unchecked ms ip = WOk w -> ip_window ms ip = w.
Proof.
  unfold ip_window_unchecked, ip_window. destruct (find (fun m => covers m ip) ms) as [m|]; [|intro H; now injection H].
  destruct (ip <? IP_MEMORY_SIZE / 2); [discriminate|]. intro H. now injection H.
Qed.
(* ... and it traps on a target whose zero page is mapped, for a crash instruction pointer below 128 *)
Theorem ip_window_unchecked_refuted :
  let zero_page := {| m_start := 0; m_size := 4096; m_sys_start := 0; m_sys_end := 4096; m_off := 0; m_perms := 7; m_name := None |} in
  ip_window_unchecked [zero_page] 16 = WPanic /\ ip_window [zero_page] 16 = Some (0, 144).
Proof. vm_compute. split; reflexivity. Qed.
