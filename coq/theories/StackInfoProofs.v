From Coq Require Import List NArith ZArith Arith Lia Bool.
From MDW Require Import StackInfo.
Import ListNotations.
Open Scope N_scope.
Ltac Zify.zify_post_hook ::= Z.to_euclidean_division_equations.

(* the repaired walk terminates within the fuel and never traps, for every start and mapping list *)
Lemma walk_checked_total ms guard : forall fuel sp,
  sp < W64 -> guard < sp + PAGE * N.of_nat fuel ->
  exists r, walk Checked ms guard fuel sp = Ok r.
Proof.
  induction fuel as [|f IH]; intros sp Hsp Hg; cbn [walk].
  - destruct (may_be_stack _); [eauto|]. destruct (negb (sp <=? guard)) eqn:E; [eauto|].
    apply negb_false_iff, N.leb_le in E. cbn in Hg. lia.
  - destruct (may_be_stack _); [eauto|]. destruct (negb (sp <=? guard)) eqn:E; [eauto|].
    destruct (W64 <=? sp + PAGE) eqn:Eo; [eauto|].
    apply N.leb_gt in Eo. apply IH; [exact Eo|]. rewrite Nat2N.inj_succ in Hg. lia.
Qed.

Theorem get_stack_info_checked_total ms sp0 :
  sp0 < W64 -> get_stack_info Checked FUEL ms sp0 <> Panic /\ get_stack_info Checked FUEL ms sp0 <> Hang.
Proof.
  intro H. unfold get_stack_info.
  set (sp := sp0 - sp0 mod PAGE).
  assert (Hsp : sp < W64) by (unfold sp, PAGE, W64 in *; lia).
  destruct (walk_checked_total ms (N.min (sp + GUARD) (W64 - 1)) FUEL sp Hsp) as ((m, sp') & E).
  { unfold FUEL, GUARD, PAGE. cbn. lia. }
  rewrite E. destruct m; split; discriminate.
Qed.

(* the unchanged code: a stack pointer in the last page of the address space *)
Example top_of_space_debug : get_stack_info Debug FUEL [] (W64 - 8) = Panic.
Proof. vm_compute. reflexivity. Qed.
Example top_of_space_release : get_stack_info Release FUEL [] (W64 - 8) = Hang.
Proof. vm_compute. reflexivity. Qed.

(* region facts when the stack pointer's page is in a readable/writable mapping *)
Theorem get_stack_info_in_mapping p fuel ms sp0 m :
  let sp := sp0 - sp0 mod PAGE in
  find_mapping ms sp = Some m -> s_rw m = true -> contains_sys m sp = true ->
  s_start m <= sp -> sp0 < s_start m + s_size m -> s_sys_end m <= s_start m + s_size m ->
  exists v len, get_stack_info p fuel ms sp0 = Ok (v, len) /\
                v = sp /\ v <= sp0 /\ sp0 < v + len /\ v + len = s_start m + s_size m.
Proof.
  intros sp Hf Hrw Hc Hlo Hhi Hsys. unfold get_stack_info. fold sp.
  destruct fuel; cbn [walk]; rewrite Hf; cbn [may_be_stack]; rewrite Hrw; rewrite Hc;
    (exists sp, (s_size m - (sp - s_start m)); split; [reflexivity|]);
    (split; [reflexivity|]); unfold sp, PAGE in *; lia.
Qed.
Print Assumptions get_stack_info_checked_total.
Print Assumptions get_stack_info_in_mapping.
