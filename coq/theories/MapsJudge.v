(* C13: executable statement of the property, applied by the check to the IMPLEMENTATION's output.
   Definitions only.  [c13_holds_b gate ls ms] says that the mapping list [ms] is an acceptable
   aggregation of the memory-map lines [ls]:
   - ascending, non-overlapping;
   - the lines split into consecutive runs, one per mapping, the mapping's extent being the hull
     of its run (so every line is inside exactly one mapping);
   - two consecutive lines share a run only if contiguous and for one of the three stated reasons;
   - the mapping that starts at the gate address (first line not a path) is named linux-gate.so, and no other
     mapping is (unless the memory map itself names its first line so). *)
From Coq Require Import List NArith Arith Bool.
From MDW Require Import Maps.
Import ListNotations.
Local Open Scope N_scope.

Definition jrenamed (gate : option N) (l : line) : bool :=
  match gate with Some g => negb (is_path (l_name l)) && (l_start l =? g) | None => false end.
Definition jname (gate : option N) (l : line) : name := if jrenamed gate l then gate_name else l_name l.
Definition joff (gate : option N) (l : line) : N := if jrenamed gate l then 0 else l_off l.
Definition jexec (l : line) : bool := N.testbit (l_perms l) 2.
Definition jnoaccess (l : line) : bool := l_perms l =? P_PRIVATE.
Definition is_some {A} (o : option A) : bool := match o with Some _ => true | None => false end.

(* split off the lines that lie below [e] *)
Fixpoint take_run (e : N) (ls : list line) : list line * list line :=
  match ls with
  | l :: t => if l_end l <=? e then let '(r, rest) := take_run e t in (l :: r, rest) else ([], ls)
  | [] => ([], [])
  end.

(* contiguous from s to e *)
Fixpoint contiguous (s : N) (run : list line) (e : N) : bool :=
  match run with
  | [] => s =? e
  | l :: t => (l_start l =? s) && (l_start l <? l_end l) && contiguous (l_end l) t e
  end.

(* reasons: [nm] run name, [seen_exec] an earlier line of the run is executable *)
Fixpoint reasons (gate : option N) (nm : name) (seen_exec : bool) (rest : list line) : bool :=
  match rest with
  | [] => true
  | b :: t =>
      let same := name_eqb (jname gate b) nm && is_some nm in
      let gap_after_exec := jnoaccess b && is_path nm && seen_exec in
      let gap_between := jnoaccess b && negb (is_some (jname gate b)) && (joff gate b =? 0) && is_path nm
                         && match t with n :: _ => name_eqb (jname gate n) nm | [] => false end in
      (same || gap_after_exec || gap_between) && reasons gate nm (seen_exec || jexec b) t
  end.

Definition run_ok (gate : option N) (m : minfo) (run : list line) : bool :=
  match run with
  | [] => false
  | f :: rest =>
      contiguous (m_start m) run (m_end m)
      && reasons gate (jname gate f) (jexec f) rest
      && (match gate with
          | Some g => if (m_start m =? g) && negb (is_path (l_name f)) then name_eqb (m_name m) gate_name else true
          | None => true end)
      (* ... and it is THE mapping so named: no other mapping takes the gate name (unless its own line carries it) *)
      && (if name_eqb (m_name m) gate_name
          then (match gate with Some g => (m_start m =? g) && negb (is_path (l_name f)) | None => false end)
               || name_eqb (l_name f) gate_name
          else true)
  end.

Fixpoint runs_ok (gate : option N) (ms : list minfo) (ls : list line) : bool :=
  match ms with
  | [] => match ls with [] => true | _ => false end
  | m :: t =>
      let '(run, rest) := take_run (m_end m) ls in
      run_ok gate m run
      && (match t with n :: _ => m_end m <=? m_start n | [] => true end)
      && runs_ok gate t rest
  end.

Definition c13_holds_b (gate : option N) (ls : list line) (ms : list minfo) : bool := runs_ok gate ms ls.
