(* C13: completeness of the executable judge with respect to the model: for every well-formed memory map (any
   length) the judge accepts the aggregation the model computes.  Together with MapsJudgeProofs.judge_sound this ties
   the boolean that the check evaluates on the IMPLEMENTATION's output to the proved model: a correct output is never
   rejected, an accepted output has the partition property. *)
From Coq Require Import List NArith ZArith Arith Lia Bool ZifyNat ZifyN ZifyBool.
From MDW Require Import Maps MapsProofs MapsProofs2 MapsJudge.
Import ListNotations.
Open Scope N_scope.

(* ---------- the run of a mapping, with reasons AND extents ---------- *)
Record RunOf4 (gate : option N) (m : minfo) (f : line) (segs : list seg) : Prop := {
  r4_3 : RunOf3 gate m f segs;
  r4_chain : chain (m_start m) (run_lines f segs) (m_end m);
}.
Inductive Rel4 (gate : option N) : list minfo -> list (line * list seg) -> Prop :=
| Rel4_nil : Rel4 gate [] []
| Rel4_cons m f segs acc runs :
    RunOf4 gate m f segs -> Rel4 gate acc runs -> Forall (fun p => m_end p <= m_start m) acc ->
    Rel4 gate (m :: acc) ((f, segs) :: runs).

Lemma chain_snoc s run e l : chain s run e -> l_start l = e -> l_start l < l_end l -> chain s (run ++ [l]) (l_end l).
Proof. intros H1 H2 H3. eapply chain_app; [exact H1|]. rewrite <- H2. now apply chain_single. Qed.

Lemma m_end_mk s sz ss se o p n : m_end {| m_start := s; m_size := sz; m_sys_start := ss; m_sys_end := se; m_off := o; m_perms := p; m_name := n |} = s + sz.
Proof. reflexivity. Qed.

Lemma step_rel4 gate acc runs l lo :
  Rel4 gate acc runs -> Forall (fun p => m_end p <= lo) acc -> lo <= l_start l -> l_start l < l_end l ->
  exists runs', Rel4 gate (step gate acc l) runs' /\ all_lines runs' = all_lines runs ++ [l] /\
                Forall (fun p => m_end p <= l_end l) (step gate acc l).
Proof.
  intros HR Hlo Hle Hlt.
  assert (Older : Forall (fun p => m_end p <= l_end l) acc) by (eapply Forall_impl; [|exact Hlo]; cbn; intros; lia).
  assert (Push : exists runs', Rel4 gate ({| m_start := l_start l; m_size := l_end l - l_start l; m_sys_start := l_start l;
                          m_sys_end := l_end l; m_off := eff_off gate l; m_perms := l_perms l; m_name := eff_name gate l |} :: acc) runs' /\
                   all_lines runs' = all_lines runs ++ [l] /\
                   Forall (fun p => m_end p <= l_end l) ({| m_start := l_start l; m_size := l_end l - l_start l; m_sys_start := l_start l;
                          m_sys_end := l_end l; m_off := eff_off gate l; m_perms := l_perms l; m_name := eff_name gate l |} :: acc)).
  { exists ((l, []) :: runs). split; [|split].
    - constructor; [|exact HR|].
      + constructor.
        * constructor; cbn; auto. intro Hx. exists l. split; [now left|exact Hx].
        * cbn [run_lines flat_map m_start]. rewrite m_end_mk. replace (l_start l + (l_end l - l_start l)) with (l_end l) by lia.
          now apply chain_single.
      + cbn [m_start]. eapply Forall_impl; [|exact Hlo]. cbn; intros; lia.
    - now rewrite all_lines_cons.
    - constructor; [rewrite m_end_mk; lia|exact Older]. }
  unfold step. fold (renamed gate l).
  change (if renamed gate l then gate_name else l_name l) with (eff_name gate l).
  change (if renamed gate l then 0 else l_off l) with (eff_off gate l).
  set (nm := eff_name gate l). set (off := eff_off gate l).
  destruct acc as [|prev rest]; [exact Push|].
  inversion HR as [|m f segs acc' runs0 HRun HRest Hord]; subst.
  destruct HRun as [[Hname Hstart Hsegs Hexec Hsingle] Hchain].
  assert (Hse : m_start prev <= m_end prev) by (eapply chain_le; eauto).
  (* rule 1: same name *)
  destruct ((l_start l =? m_end prev) && match nm with Some _ => true | None => false end
            && name_eqb nm (m_name prev)) eqn:E1.
  { split_andb. match goal with H : name_eqb nm _ = true |- _ => apply name_eqb_eq in H; rename H into Hn end.
    exists ((f, segs ++ [S1 l]) :: runs0). split; [|split].
    - constructor; [|exact HRest|exact Hord]. constructor.
      + constructor; cbn [m_name m_start m_perms m_off]; auto.
        * apply segs_ok_snoc; [exact Hsegs|]. left. split; [exact Hn|]. rewrite <- Hn. destruct nm; discriminate.
        * unfold m_exec; cbn [m_perms]. rewrite lor_exec. intro Hx. apply orb_prop in Hx. rewrite run_lines_snoc.
          destruct Hx as [Hx|Hx].
          -- destruct (Hexec Hx) as (a & Ha & Hxa). exists a. split; [apply in_or_app; now left|exact Hxa].
          -- exists l. split; [apply in_or_app; right; now left|exact Hx].
        * intro Hc. destruct segs; discriminate.
      + cbn [m_start]. rewrite m_end_mk, run_lines_snoc. cbn [seg_lines].
        replace (m_start prev + (l_end l - m_start prev)) with (l_end l) by lia.
        eapply chain_snoc; [exact Hchain|assumption|exact Hlt].
    - rewrite !all_lines_cons, run_lines_snoc. now rewrite app_assoc.
    - constructor; [rewrite m_end_mk; lia|]. inversion Older; assumption. }
  (* rule 2: reserved gap after an executable path mapping *)
  destruct ((l_start l =? m_end prev) && m_exec prev && is_path (m_name prev)
            && ((off =? 0) || (off =? m_end prev)) && (l_perms l =? P_PRIVATE)) eqn:E2.
  { split_andb. exists ((f, segs ++ [S1 l]) :: runs0). split; [|split].
    - constructor; [|exact HRest|exact Hord]. constructor.
      + constructor; cbn [m_name m_start m_perms m_off]; auto.
        * apply segs_ok_snoc; [exact Hsegs|]. right. split; [unfold noaccess; now apply N.eqb_eq|]. split; [assumption|].
          destruct Hexec as (a & Ha & Hxa); [assumption|]. exists a. split; [exact Ha|exact Hxa].
        * unfold m_exec; cbn [m_perms]. intro Hx. destruct Hexec as (a & Ha & Hxa); [exact Hx|].
          exists a. split; [|exact Hxa]. rewrite run_lines_snoc. apply in_or_app. now left.
        * intro Hc. destruct segs; discriminate.
      + cbn [m_start]. rewrite m_end_mk, run_lines_snoc. cbn [seg_lines].
        replace (m_start prev + (l_end l - m_start prev)) with (l_end l) by lia.
        eapply chain_snoc; [exact Hchain|assumption|exact Hlt].
    - rewrite !all_lines_cons, run_lines_snoc. now rewrite app_assoc.
    - constructor; [rewrite m_end_mk; lia|]. inversion Older; assumption. }
  (* rule 3 (fold) or push *)
  destruct rest as [|pp rest']; [exact Push|].
  destruct (is_path (m_name pp) && (m_end pp =? m_start prev) && m_empty_page prev
            && (m_end prev =? l_start l) && name_eqb nm (m_name pp)) eqn:E3; [|exact Push].
  split_andb. match goal with H : name_eqb nm _ = true |- _ => apply name_eqb_eq in H; rename H into Hn end.
  inversion HRest as [|m2 g gsegs acc2 runs2 HRun2 HRest2 Hord2]; subst.
  destruct HRun2 as [[Hname2 Hstart2 Hsegs2 Hexec2 Hsingle2] Hchain2].
  match goal with H : m_empty_page prev = true |- _ => unfold m_empty_page in H; split_andb; rename H into Hoff0 end.
  destruct (m_name prev) eqn:Enp; [discriminate|].
  assert (Hs0 : segs = []).
  { destruct segs as [|s t]; [reflexivity|]. exfalso. cbn [segs_ok] in Hsegs. destruct Hsegs as (Hs & _).
    destruct s as [x|e x]; cbn [seg_ok] in Hs.
    - destruct Hs as [(_ & Hne)|(_ & Hp & _)]; [congruence|discriminate].
    - destruct Hs as (_ & _ & _ & Hp & _). discriminate. }
  subst segs. destruct (Hsingle eq_refl) as (Hperms & Hoffs).
  assert (Hse2 : m_start pp <= m_end pp) by (eapply chain_le; eauto).
  exists ((g, gsegs ++ [S2 f l]) :: runs2). split; [|split].
  - constructor; [|exact HRest2|exact Hord2]. constructor.
    + constructor; cbn [m_name m_start m_perms m_off]; auto.
      * apply segs_ok_snoc; [exact Hsegs2|]. cbn [seg_ok]. repeat split.
        -- unfold noaccess. rewrite <- Hperms. now apply N.eqb_eq.
        -- now rewrite <- Hname.
        -- now rewrite <- Hoffs.
        -- assumption.
        -- exact Hn.
      * unfold m_exec; cbn [m_perms]. rewrite lor_exec. intro Hx. apply orb_prop in Hx. rewrite run_lines_snoc. cbn [seg_lines].
        destruct Hx as [Hx|Hx].
        -- destruct (Hexec2 Hx) as (a & Ha & Hxa). exists a. split; [apply in_or_app; now left|exact Hxa].
        -- exists l. split; [apply in_or_app; right; right; now left|exact Hx].
      * intro Hc. destruct gsegs; discriminate.
    + cbn [m_start]. rewrite m_end_mk, run_lines_snoc. cbn [seg_lines].
      replace (m_start pp + (l_end l - m_start pp)) with (l_end l) by lia.
      cbn [run_lines flat_map] in Hchain. 
      replace [f; l] with ([f] ++ [l]) by reflexivity. rewrite app_assoc.
      eapply (chain_snoc _ _ (m_end prev)); [|lia|exact Hlt].
      eapply chain_app; [exact Hchain2|]. replace (m_end pp) with (m_start prev) by lia. exact Hchain.
  - rewrite !all_lines_cons, run_lines_snoc. cbn [seg_lines run_lines flat_map]. rewrite <- !app_assoc. reflexivity.
  - constructor; [rewrite m_end_mk; lia|]. inversion Older as [|? ? ? O2]; inversion O2; assumption.
Qed.

Lemma fold_rel4 gate ls : forall acc runs lo,
  Rel4 gate acc runs -> Forall (fun p => m_end p <= lo) acc -> sorted_from lo ls ->
  exists runs', Rel4 gate (fold_left (step gate) ls acc) runs' /\ all_lines runs' = all_lines runs ++ ls.
Proof.
  induction ls as [|l t IH]; intros acc runs lo HR Hlo Hs; cbn [fold_left].
  - exists runs. split; [exact HR|now rewrite app_nil_r].
  - cbn [sorted_from] in Hs. destruct Hs as (H1 & H2 & H3).
    destruct (step_rel4 gate acc runs l lo HR Hlo H1 H2) as (r1 & HR1 & E1 & Hlo1).
    destruct (IH _ _ _ HR1 Hlo1 H3) as (r2 & HR2 & E2).
    exists r2. split; [exact HR2|]. now rewrite E2, E1, <- app_assoc.
Qed.

(* ---------- from the Prop-level reasons to the judge's booleans ---------- *)
Lemma name_eqb_refl a : name_eqb a a = true.
Proof. unfold name_eqb. destruct a as [x|]; [|reflexivity]. destruct (list_eq_dec N.eq_dec x x); [reflexivity|contradiction]. Qed.
Lemma is_path_some nm : is_path nm = true -> is_some nm = true.
Proof. destruct nm; [reflexivity|discriminate]. Qed.

Lemma segs_reasons gate nm : forall segs pre,
  segs_ok gate nm pre segs -> reasons gate nm (existsb jexec pre) (flat_map seg_lines segs) = true.
Proof.
  induction segs as [|s t IH]; intros pre Hs; cbn [flat_map]; [reflexivity|].
  cbn [segs_ok] in Hs. destruct Hs as (Hs & Ht). specialize (IH _ Ht).
  destruct s as [l|e l]; cbn [seg_lines app] in *.
  - cbn [reasons]. rewrite existsb_app in IH. cbn [existsb] in IH. rewrite orb_false_r in IH. rewrite IH, andb_true_r.
    cbn [seg_ok] in Hs. destruct Hs as [(Hn & Hne)|(Hna & Hp & a & Ha & Hx)].
    + change (jname gate l) with (eff_name gate l). rewrite Hn, name_eqb_refl. destruct nm; [reflexivity|contradiction].
    + apply orb_true_iff. left. apply orb_true_iff. right.
      change (jnoaccess l) with (noaccess l). rewrite Hna, Hp. cbn [andb]. apply existsb_exists. exists a. split; [exact Ha|exact Hx].
  - cbn [reasons]. rewrite existsb_app in IH. cbn [existsb] in IH. rewrite orb_false_r, orb_assoc in IH. rewrite IH, andb_true_r.
    cbn [seg_ok] in Hs. destruct Hs as (Hna & Hen & Heo & Hp & Hl).
    change (jname gate l) with (eff_name gate l). change (jname gate e) with (eff_name gate e).
    change (jnoaccess e) with (noaccess e). change (joff gate e) with (eff_off gate e).
    rewrite Hl, name_eqb_refl, (is_path_some nm Hp), Hna, Hen, Heo, Hp. cbn. now rewrite !orb_true_r.
Qed.

Lemma chain_contiguous : forall run s e, chain s run e -> contiguous s run e = true.
Proof.
  induction run as [|l t IH]; intros s e H; cbn [chain contiguous] in *.
  - now apply N.eqb_eq.
  - destruct H as (H1 & H2 & H3). rewrite (IH _ _ H3), andb_true_r. apply andb_true_iff. split; [now apply N.eqb_eq|now apply N.ltb_lt].
Qed.

Lemma run4_ok gate m f segs : RunOf4 gate m f segs -> run_ok gate m (run_lines f segs) = true.
Proof.
  intros [[Hname Hstart Hsegs Hexec Hsingle] Hchain]. unfold run_ok, run_lines. fold (run_lines f segs).
  rewrite (chain_contiguous _ _ _ Hchain). cbn [andb].
  pose proof (segs_reasons gate (m_name m) segs [f] Hsegs) as R. cbn [existsb] in R. rewrite orb_false_r in R.
  change (jname gate f) with (eff_name gate f). rewrite <- Hname, R. cbn [andb].
  apply andb_true_iff. split.
  - destruct gate as [g|]; [|reflexivity].
    destruct ((m_start m =? g) && negb (is_path (l_name f))) eqn:E; [|reflexivity].
    apply andb_prop in E. destruct E as (E1 & E2). apply N.eqb_eq in E1.
    rewrite Hname. unfold eff_name, renamed. rewrite E2, <- Hstart, E1, N.eqb_refl. apply name_eqb_refl.
  - destruct (name_eqb (m_name m) gate_name) eqn:En; [|reflexivity].
    apply name_eqb_eq in En. rewrite Hname in En. unfold eff_name in En.
    destruct (renamed gate f) eqn:Er.
    + unfold renamed in Er. destruct gate as [g|]; [|discriminate]. rewrite Hstart.
      rewrite andb_comm in Er. rewrite Er. reflexivity.
    + rewrite En, name_eqb_refl. apply orb_true_r.
Qed.

(* ---------- splitting the lines back into the runs ---------- *)
Lemma take_run_all e : forall r, Forall (fun x => l_end x <= e) r -> take_run e r = (r, []).
Proof.
  induction 1 as [|x t Hx Ht IH]; cbn [take_run]; [reflexivity|].
  destruct (l_end x <=? e) eqn:E; [|apply N.leb_gt in E; lia]. now rewrite IH.
Qed.
Lemma take_run_app e r : forall ls, Forall (fun x => e < l_end x) r ->
  take_run e (ls ++ r) = (fst (take_run e ls), snd (take_run e ls) ++ r).
Proof.
  intros ls Hr. induction ls as [|x t IH]; cbn [app take_run].
  - destruct r as [|y r']; [reflexivity|]. cbn [take_run]. inversion Hr as [|? ? Hy _]; subst.
    destruct (l_end y <=? e) eqn:E; [apply N.leb_le in E; lia|reflexivity].
  - destruct (l_end x <=? e); [|reflexivity]. rewrite IH. destruct (take_run e t); reflexivity.
Qed.

Lemma chain_ends : forall run s e, chain s run e -> Forall (fun x => s < l_end x /\ l_end x <= e) run.
Proof.
  induction run as [|l t IH]; intros s e H; [constructor|]. cbn [chain] in H. destruct H as (H1 & H2 & H3).
  pose proof (chain_le _ _ _ H3). constructor; [lia|]. eapply Forall_impl; [|exact (IH _ _ H3)]. cbn. intros; lia.
Qed.

Lemma runs_ok_snoc gate m r : forall ms ls,
  runs_ok gate ms ls = true -> run_ok gate m r = true -> chain (m_start m) r (m_end m) ->
  Forall (fun p => m_end p <= m_start m) ms ->
  runs_ok gate (ms ++ [m]) (ls ++ r) = true.
Proof.
  intros ms. induction ms as [|a t IH]; intros ls H Hr Hc Ho; cbn [app runs_ok] in *.
  - destruct ls; [|discriminate]. cbn [app].
    rewrite take_run_all by (eapply Forall_impl; [|exact (chain_ends _ _ _ Hc)]; cbn; intros; lia).
    now rewrite Hr.
  - inversion Ho as [|? ? Ha Ht]; subst.
    rewrite take_run_app by (eapply Forall_impl; [|exact (chain_ends _ _ _ Hc)]; cbn; intros; lia).
    destruct (take_run (m_end a) ls) as (run, rest) eqn:E. cbn [fst snd].
    apply andb_prop in H. destruct H as (H12 & H3). apply andb_prop in H12. destruct H12 as (H1 & H2).
    rewrite H1, (IH rest H3 Hr Hc Ht), andb_true_r. cbn [andb].
    destruct t as [|n t']; cbn [app]; [apply N.leb_le; exact Ha|exact H2].
Qed.

Lemma rel4_runs_ok gate acc runs : Rel4 gate acc runs -> runs_ok gate (rev acc) (all_lines runs) = true.
Proof.
  induction 1 as [|m f segs acc runs HRun HR IH Hord]; [reflexivity|].
  cbn [rev]. rewrite all_lines_cons. apply runs_ok_snoc; [exact IH|now apply run4_ok|exact (r4_chain _ _ _ _ HRun)|].
  apply Forall_rev. exact Hord.
Qed.

Theorem judge_complete gate lo ls : sorted_from lo ls -> c13_holds_b gate ls (aggregate gate ls) = true.
Proof.
  intro Hs. destruct (fold_rel4 gate ls [] [] lo (Rel4_nil gate) (Forall_nil _) Hs) as (runs & HR & El).
  change (all_lines [] ++ ls) with ls in El.
  unfold c13_holds_b, aggregate. pose proof (rel4_runs_ok gate _ _ HR) as H. rewrite El in H. exact H.
Qed.
Print Assumptions judge_complete.
